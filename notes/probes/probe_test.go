// Scratch probes used while writing DESIGN.md. NOT part of the verification
// machinery (which is static). Copy into the root package of a scratch copy of
// /repo and run `go test -run TestProbe -v .` to reproduce the failing inputs
// quoted in DESIGN.md §5 and known_findings.json.
package coraza

import (
	"fmt"
	"strings"
	"sync"
	"testing"

	"github.com/corazawaf/coraza/v3/types"
)

func mk(t *testing.T, rules string) WAF {
	t.Helper()
	w, err := NewWAF(NewWAFConfig().WithDirectives(rules))
	if err != nil {
		t.Fatalf("NewWAF: %v", err)
	}
	return w
}

func ids(tx types.Transaction) string {
	var s []string
	for _, m := range tx.MatchedRules() {
		var ds []string
		for _, d := range m.MatchedDatas() {
			ds = append(ds, fmt.Sprintf("%s:%s=%q", d.Variable().Name(), d.Key(), d.Value()))
		}
		s = append(s, fmt.Sprintf("%d[%s]", m.Rule().ID(), strings.Join(ds, ",")))
	}
	return strings.Join(s, " ")
}

func safe(t *testing.T, name string, f func()) {
	defer func() {
		if r := recover(); r != nil {
			t.Logf("PANIC in %s: %v", name, r)
		}
	}()
	f()
}

func TestProbeSetvarDelete(t *testing.T) { // finding 1
	safe(t, "setvar-delete", func() {
		w := mk(t, "SecRuleEngine On\nSecAction \"id:1,phase:1,pass,nolog,setvar:tx.a=1\"\nSecAction \"id:2,phase:1,pass,nolog,setvar:!tx.a\"")
		tx := w.NewTransaction()
		tx.ProcessRequestHeaders()
		t.Logf("setvar delete ok: %s", ids(tx))
	})
}

func TestProbeMacroJSON(t *testing.T) { // finding 2
	safe(t, "macro-json", func() {
		w := mk(t, "SecRuleEngine On\nSecAction \"id:1,phase:1,pass,log,msg:'x %{JSON.a}'\"")
		tx := w.NewTransaction()
		tx.ProcessRequestHeaders()
		t.Logf("macro json ok: %s", ids(tx))
	})
}

func TestProbeRemoveByMsg(t *testing.T) { // finding 3
	safe(t, "removebymsg", func() {
		_, err := NewWAF(NewWAFConfig().WithDirectives("SecAction \"id:1,phase:1,pass,nolog\"\nSecRuleRemoveByMsg \"foo\""))
		t.Logf("removebymsg ok err=%v", err)
	})
}

func TestProbeMemoizeRoles(t *testing.T) { // finding 4
	safe(t, "memoize-roles", func() {
		_, err := NewWAF(NewWAFConfig().WithDirectives("SecRule ARGS \"@pm abc\" \"id:1,phase:1,pass\"\nSecRule ARGS \"@restpath abc\" \"id:2,phase:1,pass\""))
		t.Logf("memoize ok err=%v", err)
	})
}

func TestProbeCtlLimit(t *testing.T) { // finding 6
	safe(t, "ctl-limit", func() {
		w := mk(t, "SecRuleEngine On\nSecRequestBodyAccess On\nSecRequestBodyLimitAction ProcessPartial\nSecAction \"id:1,phase:1,pass,nolog,ctl:requestBodyLimit=-1\"")
		tx := w.NewTransaction()
		tx.ProcessRequestHeaders()
		_, _, err := tx.WriteRequestBody([]byte("hello"))
		t.Logf("ctl limit ok err=%v", err)
	})
}

func TestProbeSkipAfterLinger(t *testing.T) { // finding 7: expect 1 and 3
	w := mk(t, "SecRuleEngine On\nSecAction \"id:1,phase:1,pass,log,skipAfter:NOPE\"\nSecAction \"id:2,phase:1,pass,log\"\nSecAction \"id:3,phase:2,pass,log\"")
	tx := w.NewTransaction()
	tx.ProcessRequestHeaders()
	tx.ProcessRequestBody()
	t.Logf("skipAfter linger matched (expect 1,3): %s", ids(tx))
}

func TestProbeAllowLogging(t *testing.T) { // finding 8: expect 1 and 5
	w := mk(t, "SecRuleEngine On\nSecAction \"id:1,phase:1,allow,log\"\nSecAction \"id:2,phase:2,pass,log\"\nSecAction \"id:5,phase:5,pass,log\"")
	tx := w.NewTransaction()
	tx.ProcessRequestHeaders()
	tx.ProcessRequestBody()
	tx.ProcessResponseHeaders(200, "HTTP/1.1")
	tx.ProcessResponseBody()
	tx.ProcessLogging()
	t.Logf("allow+logging (expect 1,5): %s", ids(tx))
}

func TestProbeDetectionOnlyReject(t *testing.T) { // finding 9: expect no interruption
	w := mk(t, "SecRuleEngine On\nSecRequestBodyAccess On\nSecRequestBodyLimit 4\nSecRequestBodyLimitAction Reject\nSecAction \"id:1,phase:1,pass,nolog,ctl:ruleEngine=DetectionOnly\"")
	tx := w.NewTransaction()
	tx.ProcessRequestHeaders()
	it, _, err := tx.WriteRequestBody([]byte("hello"))
	t.Logf("detonly reject: it=%v err=%v interrupted=%v", it, err, tx.IsInterrupted())
}

func TestProbeRxExactCapture(t *testing.T) { // finding 10: both must give 1,2
	for _, pf := range []string{"Off", "On"} {
		w := mk(t, "SecRuleEngine On\nSecRxPreFilter "+pf+"\nSecRule ARGS:x \"@rx ^abc$\" \"id:1,phase:1,pass,capture,setvar:tx.r=%{tx.0}\"\nSecRule TX:r \"@streq abc\" \"id:2,phase:1,pass,log\"")
		tx := w.NewTransaction()
		tx.ProcessURI("/?x=abc", "GET", "HTTP/1.1")
		tx.ProcessRequestHeaders()
		t.Logf("prefilter %s: %s", pf, ids(tx))
	}
}

func TestProbeRegexKeyCase(t *testing.T) { // finding 11: expect 1..7
	w := mk(t, "SecRuleEngine On\nSecRule ARGS:/^Foo/ \"@unconditionalMatch\" \"id:1,phase:1,pass,log\"\nSecRule ARGS:Foo \"@unconditionalMatch\" \"id:2,phase:1,pass,log\"\nSecRule ARGS_NAMES:Foo \"@unconditionalMatch\" \"id:3,phase:1,pass,log\"\nSecRule ARGS_GET_NAMES:Foo \"@unconditionalMatch\" \"id:4,phase:1,pass,log\"\nSecRule ARGS_GET:/^Foo/ \"@unconditionalMatch\" \"id:5,phase:1,pass,log\"\nSecRule REQUEST_HEADERS:/^X-Foo/ \"@unconditionalMatch\" \"id:6,phase:1,pass,log\"\nSecRule REQUEST_HEADERS_NAMES:X-Foo \"@unconditionalMatch\" \"id:7,phase:1,pass,log\"")
	tx := w.NewTransaction()
	tx.ProcessURI("/?Foo=1", "GET", "HTTP/1.1")
	tx.AddRequestHeader("X-Foo", "bar")
	tx.ProcessRequestHeaders()
	t.Logf("regex key case: %s", ids(tx))
}

func sortStrings(s []string) {
	for i := range s {
		for j := i + 1; j < len(s); j++ {
			if s[j] < s[i] {
				s[i], s[j] = s[j], s[i]
			}
		}
	}
}

func TestProbeCacheCollision(t *testing.T) { // finding 12: expect a single outcome
	w := mk(t, "SecRuleEngine On\nSecRule ARGS_GET \"@rx ^[0-9A-Z]$\" \"id:1,phase:1,pass,log,t:uppercase\"\nSecRule ARGS_GET \"@rx ^[0-9A-Z]$\" \"id:2,phase:1,pass,log,t:uppercase\"")
	seen := map[string]int{}
	for i := 0; i < 300; i++ {
		tx := w.NewTransaction()
		tx.ProcessURI("/?a=x&a=y&b=z", "GET", "HTTP/1.1")
		tx.ProcessRequestHeaders()
		var out []string
		for _, m := range tx.MatchedRules() {
			var ds []string
			for _, d := range m.MatchedDatas() {
				ds = append(ds, d.Key()+"="+d.Value())
			}
			sortStrings(ds)
			out = append(out, fmt.Sprintf("%d%v", m.Rule().ID(), ds))
		}
		seen[strings.Join(out, " ")]++
		tx.Close()
	}
	t.Logf("cache collision outcomes: %v", seen)
}

func TestProbeMatchedVarOrder(t *testing.T) { // finding 13: expect a single outcome
	w := mk(t, "SecRuleEngine On\nSecRule ARGS_GET \"@rx .\" \"id:1,phase:1,pass,log,chain\"\n  SecRule MATCHED_VAR \"@streq x\"")
	seen := map[string]int{}
	for i := 0; i < 300; i++ {
		tx := w.NewTransaction()
		tx.ProcessURI("/?a=x&b=y&c=z", "GET", "HTTP/1.1")
		tx.ProcessRequestHeaders()
		seen[fmt.Sprint(len(tx.MatchedRules()))]++
		tx.Close()
	}
	t.Logf("matched var order outcomes (fired count -> times): %v", seen)
}

func TestProbeStaleMatchedVar(t *testing.T) { // finding 14: expect 1 and 2
	w := mk(t, "SecRuleEngine On\nSecRule ARGS:a \"@rx .\" \"id:1,phase:1,pass,log,chain\"\n  SecRule MATCHED_VAR \"@rx ^AAA$\" \"t:uppercase\"\nSecRule ARGS:b \"@rx .\" \"id:2,phase:1,pass,log,chain\"\n  SecRule MATCHED_VAR \"@rx ^BBB$\" \"t:uppercase\"")
	tx := w.NewTransaction()
	tx.ProcessURI("/?a=aaa&b=bbb", "GET", "HTTP/1.1")
	tx.ProcessRequestHeaders()
	t.Logf("stale matched var (expect 1,2): %s", ids(tx))
}

func TestProbeUpdateTarget(t *testing.T) { // finding 15: expect 1,2,3,4
	w := mk(t, "SecRuleEngine On\nSecRule ARGS:x \"@unconditionalMatch\" \"id:1,phase:1,pass,log\"\nSecRule ARGS:x \"@unconditionalMatch\" \"id:2,phase:1,pass,log\"\nSecRule ARGS:x \"@unconditionalMatch\" \"id:3,phase:1,pass,log\"\nSecRule ARGS:x \"@unconditionalMatch\" \"id:4,phase:1,pass,log\"\nSecRuleUpdateTargetById 1 2 \"ARGS:y\"\nSecRuleUpdateTargetById 3-4 \"ARGS:y\"")
	tx := w.NewTransaction()
	tx.ProcessURI("/?y=1", "GET", "HTTP/1.1")
	tx.ProcessRequestHeaders()
	t.Logf("update target (expect 1,2,3,4): %s", ids(tx))
}

func TestProbeExceptionsRace(t *testing.T) { // finding 16: run with -race
	w := mk(t, "SecRuleEngine On\nSecRule REQUEST_HEADERS:X-K \"@rx (.*)\" \"id:1,phase:1,pass,nolog,capture,ctl:ruleRemoveTargetById=2;ARGS:%{tx.1}\"\nSecRule ARGS|!ARGS:n1|!ARGS:n2|!ARGS:n3 \"@unconditionalMatch\" \"id:2,phase:1,pass,log\"")
	var wg sync.WaitGroup
	for g := 0; g < 8; g++ {
		wg.Add(1)
		go func(g int) {
			defer wg.Done()
			for i := 0; i < 500; i++ {
				k := fmt.Sprintf("k%d", g)
				tx := w.NewTransaction()
				tx.ProcessURI("/?"+k+"=1&other=2", "GET", "HTTP/1.1")
				tx.AddRequestHeader("X-K", k)
				tx.ProcessRequestHeaders()
				tx.Close()
			}
		}(g)
	}
	wg.Wait()
}

func TestProbeHtmlEntity(t *testing.T) { // finding 18: expect two match data (decoded value and "5")
	w := mk(t, "SecRuleEngine On\nSecRule ARGS:x \"@rx ^.{1,3}$\" \"id:1,phase:1,pass,log,t:none,t:htmlEntityDecode,t:length,multiMatch\"")
	tx := w.NewTransaction()
	tx.ProcessURI("/?x=%26nGg%3B", "GET", "HTTP/1.1")
	tx.ProcessRequestHeaders()
	t.Logf("htmlEntity multimatch: %s", ids(tx))
}

func TestProbeTx9(t *testing.T) { // finding 19: expect 1,2,3
	w := mk(t, "SecRuleEngine On\nSecRule ARGS:x \"@rx (a)(b)(c)(d)(e)(f)(g)(h)(i)\" \"id:1,phase:1,pass,capture,setvar:tx.r=%{tx.9},setvar:tx.q=%{tx.8}\"\nSecRule TX:r \"@streq i\" \"id:2,phase:1,pass,log\"\nSecRule TX:q \"@streq h\" \"id:3,phase:1,pass,log\"")
	tx := w.NewTransaction()
	tx.ProcessURI("/?x=abcdefghi", "GET", "HTTP/1.1")
	tx.ProcessRequestHeaders()
	t.Logf("tx.9 (expect 1,2,3): %s", ids(tx))
}

func TestProbeJSONCollision(t *testing.T) { // finding 20: expect rule 1
	w := mk(t, "SecRuleEngine On\nSecRequestBodyAccess On\nSecRule REQUEST_HEADERS:Content-Type \"@rx json\" \"id:10,phase:1,pass,nolog,ctl:requestBodyProcessor=JSON\"\nSecRule ARGS_POST \"@rx evil\" \"id:1,phase:2,pass,log\"")
	tx := w.NewTransaction()
	tx.ProcessURI("/", "POST", "HTTP/1.1")
	tx.AddRequestHeader("Content-Type", "application/json")
	tx.ProcessRequestHeaders()
	tx.WriteRequestBody([]byte(`{"a.b":"evil","a":{"b":"benign"}}`))
	tx.ProcessRequestBody()
	t.Logf("json collision (expect rule 1): %s", ids(tx))
}

func TestProbeDoubleClose(t *testing.T) { // note under C05
	w := mk(t, "SecRuleEngine On")
	tx := w.NewTransaction()
	tx.Close()
	tx.Close()
	a := w.NewTransaction()
	b := w.NewTransaction()
	t.Logf("double close: same object = %v", fmt.Sprintf("%p", a) == fmt.Sprintf("%p", b))
}
