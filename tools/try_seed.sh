#!/bin/bash
# usage: try_seed.sh <patch.diff> [config]  — analyse a scratch copy of /repo with the patch; print new reports
P=$1; CFG=${2:-default}
D=$(mktemp -d /tmp/mut.XXXXXX)
rsync -a --exclude .git /repo/ "$D/"
( cd "$D" && GIT_DIR=/nonexistent git apply --whitespace=nowarn "$P" ) || { echo "PATCH DOES NOT APPLY"; rm -rf $D; exit 2; }
${CZBIN:-/verif/bin/czcheck} analyse -repo $D -config $CFG > $D/.res.json 2>/dev/null
python3 - $D/.res.json <<'PY'
import json,sys
r=json.load(open(sys.argv[1]))
kf=json.load(open('/verif/known_findings.json'))
known={(k['property'],k['rule'],k['construct']) for k in kf['known']}
if r.get('error'): print('ANALYSIS ERROR',r['error'][:300])
bad=[o for o in r['obligations'] if o['status'] in('violated','undecided') and (o['property'],o['rule'],o['construct']) not in known]
for o in bad: print('  ',o['property'],o['rule'],o['status'],'|',o['construct'],'|',o.get('pos',''))
if not bad: print('   NOTHING')
PY
rm -rf $D
