#!/bin/bash
# usage: confirm_seed.sh <srcdir> <name>   (srcdir holds patch.diff, zz_seed_demo_test.go, demo_path.txt)
# Confirms in a scratch worktree of /repo: builds, suite passes with the change, demo fails with it, demo passes without it.
SRC=$1; NAME=$2
OUT=/tmp/confirm/results; mkdir -p $OUT
WT=/tmp/confirm/wt_$NAME
R=$OUT/$NAME.txt; : > $R
git -C /repo worktree remove --force $WT >/dev/null 2>&1; rm -rf $WT
git -C /repo worktree add -q --detach $WT HEAD || { echo "worktree failed" >> $R; exit 1; }
cleanup() { git -C /repo worktree remove --force $WT >/dev/null 2>&1; rm -rf $WT; }
trap cleanup EXIT
cd $WT
DIR=$(grep -m1 -E '^(\.|internal/[a-z/]+|http|testing|http/[a-z]+)$' $SRC/demo_path.txt)
[ -z "$DIR" ] && DIR=$(grep -m1 -oE 'relative to repo root\): *[a-z./]+' $SRC/demo_path.txt | sed 's/.*: *//')
[ -z "$DIR" ] && DIR=.
CMD=$(grep -m1 -oE 'go test .*' $SRC/demo_path.txt)
echo "dir=$DIR cmd=go $CMD" >> $R
export GOPROXY=off; unset GOFLAGS GOTOOLCHAIN GOWORK
if ! git apply --check $SRC/patch.diff 2>>$R; then echo "RESULT apply=FAIL" >> $R; exit 0; fi
git apply $SRC/patch.diff
go build ./... >>$R 2>&1 && echo "build=ok" >> $R || { echo "RESULT build=FAIL" >> $R; exit 0; }
/verif/tools/baseline.sh $WT > $OUT/$NAME.suite 2>&1; S=$?
echo "suite_exit=$S $(head -1 $OUT/$NAME.suite)" >> $R
cp $SRC/zz_seed_demo_test.go $DIR/zz_seed_demo_test.go
timeout 900 bash -c "$CMD" > $OUT/$NAME.demo_with 2>&1; W=$?
git apply -R $SRC/patch.diff
timeout 900 bash -c "$CMD" > $OUT/$NAME.demo_without 2>&1; WO=$?
echo "RESULT apply=ok suite_exit=$S demo_with_exit=$W demo_without_exit=$WO" >> $R
