#!/usr/bin/env python3
"""gen_benign_prompts.py <round> <suffix> — writes /tmp/benout<round>/prompt_<k>.md (k = 01..10) for a
false-alarm round: agent k gets the texts of properties C<k> and C<k+10>, a private worktree
/tmp/ben<round>/a<k>, and the one-line descriptions of the earlier variants (so that it goes elsewhere).
Deliverables: /tmp/benout<round>/C<xx>/{1,2}/{patch.diff,README.md}."""
import glob, json, os, sys
rnd, suffix = sys.argv[1], sys.argv[2]
out = f'/tmp/benout{rnd}'
os.makedirs(out, exist_ok=True)
props = {}
for l in open('/verif/properties.jsonl'):
    d = json.loads(l)
    props[d['id']] = d

def text(d):
    a = d['anchors']
    mech = a.get('mechanism') or []
    return (f"{d['id']}: {d['title']}\n\nStatement: {d['statement']}\n\nQuantifier: {d['quantifier']['text']}\n\n"
            f"Relevant files (anchors): {', '.join(a['files'])}\n"
            + (f"Mechanisms the property relies on: {'; '.join((m['name'] + ' @ ' + m['where']) if isinstance(m, dict) else str(m) for m in mech)}\n" if mech else ''))

def earlier(pid):
    r = []
    for f in sorted(glob.glob(f'/verif/benign/{pid}-*/README.md')):
        first = open(f).read().strip().splitlines()[0]
        r.append('  * ' + first[:260])
    return '\n'.join(r)

for k in range(1, 11):
    a, b = f'C{k:02d}', f'C{k+10:02d}'
    wt = f'/tmp/ben{rnd}/a{k:02d}'
    p = f"""You are helping evaluate verification tooling for the Go library corazawaf/coraza (OWASP Coraza WAF). The tooling consists of repository-specific static checkers, one per semantic property of the library. A checker that reports a maintainer's harmless clean-up is as useless as one that misses a defect. Your job: produce FOUR independent, realistic, strictly BEHAVIOUR-PRESERVING source changes — two inside the code that implements property {a} and two inside the code that implements property {b} (both quoted below) — of the kind real maintenance commits make. The properties must still hold after each change; observable behaviour (results, errors, side effects, concurrency discipline, allocation of temporary files, log content) must be identical for every input.

Your private scratch git worktree of the library is at: {wt}   (work ONLY there; never touch /repo or /verif; do not read anything under /verif).

The properties:
-----
{text(props[a])}
-----
{text(props[b])}
-----

What to change. Each change must touch NON-TEST library code in the functions that implement the property (the anchor files above, their direct callers and callees), be 5-60 changed lines, and be something a maintainer would plausibly commit. Pick FOUR DIFFERENT kinds from this list (not the same kind twice), and prefer kinds and functions the earlier variants listed below did not use:
  (a) rename an UNEXPORTED function, method, struct field, type or package-level variable everywhere it is used (only if no existing *_test.go file refers to it — check with grep; existing tests must not be edited);
  (b) move a function or a type to another (possibly new) file of the same package; reorder functions, struct fields or `case` arms;
  (c) change the signature of a private helper: add/remove a parameter that is a field of another parameter, return an extra value, turn a method into a function or back, pass a struct instead of three scalars;
  (d) extract part of a function into a new private helper (with parameters and results), or inline a private helper into its only caller; merge two private helpers; split a long function in two;
  (e) modernise: `min`/`max` builtins, `slices.Contains`/`slices.Index`/`slices.Clone`, `strings.Cut`/`strings.CutPrefix`, `for i := range n`, `for range`, `any`, `errors.Is`, `clear(m)` ONLY where exactly equivalent, `strings.Builder` for `+=`, `switch` on a value for an `if`-chain or back, `switch {{ case cond: }}`;
  (f) control-flow reshaping: guard clauses / early `return` or `continue` instead of nested `if`; invert `if/else`; De Morgan; swap operands of a comparison or of `&&`/`||` when both sides are pure; hoist a repeated pure expression into a local; replace a boolean flag variable by direct returns; `defer` for a final unlock/close where equivalent; a named result instead of a local;
  (g) data-shape refactors that preserve behaviour: replace a literal by a named constant; a lookup `switch` by a package-level array/map that is never written (or back); introduce a small unexported type for a pair of values passed around together; replace `x.f.g` chains by a local alias;
  (h) add debug logging, comments, doc strings, or an extra defensive check that can never fire (e.g. `if n < 0 {{ n = 0 }}` after `n := len(x)`), plus a small refactor nearby;
  (i) hoist or sink a lock-free pure computation across statements that do not depend on it; change iteration from index-based to range-based (or back) where the slice is not modified in the loop.
Do NOT: change any exported API or anything an existing test refers to; change semantics "slightly"; remove checks; change locking scope; change what is cached or when state is reset; touch only comments/whitespace (each change must alter code structure); rename things mechanically across the whole repository (keep the rename to one symbol).

Earlier variants already collected for these two properties (go to OTHER functions and OTHER kinds where you can):
{earlier(a)}
{earlier(b)}

For each change:
1. `cd {wt} && GOPROXY=off go build ./... && gofmt -l <touched dirs>` must be clean (no network: GOPROXY=off is required; do not set GOFLAGS).
2. Run the tests of every package you touched plus the root package and testing/: `GOPROXY=off go test -vet=off -count=1 <pkgs> . ./testing/... 2>&1 | tail -20`; for changes under internal/corazawaf, internal/seclang, internal/operators, internal/transformations, internal/collections or internal/bodyprocessors ALSO run the whole suite `GOPROXY=off go test -vet=off -count=1 ./... 2>&1 | tail -40`. Two tests fail even on unchanged code because the sandbox runs as root and may be ignored: internal/auditlog TestConcurrentWriterFailsOnInit and TestSerialWriterFailsOnInitForUnexistingFile; TestInspectFileExitCode is flaky. Everything else must pass, unedited.
3. Re-read your diff and convince yourself, case by case (empty input, nil, error paths, panics, order of side effects, evaluation order of operands with side effects, integer overflow, aliasing of slices, shadowed variables, `defer` timing), that behaviour is identical. If you are not sure, pick another change. A change that alters behaviour is worse than no change.
4. Save it: write `git diff` (library change only, relative to HEAD, applicable with `git apply` from the repo root) to {out}/<PROP>/<n>/patch.diff with <PROP> in {{{a}, {b}}} and <n> in {{1, 2}}, and a README.md next to it whose FIRST LINE is a one-sentence description "<PROP>-<n>: <kind letter> — <what was changed, which function>", followed by why it is behaviour-preserving and the commands you ran with outcomes.
5. Reset the worktree (`git checkout -- . && git clean -fdq` inside {wt}) before starting the next change: the four changes are independent patches against the same HEAD. NEVER use `git stash` (the stash is shared between concurrently used worktrees).

If, while reading, you notice a defect that ALREADY exists in the unchanged code and violates one of the properties, mention it at the end of your reply with the input that shows it.
When finished reply with a short summary: per change the kind, files and functions touched, and the test commands' outcomes. Be honest about anything you could not confirm.
"""
    open(f'{out}/prompt_{k:02d}.md', 'w').write(p)
    print(k, a, b, len(p))
