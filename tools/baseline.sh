#!/bin/bash
# usage: baseline.sh <dir>   — run the pinned suite in <dir> (a checkout of coraza) and compare with BASELINE.json stable_pass.
# exit 0 iff every stable_pass test passes.
D=${1:-/repo}
OUT=$(mktemp -d /tmp/baseline.XXXXXX)
export GOPROXY=off
unset GOFLAGS GOTOOLCHAIN GOWORK
for m in . ./testing/coreruleset; do
  (cd $D/$m && go test -json -vet=off -count=1 -timeout 25m ./... ) >> $OUT/log.json 2>$OUT/err.$RANDOM
done
python3 - "$OUT/log.json" <<'PY'
import json,sys
b=json.load(open('/root/.vp/BASELINE.json'))
passed=set();failed=set()
for line in open(sys.argv[1],errors='replace'):
    line=line.strip()
    if not line.startswith('{'): continue
    try: ev=json.loads(line)
    except Exception: continue
    a=ev.get('Action');t=ev.get('Test')
    if t is None or a not in('pass','fail'): continue
    (passed if a=='pass' else failed).add(ev.get('Package','')+'::'+t)
passed-=failed
missing=[t for t in b['stable_pass'] if t not in passed]
print("passed",len(passed),"failed",len(failed),"stable_missing",len(missing))
for t in missing[:40]: print("  MISSING",t, "(FAILED)" if t in failed else "")
sys.exit(1 if missing else 0)
PY
rc=$?
rm -rf $OUT
exit $rc
