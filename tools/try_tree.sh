#!/bin/bash
# usage: try_tree.sh <dir> [config]  — analyse a directory holding a coraza tree; print reports not in known_findings.json
D=$1; CFG=${2:-default}
${CZBIN:-/verif/bin/czcheck} analyse -repo $D -config $CFG > /tmp/.try_tree.$$.json 2>/dev/null
python3 - /tmp/.try_tree.$$.json <<'PY'
import json,sys
r=json.load(open(sys.argv[1]))
kf=json.load(open('/verif/known_findings.json'))
known={(k['property'],k['rule'],k['construct']) for k in kf['known']}
if r.get('error'): print('ANALYSIS ERROR',r['error'][:300])
bad=[o for o in r['obligations'] if o['status'] in('violated','undecided') and (o['property'],o['rule'],o['construct']) not in known]
for o in bad: print('  ',o['property'],o['rule'],o['status'],'|',o['construct'],'|',o.get('pos',''),'|',o.get('msg','')[:160])
if not bad: print('   NOTHING')
PY
rm -f /tmp/.try_tree.$$.json
