#!/usr/bin/env python3
"""import_seeds.py <seedout-dir> <confirm-prefix> <letters>   e.g. /tmp/seedout2 R2_ CD
Copies confirmed seeded defects into /verif/seeded/<Cxx>-<letter>/ with meta.json."""
import json, os, re, shutil, sys
src, prefix, letters = sys.argv[1], sys.argv[2], sys.argv[3]
props = {json.loads(l)['id']: json.loads(l)['title'] for l in open('/verif/properties.jsonl')}
for c in sorted(os.listdir(src)):
    if not re.fullmatch(r'C\d\d', c):
        continue
    for v, letter in zip('AB', letters):
        s = f'{src}/{c}/{v}'
        if not os.path.exists(s + '/patch.diff'):
            continue
        resf = f'/tmp/confirm/results/{prefix}{c}_{v}.txt'
        res = open(resf).read() if os.path.exists(resf) else ''
        m = re.search(r'RESULT apply=ok suite_exit=0 demo_with_exit=[1-9]\d* demo_without_exit=0', res)
        if not m:
            print('NOT CONFIRMED', c, v, [l for l in res.splitlines() if l.startswith('RESULT')])
            continue
        dst = f'/verif/seeded/{c}-{letter}'
        os.makedirs(dst, exist_ok=True)
        for f in ['patch.diff', 'zz_seed_demo_test.go', 'demo_path.txt', 'README.md']:
            shutil.copy(s + '/' + f, dst + '/' + f)
        readme = open(s + '/README.md').read()
        title = readme.splitlines()[0].lstrip('# ').strip()
        secs = re.split(r'\n## ', readme)
        need = [x for x in secs if re.match(r'(?i).*(needs|manifest|trigger|condition)', x.splitlines()[0])]
        mm = re.search(r'dir=(\S+) cmd=(.*)', res)
        meta = {"property": c, "property_title": props[c], "variant": letter, "title": title,
                "origin": "written by an independent sub-agent that saw only the property text and a scratch worktree of /repo (nothing from /verif)",
                "needs_to_manifest": ' '.join(need[0].split('\n', 1)[1].split()) if need else 'see README.md',
                "demonstration": {"file": "zz_seed_demo_test.go", "place_in": mm.group(1) if mm else "?", "command": mm.group(2) if mm else "?"},
                "confirmed": {"how": "tools/confirm_seed.sh in a scratch worktree of /repo: go build ./..., the pinned suite (tools/baseline.sh, compared with BASELINE.json stable_pass), the demonstration with the patch, the demonstration without it",
                              "result": [l for l in res.splitlines() if l.startswith('RESULT') or l.startswith('suite_exit')]}}
        if os.path.exists(dst + '/meta.json'):
            old = json.load(open(dst + '/meta.json'))
            for k in ('expect', 'config', 'caught_by', 'caught_how', 'note'):
                if k in old:
                    meta[k] = old[k]
        json.dump(meta, open(dst + '/meta.json', 'w'), indent=1)
        print('imported', dst)
