#!/usr/bin/env python3
"""gen_seed_prompts.py <round> — writes /tmp/seedout<round>/prompt_Cxx.md for a new seeding round.
The agent sees only the property text (from properties.jsonl), the titles and files of the earlier
seeded changes of that property (so that it aims elsewhere) and its own worktree path."""
import glob, json, os, re, sys
rnd = sys.argv[1]
out = f'/tmp/seedout{rnd}'
os.makedirs(out, exist_ok=True)
tpl = open('/tmp/seedout5/prompt_C01.md').read() if os.path.exists('/tmp/seedout5/prompt_C01.md') else open('/verif/tools/seed_prompt_template.md').read()
head, rest = tpl.split('The property:\n-----\n', 1)
_, tail = rest.split('\n-----\n\nRequirements', 1)
tail = '\n-----\n\nRequirements' + tail
pre, post = tail.split('IMPORTANT — diversity:', 1)
post_after = post.split('Think about which sentence fragments', 1)[1]
for l in open('/verif/properties.jsonl'):
    d = json.loads(l)
    pid = d['id']
    text = f"{pid}: {d['title']}\n\nStatement: {d['statement']}\n\nQuantifier: {d['quantifier']['text']}\n\nWhy tests cannot settle it: {d['why_tests_cant']}\n\nRelevant files (anchors): {', '.join(d['anchors']['files'])}\n"
    titles, files = [], set()
    for m in sorted(glob.glob(f'/verif/seeded/{pid}-*/meta.json')):
        titles.append(json.load(open(m))['title'])
        for pl in open(os.path.dirname(m) + '/patch.diff'):
            mm = re.match(r'\+\+\+ b/(\S+)', pl)
            if mm:
                files.add(mm.group(1))
    div = ('IMPORTANT — diversity: other engineers already produced the following changes for this property; yours must be DIFFERENT in kind and at DIFFERENT sites, '
           'and should exercise clauses and quantifier cases of the property that these do not touch:\n' + ''.join(f'  * {t}\n' for t in titles) +
           'Files already used by them (prefer OTHER files, and in any case other functions): ' + ', '.join(sorted(files)) + '\n' +
           'Think about which sentence fragments' + post_after)
    p = (head + 'The property:\n-----\n' + text + pre + div).replace('/tmp/seed5/C01', f'/tmp/seed{rnd}/{pid}').replace('/tmp/seedout5/C01', f'/tmp/seedout{rnd}/{pid}').replace('/tmp/seedout5/x_C01', f'/tmp/seedout{rnd}/x_{pid}')
    open(f'{out}/prompt_{pid}.md', 'w').write(p)
    print(pid, len(titles), 'earlier changes,', len(files), 'files')
