#!/bin/bash
# usage: mutant.sh [-R] <patch.diff> [property] [config]
# Applies the patch to a scratch copy of /repo (never to /repo), runs the analysis there, and
# prints every obligation that is not discharged. The scratch copy is removed afterwards.
REV=""
if [ "$1" = "-R" ]; then REV="-R"; shift; fi
PATCH=$(readlink -f "$1"); PROP=${2:-}; CFG=${3:-default}
D=$(mktemp -d /tmp/mut.XXXXXX)
trap 'rm -rf "$D"' EXIT
rsync -a --exclude .git /repo/ "$D/"
( cd "$D" && git init -q . >/dev/null 2>&1; git -C "$D" apply $REV --whitespace=nowarn "$PATCH" ) || { echo "PATCH DOES NOT APPLY"; exit 4; }
rm -rf "$D/.git"
ARGS="analyse -repo $D -config $CFG"
[ -n "$PROP" ] && ARGS="$ARGS -property $PROP"
/verif/bin/czcheck $ARGS | python3 -c "
import json,sys
r=json.load(sys.stdin)
if r.get('error'): print('ERROR',r['error']); sys.exit(3)
bad=[o for o in r['obligations'] if o['status'] in('violated','undecided')]
for o in bad: print(o['status'][:4].upper(), o['property'], o['rule'], o['construct'], '@', o.get('pos',''), '|', o.get('msg','')[:300])
print('total obligations',len(r['obligations']),'non-discharged',len(bad))
"
