#!/usr/bin/env python3
"""Regenerates /verif/MANIFEST.json from the properties the checker registers (czcheck list)
and the per-property texts below. Run after adding a property to the checker."""
import json, subprocess, os
V = '/verif'
ids = [l.split()[0] for l in subprocess.check_output([V + '/bin/czcheck', 'list'], text=True).splitlines() if l.strip()]
props = [json.loads(l) for l in open(V + '/properties.jsonl')]
notes = json.load(open(V + '/tools/manifest_notes.json'))
desc = {d['id']: d for d in json.loads(subprocess.check_output([V + '/bin/czcheck', 'list', '-json'], text=True))}
checks = []
na = []
for p in props:
    pid = p['id']
    if pid not in ids:
        na.append({"property_id": pid, "reason": notes.get(pid, {}).get('na', 'static check not built yet (in progress); no claim is made')})
        continue
    n = notes.get(pid, {})
    checks.append({
        "property_id": pid,
        "quick_cmd": f"bin/czcheck check -property {pid} -tier quick",
        "thorough_cmd": f"bin/czcheck check -property {pid} -tier thorough",
        "evidence_file": f"/verif/evidence/{pid}.json",
        "replay_cmd_template": "bin/czcheck replay {path}",
        "engine": "czcheck",
        "level_claimed": {
            "category": "other",
            "text": n.get('text', 'Static analysis of the type-checked source (go/types + go/ssa + VTA call graph), for every path / call site / implementer / build configuration; a necessary-condition check, not a proof of the behaviour. ' + desc[pid]['explanation']),
            "design_ref": f"DESIGN.md §3 {pid}, §7-§9; RULES.md {pid}",
        },
        "level_note": n.get('note', 'NOT decided (not claimed): ' + '; '.join(desc[pid]['not_decided']) + '. Trusted base: go/packages loading with the real build flags, go/ssa, the VTA call graph (interface invokes made from library code are not followed, DESIGN.md §7.2), the reasoned allowlists and minimum instance counts in checker/props.' + (' Assumptions: ' + '; '.join(desc[pid]['assumptions']) + '.' if desc[pid].get('assumptions') else '')),
        "technique": n.get('technique', 'static analysis: dominator/guard facts, path queries and who-may-write sets over go/ssa'),
    })
m = {
    "version": 1,
    "setup_cmd": "cd /verif/checker && PATH=/opt/veriftools/go1.26.8/bin:$PATH GOTOOLCHAIN=local GOFLAGS=-mod=mod GOPROXY=off go build -o /verif/bin/czcheck ./cmd/czcheck",
    "hooks": {
        "guard": "verif",
        "enable": "none needed: the checks read the source (go/packages + go/ssa); no instrumentation is compiled into /repo",
        "baseline_off_cmd": "for m in . ./testing/coreruleset; do (cd /repo/$m && GOPROXY=off go test -json -vet=off -count=1 -timeout 25m ./...); done",
        "source_commits": [],
        "add_only": True,
    },
    "engines": [{"name": "czcheck", "path": "/verif/checker", "serves_properties": ids,
                 "kind_free_text": "repo-specific static analyser over go/packages + go/ssa + VTA call graph (x/tools v0.50.0, go1.26.8)"}],
    "checks": checks,
    "not_applicable": na,
    "notes": "All checks are static (nothing of /repo is executed). Known findings: /verif/known_findings.json. Quick = default build configuration; thorough = 11 build configurations plus, as evidence about the checker, the same analysis on scratch copies carrying the known-bad changes of the property (fix: commits reversed, seeded defects under /verif/seeded).",
}
json.dump(m, open(V + '/MANIFEST.json', 'w'), indent=1)
print("checks", len(checks), "not_applicable", len(na))
