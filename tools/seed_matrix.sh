#!/bin/bash
# usage: seed_matrix.sh  — for every /verif/seeded/<id>/patch.diff run ALL property checks on a scratch copy
# and record which (property, rule) obligations flag it, into /verif/seeded/<id>/caught.json
for d in /verif/seeded/*/; do
  id=$(basename $d)
  [ -f $d/patch.diff ] || continue
  D=$(mktemp -d /tmp/mut.XXXXXX)
  rsync -a --exclude .git /repo/ "$D/"
  ( cd "$D" && git init -q . >/dev/null 2>&1; git -C "$D" apply --whitespace=nowarn $d/patch.diff ) || { echo "$id PATCH DOES NOT APPLY"; rm -rf $D; continue; }
  rm -rf "$D/.git"
  /verif/bin/czcheck analyse -repo $D -config default > /tmp/seedres.json
  python3 - $id $d <<'PY'
import json,sys
id,d=sys.argv[1],sys.argv[2]
r=json.load(open('/tmp/seedres.json'))
kf=json.load(open('/verif/known_findings.json'))
known={(k['property'],k['rule'],k['construct']) for k in kf['known']}
bad=[o for o in r['obligations'] if o['status'] in('violated','undecided') and (o['property'],o['rule'],o['construct']) not in known]
out=[{"property":o['property'],"rule":o['rule'],"construct":o['construct'],"status":o['status'],"pos":o.get('pos','')} for o in bad]
json.dump({"seed":id,"error":r.get('error',''),"flagged_by":out},open(d+'/caught.json','w'),indent=1)
props=sorted({o['property']+'.'+o['rule'] for o in bad})
print(id, 'caught by', ' '.join(props) if props else 'NOTHING')
PY
  rm -rf $D
done
