package props

import (
	"fmt"
	"go/ast"
	"go/token"
	"go/types"
	"strconv"
	"strings"

	"czcheck/an"

	"golang.org/x/tools/go/ssa"
)

func init() {
	register(&Property{
		ID:    "C16",
		Title: "Directive text means the same however it is written; nothing is silently altered",
		Explanation: "Decides the normalisation tables, error discipline and scanner guards of the configuration parser, not the round-trip law over the grammar: R1 case folding: directive names are lower-cased before the lookup and every key of the directive table is lower-case; the action and transformation registries apply the same fold when registering and when looking up; action keys are trimmed and folded, action values trimmed and then unquoted, in that order; " +
			"R2 nothing silently altered: in the compile-time call graph (seclang, rule construction, action Init, operator factories) no error result is dropped outside a reasoned allowlist, an unknown ctl collection or variable name is an error, an unclosed quote in an action list is an error, the remainder handed back by a cutting scanner is never discarded, a number/enum parsed from directive or action text is applied or refused on every successful path (never only range-tested and dropped), and a ctl regex key is compiled as written (no case folding); " +
			"R3 look-ahead reads of the scanners are length-guarded (A9 shapes); R4 scanner and parser state: the per-target flags of the target scanner (count, negation) are cleared after each target; the parser's position (file, directory, root, line) is copied into the shared directive options by evaluateLine before every directive call (a nested Include overwrites them); inside a regex key a backslash toggles the escape state (so an escaped backslash does not escape the closing slash), a continuation line is joined without being evaluated, comment and blank lines are skipped before anything else, and an open backtick block is an error. R2 also: a strings.Split result that is only indexed with constants has its length validated (otherwise text after the next separator is dropped). R4 also: the previous-byte-is-a-backslash test of the action scanner is made under the loop test only, and no Trim/TrimLeft/TrimRight of the configuration parser has a cut set of two or more marker characters (a cut set is not a prefix).",
		NotDecided: []string{
			"the round-trip law (render then parse) over the whole grammar and the equivalence of renderings",
			"line assembly and target/action scanners beyond guards, error discipline and the listed state facts",
			"semantics of operator arguments (arbitrary bytes are passed through verbatim)",
		},
		Run: runC16,
	})
}

// allowlisted discarded errors in the compile call graph: "callee@function" -> reason.
var c16DropAllow = map[string]string{
	"seclang.parseActions@internal/seclang.ParseRule":         "re-parse of an action string that ParseActions has already accepted on this path; only used to look for disruptive actions",
	"operators.memoizeDo@internal/operators.newPM":            "the cached closure (matcher build) cannot fail",
	"operators.memoizeDo@internal/operators.newPMFromFile":    "the cached closure (matcher build) cannot fail",
	"operators.memoizeDo@internal/operators.newPMFromDataset": "the cached closure (matcher build) cannot fail",
	"(*strings.Builder).WriteString@*":                        "strings.Builder never fails",
	"(*strings.Builder).WriteByte@*":                          "strings.Builder never fails",
	"(*strings.Builder).WriteRune@*":                          "strings.Builder never fails",
	"fmt.Fprintf@*":                                           "formatting into an in-memory builder",
	"strconv.Atoi@internal/operators.(*eq).Evaluate":          "documented lenient numeric comparison",
}

func runC16(c *an.Ctx) {
	r7EscapeUnconditional(c, "R4")
	// ---- R1 case folding
	if el := c.Fn("R1", "internal/seclang.(*Parser).evaluateLine"); el != nil {
		ok := false
		an.Instrs(el, func(in ssa.Instruction) {
			if lk, isL := in.(*ssa.Lookup); isL && strings.HasSuffix(an.Expr(lk.X), "directivesMap") {
				if strings.HasPrefix(an.Expr(lk.Index), "strings.ToLower(") {
					ok = true
				}
			}
		})
		c.Check(ok, "R1", "directive name is lower-cased before the table lookup", el.Pos(), "directivesMap[strings.ToLower(...)]", "the directive table is indexed without lower-casing the name: SECRULE / secrule would be unknown directives")
	}
	// keys of directivesMap
	if pk := c.P.Pkg("internal/seclang"); pk != nil {
		nKeys, bad := 0, ""
		for _, f := range pk.Syntax {
			ast.Inspect(f, func(n ast.Node) bool {
				vs, ok := n.(*ast.ValueSpec)
				if !ok || len(vs.Names) != 1 || vs.Names[0].Name != "directivesMap" || len(vs.Values) != 1 {
					return true
				}
				cl, ok := vs.Values[0].(*ast.CompositeLit)
				if !ok {
					return true
				}
				for _, e := range cl.Elts {
					kv, ok := e.(*ast.KeyValueExpr)
					if !ok {
						continue
					}
					if bl, ok := kv.Key.(*ast.BasicLit); ok && bl.Kind == token.STRING {
						nKeys++
						k := strings.Trim(bl.Value, "\"")
						if k != strings.ToLower(k) {
							bad = k
						}
					}
				}
				return false
			})
		}
		c.Check(bad == "" && nKeys >= 50, "R1", "every key of the directive table is lower-case", 0, fmt.Sprintf("%d keys", nKeys), "directive table key "+bad+" is not lower-case (or the table was not found): the folded lookup can never reach it")
	}
	// registries fold alike
	for _, reg := range [][3]string{
		{"internal/actions.Register", "internal/actions.Get", "actionmap"},
		{"internal/transformations.Register", "internal/transformations.GetTransformation", "transformations"},
	} {
		put, get := c.Fn("R1", reg[0]), c.Fn("R1", reg[1])
		if put == nil || get == nil {
			continue
		}
		idxOf := func(fn *ssa.Function) string {
			out := ""
			an.Instrs(fn, func(in ssa.Instruction) {
				switch x := in.(type) {
				case *ssa.MapUpdate:
					if strings.HasSuffix(an.Expr(x.Map), "."+reg[2]) {
						out = an.Expr(x.Key)
					}
				case *ssa.Lookup:
					if strings.HasSuffix(an.Expr(x.X), "."+reg[2]) {
						out = an.Expr(x.Index)
					}
				}
			})
			return out
		}
		p, g := idxOf(put), idxOf(get)
		c.Check(p != "" && p == g, "R1", shortFn(reg[0])+" and "+shortFn(reg[1])+" fold names alike", put.Pos(), "both index with "+p, "the registry is filled with key "+p+" but looked up with "+g+": names that differ in case from the registered spelling are not found")
	}
	// appendRuleAction normalisation
	if ara := c.Fn("R1", "internal/seclang.appendRuleAction"); ara != nil {
		var keyE, valE string
		an.Instrs(ara, func(in ssa.Instruction) {
			st, ok := in.(*ssa.Store)
			if !ok {
				return
			}
			fa, ok := st.Addr.(*ssa.FieldAddr)
			if !ok || !strings.HasSuffix(fa.X.Type().String(), "seclang.ruleAction") {
				return
			}
			switch an.FieldVar(fa).Name() {
			case "Key":
				keyE = an.Expr(st.Val)
			case "Value":
				valE = an.Expr(st.Val)
			}
		})
		c.Check(keyE == "strings.ToLower(strings.TrimSpace(key))", "R1", "action names are trimmed and lower-cased", ara.Pos(), keyE, "the stored action key is "+keyE+" (expected ToLower(TrimSpace(key))): indentation or letter case of an action name changes the compiled rule")
		c.Check(valE == "strings.MaybeRemoveQuotes(strings.TrimSpace(val))", "R1", "action values are trimmed, then unquoted", ara.Pos(), valE, "the stored action value is "+valE+" (expected MaybeRemoveQuotes(TrimSpace(val))): a blank between ':' and a quoted value keeps the quote characters in the compiled value, and blanks inside the quotes are lost")
		// the lookup uses the folded key
		an.Instrs(ara, func(in ssa.Instruction) {
			if cc := an.CallOf(in); cc != nil && cc.StaticCallee() != nil && an.RelName(cc.StaticCallee()) == "internal/actions.Get" {
				c.Check(an.Expr(cc.Args[0]) == "strings.ToLower(strings.TrimSpace(key))", "R1", "action lookup uses the normalised name", in.Pos(), an.Expr(cc.Args[0]), "the action is looked up as "+an.Expr(cc.Args[0]))
			}
		})
	}

	// the options handed to a directive start at their first character: the blanks separating them from the
	// directive name are cut (one or several), otherwise `SecMarker  END` defines the marker " END" and a
	// skipAfter:END silently runs to the end of the phase
	if el := c.Fn("R1", "internal/seclang.(*Parser).evaluateLine"); el != nil {
		nOpts := 0
		an.Instrs(el, func(in ssa.Instruction) {
			st, ok := in.(*ssa.Store)
			if !ok {
				return
			}
			fa, ok := st.Addr.(*ssa.FieldAddr)
			if !ok || an.FieldVar(fa) == nil || an.FieldVar(fa).Name() != "Opts" {
				return
			}
			nOpts++
			trimmed := false
			for d := range an.Deps(st.Val) {
				if call, ok := d.(*ssa.Call); ok && call.Call.StaticCallee() != nil && call.Call.StaticCallee().Pkg != nil && call.Call.StaticCallee().Pkg.Pkg.Path() == "strings" {
					switch call.Call.StaticCallee().Name() {
					case "TrimLeft", "TrimSpace", "TrimLeftFunc", "Fields", "TrimFunc":
						trimmed = true
					case "Trim":
						if len(call.Call.Args) == 2 && strings.Contains(an.Expr(call.Call.Args[1]), " ") {
							trimmed = true
						}
					}
				}
			}
			c.Check(trimmed, "R1", "directive options are cut free of the blanks after the directive name", st.Pos(), "leading blanks trimmed",
				"the text after the first blank is handed to the directive as it is: a second blank between the name and its argument becomes part of the argument (SecMarker label, file names, values)")
		})
		c.MinCount("R1", "stores of the directive options in evaluateLine", nOpts, 1)
	}

	// names looked up in a case-folding registry (transformations) are case-insensitive wherever they are
	// recognised: an action that treats one such name specially (t:none clears the list) must not compare its
	// argument with the keyword case-sensitively, or t:None silently means "the identity transformation"
	for _, fn := range c.P.ModFuncs {
		if relPkg(fn) != "internal/actions" || fn.Name() != "Init" || len(fn.Params) < 3 {
			continue
		}
		// only actions whose argument is handed to a folding registry lookup
		folds := false
		an.Instrs(fn, func(in ssa.Instruction) {
			if cc := an.CallOf(in); cc != nil && cc.StaticCallee() != nil && cc.StaticCallee().Name() == "GetTransformation" {
				folds = true
			}
		})
		if !folds {
			continue
		}
		data := ssa.Value(fn.Params[2])
		n := 0
		an.Instrs(fn, func(in ssa.Instruction) {
			b, ok := in.(*ssa.BinOp)
			if !ok || (b.Op != token.EQL && b.Op != token.NEQ) {
				return
			}
			var cst ssa.Value
			if b.X == data {
				cst = b.Y
			} else if b.Y == data {
				cst = b.X
			}
			if _, isC := cst.(*ssa.Const); !isC || an.Expr(cst) == `""` {
				return
			}
			n++
			c.Bad("R1", fmt.Sprintf("%s: keyword test #%d on a registry name is case-insensitive", an.RelName(fn), n), in.Pos(), "the action argument is compared with "+an.Expr(cst)+" by ==, while the same argument is otherwise looked up in a registry that folds case: t:None / t:NONE are accepted but do not mean t:none")
		})
		if n == 0 {
			c.Ok("R1", an.RelName(fn)+": keyword tests on a registry name are case-insensitive", fn.Pos(), "no case-sensitive comparison of the argument with a keyword")
		}
	}

	// ---- R2 error discipline in the compile call graph
	nCalls := 0
	for _, fn := range c.P.ModFuncs {
		rp := relPkg(fn)
		name := an.RelName(fn)
		inScope := rp == "internal/seclang" ||
			(rp == "internal/actions" && (strings.HasSuffix(name, ".Init") || strings.HasPrefix(fn.Name(), "parse"))) ||
			(rp == "internal/operators" && strings.HasPrefix(fn.Name(), "new")) ||
			(rp == "internal/corazawaf" && (strings.Contains(name, "(*Rule).Add") || strings.Contains(name, "(*Rule).Set") || strings.Contains(name, "(*RuleGroup).Add") || strings.Contains(name, "(*WAF).Validate")))
		if !inScope || strings.HasSuffix(rp, "/generator") {
			continue
		}
		seen := map[string]int{}
		for _, er := range an.ErrorCalls(fn) {
			callee := an.CalleeName(er.Call)
			nCalls++
			if er.Value != nil && er.Uses > 0 {
				continue
			}
			seen[callee]++
			key := fmt.Sprintf("error of %s in %s", callee, name)
			if seen[callee] > 1 {
				key += fmt.Sprintf("#%d", seen[callee])
			}
			c.FuncsAnalysed[fn] = true
			why, ok := c16DropAllow[callee+"@"+name]
			if !ok {
				why, ok = c16DropAllow[callee+"@*"]
			}
			if _, isDefer := er.Call.(*ssa.Defer); isDefer && strings.HasSuffix(callee, ".Close") {
				why, ok = "deferred close of a file opened for reading", true
			}
			if ok {
				c.Ok("R2", key, er.Call.Pos(), "allowlisted discard: "+why)
				continue
			}
			c.Bad("R2", key, er.Call.Pos(), "while compiling the configuration the error returned by "+callee+" is discarded: text the parser cannot represent would be compiled into something else instead of being rejected")
		}
	}
	c.MinCount("R2", "error-returning calls in the compile call graph", nCalls, 80)
	// scanners that cut a piece off the front of the text hand back the unparsed remainder; dropping it means that
	// whatever followed (a duplicated quote, a second quoted string, trailing actions) is silently ignored
	nCut := 0
	for _, fn := range c.P.ModFuncs {
		if relPkg(fn) != "internal/seclang" {
			continue
		}
		an.Instrs(fn, func(in ssa.Instruction) {
			call, ok := in.(*ssa.Call)
			if !ok || call.Call.StaticCallee() == nil || relPkg(call.Call.StaticCallee()) != "internal/seclang" {
				return
			}
			res := call.Call.StaticCallee().Signature.Results()
			if res.Len() < 3 || !isStringType(res.At(0).Type()) || !isStringType(res.At(1).Type()) || res.At(res.Len()-1).Type().String() != "error" {
				return
			}
			if res.Len() != 3 {
				return // (a, b, c, err) splitters return all parts, not a remainder
			}
			nCut++
			used := false
			for _, r := range *call.Referrers() {
				if ex, ok := r.(*ssa.Extract); ok && ex.Index == 1 && len(*ex.Referrers()) > 0 {
					used = true
				}
			}
			c.Check(used, "R2", fmt.Sprintf("remainder returned by %s is looked at in %s", call.Call.StaticCallee().Name(), an.RelName(fn)), in.Pos(), "the rest of the text is parsed or checked",
				"the text left over after "+call.Call.StaticCallee().Name()+" cut its piece is discarded: anything after the closing quote (a second quoted string, a stray quote, more actions) is dropped without an error instead of being rejected")
		})
	}
	c.MinCount("R2", "calls of cutting scanners", nCut, 1)

	// the same loss in another spelling: strings.Split(text, sep) whose result is only ever indexed with constants
	// (kv[0], kv[1]) keeps the text up to the n-th separator and drops the rest, unless the number of pieces was
	// validated (len(parts) == n).  Configuration text is cut with Cut/SplitN(..., n) or walked completely.
	{
		nSplit := 0
		seenS := map[string]int{}
		for _, fn := range c.P.ModFuncs {
			rp := relPkg(fn)
			if rp != "internal/actions" && rp != "internal/seclang" && rp != pkgWAF && rp != "internal/operators" && rp != "types" {
				continue
			}
			an.Instrs(fn, func(in ssa.Instruction) {
				call, ok := in.(*ssa.Call)
				if !ok || call.Call.StaticCallee() == nil || call.Call.StaticCallee().Pkg == nil {
					return
				}
				sc := call.Call.StaticCallee()
				if sc.Pkg.Pkg.Path() != "strings" || (sc.Name() != "Split" && sc.Name() != "SplitAfter" && sc.Name() != "Fields") {
					return
				}
				nSplit++
				maxIdx, onlyConst := int64(-1), len(*call.Referrers()) > 0
				var at ssa.Instruction
				for _, r := range *call.Referrers() {
					switch x := r.(type) {
					case *ssa.IndexAddr:
						if k, ok := an.ConstInt(x.Index); ok {
							if k > maxIdx {
								maxIdx, at = k, x
							}
						} else {
							onlyConst = false
						}
					case *ssa.Call:
						if !an.IsBuiltinCall(x, "len") {
							onlyConst = false
						}
					case *ssa.DebugRef:
					default:
						onlyConst = false
					}
				}
				if !onlyConst || maxIdx < 0 {
					return
				}
				k := "pieces of " + sc.Name() + " in " + an.RelName(fn) + " are all used"
				seenS[k]++
				key := k
				if seenS[k] > 1 {
					key += fmt.Sprintf("#%d", seenS[k])
				}
				lenE := "len(" + an.Expr(call) + ")"
				exact := false
				for _, a := range an.FactsAt(at) {
					if a.L == lenE && a.Op == "==" {
						exact = true
					}
				}
				c.Check(exact, "R2", key, call.Pos(), "the number of pieces is validated",
					fmt.Sprintf("the result of strings.%s is only indexed with constants (up to [%d]) and its length is never required to be exact: text after the next separator is silently dropped (setvar:tx.u=/home?tab=2 would store /home?tab); cut at the first separator instead", sc.Name(), maxIdx))
			})
		}
		c.OkTrivial("R2", "strings.Split results in configuration code are walked or counted", token.NoPos, fmt.Sprintf("%d calls", nSplit))
	}
	c16ParsedIsApplied(c)
	// one continuation mark is one backslash: text is cut with TrimSuffix/TrimPrefix (an affix), never with a
	// Trim/TrimRight/TrimLeft whose cut set contains the backslash or a quote, which strips *every* such byte at
	// that end and so eats escapes that belong to the text (\\d, \\., \\\\) when the break falls right after them
	nTrim := 0
	for _, fn := range c.P.ModFuncs {
		if relPkg(fn) != "internal/seclang" {
			continue
		}
		an.Instrs(fn, func(in ssa.Instruction) {
			cc := an.CallOf(in)
			if cc == nil || cc.StaticCallee() == nil || cc.StaticCallee().Pkg == nil || cc.StaticCallee().Pkg.Pkg.Path() != "strings" {
				return
			}
			switch cc.StaticCallee().Name() {
			case "TrimSuffix", "TrimPrefix":
				nTrim++
			case "Trim", "TrimRight", "TrimLeft":
				cs := an.Expr(cc.Args[1])
				if lit, err := strconv.Unquote(cs); err == nil {
					// a cut set is a set, not a prefix: Trim*(op, "!@") strips any run of '!' and '@' in any order,
					// so a malformed marker (@@rx, @!rx, !@!streq) is accepted instead of being rejected
					marks := map[rune]bool{}
					for _, r := range lit {
						if r != ' ' && r != '\t' && r != '\n' && r != '\r' {
							marks[r] = true
						}
					}
					nTrim++
					if len(marks) >= 2 {
						c.Bad("R4", "cut set of several marker characters in "+an.RelName(fn), in.Pos(), "strings."+cc.StaticCallee().Name()+" with cut set "+cs+" removes any run of these characters in any order, not the one marker sequence that was meant: text with a duplicated or misplaced marker (\"@@rx\", \"@!rx\") is accepted and silently reinterpreted instead of being rejected")
					}
				}
				if strings.Contains(cs, `\\`) {
					nTrim++
					c.Bad("R4", "cut set containing a backslash in "+an.RelName(fn), in.Pos(), "strings."+cc.StaticCallee().Name()+" with cut set "+cs+" removes every trailing/leading backslash, not just the one that marks the continuation: a line broken right after an escape (\\d, \\., \\\\) silently loses it")
				}
			}
		})
	}
	c.MinCount("R4", "affix trims in the configuration parser", nTrim, 1)
	// a numeric phase is the whole text converted to a number (phase:1t:none, phase:10 are rejected)
	if pp := c.FnOpt("types.ParseRulePhase"); pp != nil && len(pp.Params) > 0 {
		whole := false
		an.Instrs(pp, func(in ssa.Instruction) {
			if (an.IsCallToFunc(in, "strconv", "Atoi") || an.IsCallToFunc(in, "strconv", "ParseInt")) && an.CallOf(in).Args[0] == ssa.Value(pp.Params[0]) {
				whole = true
			}
		})
		c.Check(whole, "R2", "ParseRulePhase converts the whole text", pp.Pos(), "strconv.Atoi(phase)", "the numeric phase is no longer obtained by converting the whole text: a phase value followed by other bytes (a deleted comma: phase:1t:none) is accepted as that phase and the swallowed text disappears without an error")
	}
	// a regular expression taken from rule text is compiled as written: in the ctl parser (and wherever a pattern
	// goes to regexp.Compile from text that is not a collection key of a case-insensitive collection) nothing
	// case-folds it first - lower-casing turns \S into \s, \D into \d, [A-Z] into [a-z] without any error
	if pc := c.Fn("R2", "internal/actions.parseCtl"); pc != nil {
		nRx := 0
		// parseCtl and the private helpers it hands the pattern to (compileCtlKeyRx), with their closures
		type scanFn struct{ f, owner *ssa.Function }
		var scan []scanFn
		for _, f := range an.WithClosures(pc) {
			scan = append(scan, scanFn{f, pc})
		}
		for _, h := range privateCallees(pc, "internal/actions") {
			for _, f := range an.WithClosures(h) {
				scan = append(scan, scanFn{f, h})
			}
		}
		for _, sf := range scan {
			f, pc := sf.f, sf.owner
			an.Instrs(f, func(in ssa.Instruction) {
				if !an.IsCallToFunc(in, "regexp", "Compile") && !an.IsCallToFunc(in, "regexp", "MustCompile") {
					return
				}
				nRx++
				folded := ""
				arg := an.CallOf(in).Args[0]
				srcs := []ssa.Value{arg}
				// inside the memoised closure the pattern is a free variable: follow its binding
				if u, ok := arg.(*ssa.UnOp); ok {
					if fv, ok := u.X.(*ssa.FreeVar); ok {
						for _, b := range closureBindings(pc, f, fv) {
							srcs = append(srcs, b)
						}
					}
				}
				if fv, ok := arg.(*ssa.FreeVar); ok {
					for _, b := range closureBindings(pc, f, fv) {
						srcs = append(srcs, b)
					}
				}
				// a pattern that arrives as a parameter of a helper: what the callers pass
				for i := 0; i < len(srcs); i++ {
					for d := range an.Deps(srcs[i]) {
						prm, ok := d.(*ssa.Parameter)
						if !ok || prm.Parent() == nil || token.IsExported(prm.Parent().Name()) {
							continue
						}
						idx := -1
						for k, p2 := range prm.Parent().Params {
							if p2 == prm {
								idx = k
							}
						}
						for _, cs := range c.P.CallSites(func(x ssa.Instruction) bool { return an.IsCallTo(x, prm.Parent()) }) {
							if args := cs.Call.Common().Args; idx >= 0 && idx < len(args) && len(srcs) < 20 {
								srcs = append(srcs, args[idx])
							}
						}
					}
				}
				for _, sv := range srcs {
					for d := range an.Deps(sv) {
						if call, ok := d.(*ssa.Call); ok && call.Call.StaticCallee() != nil && call.Call.StaticCallee().Pkg != nil && call.Call.StaticCallee().Pkg.Pkg.Path() == "strings" {
							switch call.Call.StaticCallee().Name() {
							case "ToLower", "ToUpper", "Title", "ToTitle":
								folded = "strings." + call.Call.StaticCallee().Name()
							}
						}
					}
				}
				c.Check(folded == "", "R2", fmt.Sprintf("parseCtl: regex key #%d is compiled as written", nRx), in.Pos(), "no case folding on the way to regexp.Compile",
					"the regular expression of a ctl collection key passes through "+folded+" before it is compiled: escapes and classes that depend on letter case (\\S, \\D, \\W, [A-Z]) silently change meaning, so the ctl excludes a different set of targets than the text says")
			})
		}
		c.MinCount("R2", "regex compilations in parseCtl", nRx, 1)
	}
	// unclosed quote in an action list
	if pa := c.Fn("R2", "internal/seclang.parseActions"); pa != nil {
		errIdx := an.ErrorIndex(pa.Signature)
		var blk *ssa.BasicBlock
		for _, b := range pa.Blocks {
			f := an.FactsAtBlock(b)
			for _, a := range f {
				if strings.Contains(a.L, "inQuotes") && a.Op == "==" && a.R == "true" && an.InnermostLoop(b) == nil {
					if blk == nil || b.Dominates(blk) {
						blk = b
					}
				}
			}
		}
		if blk == nil {
			c.Bad("R2", "parseActions: an unclosed quote is an error", pa.Pos(), "the action scanner does not test for a quote left open at the end of the action list")
		} else {
			w := an.FindPath(an.PathQuery{Fn: pa, StartBlock: blk, Target: func(in ssa.Instruction) bool {
				r, ok := in.(*ssa.Return)
				return ok && an.ReturnMayBeNilError(r, errIdx)
			}})
			c.Check(w == nil, "R2", "parseActions: an unclosed quote is an error", blk.Instrs[0].Pos(), "the open-quote branch only returns errors", "an action list with an unclosed quote is only warned about and still compiled: the rest of the list is swallowed into one value")
		}
	}
	// unknown variable names are errors in ParseVariables
	if pv := c.Fn("R2", "internal/seclang.(*RuleParser).ParseVariables"); pv != nil {
		ok := false
		an.Instrs(pv, func(in ssa.Instruction) {
			if cc := an.CallOf(in); cc != nil && cc.StaticCallee() != nil && (an.RelName(cc.StaticCallee()) == "internal/variables.Parse" || an.RelName(cc.StaticCallee()) == "types/variables.Parse") {
				e := an.Expr(in.(ssa.Value))
				for _, b := range pv.Blocks {
					if an.FactsAtBlock(b).Has(e+"#1", "!=", "nil") {
						for _, x := range b.Instrs {
							if r, isR := x.(*ssa.Return); isR && an.Expr(r.Results[0]) == e+"#1" {
								ok = true
							}
						}
					}
				}
			}
		})
		c.Check(ok, "R2", "ParseVariables rejects unknown variable names", pv.Pos(), "the error of variables.Parse is returned", "an unknown variable name in a target list is not reported")
	}

	// ---- R3
	lookaheadRule(c, "R3", []string{"internal/seclang", "internal/strings"}, 40)

	// ---- R4 scanner state
	if pv := c.Fn("R4", "internal/seclang.(*RuleParser).ParseVariables"); pv != nil {
		// the escape flag: its loop-carried phi receives !flag on the backslash branch
		okToggle, desc := false, ""
		an.Instrs(pv, func(in ssa.Instruction) {
			phi, ok := in.(*ssa.Phi)
			if !ok || phi.Comment != "isEscaped" {
				return
			}
			for i, e := range phi.Edges {
				pred := phi.Block().Preds[i]
				f := an.FactsAtBlock(pred)
				if !(f.Has("vars[*i]", "==", "92") || hasFactLike(f, "== 92")) {
					continue
				}
				desc = tempName.ReplaceAllString(an.Expr(e), "")
				if u, isU := e.(*ssa.UnOp); isU && u.Op == token.NOT {
					if p2, isP := u.X.(*ssa.Phi); isP && p2.Comment == "isEscaped" {
						okToggle = true
					}
				}
			}
		})
		c.Check(okToggle, "R4", "regex key: a backslash toggles the escape state", pv.Pos(), "isEscaped = !isEscaped on '\\\\'", "on a backslash inside a regex key the escape state becomes "+desc+" instead of being toggled: after an escaped backslash (\\\\\\\\) the closing '/' is taken as escaped and the following targets are swallowed into the regex")
		// the closing slash ends the regex only when not escaped
		okClose := false
		for _, b := range pv.Blocks {
			if ifi, ok := b.Instrs[len(b.Instrs)-1].(*ssa.If); ok {
				e := tempName.ReplaceAllString(an.Expr(ifi.Cond), "")
				if strings.Contains(e, "isEscaped") && an.FactsAtBlock(b).Has("vars[*i.t3]", "==", "47") || strings.Contains(e, "*isEscaped") && hasFactLike(an.FactsAtBlock(b), "== 47") {
					okClose = true
				}
			}
		}
		c.Check(okClose, "R4", "regex key: only an unescaped slash closes it", pv.Pos(), "'/' && !isEscaped", "the closing-slash test does not consult the escape state")
		// per-target flags: the count ('&') and negation ('!') flags belong to one target; once a target has been
		// added, both enter the next iteration as false (otherwise "&A|B" also counts B)
		var addCalls []*ssa.Call
		an.Instrs(pv, func(in ssa.Instruction) {
			if call, ok := in.(*ssa.Call); ok && call.Call.StaticCallee() != nil {
				if n := call.Call.StaticCallee().Name(); n == "AddVariable" || n == "AddVariableNegation" {
					addCalls = append(addCalls, call)
				}
			}
		})
		if len(addCalls) < 2 {
			c.Unknown("R4", "ParseVariables: targets are added", pv.Pos(), "calls of AddVariable / AddVariableNegation not found")
		} else {
			// nearest common dominator of the calls
			done := addCalls[0].Block()
			for _, ac := range addCalls[1:] {
				for !done.Dominates(ac.Block()) {
					done = done.Idom()
				}
			}
			flags := map[string]*ssa.Phi{}
			for _, ac := range addCalls {
				if ac.Call.StaticCallee().Name() == "AddVariable" && len(ac.Call.Args) == 4 {
					if p, ok := ac.Call.Args[3].(*ssa.Phi); ok {
						flags["count ('&')"] = p
					}
				}
			}
			if ifi, ok := done.Instrs[len(done.Instrs)-1].(*ssa.If); ok {
				if p, ok := ifi.Cond.(*ssa.Phi); ok {
					flags["negation ('!')"] = p
				}
			}
			if len(flags) < 2 {
				c.Unknown("R4", "ParseVariables: per-target flags", pv.Pos(), "the loop-carried count/negation flags were not identified")
			}
			for name, phi := range flags {
				bad := ""
				var leaves func(p *ssa.Phi, d int)
				seenP := map[*ssa.Phi]bool{}
				leaves = func(p *ssa.Phi, d int) {
					if seenP[p] || d > 6 {
						return
					}
					seenP[p] = true
					for i, e := range p.Edges {
						pb := p.Block().Preds[i]
						if q, ok := e.(*ssa.Phi); ok && q != phi {
							leaves(q, d+1)
							continue
						}
						if pb == done || !done.Dominates(pb) {
							continue // not a "target finished" edge
						}
						if cst, ok := e.(*ssa.Const); !ok || cst.Value == nil || cst.Value.String() != "false" {
							bad = tempName.ReplaceAllString(an.Expr(e), "")
							if e == ssa.Value(phi) {
								bad = "its previous value"
							}
						}
					}
				}
				leaves(phi, 0)
				c.Check(bad == "", "R4", "ParseVariables: the "+name+" flag is cleared after each target", phi.Pos(), "false on every edge from the code that adds a target",
					"after a target has been added the "+name+" flag enters the next iteration as "+bad+": the flag leaks onto the following targets of the list (e.g. &A|B evaluates B as a count as well)")
			}
		}
	}
	if ps := c.Fn("R4", "internal/seclang.(*Parser).parseString"); ps != nil {
		ev := c.P.Func("internal/seclang.(*Parser).evaluateLine")
		// continuation: on the edge line[last] == '\\' the line is appended and evaluateLine is not reachable in the iteration
		okCont, okComment, okBacktick := false, false, false
		for _, b := range ps.Blocks {
			f := an.FactsAtBlock(b)
			l := an.InnermostLoop(b)
			if l == nil {
				continue
			}
			if hasFactLike(f, "- 1)] == 92") {
				w := an.FindPath(an.PathQuery{Fn: ps, StartBlock: b, Target: func(in ssa.Instruction) bool { return an.IsCallTo(in, ev) },
					PruneEdge: func(bb *ssa.BasicBlock, si int) bool { return bb.Succs[si] == l.Header }})
				okCont = w == nil
			}
		}
		// comments: the '#' test precedes every other use of the line in the iteration
		for _, b := range ps.Blocks {
			if ifi, ok := b.Instrs[len(b.Instrs)-1].(*ssa.If); ok {
				for _, a := range an.CondAtoms(ifi.Cond, true) {
					if strings.HasSuffix(a.L, "[0]") && a.Op == "==" && a.R == "35" {
						// the true edge goes back to the loop header without evaluating
						l := an.InnermostLoop(b)
						if l != nil && b.Succs[0] == l.Header {
							okComment = true
						} else if l != nil {
							w := an.FindPath(an.PathQuery{Fn: ps, StartBlock: b.Succs[0], Target: func(in ssa.Instruction) bool {
								if an.IsCallTo(in, ev) {
									return true
								}
								ci, ok := in.(ssa.CallInstruction)
								return ok && strings.HasPrefix(an.CalleeName(ci), "(*strings.Builder).Write")
							}, PruneEdge: func(bb *ssa.BasicBlock, si int) bool { return bb.Succs[si] == l.Header }})
							okComment = w == nil
						}
					}
				}
			}
		}
		errIdx := an.ErrorIndex(ps.Signature)
		an.Instrs(ps, func(in ssa.Instruction) {
			if r, ok := in.(*ssa.Return); ok && !an.ReturnMayBeNilError(r, errIdx) {
				if hasFactLike(an.FactsAt(r), "inBackticks") || hasFactLike(an.FactsAt(r), "== true") {
					okBacktick = true
				}
			}
		})
		c.Check(okCont, "R4", "a continuation line is joined, not evaluated", ps.Pos(), "no evaluateLine in the iteration of a line ending in '\\\\'", "a line ending in a backslash is evaluated on its own: a directive split over several lines compiles differently from the same directive on one line")
		c.Check(okComment, "R4", "comment lines are skipped before anything else", ps.Pos(), "'#' lines neither reach the line buffer nor evaluateLine", "a comment line can reach the line buffer or the directive evaluation")
		c.Check(okBacktick, "R4", "an open backtick block is an error", ps.Pos(), "error return under inBackticks", "a data block left open at the end of the text is not reported")
	}
	// file context: the options object is shared by nested Include evaluations, which overwrite it; the
	// parser's own position (current file, directory, root, line) is therefore copied into the options by the
	// same function that invokes the directive, on every path to that call.
	if el := c.Fn("R4", "internal/seclang.(*Parser).evaluateLine"); el != nil {
		var dcall ssa.Instruction
		an.Instrs(el, func(in ssa.Instruction) {
			call, ok := in.(*ssa.Call)
			if !ok || call.Call.IsInvoke() || call.Call.StaticCallee() != nil || len(call.Call.Args) != 1 {
				return
			}
			if _, isB := call.Call.Value.(*ssa.Builtin); isB {
				return
			}
			if strings.HasSuffix(tempName.ReplaceAllString(an.Expr(call.Call.Args[0]), ""), ".options") {
				dcall = in
			}
		})
		if dcall == nil {
			c.Unknown("R4", "evaluateLine invokes the directive", el.Pos(), "no dynamic call with the parser's options found")
		} else {
			nCtx := 0
			for _, fn := range c.P.ModFuncs {
				if relPkg(fn) != "internal/seclang" {
					continue
				}
				an.Instrs(fn, func(in ssa.Instruction) {
					st, ok := in.(*ssa.Store)
					if !ok {
						return
					}
					dst := tempName.ReplaceAllString(an.Expr(st.Addr), "")
					src := tempName.ReplaceAllString(an.Expr(st.Val), "")
					// options.<...> = p.current<...> / p.root : a copy of the parser's position
					_ = src
					if !strings.Contains(dst, ".options.") || !loadsParserField(st.Val) {
						return
					}
					nCtx++
					fname := dst[strings.LastIndex(dst, ".")+1:]
					ok = fn == el && st.Block().Dominates(dcall.Block())
					c.Check(ok, "R4", "parser position "+fname+" is handed to every directive", st.Pos(), "copied in evaluateLine before the directive runs",
						"the directive options' "+fname+" is copied from the parser in "+shortFn(an.RelName(fn))+", not before each directive call: after a nested Include returned, the shared options still describe the included file, so relative data files and error positions of the following directives resolve against the wrong file")
				})
			}
			c.MinCount("R4", "parser position fields copied into the directive options", nCtx, 3)
		}
	}
}

func hasFactLike(f an.Facts, sub string) bool {
	for _, a := range f {
		if strings.Contains(tempName.ReplaceAllString(a.String(), ""), sub) {
			return true
		}
	}
	return false
}

// loadsParserField: v is a load of a field of the seclang Parser struct (its position: file, dir, root, line).
func loadsParserField(v ssa.Value) bool {
	u, ok := v.(*ssa.UnOp)
	if !ok {
		return false
	}
	fa, ok := u.X.(*ssa.FieldAddr)
	if !ok {
		return false
	}
	t := fa.X.Type()
	if p, ok := t.Underlying().(*types.Pointer); ok {
		t = p.Elem()
	}
	n, ok := t.(*types.Named)
	return ok && n.Obj().Name() == "Parser" && n.Obj().Pkg() != nil && strings.HasSuffix(n.Obj().Pkg().Path(), "/seclang")
}

// c16ParsedIsApplied: a number/enum parsed from directive or action text takes effect or is refused.  For
// every parse call (strconv.Atoi/ParseInt/ParseUint/ParseBool/ParseFloat, types.Parse*) in the action Inits
// and the directive handlers: on every path from the call to a successful return (nil error) the parsed value
// is used by something other than a comparison (stored, passed on).  A path that only tests the value and
// then succeeds means some accepted texts (status:200 ...) are silently ignored.
func c16ParsedIsApplied(c *an.Ctx) {
	n := 0
	seen := map[string]int{}
	for _, fn := range c.P.ModFuncs {
		rp := relPkg(fn)
		name := an.RelName(fn)
		inScope := rp == "internal/seclang" && strings.HasPrefix(fn.Name(), "directive") || rp == "internal/actions" && strings.HasSuffix(name, ".Init")
		if !inScope || fn.Parent() != nil {
			continue
		}
		ei := an.ErrorIndex(fn.Signature)
		if ei < 0 {
			continue
		}
		an.Instrs(fn, func(in ssa.Instruction) {
			call, ok := in.(*ssa.Call)
			if !ok || call.Call.StaticCallee() == nil {
				return
			}
			callee := call.Call.StaticCallee()
			isParse := false
			if callee.Pkg != nil {
				switch callee.Pkg.Pkg.Path() {
				case "strconv":
					isParse = callee.Name() == "Atoi" || strings.HasPrefix(callee.Name(), "Parse")
				default:
					isParse = strings.HasSuffix(callee.Pkg.Pkg.Path(), "/types") && strings.HasPrefix(callee.Name(), "Parse")
				}
			}
			if !isParse || an.ErrorIndex(callee.Signature) != 1 {
				return
			}
			var val ssa.Value
			for _, r := range *call.Referrers() {
				if ex, ok := r.(*ssa.Extract); ok && ex.Index == 0 {
					val = ex
				}
			}
			n++
			c.FuncsAnalysed[fn] = true
			k := fmt.Sprintf("value parsed by %s.%s is applied or refused in %s", callee.Pkg.Pkg.Name(), callee.Name(), name)
			seen[k]++
			key := k
			if seen[k] > 1 {
				key += fmt.Sprintf("#%d", seen[k])
			}
			if val == nil {
				c.Ok("R2", key, in.Pos(), "only the error is of interest (syntax validation)")
				return
			}
			// uses other than comparisons, through conversions and phis
			uses := map[ssa.Instruction]bool{}
			var mark func(v ssa.Value, d int)
			seenV := map[ssa.Value]bool{}
			mark = func(v ssa.Value, d int) {
				if seenV[v] || d > 4 || v.Referrers() == nil {
					return
				}
				seenV[v] = true
				for _, r := range *v.Referrers() {
					switch x := r.(type) {
					case *ssa.BinOp:
						switch x.Op {
						case token.EQL, token.NEQ, token.LSS, token.LEQ, token.GTR, token.GEQ:
							// a test against a constant only validates the value; a test against other data
							// (a rule id, a configured limit) is the value doing its job
							_, cx := x.X.(*ssa.Const)
							_, cy := x.Y.(*ssa.Const)
							if !cx && !cy {
								uses[x] = true
							}
							continue
						}
						mark(x, d+1)
					case *ssa.Convert:
						mark(x, d+1)
					case *ssa.ChangeType:
						mark(x, d+1)
					case *ssa.Phi:
						mark(x, d+1)
					case *ssa.MakeInterface:
						mark(x, d+1)
						uses[x] = true
					default:
						uses[r] = true
					}
				}
			}
			mark(val, 0)
			errE := an.Expr(call) + "#1"
			w := an.FindPath(an.PathQuery{Fn: fn, After: in,
				Stop: func(x ssa.Instruction) bool { return uses[x] },
				Target: func(x ssa.Instruction) bool {
					r, ok := x.(*ssa.Return)
					return ok && an.ReturnMayBeNilError(r, ei)
				},
				PruneEdge: func(b *ssa.BasicBlock, si int) bool {
					ifi, ok := b.Instrs[len(b.Instrs)-1].(*ssa.If)
					if !ok {
						return false
					}
					for _, a := range an.CondAtoms(ifi.Cond, si == 0) {
						if a.L == errE && a.Op == "!=" && a.R == "nil" {
							return true // the parse failed: not a "parsed value"
						}
					}
					return false
				}})
			if w != nil {
				c.Bad("R2", key, w.Target.Pos(), "the text parsed successfully, yet a path returns success without the value having been stored or passed on (it is only compared): some accepted values are silently ignored instead of being applied or rejected", c.P.TrailString(w)...)
			} else {
				c.Ok("R2", key, in.Pos(), "every successful path uses the parsed value")
			}
		})
	}
	c.MinCount("R2", "values parsed from directive/action text", n, 15)
}

// closureBindings: the values bound to free variable fv of closure cl at its MakeClosure sites inside outer.
func closureBindings(outer, cl *ssa.Function, fv *ssa.FreeVar) []ssa.Value {
	idx := -1
	for i, v := range cl.FreeVars {
		if v == fv {
			idx = i
		}
	}
	var out []ssa.Value
	if idx < 0 {
		return out
	}
	for _, f := range an.WithClosures(outer) {
		an.Instrs(f, func(in ssa.Instruction) {
			if mc, ok := in.(*ssa.MakeClosure); ok && mc.Fn == ssa.Value(cl) && idx < len(mc.Bindings) {
				b := mc.Bindings[idx]
				out = append(out, b)
				// a captured variable lives in a cell: what is stored into it
				if a, ok := b.(*ssa.Alloc); ok {
					for _, r := range *a.Referrers() {
						if st, ok := r.(*ssa.Store); ok && st.Addr == ssa.Value(a) {
							out = append(out, st.Val)
						}
					}
				}
			}
		})
	}
	return out
}
