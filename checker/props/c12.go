package props

import (
	"fmt"
	"go/token"
	"go/types"
	"sort"
	"strings"

	"czcheck/an"

	"golang.org/x/tools/go/ssa"
)

func init() {
	register(&Property{
		ID:    "C12",
		Title: "Sharing transformation work between rules never substitutes a wrong value",
		Explanation: "Decides the structure of the per-phase transformation cache, not equality with uncached evaluation: R1 the cache is emptied at the start of every phase and is the map handed to Rule.Evaluate; " +
			"R2 no stale or foreign entry: every cache key built in transformArg identifies the input by value identity (data pointer and length of the very string that is transformed) plus the transformation-prefix id, lookup keys and store keys are built from the same operands, and the stored entry pins the input string; " +
			"R3 key determines value: the entry stored under prefix id i is the running value after applying transformation i (same index for function and id; the running value is replaced only by the output of a step that succeeded, never by a failed step's output), and a hit at index i resumes at i+1 from the cached value; " +
			"R4 AddTransformation is given, as name, the key its function was looked up by; the two interning tables are inverses of each other (the name recorded for a new id is the name it is looked up by, built from the parent list's name and the new transformation; the id is the index it is appended at) and prefix ids are interned under one exclusive critical section (reads of the tables under the lock, the new id computed and inserted without releasing it), and a rule's transformation list, current id and prefix-id list are only ever updated together. R3 also: every producer of the argument of executeOperator in doEvaluate is transformArg or transformMultiMatchArg (no constant, no untransformed value).",
		NotDecided: []string{
			"equality with uncached evaluation for all inputs",
			"that distinct live strings never share pointer and length with different content (guaranteed by Go's memory model while the entry pins the input)",
			"multiMatch path (not cached)",
		},
		Run: runC12,
	})
}

type keyLit struct {
	alloc  *ssa.Alloc
	fields map[string]ssa.Value
	lookup bool
	store  bool
	val    *ssa.Alloc // stored transformationValue literal (for store keys)
	use    ssa.Instruction
}

func runC12(c *an.Ctx) {
	// ---- R1
	c12Cleared(c)

	fn := c.Fn("R2", "internal/corazawaf.(*Rule).transformArg")
	if fn == nil {
		return
	}
	// composite literals of transformationKey / transformationValue
	lits := map[*ssa.Alloc]map[string]ssa.Value{}
	litStores := map[*ssa.Alloc][]*ssa.Store{}
	an.Instrs(fn, func(in ssa.Instruction) {
		st, ok := in.(*ssa.Store)
		if !ok {
			return
		}
		fa, ok := st.Addr.(*ssa.FieldAddr)
		if !ok {
			return
		}
		al, ok := fa.X.(*ssa.Alloc)
		if !ok {
			return
		}
		tn := typeBaseName(al.Type().String())
		if tn != "transformationKey" && tn != "transformationValue" {
			return
		}
		if lits[al] == nil {
			lits[al] = map[string]ssa.Value{}
		}
		lits[al][an.FieldVar(fa).Name()] = st.Val
		litStores[al] = append(litStores[al], st)
	})
	// fieldsAt: the value each field of the local struct holds when `use` executes — the closest store that
	// dominates the use (a key variable may be filled once and have one field updated before every access)
	var fieldsAt func(al *ssa.Alloc, use ssa.Instruction, d int) map[string]ssa.Value
	fieldsAt = func(al *ssa.Alloc, use ssa.Instruction, d int) map[string]ssa.Value {
		type event struct {
			at     ssa.Instruction
			fields map[string]ssa.Value
		}
		var evs []event
		for _, st := range litStores[al] {
			evs = append(evs, event{st, map[string]ssa.Value{an.FieldVar(st.Addr.(*ssa.FieldAddr)).Name(): st.Val}})
		}
		// whole-struct assignment from another local literal: key := transformationKey{...} is compiled as a
		// temporary literal copied into the variable
		if d < 3 {
			for _, ref := range *al.Referrers() {
				st, ok := ref.(*ssa.Store)
				if !ok || st.Addr != ssa.Value(al) {
					continue
				}
				if ld, ok := st.Val.(*ssa.UnOp); ok && ld.Op == token.MUL {
					if src, ok := ld.X.(*ssa.Alloc); ok && litStores[src] != nil {
						evs = append(evs, event{st, fieldsAt(src, ld, d+1)})
					}
				}
			}
		}
		out := map[string]ssa.Value{}
		best := map[string]ssa.Instruction{}
		for _, ev := range evs {
			if !an.InstrDominates(ev.at, use) {
				continue
			}
			for name, v := range ev.fields {
				if b := best[name]; b == nil || an.InstrDominates(b, ev.at) {
					best[name] = ev.at
					out[name] = v
				}
			}
		}
		return out
	}
	var keys []keyLit
	an.Instrs(fn, func(in ssa.Instruction) {
		switch x := in.(type) {
		case *ssa.Lookup:
			if ld, ok := x.Index.(*ssa.UnOp); ok {
				if al, ok := ld.X.(*ssa.Alloc); ok && lits[al] != nil {
					keys = append(keys, keyLit{alloc: al, fields: fieldsAt(al, in, 0), lookup: true, use: in})
				}
			}
		case *ssa.MapUpdate:
			if ld, ok := x.Key.(*ssa.UnOp); ok {
				if al, ok := ld.X.(*ssa.Alloc); ok && lits[al] != nil {
					k := keyLit{alloc: al, fields: fieldsAt(al, in, 0), store: true, use: in}
					if vl, ok := x.Value.(*ssa.UnOp); ok {
						if val, ok := vl.X.(*ssa.Alloc); ok {
							k.val = val
						}
					}
					keys = append(keys, k)
				}
			}
		}
	})
	nLookup, nStore := 0, 0
	for _, k := range keys {
		if k.lookup {
			nLookup++
		}
		if k.store {
			nStore++
		}
	}
	c.MinCount("R2", "cache lookups in transformArg", nLookup, 1)
	c.MinCount("R2", "cache stores in transformArg", nStore, 1)
	if nLookup == 0 || nStore == 0 {
		return
	}
	// the input being transformed: initial running value
	inputExpr := "arg.Value()"
	render := func(v ssa.Value) string { return tempName.ReplaceAllString(an.Expr(v), "") }
	for i, k := range keys {
		kind := "lookup"
		if k.store {
			kind = "store"
		}
		key := fmt.Sprintf("transformArg %s key #%d", kind, i+1)
		var ptrOK, lenOK, idOK bool
		var descr []string
		idIdx := ""
		for _, fname := range sortedKeys(k.fields) {
			v := k.fields[fname]
			e := render(v)
			descr = append(descr, fname+"="+e)
			switch {
			case strings.HasSuffix(e, "StringData("+inputExpr+")"):
				ptrOK = true
			case e == "len("+inputExpr+")":
				lenOK = true
			case strings.HasPrefix(e, "r.transformationPrefixIDs["):
				idOK = true
				idIdx = strings.TrimSuffix(strings.TrimPrefix(e, "r.transformationPrefixIDs["), "]")
			}
		}
		narrowed := ""
		for fname, v := range k.fields {
			if cv, isCv := v.(*ssa.Convert); isCv {
				if db, ok := cv.Type().Underlying().(*types.Basic); ok {
					if sb, ok2 := cv.X.Type().Underlying().(*types.Basic); ok2 && db.Info()&types.IsInteger != 0 && sb.Info()&types.IsInteger != 0 && intWidth(db) < intWidth(sb) {
						narrowed = fname + " (" + sb.Name() + " -> " + db.Name() + ")"
					}
				}
			}
		}
		c.Check(narrowed == "", "R2", key+" keeps the full width of its components", k.use.Pos(), "no narrowing conversion", "the cache key component "+narrowed+" is narrowed: prefix ids come from a process-wide table that grows with every WAF ever built, so two different transformation lists (or two lengths) become equal modulo the narrower width and share an entry")
		ok := ptrOK && lenOK && idOK && len(k.fields) == 3
		c.Check(ok, "R2", key+" identifies the input by value identity", k.use.Pos(),
			"key = (data pointer of arg.Value(), len(arg.Value()), prefix id): "+strings.Join(descr, ", "),
			"the cache key is not (pointer and length of the transformed input, prefix id): "+strings.Join(descr, ", ")+" — an entry could be hit by a different value (another value of the same name, or the same variable after it was modified) or be stored under a key no lookup uses")
		if k.store {
			// R3: the index used for the id equals the index of the transformation just applied
			applied := ""
			blk := k.use.Block()
			for d := blk; d != nil && applied == ""; d = d.Idom() {
				for _, in := range d.Instrs {
					if call, ok := in.(*ssa.Call); ok && !call.Call.IsInvoke() && call.Call.StaticCallee() == nil {
						e := render(call.Call.Value)
						if strings.HasPrefix(e, "r.transformations[") && strings.HasSuffix(e, "].Function") {
							applied = strings.TrimSuffix(strings.TrimPrefix(e, "r.transformations["), "].Function")
						}
					}
				}
			}
			c.Check(applied != "" && applied == idIdx, "R3", key+": stored under the id of the transformation just applied", k.use.Pos(),
				"transformations["+applied+"] applied, stored under transformationPrefixIDs["+idIdx+"]",
				"the entry is stored under transformationPrefixIDs["+idIdx+"] but the value is the result of transformations["+applied+"]")
			// the entry pins the input and stores the running value
			if k.val != nil && lits[k.val] != nil {
				pins, arg := false, ""
				for fname, v := range lits[k.val] {
					e := render(v)
					if e == inputExpr {
						pins = true
					}
					if fname == "arg" {
						arg = e
					}
				}
				c.Check(pins, "R2", key+": entry pins the input string", k.use.Pos(), "the entry keeps arg.Value(), so its memory cannot be reused while the entry is alive",
					"the stored entry does not retain the input string: after the input is garbage collected another string can get the same pointer and length and hit this entry")
				okRun, whyRun := false, "the running value of the transformation loop was not found"
				if run := runningValuePhi(fn); run != nil {
					okRun, whyRun = runningValueDiscipline(lits[k.val]["arg"], k.use.Block(), run, false)
				}
				c.Check(okRun, "R3", key+": the running value is stored", k.use.Pos(), "arg = "+arg+" (the running value after the step, a failed step leaving it unchanged)", "the entry's value is "+arg+", not the running transformed value: "+whyRun+" — later rules sharing the prefix receive a value their own transformation list would never produce")
			} else {
				c.Bad("R2", key+": entry pins the input string", k.use.Pos(), "the stored value is not a transformationValue literal")
			}
		}
	}
	// lookup and store keys agree on every operand except the loop index
	norm := func(k keyLit) string {
		var parts []string
		for _, fname := range sortedKeys(k.fields) {
			e := render(k.fields[fname])
			if strings.HasPrefix(e, "r.transformationPrefixIDs[") {
				e = "r.transformationPrefixIDs[i]"
			}
			parts = append(parts, fname+"="+e)
		}
		return strings.Join(parts, ", ")
	}
	shapes := map[string]bool{}
	for _, k := range keys {
		shapes[norm(k)] = true
	}
	var sh []string
	for s := range shapes {
		sh = append(sh, s)
	}
	sort.Strings(sh)
	c.Check(len(sh) == 1, "R2", "transformArg: lookup and store keys are built from the same operands", fn.Pos(), sh[0],
		"lookup and store use different key operands: "+strings.Join(sh, "  VS  ")+" — results are stored where no (or the wrong) lookup finds them")
	// resume after a hit / start from the input: both are read off the transformation loop itself (the loop
	// containing the call of r.transformations[idx].Function(run)), not off variable names: idx and run are
	// header phis whose entry values are followed back through the merges of the cache search.
	entryLeaves := func(phi *ssa.Phi) []ssa.Value {
		var out []ssa.Value
		seen := map[ssa.Value]bool{}
		lp := an.InnermostLoop(phi.Block())
		var walk func(v ssa.Value, d int)
		walk = func(v ssa.Value, d int) {
			if seen[v] || d > 8 {
				return
			}
			seen[v] = true
			if p2, ok := v.(*ssa.Phi); ok {
				for i, e := range p2.Edges {
					if p2 == phi && lp != nil && lp.Blocks[p2.Block().Preds[i]] {
						continue // back edge of the transformation loop
					}
					walk(e, d+1)
				}
				return
			}
			out = append(out, v)
		}
		walk(phi, 0)
		return out
	}
	okResume, initOK := false, false
	run := runningValuePhi(fn)
	if run != nil {
		for _, v := range entryLeaves(run) {
			if render(v) == inputExpr {
				initOK = true
			}
		}
		// the loop index: the index operand of the transformation call's callee expression
		an.Instrs(fn, func(in ssa.Instruction) {
			call, ok := isTransformationCall(in)
			if !ok {
				return
			}
			if lc := an.InnermostLoop(call.Block()); lc == nil || lc.Header != run.Block() {
				return
			}
			var idx ssa.Value
			for root := range an.Deps(call.Call.Value) {
				if ia, ok := root.(*ssa.IndexAddr); ok {
					idx = ia.Index
				}
			}
			phi, ok := idx.(*ssa.Phi)
			if !ok {
				return
			}
			zero, succ := false, false
			for _, v := range entryLeaves(phi) {
				if k, ok := an.ConstInt(v); ok && k == 0 {
					zero = true
				}
				if b, ok := v.(*ssa.BinOp); ok && b.Op == token.ADD {
					if k, ok := an.ConstInt(b.Y); ok && k == 1 {
						succ = true
					}
				}
			}
			if zero && succ {
				okResume = true
			}
		})
	}
	c.Check(okResume, "R3", "transformArg: a hit at index i resumes at i+1", fn.Pos(), "the transformation loop starts at i + 1 after a hit, at 0 otherwise", "after a cache hit the remaining transformations do not start at the index following the hit")
	c.Check(initOK, "R3", "transformArg: without a hit the chain starts from the input", fn.Pos(), "the running value enters the transformation loop as arg.Value() when nothing was cached", "the running value does not start from arg.Value()")

	// ---- R3 (cont.) every value the operator is given comes out of the rule's transformation list.
	c12OperatorInput(c)

	// ---- R4 interning.
	c12Interning(c)
}

// c12OperatorInput: in Rule.doEvaluate the argument of executeOperator is traced back through the per-value
// buffer (args[0] = ..., args = ..., range args[:n]) to its producers: each must be a result of transformArg or
// transformMultiMatchArg.  A constant, the untransformed value or anything else means some values reach the
// operator without the rule's transformations (t:length of "" is "0", not "").
func c12OperatorInput(c *an.Ctx) {
	fn := c.Fn("R3", "internal/corazawaf.(*Rule).doEvaluate")
	eo := c.Fn("R3", "internal/corazawaf.(*Rule).executeOperator")
	if fn == nil || eo == nil {
		return
	}
	isProducer := func(call *ssa.Call) bool {
		sc := call.Call.StaticCallee()
		return sc != nil && relPkg(sc) == pkgWAF && (sc.Name() == "transformArg" || sc.Name() == "transformMultiMatchArg" || sc.Name() == "executeTransformationsMultimatch" || sc.Name() == "executeTransformations")
	}
	n := 0
	an.Instrs(fn, func(in ssa.Instruction) {
		if !an.IsCallTo(in, eo) {
			return
		}
		n++
		var bad []string
		seen := map[ssa.Value]bool{}
		var walk func(v ssa.Value, d int)
		var walkSlice func(v ssa.Value, d int)
		leaf := func(v ssa.Value) {
			bad = append(bad, tempName.ReplaceAllString(an.Expr(v), ""))
		}
		walk = func(v ssa.Value, d int) {
			if seen[v] || d > 12 {
				return
			}
			seen[v] = true
			switch x := v.(type) {
			case *ssa.Phi:
				for _, e := range x.Edges {
					walk(e, d+1)
				}
			case *ssa.UnOp:
				if x.Op == token.MUL {
					if ia, ok := x.X.(*ssa.IndexAddr); ok {
						walkSlice(ia.X, d+1)
						return
					}
				}
				leaf(v)
			case *ssa.Extract:
				if call, ok := x.Tuple.(*ssa.Call); ok && isProducer(call) {
					return
				}
				leaf(v)
			case *ssa.Call:
				if isProducer(x) {
					return
				}
				leaf(v)
			default:
				leaf(v)
			}
		}
		walkSlice = func(v ssa.Value, d int) {
			if seen[v] || d > 12 {
				return
			}
			seen[v] = true
			switch x := v.(type) {
			case *ssa.Phi:
				for _, e := range x.Edges {
					walkSlice(e, d+1)
				}
			case *ssa.Slice:
				walkSlice(x.X, d+1)
			case *ssa.Extract:
				if call, ok := x.Tuple.(*ssa.Call); ok && isProducer(call) {
					return
				}
				leaf(v)
			case *ssa.MakeSlice, *ssa.Alloc:
				// elements written through IndexAddr of this buffer (or of slices of it)
				var refs func(b ssa.Value, dd int)
				refs = func(b ssa.Value, dd int) {
					if dd > 4 || b.Referrers() == nil {
						return
					}
					for _, r := range *b.Referrers() {
						switch y := r.(type) {
						case *ssa.IndexAddr:
							for _, r2 := range *y.Referrers() {
								if st, ok := r2.(*ssa.Store); ok && st.Addr == ssa.Value(y) {
									walk(st.Val, d+1)
								}
							}
						case *ssa.Slice:
							refs(y, dd+1)
						case *ssa.Phi:
							refs(y, dd+1)
						}
					}
				}
				refs(x, 0)
			default:
				leaf(v)
			}
		}
		walk(an.CallOf(in).Args[1], 0)
		key := fmt.Sprintf("doEvaluate: operator input #%d comes from the transformation list only", n)
		if len(bad) > 0 {
			c.Bad("R3", key, in.Pos(), "executeOperator can be given "+strings.Join(bad, ", ")+", which is not a result of transformArg / transformMultiMatchArg: for those values the rule is not evaluated against its own transformation list")
		} else {
			c.Ok("R3", key, in.Pos(), "every producer of the operator's argument is transformArg or transformMultiMatchArg")
		}
	})
	c.MinCount("R3", "executeOperator calls in doEvaluate", n, 1)
}

func c12Cleared(c *an.Ctx) {
	m := buildEvalModel(c, "R1")
	if m == nil {
		return
	}
	ok, _, same, _ := evalClearsCache(m)
	c.Check(ok, "R1", "Eval empties the transformation cache before the first rule of the phase", m.fn.Pos(), "every entry deleted before the rule loop", "entries computed in an earlier phase survive into this one: a variable that changed between phases would be evaluated with its stale transformed value")
	c.Check(same, "R1", "the emptied map is the one rules use", m.call.Pos(), "r.Evaluate(..., tx.transformationCache)", "r.Evaluate receives another map")
	// only doEvaluate/transformArg write the cache
	n := 0
	for _, fn := range c.P.ModFuncs {
		an.Instrs(fn, func(in ssa.Instruction) {
			if mu, ok := in.(*ssa.MapUpdate); ok && strings.HasSuffix(mu.Map.Type().String(), "map[github.com/corazawaf/coraza/v3/internal/corazawaf.transformationKey]github.com/corazawaf/coraza/v3/internal/corazawaf.transformationValue") {
				n++
				c.Check(an.RelName(fn) == "internal/corazawaf.(*Rule).transformArg", "R1", "cache written only by transformArg ("+an.RelName(fn)+")", in.Pos(), "single writer", "the transformation cache is written outside transformArg")
			}
		})
	}
	c.MinCount("R1", "writers of the transformation cache", n, 1)
}

func c12Interning(c *an.Ctx) { internTables(c, "R4", true) }

func internTables(c *an.Ctx, R string, withRuleFields bool) {
	lock := "corazawaf.transformationIDsLock"
	guarded := map[string]bool{"transformationIDToName": true, "transformationNameToID": true}
	nAcc := 0
	for _, fn := range c.P.ModFuncs {
		if strings.HasPrefix(an.OuterFn(fn).Name(), "init") {
			continue
		}
		var reads, writes []ssa.Instruction
		an.Instrs(fn, func(in ssa.Instruction) {
			for _, op := range in.Operands(nil) {
				g, ok := (*op).(*ssa.Global)
				if !ok || !guarded[g.Name()] || g.Pkg.Pkg.Path() != fullWAF {
					continue
				}
				if st, isSt := in.(*ssa.Store); isSt && st.Addr == ssa.Value(g) {
					writes = append(writes, in)
				} else {
					reads = append(reads, in)
					// map update through the loaded map value
					if ld, isLd := in.(*ssa.UnOp); isLd {
						for _, ref := range *ld.Referrers() {
							if mu, ok := ref.(*ssa.MapUpdate); ok && mu.Map == ssa.Value(ld) {
								writes = append(writes, mu)
							}
						}
					}
				}
			}
		})
		for ri, r := range reads {
			nAcc++
			st := an.LockState(r, lock)
			c.Check(st != "none", R, fmt.Sprintf("read #%d of the interning tables in %s under the lock", ri+1, an.RelName(fn)), r.Pos(), "lock held: "+st, "the prefix-id tables are read without holding transformationIDsLock: concurrent WAF construction races with the append")
		}
		for wi, w := range writes {
			nAcc++
			st := an.LockState(w, lock)
			c.Check(st == "exclusive", R, fmt.Sprintf("write #%d of the interning tables in %s under the exclusive lock", wi+1, an.RelName(fn)), w.Pos(), "exclusive lock held", "the prefix-id tables are written without the exclusive lock (state: "+st+")")
			// check-then-act: every read feeding this function's decision happens in the same critical section
			for _, r := range reads {
				if an.LockState(r, lock) == "none" {
					continue // already reported as an unlocked read
				}
				if !an.SameCriticalSection(r, w, lock) {
					c.Bad(R, fmt.Sprintf("id chosen and inserted in one critical section in %s (write #%d)", an.RelName(fn), wi+1), w.Pos(),
						"the tables are read at "+c.P.Position(r.Pos())+" and written here after the lock was released in between: two concurrent registrations can pick the same id for different transformation lists")
				}
			}
		}
	}
	c.MinCount(R, "accesses to the interning tables", nAcc, 4)
	if !withRuleFields {
		return
	}
	// the prefix id is interned under the name the transformation was looked up by: AddTransformation receives, as
	// its name, the very string that selected the function (two different functions can never share a name then;
	// a name derived from the function value - code pointer, reflection - does not distinguish closures)
	if addT := c.Fn(R, "internal/corazawaf.(*Rule).AddTransformation"); addT != nil {
		nAdd := 0
		for _, s := range c.P.CallSites(func(in ssa.Instruction) bool { return an.IsCallTo(in, addT) }) {
			if rp := relPkg(s.Fn); strings.HasPrefix(rp, "testing") || strings.HasPrefix(rp, "examples") {
				continue
			}
			nAdd++
			args := s.Call.Common().Args
			name, fnv := args[1], args[2]
			okName := false
			// the function value comes from a lookup call whose argument is the same name
			for d := range an.Deps(fnv) {
				if call, ok := d.(*ssa.Call); ok && call.Call.StaticCallee() != nil && strings.HasPrefix(call.Call.StaticCallee().Name(), "GetTransformation") {
					if len(call.Call.Args) > 0 && (call.Call.Args[0] == name || an.Expr(call.Call.Args[0]) == an.Expr(name)) {
						okName = true
					}
				}
			}
			c.Check(okName, R, "AddTransformation call in "+an.RelName(s.Fn)+" names the transformation by its lookup key", s.Call.Pos(), tempName.ReplaceAllString(an.Expr(name), ""),
				"AddTransformation is given the name "+tempName.ReplaceAllString(an.Expr(name), "")+", which is not the key its function was looked up by: prefix ids are interned by name, so two different transformations that get the same derived name share a prefix id and with it their cache entries")
		}
		c.MinCount(R, "AddTransformation call sites", nAdd, 1)
	}
	// a new name always gets its own id: transformationID never hands back the id it was given (a repeated
	// transformation — t:urlDecode,t:urlDecode — is a different list from the single one)
	if tid := c.Fn(R, "internal/corazawaf.transformationID"); tid != nil && len(tid.Params) > 0 {
		bad := false
		an.Instrs(tid, func(in ssa.Instruction) {
			if r, ok := in.(*ssa.Return); ok && len(r.Results) == 1 {
				if r.Results[0] == ssa.Value(tid.Params[0]) {
					bad = true
				}
				// with a deferred unlock the result travels through a result cell
				if u, ok := r.Results[0].(*ssa.UnOp); ok {
					if a, ok := u.X.(*ssa.Alloc); ok {
						for _, ref := range *a.Referrers() {
							if st, ok := ref.(*ssa.Store); ok && st.Addr == ssa.Value(a) && st.Val == ssa.Value(tid.Params[0]) {
								bad = true
							}
						}
					}
				}
			}
		})
		c.Check(!bad, R, "transformationID: every list gets the id of its own name", tid.Pos(), "no return of the parent id", "transformationID can return the id it was called with: some longer transformation list is given the id of its prefix, so rules with different lists share cache entries")
	}
	// the two tables are inverses of each other: the name recorded for a new id is the name it is looked up by,
	// and that name is built from the parent's recorded name and the transformation added
	if tid := c.Fn(R, "internal/corazawaf.transformationID"); tid != nil {
		var appended, keyed, idStored ssa.Value
		an.Instrs(tid, func(in ssa.Instruction) {
			if an.IsBuiltinCall(in, "append") {
				cc := an.CallOf(in)
				if strings.Contains(an.Expr(cc.Args[0]), "transformationIDToName") && len(cc.Args) == 2 {
					// variadic packaging: the single appended element
					for d := range an.Deps(cc.Args[1]) {
						if _, isA := d.(*ssa.Alloc); isA {
							continue
						}
						if b, ok := d.Type().Underlying().(*types.Basic); ok && b.Kind() == types.String {
							if _, isC := d.(*ssa.Const); !isC && appended == nil {
								appended = d
							}
						}
					}
					// prefer the direct element when the packaging stores exactly one value
					if sl, ok := cc.Args[1].(*ssa.Slice); ok {
						if a, ok := sl.X.(*ssa.Alloc); ok {
							for _, r := range *a.Referrers() {
								if ia, ok := r.(*ssa.IndexAddr); ok {
									for _, r2 := range *ia.Referrers() {
										if st, ok := r2.(*ssa.Store); ok {
											appended = st.Val
										}
									}
								}
							}
						}
					}
				}
			}
			if mu, ok := in.(*ssa.MapUpdate); ok && strings.Contains(an.Expr(mu.Map), "transformationNameToID") {
				keyed, idStored = mu.Key, mu.Value
			}
		})
		if appended == nil || keyed == nil {
			c.Unknown(R, "transformationID: tables updated together", tid.Pos(), "append to transformationIDToName / update of transformationNameToID not found")
		} else {
			render := func(v ssa.Value) string { return tempName.ReplaceAllString(an.Expr(v), "") }
			c.Check(appended == keyed || render(appended) == render(keyed), R, "transformationID: the name recorded for a new id is the name it is looked up by", tid.Pos(), render(keyed),
				"transformationIDToName receives "+render(appended)+" while transformationNameToID is keyed by "+render(keyed)+": the parent name read back for the next step no longer identifies the whole list, so different transformation lists get the same prefix id and share cache entries")
			kd := an.Deps(keyed)
			usesParent, usesNew := false, false
			for d := range kd {
				e := an.Expr(d)
				if strings.Contains(e, "transformationIDToName[") {
					usesParent = true
				}
				if p, ok := d.(*ssa.Parameter); ok && isStringType(p.Type()) {
					usesNew = true
				}
			}
			c.Check(usesParent && usesNew, R, "transformationID: the looked-up name combines the parent list's name and the new transformation", tid.Pos(), render(keyed), "the interning key "+render(keyed)+" is not built from both the recorded name of the current id and the transformation being added")
			c.Check(strings.Contains(render(idStored), "len(") && strings.Contains(render(idStored), "transformationIDToName"), R, "transformationID: a new id is the next index of the name table", tid.Pos(), render(idStored), "the id stored for a new name is "+render(idStored)+", not the index the name is appended at")
		}
	}
	// the three per-rule fields move together
	for _, fname := range []string{"internal/corazawaf.(*Rule).AddTransformation", "internal/corazawaf.(*Rule).ClearTransformations"} {
		fn := c.Fn(R, fname)
		if fn == nil {
			continue
		}
		errIdx := an.ErrorIndex(fn.Signature)
		for _, fld := range []string{"transformations", "transformationsID", "transformationPrefixIDs"} {
			fld := fld
			w := an.FindPath(an.PathQuery{Fn: fn, Stop: func(in ssa.Instruction) bool {
				_, ok := an.StoreToField(in, fullWAF, "Rule", fld)
				return ok
			}, Target: func(in ssa.Instruction) bool {
				r, ok := in.(*ssa.Return)
				if !ok {
					return false
				}
				return errIdx < 0 || an.ReturnMayBeNilError(r, errIdx)
			}})
			c.Check(w == nil, R, shortFn(fname)+" updates "+fld, fn.Pos(), "stored on every successful path", shortFn(fname)+" can succeed without updating Rule."+fld+": the prefix-id list no longer describes the transformation list")
		}
	}
	for _, fld := range []string{"transformations", "transformationsID", "transformationPrefixIDs"} {
		for _, fs := range c.P.StoresToField(pkgWAF, "Rule", fld) {
			name := an.RelName(fs.Fn)
			ok := name == "internal/corazawaf.(*Rule).AddTransformation" || name == "internal/corazawaf.(*Rule).ClearTransformations" || name == "internal/corazawaf.NewRule"
			c.Check(ok, R, "Rule."+fld+" written only by Add/ClearTransformations ("+name+")", fs.Store.Pos(), "owner", "Rule."+fld+" is written outside AddTransformation/ClearTransformations")
		}
	}
	// AddTransformation: new id derives from the previous id and the name; prefix list appended with that id
	if fn := c.P.Func("internal/corazawaf.(*Rule).AddTransformation"); fn != nil {
		for _, fs := range c.P.StoresToField(pkgWAF, "Rule", "transformationsID") {
			if fs.Fn == fn {
				e := tempName.ReplaceAllString(an.Expr(fs.Store.Val), "")
				c.Check(e == "corazawaf.transformationID(r.transformationsID,name)", R, "AddTransformation: next id is a function of (previous id, name)", fs.Store.Pos(), e, "the chain id is computed as "+e)
			}
		}
		for _, fs := range c.P.StoresToField(pkgWAF, "Rule", "transformationPrefixIDs") {
			if fs.Fn == fn {
				e := tempName.ReplaceAllString(an.Expr(fs.Store.Val), "")
				c.Check(strings.HasPrefix(e, "append(r.transformationPrefixIDs,") && (strings.Contains(e, "transformationID(") || strings.Contains(e, "r.transformationsID")), R, "AddTransformation: prefix list extended by the new id", fs.Store.Pos(), e, "the prefix-id list is updated as "+e)
			}
		}
	}
}

func isStringType(t types.Type) bool {
	b, ok := t.Underlying().(*types.Basic)
	return ok && b.Kind() == types.String
}

func intWidth(b *types.Basic) int {
	switch b.Kind() {
	case types.Int8, types.Uint8:
		return 8
	case types.Int16, types.Uint16:
		return 16
	case types.Int32, types.Uint32:
		return 32
	}
	return 64
}
