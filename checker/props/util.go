package props

import (
	"fmt"
	"go/ast"
	"go/constant"
	"go/token"
	"go/types"
	"sort"
	"strings"

	"czcheck/an"

	"golang.org/x/tools/go/ssa"
)

// constVal returns the decimal (or quoted string) value of a package-level constant.
func constVal(c *an.Ctx, rule, pkgRel, name string) string {
	pk := c.P.Pkg(pkgRel)
	if pk != nil {
		if o, ok := pk.Types.Scope().Lookup(name).(*types.Const); ok {
			if o.Val().Kind() == constant.String {
				return fmt.Sprintf("%q", constant.StringVal(o.Val()))
			}
			return o.Val().ExactString()
		}
	}
	c.Unknown(rule, "anchor const "+pkgRel+"."+name, token.NoPos, "constant does not resolve")
	return "?"
}

type storeRule struct {
	fn    string                                           // RelName of the function allowed to store
	check func(c *an.Ctx, fs an.FieldStore) (bool, string) // extra condition on the store; nil = none
	why   string
}

// whoMayWrite checks that every store to pkg.typ.field over the whole module lies in
// one of the allowed functions and satisfies its condition.
func whoMayWrite(c *an.Ctx, rule, pkgRel, typ, field string, allowed []storeRule) {
	stores := c.P.StoresToField(pkgRel, typ, field)
	seen := map[string]int{}
	for _, fs := range stores {
		name := an.RelName(fs.Fn)
		key := fmt.Sprintf("store %s.%s in %s", typ, field, name)
		seen[name]++
		if seen[name] > 1 {
			key += fmt.Sprintf("#%d", seen[name])
		}
		c.FuncsAnalysed[fs.Fn] = true
		var sr *storeRule
		for i := range allowed {
			if allowed[i].fn == name {
				sr = &allowed[i]
			}
		}
		if sr == nil {
			// a helper that is only ever called from the owning functions acts on their behalf
			var owners []string
			for _, a := range allowed {
				if a.check == nil {
					owners = append(owners, a.fn)
				}
			}
			if len(owners) > 0 && onlyCalledFrom(c, fs.Fn, owners, 0) {
				c.Ok(rule, key, fs.Store.Pos(), "helper called only from "+strings.Join(owners, ", "))
				continue
			}
			c.Bad(rule, key, fs.Store.Pos(), fmt.Sprintf("%s.%s is written outside the functions that own it (%s)", typ, field, allowedNames(allowed)),
				"value: "+an.Expr(fs.Store.Val))
			continue
		}
		if sr.check != nil {
			ok, msg := sr.check(c, fs)
			if !ok {
				c.Bad(rule, key, fs.Store.Pos(), msg, an.FactsAt(fs.Store).Strings()...)
				continue
			}
			c.Ok(rule, key, fs.Store.Pos(), sr.why+": "+msg, an.FactsAt(fs.Store).Strings()...)
			continue
		}
		c.Ok(rule, key, fs.Store.Pos(), sr.why)
	}
	for _, a := range allowed {
		if seen[a.fn] == 0 {
			c.Unknown(rule, fmt.Sprintf("store %s.%s in %s", typ, field, a.fn), token.NoPos,
				"expected writer not found (function renamed, or the field is no longer initialised there)")
		}
	}
}

func allowedNames(a []storeRule) string {
	var n []string
	for _, x := range a {
		n = append(n, x.fn)
	}
	return strings.Join(n, ", ")
}

func storesConst(val string) func(c *an.Ctx, fs an.FieldStore) (bool, string) {
	return func(c *an.Ctx, fs an.FieldStore) (bool, string) {
		got := an.Expr(fs.Store.Val)
		if got == val {
			return true, "stores " + val
		}
		return false, "expected the constant " + val + " to be stored, found " + got
	}
}

// isModuleNonTest reports whether fn is in the module (test files are never loaded).
func relPkg(fn *ssa.Function) string {
	fn = an.OuterFn(fn)
	if fn.Pkg == nil {
		return ""
	}
	return strings.TrimPrefix(strings.TrimPrefix(fn.Pkg.Pkg.Path(), an.ModPath), "/")
}

// switchCases collects, for `switch tag { case A, B: ... }` statements inside a function
// declaration, the constant values (as types.Object names) of each case clause.
func caseNames(info *types.Info, cc *ast.CaseClause) []string {
	var out []string
	for _, e := range cc.List {
		out = append(out, exprName(info, e))
	}
	return out
}

func exprName(info *types.Info, e ast.Expr) string {
	switch x := e.(type) {
	case *ast.SelectorExpr:
		return x.Sel.Name
	case *ast.Ident:
		return x.Name
	case *ast.BasicLit:
		return x.Value
	}
	return types.ExprString(e)
}

func sortedKeys[M ~map[string]V, V any](m M) []string {
	out := make([]string, 0, len(m))
	for k := range m {
		out = append(out, k)
	}
	sort.Strings(out)
	return out
}

// intConstArg returns the integer constant passed as argument i of a call.
func intConstArg(call *ssa.CallCommon, i int) (int64, bool) {
	if i >= len(call.Args) {
		return 0, false
	}
	c, ok := call.Args[i].(*ssa.Const)
	if !ok || c.Value == nil || c.Value.Kind() != constant.Int {
		return 0, false
	}
	v, ok := constant.Int64Val(c.Value)
	return v, ok
}

// factFieldKilled checks that no instruction between the guard that established
// atom a and the target may write the field named by the atom's access path.
func guardStillValid(c *an.Ctx, a an.Atom, target ssa.Instruction, pkgRel, typ, field string) (bool, string) {
	if a.If == nil {
		return true, ""
	}
	n := c.P.LookupType(pkgRel, typ)
	if n == nil {
		return false, "type " + typ + " not found"
	}
	st, ok := n.Underlying().(*types.Struct)
	if !ok {
		return false, "not a struct"
	}
	var fv *types.Var
	for i := 0; i < st.NumFields(); i++ {
		if st.Field(i).Name() == field {
			fv = st.Field(i)
		}
	}
	if fv == nil {
		return false, "field " + field + " not found"
	}
	if w := c.P.WriterBetween(a.If, target, fv); w != nil {
		return false, fmt.Sprintf("%s may be written between the guard and the use, at %s", field, c.P.Position(w.Pos()))
	}
	return true, ""
}

// onlyCalledFrom: every static call site of fn lies in one of the named functions (or in helpers for which
// the same holds); fn must not be exported, address-taken or an interface method implementation used dynamically.
func onlyCalledFrom(c *an.Ctx, fn *ssa.Function, owners []string, depth int) bool {
	if depth > 3 || fn == nil {
		return false
	}
	isOwner := func(n string) bool {
		for _, o := range owners {
			if o == n {
				return true
			}
		}
		return false
	}
	n := 0
	ok := true
	cg := c.P.CallGraph()
	node := cg.Nodes[fn]
	if node == nil {
		return false
	}
	for _, e := range node.In {
		if !c.P.InModule(e.Caller.Func) {
			return false
		}
		n++
		caller := an.RelName(an.OuterFn(e.Caller.Func))
		if isOwner(caller) {
			continue
		}
		if !onlyCalledFrom(c, an.OuterFn(e.Caller.Func), owners, depth+1) {
			ok = false
		}
	}
	return ok && n > 0
}

// foreignGuards returns the dominating guard atoms that speak about something outside the
// given vocabulary (substrings of access paths).  A guard on a foreign path means there are
// states in which the guarded effect silently does not happen; at the sites where this
// helper is used the property fixes exactly which state may decide.
func foreignGuards(f an.Facts, vocabulary ...string) []string {
	var out []string
	for _, a := range f {
		ok := false
		for _, v := range vocabulary {
			if strings.Contains(a.L, v) {
				ok = true
			}
		}
		if !ok {
			out = append(out, tempName.ReplaceAllString(a.String(), ""))
		}
	}
	return out
}

// whoMayRead checks that every load of pkg.typ.field over the whole module lies in one of the
// allowed functions (RelName -> reason).  Flow-control state that is consulted anywhere else
// changes what "allow"/"skip" mean.
func whoMayRead(c *an.Ctx, rule, pkgRel, typ, field string, allowed map[string]string, min int) {
	n := 0
	seen := map[string]int{}
	full := an.ModPath + "/" + pkgRel
	for _, fn := range c.P.ModFuncs {
		rp := relPkg(fn)
		if strings.HasPrefix(rp, "testing") || strings.HasPrefix(rp, "examples") {
			continue
		}
		an.Instrs(fn, func(in ssa.Instruction) {
			u, ok := in.(*ssa.UnOp)
			if !ok || u.Op != token.MUL || !an.IsFieldAddrOf(u.X, full, typ, field) {
				return
			}
			n++
			name := an.RelName(an.OuterFn(fn))
			seen[name]++
			if seen[name] > 1 {
				return // one obligation per reading function
			}
			key := fmt.Sprintf("read of %s.%s in %s", typ, field, name)
			c.FuncsAnalysed[fn] = true
			if why, ok := allowed[name]; ok {
				c.Ok(rule, key, in.Pos(), "allowed reader: "+why)
			} else {
				c.Bad(rule, key, in.Pos(), fmt.Sprintf("%s.%s is consulted outside the rule loop (allowed readers: %s): the flow-control state then changes behaviour it is not documented to change", typ, field, strings.Join(sortedKeys2(allowed), ", ")))
			}
		})
	}
	c.MinCount(rule, "reads of "+typ+"."+field, n, min)
}

func sortedKeys2(m map[string]string) []string {
	var ks []string
	for k := range m {
		ks = append(ks, shortFn(k))
	}
	sort.Strings(ks)
	return ks
}

// txEngine reports whether the facts contain `<tx>.RuleEngine op val` about the *transaction's* engine mode.
// The WAF-wide setting (tx.WAF.RuleEngine) is a different location: a transaction's mode can be changed by
// ctl:ruleEngine, and every run-time decision has to follow the transaction's.
func txEngine(f an.Facts, op, val string) bool {
	for _, a := range f {
		if strings.HasSuffix(a.L, ".RuleEngine") && !strings.Contains(a.L, ".WAF.") && a.Op == op && a.R == val {
			return true
		}
	}
	return false
}

// leafVal is one value an expression can take, with the facts under which it takes it.
type leafVal struct {
	V ssa.Value
	F an.Facts
}

// leavesOf resolves v to the values it can stand for: phis are followed edge by edge (with the facts of the edge
// the operand comes in on), and a call of a private helper of the module with a single result is replaced by the
// values the helper returns (with the facts of the returning block).  Rules that decide "which value reaches
// this field under which condition" use it so that a named result, an if/else assignment, two return statements
// and an extracted helper all read the same.
func leavesOf(v ssa.Value, f an.Facts, depth int) []leafVal {
	if depth > 6 {
		return []leafVal{{v, f}}
	}
	switch x := v.(type) {
	case *ssa.Phi:
		var out []leafVal
		for i, e := range x.Edges {
			pred := x.Block().Preds[i]
			si := 0
			for k, sc := range pred.Succs {
				if sc == x.Block() {
					si = k
				}
			}
			out = append(out, leavesOf(e, append(append(an.Facts{}, f...), an.EdgeFacts(pred, si)...), depth+1)...)
		}
		return out
	case *ssa.Extract:
		// one result of a private helper returning several values (`return tx.evalBodyPhase()`)
		call, ok := x.Tuple.(*ssa.Call)
		if !ok {
			return []leafVal{{v, f}}
		}
		h := call.Call.StaticCallee()
		if h == nil || call.Call.IsInvoke() || len(h.Blocks) == 0 || h.Pkg == nil || !strings.HasPrefix(h.Pkg.Pkg.Path(), an.ModPath) || token.IsExported(h.Name()) {
			return []leafVal{{v, f}}
		}
		var out []leafVal
		an.Instrs(h, func(in ssa.Instruction) {
			if r, ok := in.(*ssa.Return); ok && x.Index < len(r.Results) {
				out = append(out, leavesOf(r.Results[x.Index], append(append(an.Facts{}, f...), an.FactsAtBlock(r.Block())...), depth+1)...)
			}
		})
		if len(out) == 0 {
			return []leafVal{{v, f}}
		}
		return out
	case *ssa.Call:
		h := x.Call.StaticCallee()
		if h == nil || x.Call.IsInvoke() || len(h.Blocks) == 0 || h.Pkg == nil || !strings.HasPrefix(h.Pkg.Pkg.Path(), an.ModPath) || token.IsExported(h.Name()) || h.Signature.Results().Len() != 1 {
			return []leafVal{{v, f}}
		}
		var out []leafVal
		an.Instrs(h, func(in ssa.Instruction) {
			if r, ok := in.(*ssa.Return); ok && len(r.Results) == 1 {
				out = append(out, leavesOf(r.Results[0], append(append(an.Facts{}, f...), an.FactsAtBlock(r.Block())...), depth+1)...)
			}
		})
		if len(out) == 0 {
			return []leafVal{{v, f}}
		}
		return out
	}
	return []leafVal{{v, f}}
}

// privateCallees lists the unexported functions and methods of package pkgRel (with a body, not closures) that fn
// calls directly: the helpers a maintainer may have moved part of fn into.
func privateCallees(fn *ssa.Function, pkgRel string) []*ssa.Function {
	var out []*ssa.Function
	seen := map[*ssa.Function]bool{}
	an.Instrs(fn, func(in ssa.Instruction) {
		cc := an.CallOf(in)
		if cc == nil || cc.StaticCallee() == nil {
			return
		}
		h := cc.StaticCallee()
		if h == fn || seen[h] || relPkg(h) != pkgRel || len(h.Blocks) == 0 || token.IsExported(h.Name()) || h.Parent() != nil {
			return
		}
		seen[h] = true
		out = append(out, h)
	})
	return out
}

// callsThrough: x calls target directly, or calls a private helper of the module every path of which (to any of
// its returns) calls target.
func callsThrough(x ssa.Instruction, target *ssa.Function) bool {
	if an.IsCallTo(x, target) {
		return true
	}
	cc := an.CallOf(x)
	if cc == nil || cc.StaticCallee() == nil {
		return false
	}
	h := cc.StaticCallee()
	if h == target || len(h.Blocks) == 0 || h.Pkg == nil || !strings.HasPrefix(h.Pkg.Pkg.Path(), an.ModPath) || token.IsExported(h.Name()) {
		return false
	}
	has := false
	an.Instrs(h, func(y ssa.Instruction) {
		if an.IsCallTo(y, target) {
			has = true
		}
	})
	if !has {
		return false
	}
	return an.FindPath(an.PathQuery{Fn: h, Stop: func(y ssa.Instruction) bool { return an.IsCallTo(y, target) }, Target: an.IsReturn}) == nil
}
