package props

import (
	"fmt"
	"go/token"
	"sort"
	"strings"

	"czcheck/an"

	"golang.org/x/tools/go/ssa"
)

func init() {
	register(&Property{
		ID:    "C17",
		Title: "Rule exclusions and updates equal the rewritten rule set",
		Explanation: "Decides the update/removal mechanism, not the semantic equivalence of two configurations: R1 the directives that take a list of ids or ranges process the whole list (inside the list loop only failures return); " +
			"R2 no update is applied to a copy: a rule (or range, or target) copied out of its container is neither handed by address to updating code nor modified and dropped without being written back (copy-loss analysis over every module function); " +
			"R3 the removal helpers are nil-safe (C07.R3) and order preserving (C01.R5); R4 run-time exclusions: the per-transaction lists are reset for every transaction, written only by the Transaction helpers, consulted before each rule (C08.R4), keyed by the parent id for chain members, and ctl handlers visit every rule of the group; " +
			"R5 removal predicates: DeleteByRange and the run-time range test are inclusive at both ends, DeleteByTag/ByMsg keep exactly the non-matching rules, ClearDisruptiveActions filters by the disruptive type only, and target exceptions are attached to every occurrence of the variable; R6 the mutators of the rule container agree on the state they maintain (every function that changes RuleGroup.rules writes the same set of RuleGroup fields, so an index or cache over the rules cannot be kept current by some removal paths and forgotten by others), and the helper used by action updates (ClearDisruptiveActions) writes nothing but the action list (status, metadata and transformations of the rule survive an update); rules selected by tag are updated where they were found, never through an id lookup. R1 also: within one iteration of the id loop of SecRuleUpdateActionById/TargetById no path passes two application sites (one update per id or range written). R5 also: Macro.String returns the field compile stores from its input (the text by-message removals compare).",
		NotDecided: []string{
			"semantic equivalence of the updated and the rewritten configuration over all requests",
			"parsing of the id/range/target syntax itself (C16)",
		},
		Run: runC17,
	})
}

func runC17(c *an.Ctx) {
	r7OneApplicationPerToken(c, "R1")
	r7MacroString(c, "R5")
	// ---- R1 whole list processed
	for _, name := range []string{"directiveSecRuleUpdateTargetByID", "directiveSecRuleUpdateActionByID", "directiveSecRuleRemoveByID"} {
		fn := c.Fn("R1", "internal/seclang."+name)
		if fn == nil {
			continue
		}
		errIdx := an.ErrorIndex(fn.Signature)
		var listLoop *an.LoopInfo
		for _, li := range an.Loops(fn) {
			li := li
			if strings.Contains(li.Over, "strings.Fields(options.Opts)") && (listLoop == nil || len(li.Loop.Blocks) > len(listLoop.Loop.Blocks)) {
				listLoop = &li
			}
		}
		if listLoop == nil {
			c.Bad("R1", name+": iterates the id list", fn.Pos(), "no loop over strings.Fields(options.Opts) found: the directive does not walk its id list")
			continue
		}
		n, bad := 0, 0
		var bodyEntry *ssa.BasicBlock
		for _, sb := range listLoop.Loop.Header.Succs {
			if listLoop.Loop.Blocks[sb] {
				bodyEntry = sb
			}
		}
		for _, b := range fn.Blocks {
			// a return "inside the loop" sits in a block dominated by the loop body's entry
			if bodyEntry == nil || !(b == bodyEntry || bodyEntry.Dominates(b)) {
				continue
			}
			for _, in := range b.Instrs {
				r, ok := in.(*ssa.Return)
				if !ok {
					continue
				}
				n++
				if an.ReturnMayBeNilError(r, errIdx) {
					bad++
					c.Bad("R1", fmt.Sprintf("%s: return #%d inside the id loop is a failure", name, n), r.Pos(),
						"the directive can return success from inside the loop over its ids/ranges: the remaining ids of the list are never processed ("+tempName.ReplaceAllString(an.Expr(r.Results[errIdx]), "")+" may be nil)")
				}
			}
		}
		if bad == 0 {
			c.Ok("R1", name+": only failures leave the id loop", fn.Pos(), fmt.Sprintf("%d returns inside the loop, all with a non-nil error", n))
		}
	}

	// ---- R2 no update through a copy
	nFn := 0
	for _, fn := range c.P.ModFuncs {
		rp := relPkg(fn)
		if strings.HasPrefix(rp, "testing") || strings.HasPrefix(rp, "examples") || strings.HasSuffix(rp, "/generator") {
			continue
		}
		nFn++
		seen := map[string]int{}
		for _, l := range an.RangeCopyLosses(fn) {
			k := fmt.Sprintf("copy %s of an element of %s in %s", l.Alloc.Comment, tempName.ReplaceAllString(l.Source, ""), an.RelName(fn))
			seen[k]++
			key := k
			if seen[k] > 1 {
				key += fmt.Sprintf("#%d", seen[k])
			}
			c.FuncsAnalysed[fn] = true
			c.Bad("R2", key, l.At.Pos(), "an element is copied out of "+tempName.ReplaceAllString(l.Source, "")+" and "+l.Kind+": the stored element is never updated, so the update/exclusion is silently lost")
		}
	}
	c.OkTrivial("R2", "copy-loss scan", 0, fmt.Sprintf("%d functions scanned for element copies that are updated but not written back", nFn))
	// the by-id helpers update the stored rule: FindByID returns a pointer into the slice
	if fb := c.Fn("R2", "internal/corazawaf.(*RuleGroup).FindByID"); fb != nil {
		ok := false
		an.Instrs(fb, func(in ssa.Instruction) {
			if r, isR := in.(*ssa.Return); isR && len(r.Results) == 1 {
				if ia, isIA := r.Results[0].(*ssa.IndexAddr); isIA && strings.HasSuffix(an.Expr(ia.X), ".rules") {
					ok = true
				}
			}
		})
		c.Check(ok, "R2", "FindByID returns the stored rule, not a copy", fb.Pos(), "&rg.rules[i]", "FindByID returns the address of a copy: updates by id do not reach the rule group")
	}
	if gr := c.Fn("R2", "internal/corazawaf.(*RuleGroup).GetRules"); gr != nil {
		ok := false
		an.Instrs(gr, func(in ssa.Instruction) {
			if r, isR := in.(*ssa.Return); isR && len(r.Results) == 1 && an.Expr(r.Results[0]) == "rg.rules" {
				ok = true
			}
		})
		c.Check(ok, "R2", "GetRules exposes the stored slice", gr.Pos(), "returns rg.rules", "GetRules returns a copy of the rule slice: range/tag updates index a copy")
	}

	// ---- R4 run-time lists
	if nt := c.Fn("R4", "internal/corazawaf.(*WAF).newTransaction"); nt != nil {
		for _, fld := range []string{"ruleRemoveByID", "ruleRemoveByIDRanges", "ruleRemoveTargetByID"} {
			fld := fld
			w := an.FindPath(an.PathQuery{Fn: nt, Target: an.IsReturn, Stop: func(in ssa.Instruction) bool {
				st, ok := an.StoreToField(in, fullWAF, "Transaction", fld)
				if !ok {
					return false
				}
				e := an.Expr(st.Val)
				return e == "nil" || strings.HasPrefix(e, "make(")
			}})
			c.Check(w == nil, "R4", "newTransaction empties Transaction."+fld, nt.Pos(), "reset to an empty value on every path", "a recycled transaction can keep the previous transaction's "+fld+": a ctl exclusion would act on another transaction")
		}
	}
	whoMayWrite(c, "R4", pkgWAF, "Transaction", "ruleRemoveByID", []storeRule{
		{fn: "internal/corazawaf.(*Transaction).RemoveRuleByID", why: "ctl:ruleRemoveById / ByTag / ByMsg"},
		{fn: "internal/corazawaf.(*WAF).newTransaction", why: "reset", check: storesConst("nil")},
	})
	whoMayWrite(c, "R4", pkgWAF, "Transaction", "ruleRemoveByIDRanges", []storeRule{
		{fn: "internal/corazawaf.(*Transaction).RemoveRuleByIDRange", why: "ctl:ruleRemoveById range"},
		{fn: "internal/corazawaf.(*WAF).newTransaction", why: "reset", check: storesConst("nil")},
	})
	if rr := c.Fn("R4", "internal/corazawaf.(*Transaction).RemoveRuleByIDRange"); rr != nil {
		an.Instrs(rr, func(in ssa.Instruction) {
			if an.IsBuiltinCall(in, "append") {
				hasS, hasE := false, false
				for d := range an.Deps(an.CallOf(in).Args[1]) {
					if p, ok := d.(*ssa.Parameter); ok {
						hasS = hasS || p.Name() == "start"
						hasE = hasE || p.Name() == "end"
					}
				}
				c.Check(hasS && hasE, "R4", "RemoveRuleByIDRange stores [start,end]", in.Pos(), "the appended element is built from both parameters", "the recorded range is not built from start and end")
			}
		})
	}
	if rt := c.Fn("R4", "internal/corazawaf.(*Transaction).RemoveRuleTargetByID"); rt != nil {
		w := an.FindPath(an.PathQuery{Fn: rt, Target: an.IsReturn, Stop: func(in ssa.Instruction) bool {
			mu, ok := in.(*ssa.MapUpdate)
			return ok && an.Expr(mu.Map) == "tx.ruleRemoveTargetByID" && an.Expr(mu.Key) == "id"
		}})
		if c.P.Cfg.Name == "multiphase" && w != nil {
			// the multiphase build splits ARGS/ARGS_NAMES in a switch without default that is guarded by
			// `variable == Args || variable == ArgsNames`; the fall-through path is infeasible but not prunable by dominance facts
			n := 0
			an.Instrs(rt, func(in ssa.Instruction) {
				if mu, ok := in.(*ssa.MapUpdate); ok && an.Expr(mu.Map) == "tx.ruleRemoveTargetByID" && an.Expr(mu.Key) == "id" {
					n++
				}
			})
			c.Check(n >= 5, "R4", "RemoveRuleTargetByID records the exclusion under the given id", rt.Pos(), fmt.Sprintf("%d map updates (multiphase split)", n), "RemoveRuleTargetByID lost map updates in the multiphase split")
		} else {
			c.Check(w == nil, "R4", "RemoveRuleTargetByID records the exclusion under the given id", rt.Pos(), "map updated on every path", "RemoveRuleTargetByID can return without recording the target exclusion")
		}
	}
	// doEvaluate looks the exclusions up by the rule's id, or the parent's for chain members
	if de := c.Fn("R4", "internal/corazawaf.(*Rule).doEvaluate"); de != nil {
		ok := false
		an.Instrs(de, func(in ssa.Instruction) {
			if lk, isL := in.(*ssa.Lookup); isL && an.Expr(lk.X) == "tx.ruleRemoveTargetByID" {
				e := tempName.ReplaceAllString(an.Expr(lk.Index), "")
				if strings.Contains(e, "r.RuleMetadata.ID_") && strings.Contains(e, "r.RuleMetadata.ParentID_") {
					ok = true
				}
			}
		})
		c.Check(ok, "R4", "doEvaluate looks target exclusions up by id with the parent-id fallback", de.Pos(), "ruleRemoveTargetByID[φ(ID_|ParentID_)]", "target exclusions are not looked up under the rule id with the ParentID_ fallback for chain members")
	}
	// ctl handlers walk the whole rule list
	if ev := c.Fn("R4", "internal/actions.(*ctlFn).Evaluate"); ev != nil {
		n := 0
		for _, li := range an.Loops(ev) {
			if !strings.Contains(li.Over, "GetRules()") && !strings.Contains(li.Over, ".rules") {
				continue
			}
			n++
			c.Check(!li.EarlyExit, "R4", fmt.Sprintf("ctl: rule loop #%d visits every rule", n), li.Pos.Pos(), "no early exit", "a ctl handler stops walking the rule list early: rules after the first hit keep their targets / stay enabled")
		}
		c.MinCount("R4", "rule loops in ctl.Evaluate", n, 3)
		// the range form is inclusive
		okIncl := false
		for _, b := range ev.Blocks {
			f := an.FactsAtBlock(b)
			if f.HasSuffix(".ID_", ">=", "actions.parseIDOrRange(a.value)#0") && f.HasSuffix(".ID_", "<=", "actions.parseIDOrRange(a.value)#1") {
				okIncl = true
			}
		}
		c.Check(okIncl, "R4", "ctl:ruleRemoveTargetById range is inclusive", ev.Pos(), "start <= id <= end", "the id range test of ctl:ruleRemoveTargetById is not start <= id <= end")
	}

	// ---- R6 mutators keep to their state
	c17WriteSets(c)
	// every member of a chain carries the id of the chain *starter*: per-transaction exclusions are stored under the
	// starter's id and looked up through ParentID_, so a member that inherits from the previous link (id 0) is
	// never reached by ctl:ruleRemoveTargetById and friends
	if pr := c.Fn("R4", "internal/seclang.ParseRule"); pr != nil {
		nP := 0
		an.Instrs(pr, func(in ssa.Instruction) {
			st, ok := in.(*ssa.Store)
			if !ok {
				return
			}
			fv := an.FieldVar(st.Addr)
			if fv == nil || fv.Name() != "ParentID_" {
				return
			}
			nP++
			// the value is the ID_ of what getLastRuleExpectingChain returned (the last top-level rule), not of a
			// value reached by walking .Chain
			okV := false
			e := tempName.ReplaceAllString(an.Expr(st.Val), "")
			for d := range an.Deps(st.Val) {
				if call, ok := d.(*ssa.Call); ok && call.Call.StaticCallee() != nil && call.Call.StaticCallee().Name() == "getLastRuleExpectingChain" {
					okV = true
				}
			}
			if strings.Contains(e, ".Chain") || strings.Contains(e, "φ(") {
				okV = false
			}
			// structurally: load of (<result of getLastRuleExpectingChain>).ID_, with nothing (no loop-carried
			// "last link" variable) in between
			if u, ok := st.Val.(*ssa.UnOp); ok {
				if fa, ok := u.X.(*ssa.FieldAddr); ok {
					base := fa.X
					// through embedded RuleMetadata
					if fa2, ok := base.(*ssa.FieldAddr); ok {
						base = fa2.X
					}
					if _, isCall := base.(*ssa.Call); !isCall {
						okV = false
					}
				}
			}
			c.Check(okV && strings.HasSuffix(e, ".ID_"), "R4", "chain members inherit ParentID_ from the chain starter", st.Pos(), e,
				"a chain member's ParentID_ is taken from "+e+" rather than from the chain starter: from the third rule of a chain on it is 0, so run-time exclusions stored under the starter's id never apply to those members")
		})
		c.MinCount("R4", "stores of ParentID_ in ParseRule", nP, 1)
	}
	// a rule selected by tag or message is updated where it was found: ids are optional (and 0 for every marker),
	// so looking the rule up again by its id can land on another rule
	for _, dn := range []string{"directiveSecRuleUpdateTargetByTag", "directiveSecRuleUpdateTargetByMsg", "directiveSecRuleUpdateActionByTag", "directiveSecRuleUpdateActionByMsg"} {
		fn := c.FnOpt("internal/seclang." + dn)
		if fn == nil {
			continue
		}
		via := ""
		for f := range c.P.Reachable(fn) {
			if relPkg(f) != "internal/seclang" && relPkg(f) != "internal/corazawaf" {
				continue
			}
			if f.Name() == "FindByID" && relPkg(f) == "internal/corazawaf" {
				via = an.RelName(f)
			}
		}
		c.Check(via == "", "R6", dn+" updates the rules it selected, without an id lookup", fn.Pos(), "FindByID is not reachable from it",
			dn+" reaches "+via+": the rule found by tag/message is looked up again by its id, and for rules without an id (or sharing id 0 with every SecMarker) the update lands on the first rule with that id instead")
	}

	// ---- R5 removal predicates
	if dr := c.Fn("R5", "internal/corazawaf.(*RuleGroup).DeleteByRange"); dr != nil {
		got := keepConditions(dr)
		c.Check(len(got) == 2 && strings.HasSuffix(got[0], ".ID_ < start") && strings.HasSuffix(got[1], ".ID_ > end"), "R5", "DeleteByRange keeps exactly the ids outside [start,end]", dr.Pos(), strings.Join(got, " | "),
			"DeleteByRange keeps a rule when: "+strings.Join(got, " | ")+" (expected id < start | id > end, i.e. the range is removed inclusively)")
	}
	if dt := c.Fn("R5", "internal/corazawaf.(*RuleGroup).DeleteByTag"); dt != nil {
		got := keepConditions(dt)
		c.Check(len(got) == 1 && strings.Contains(got[0], "InSlice(tag,") && strings.HasSuffix(got[0], "== false"), "R5", "DeleteByTag keeps exactly the rules without the tag", dt.Pos(), strings.Join(got, " | "), "DeleteByTag keeps a rule when: "+strings.Join(got, " | "))
	}
	if dm := c.Fn("R5", "internal/corazawaf.(*RuleGroup).DeleteByMsg"); dm != nil {
		got := keepConditions(dm)
		ok := len(got) == 2 && strings.HasSuffix(got[0], ".Msg == nil") && strings.Contains(got[1], ".Msg.String() != msg")
		c.Check(ok, "R5", "DeleteByMsg keeps exactly the rules with another (or no) message", dm.Pos(), strings.Join(got, " | "), "DeleteByMsg keeps a rule when: "+strings.Join(got, " | "))
	}
	if di := c.Fn("R5", "internal/corazawaf.(*RuleGroup).DeleteByID"); di != nil {
		ok := false
		for _, b := range di.Blocks {
			if an.FactsAtBlock(b).HasSuffix(".ID_", "==", "id") {
				for _, in := range b.Instrs {
					if an.IsBuiltinCall(in, "append") {
						ok = true
					}
				}
			}
		}
		c.Check(ok, "R5", "DeleteByID removes the rule with the given id", di.Pos(), "splice under ID_ == id", "DeleteByID does not splice the rule under ID_ == id")
	}
	if cd := c.Fn("R5", "internal/corazawaf.(*Rule).ClearDisruptiveActions"); cd != nil {
		disr := constVal(c, "R5", "experimental/plugins/plugintypes", "ActionTypeDisruptive")
		got := keepConditions(cd)
		ok := len(got) == 1 && strings.Contains(got[0], ".Function.Type() != "+disr)
		c.Check(ok, "R5", "ClearDisruptiveActions drops exactly the disruptive actions", cd.Pos(), strings.Join(got, " | "), "ClearDisruptiveActions keeps an action when: "+strings.Join(got, " | "))
	}
	// exceptions are attached to every occurrence of the variable (shared with C01.R8)
	if av := c.Fn("R5", "internal/corazawaf.(*Rule).AddVariableNegation"); av != nil {
		for i, li := range an.Loops(av) {
			c.Check(!li.EarlyExit, "R5", fmt.Sprintf("AddVariableNegation: loop #%d visits every target", i+1), li.Pos.Pos(), "no early exit", "the exclusion is attached to the first matching target only")
		}
	}
}

// keepConditions: for filter functions of the form `for x := range xs { if cond { kept = append(kept, x) } }`
// returns the conditions of the edges entering the block that appends.
func keepConditions(fn *ssa.Function) []string {
	var out []string
	for _, b := range fn.Blocks {
		isKeep := false
		for _, in := range b.Instrs {
			if an.IsBuiltinCall(in, "append") {
				isKeep = true
			}
		}
		if !isKeep || an.InnermostLoop(b) == nil {
			continue
		}
		for _, p := range b.Preds {
			ifi, ok := p.Instrs[len(p.Instrs)-1].(*ssa.If)
			if !ok {
				out = append(out, "unconditional")
				continue
			}
			truth := p.Succs[0] == b
			if exp, ok := expandBoolHelper(ifi.Cond, truth); ok {
				out = append(out, exp...)
				continue
			}
			for _, a := range an.CondAtoms(ifi.Cond, truth) {
				out = append(out, tempName.ReplaceAllString(a.String(), ""))
			}
		}
	}
	sort.Strings(out)
	return out
}

// c17WriteSets: sibling agreement of the RuleGroup mutators and the frozen effect of ClearDisruptiveActions.
func c17WriteSets(c *an.Ctx) {
	type ws struct {
		fn  *ssa.Function
		set []string
	}
	var muts []ws
	for _, fn := range methodsOf(c, "internal/corazawaf", "RuleGroup") {
		set := receiverWriteSet(fn)
		for _, f := range set {
			if f == "rules" {
				muts = append(muts, ws{fn, set})
			}
		}
	}
	c.MinCount("R6", "functions changing RuleGroup.rules", len(muts), 5)
	// the union of what the mutators write besides the rule list is the derived state
	derived := map[string][]string{}
	for _, m := range muts {
		for _, f := range m.set {
			if f != "rules" {
				derived[f] = append(derived[f], m.fn.Name())
			}
		}
	}
	for _, m := range muts {
		c.FuncsAnalysed[m.fn] = true
		var missing []string
		for f, by := range derived {
			has := false
			for _, x := range m.set {
				if x == f {
					has = true
				}
			}
			if !has {
				missing = append(missing, f+" (maintained by "+strings.Join(by, ", ")+")")
			}
		}
		sort.Strings(missing)
		c.Check(len(missing) == 0, "R6", "RuleGroup."+m.fn.Name()+" maintains the same state as the other rule-list mutators", m.fn.Pos(),
			"writes "+strings.Join(m.set, ", "),
			"this function changes the rule list but does not update "+strings.Join(missing, "; ")+": after it ran, the derived state describes rules that are gone (or lacks ones that exist), e.g. a removed rule id stays 'in use'")
	}
	if cd := c.Fn("R6", "internal/corazawaf.(*Rule).ClearDisruptiveActions"); cd != nil {
		set := receiverWriteSet(cd)
		c.Check(len(set) == 1 && set[0] == "actions", "R6", "ClearDisruptiveActions writes only the action list", cd.Pos(), "writes "+strings.Join(set, ", "),
			"ClearDisruptiveActions writes "+strings.Join(set, ", ")+": an action update also changes other properties of the rule (e.g. its status), unlike the same rule written with the new actions")
	}
}

// expandBoolHelper: cond is (the negation of) a call to a private bool function of the module with a body;
// returns the conditions under which that function answers `truth`: for a constant return the facts of its
// block, for a computed return the atoms of the returned expression.  This lets a keep/skip predicate that was
// extracted into a helper be read like the inline test.
func expandBoolHelper(cond ssa.Value, truth bool) ([]string, bool) {
	if u, ok := cond.(*ssa.UnOp); ok && u.Op == token.NOT {
		cond, truth = u.X, !truth
	}
	call, ok := cond.(*ssa.Call)
	if !ok || call.Call.IsInvoke() {
		return nil, false
	}
	h := call.Call.StaticCallee()
	if h == nil || len(h.Blocks) == 0 || h.Pkg == nil || !strings.HasPrefix(h.Pkg.Pkg.Path(), an.ModPath) || token.IsExported(h.Name()) {
		return nil, false
	}
	if h.Signature.Results().Len() != 1 || h.Signature.Results().At(0).Type().String() != "bool" {
		return nil, false
	}
	var out []string
	okAll := true
	an.Instrs(h, func(in ssa.Instruction) {
		r, isR := in.(*ssa.Return)
		if !isR {
			return
		}
		if cst, isC := r.Results[0].(*ssa.Const); isC {
			if (an.Expr(cst) == "true") == truth {
				for _, a := range an.FactsAtBlock(r.Block()) {
					out = append(out, tempName.ReplaceAllString(a.String(), ""))
				}
			}
			return
		}
		if _, isPhi := r.Results[0].(*ssa.Phi); isPhi {
			okAll = false
			return
		}
		for _, a := range an.CondAtoms(r.Results[0], truth) {
			out = append(out, tempName.ReplaceAllString(a.String(), ""))
		}
	})
	if !okAll || len(out) == 0 {
		return nil, false
	}
	return out, true
}
