package props

import (
	"czcheck/an"

	"golang.org/x/tools/go/ssa"
)

// evalModel locates the structural landmarks of RuleGroup.Eval.
type evalModel struct {
	fn   *ssa.Function
	call ssa.Instruction // the r.Evaluate(...) call
	loop *an.Loop        // the rule loop
}

func buildEvalModel(c *an.Ctx, rule string) *evalModel {
	fn := c.Fn(rule, "internal/corazawaf.(*RuleGroup).Eval")
	re := c.Fn(rule, "internal/corazawaf.(*Rule).Evaluate")
	if fn == nil || re == nil {
		return nil
	}
	m := &evalModel{fn: fn}
	an.Instrs(fn, func(in ssa.Instruction) {
		if an.IsCallTo(in, re) && m.call == nil {
			m.call = in
		}
	})
	if m.call == nil {
		c.Unknown(rule, "Eval: r.Evaluate call", fn.Pos(), "RuleGroup.Eval no longer calls Rule.Evaluate directly")
		return nil
	}
	m.loop = an.InnermostLoop(m.call.Block())
	if m.loop == nil {
		c.Unknown(rule, "Eval: rule loop", fn.Pos(), "r.Evaluate is not inside a loop")
		return nil
	}
	return m
}

// reachesCallSameIteration: is there a path from the start of block b to r.Evaluate that
// stays within the current iteration (does not take an edge into the loop header)?
func (m *evalModel) reachesCallSameIteration(b *ssa.BasicBlock) *an.Witness {
	return an.FindPath(an.PathQuery{
		Fn:         m.fn,
		StartBlock: b,
		Target:     func(in ssa.Instruction) bool { return in == m.call },
		PruneEdge: func(from *ssa.BasicBlock, si int) bool {
			return from.Succs[si] == m.loop.Header || !m.loop.Blocks[from.Succs[si]]
		},
	})
}

// postLoop reports whether block b lies after the rule loop (outside it and reachable from an exit).
func (m *evalModel) postLoop(b *ssa.BasicBlock) bool {
	return !m.loop.Blocks[b] && m.loop.Header.Dominates(b)
}
