package props

import (
	"czcheck/an"
	"go/token"
	"strings"

	"golang.org/x/tools/go/ssa"
)

// evalModel locates the structural landmarks of RuleGroup.Eval.
type evalModel struct {
	fn   *ssa.Function
	call ssa.Instruction // the r.Evaluate(...) call
	loop *an.Loop        // the rule loop
}

func buildEvalModel(c *an.Ctx, rule string) *evalModel {
	fn := c.Fn(rule, "internal/corazawaf.(*RuleGroup).Eval")
	re := c.Fn(rule, "internal/corazawaf.(*Rule).Evaluate")
	if fn == nil || re == nil {
		return nil
	}
	m := &evalModel{fn: fn}
	an.Instrs(fn, func(in ssa.Instruction) {
		if an.IsCallTo(in, re) && m.call == nil {
			m.call = in
		}
	})
	if m.call == nil {
		c.Unknown(rule, "Eval: r.Evaluate call", fn.Pos(), "RuleGroup.Eval no longer calls Rule.Evaluate directly")
		return nil
	}
	m.loop = an.InnermostLoop(m.call.Block())
	if m.loop == nil {
		c.Unknown(rule, "Eval: rule loop", fn.Pos(), "r.Evaluate is not inside a loop")
		return nil
	}
	return m
}

// reachesCallSameIteration: is there a path from the start of block b to r.Evaluate that
// stays within the current iteration (does not take an edge into the loop header)?
func (m *evalModel) reachesCallSameIteration(b *ssa.BasicBlock) *an.Witness {
	return an.FindPath(an.PathQuery{
		Fn:         m.fn,
		StartBlock: b,
		Target:     func(in ssa.Instruction) bool { return in == m.call },
		PruneEdge: func(from *ssa.BasicBlock, si int) bool {
			return from.Succs[si] == m.loop.Header || !m.loop.Blocks[from.Succs[si]]
		},
	})
}

// postLoop reports whether block b lies after the rule loop (outside it and reachable from an exit).
func (m *evalModel) postLoop(b *ssa.BasicBlock) bool {
	return !m.loop.Blocks[b] && m.loop.Header.Dominates(b)
}

// cacheClearedBefore: every path from fn's entry to a target instruction passes a complete emptying of
// <tx>.transformationCache — a delete loop that ranges over that very map, cannot be bypassed, skips no entry and
// has no inner exit — or a clear() of it.  skip: blocks that do not count (the rule loop itself).
func cacheClearedBefore(fn *ssa.Function, isTarget func(ssa.Instruction) bool, skip map[*ssa.BasicBlock]bool) (bool, string) {
	isCache := func(v ssa.Value) bool {
		return strings.HasSuffix(tempName.ReplaceAllString(an.Expr(v), ""), ".transformationCache")
	}
	var del ssa.Instruction
	an.Instrs(fn, func(in ssa.Instruction) {
		if an.IsBuiltinCall(in, "delete") && isCache(an.CallOf(in).Args[0]) && !skip[in.Block()] {
			del = in
		}
	})
	why := "the entries of the transformation cache are not deleted"
	if del != nil {
		l := an.InnermostLoop(del.Block())
		key := tempName.ReplaceAllString(an.Expr(an.CallOf(del).Args[1]), "")
		if l != nil && strings.Contains(key, "range(") && strings.Contains(key, ".transformationCache)") {
			w := an.FindPath(an.PathQuery{Fn: fn, Stop: func(in ssa.Instruction) bool { return in.Block() == l.Header }, Target: isTarget})
			var body *ssa.BasicBlock
			for _, sc := range l.Header.Succs {
				if l.Blocks[sc] {
					body = sc
				}
			}
			w2 := an.FindPath(an.PathQuery{Fn: fn, StartBlock: body, Stop: func(x ssa.Instruction) bool { return x == del },
				Target: func(x ssa.Instruction) bool { return x == l.Header.Instrs[0] }})
			exits := 0
			for _, e := range l.ExitEdges() {
				if e[0].(*ssa.BasicBlock) != l.Header {
					exits++
				}
			}
			if w == nil && w2 == nil && exits == 0 {
				return true, ""
			}
			why = "the clearing loop can be bypassed or skips entries"
		}
	}
	// alternative: clear(tx.transformationCache) on every path
	var clr ssa.Instruction
	an.Instrs(fn, func(in ssa.Instruction) {
		if an.IsBuiltinCall(in, "clear") && isCache(an.CallOf(in).Args[0]) && !skip[in.Block()] {
			clr = in
		}
	})
	if clr != nil {
		if w := an.FindPath(an.PathQuery{Fn: fn, Stop: func(in ssa.Instruction) bool { return in == clr }, Target: isTarget}); w == nil {
			return true, ""
		}
	}
	return false, why
}

// evalClearsCache: Eval empties the transformation cache before the first rule of the phase, itself or through a
// private helper of the package that every path to the rule loop calls and that empties the map on every path to
// its return; and the map given to r.Evaluate is the transaction's cache (directly or as that helper's result).
func evalClearsCache(m *evalModel) (cleared bool, why string, sameMap bool, arg string) {
	cleared, why = cacheClearedBefore(m.fn, func(in ssa.Instruction) bool { return in == m.call }, m.loop.Blocks)
	if !cleared {
		an.Instrs(m.fn, func(in ssa.Instruction) {
			cc := an.CallOf(in)
			if cleared || cc == nil || cc.StaticCallee() == nil || m.loop.Blocks[in.Block()] {
				return
			}
			h := cc.StaticCallee()
			if relPkg(h) != pkgWAF || token.IsExported(h.Name()) || len(h.Blocks) == 0 {
				return
			}
			if ok, _ := cacheClearedBefore(h, an.IsReturn, nil); !ok {
				return
			}
			if w := an.FindPath(an.PathQuery{Fn: m.fn, Stop: func(x ssa.Instruction) bool { return x == in }, Target: func(x ssa.Instruction) bool { return x == m.call }}); w == nil {
				cleared = true
			}
		})
	}
	a := an.CallOf(m.call).Args[3]
	arg = tempName.ReplaceAllString(an.Expr(a), "")
	sameMap = true
	for _, lf := range leavesOf(a, nil, 0) {
		if !strings.HasSuffix(tempName.ReplaceAllString(an.Expr(lf.V), ""), ".transformationCache") {
			sameMap = false
		}
	}
	return
}
