package props

import (
	"fmt"
	"go/constant"
	"go/token"
	"go/types"
	"sort"
	"strings"

	"czcheck/an"

	"golang.org/x/tools/go/ssa"
)

func init() {
	register(&Property{
		ID:    "C13",
		Title: "A WAF follows its own configuration only; pattern caching is invisible",
		Explanation: "Decides the cache-key discipline of the process-wide memoizer, not behavioural equality with an uncached build: R1 every memoize call site builds its key from a constant role prefix; call sites sharing a prefix cache the same dynamic type built by the same constructor, and distinct prefixes are pairwise prefix-free (no key of one role can equal a key of another); " +
			"R2 completeness and losslessness: every variable captured by the cached closure is derived from values the key is computed from, and reaches the key through concatenation/formatting/hashing only (not through a normalising function that maps different inputs to one key) (dependency closure over SSA operands; results of impure calls such as file reads count as sources of their own); " +
			"R3 WAF.Close releases the WAF's entries exactly once and Release deletes an entry only when its owner set is empty, under the entry lock; R6 inside the memoize package the process-wide map and the singleflight group are accessed under the caller's key itself; R7 operator factories call methods on no package-level object other than immutable compiled patterns; R5 cached objects are never mutated in place (no call of (*Regexp).Longest, the only mutating method of the cached library types); R4 the three build variants of the memoize package export the same API (each configuration type-checks, thorough tier).",
		NotDecided: []string{
			"behavioural equality with the cache compiled out",
			"that two different inputs never produce the same key suffix (separator ambiguity inside the suffix is only checked for the shapes listed in R2)",
			"eviction timing under concurrent Close/Do",
		},
		Run: runC13,
	})
}

// memoSite is one call that caches the result of a closure under a string key.
type memoSite struct {
	fn       *ssa.Function
	call     *ssa.Call
	key      ssa.Value
	closure  *ssa.Function
	binds    []ssa.Value // values bound to the closure's free variables
	prefix   string
	hasPfx   bool
	dyn      []string
	ctor     string
	relation string
}

func memoSites(c *an.Ctx) []memoSite {
	var out []memoSite
	for _, fn := range c.P.ModFuncs {
		rp := relPkg(fn)
		if rp == "internal/memoize" || strings.HasPrefix(rp, "testing") || strings.HasPrefix(rp, "examples") {
			continue
		}
		an.Instrs(fn, func(in ssa.Instruction) {
			call, ok := in.(*ssa.Call)
			if !ok {
				return
			}
			sig := call.Call.Signature()
			if sig.Results().Len() != 2 || !isAnyType(sig.Results().At(0).Type()) {
				return
			}
			args := call.Call.Args
			var key, fnArg ssa.Value
			for i, a := range args {
				if ft, ok := a.Type().Underlying().(*types.Signature); ok && ft.Params().Len() == 0 && ft.Results().Len() == 2 && isAnyType(ft.Results().At(0).Type()) {
					fnArg = a
					if i > 0 {
						key = args[i-1]
					}
				}
			}
			if fnArg == nil || key == nil {
				return
			}
			if b, ok := key.Type().Underlying().(*types.Basic); !ok || b.Kind() != types.String {
				return
			}
			// wrappers forward their own parameters: skip
			if _, isParam := fnArg.(*ssa.Parameter); isParam {
				return
			}
			s := memoSite{fn: fn, call: call, key: key}
			switch x := fnArg.(type) {
			case *ssa.MakeClosure:
				s.closure, _ = x.Fn.(*ssa.Function)
				s.binds = x.Bindings
			case *ssa.Function:
				s.closure = x
			}
			if s.closure == nil {
				return
			}
			s.prefix, s.hasPfx = keyPrefix(key)
			ts, _ := c.P.DynTypes(call)
			for _, t := range ts {
				s.dyn = append(s.dyn, types.TypeString(t, shortQualifier))
			}
			// constructor signature of the closure: the callees it uses to build the value
			var callees []string
			an.Instrs(s.closure, func(x ssa.Instruction) {
				if ci, ok := x.(ssa.CallInstruction); ok {
					if _, isB := ci.Common().Value.(*ssa.Builtin); !isB {
						callees = append(callees, an.CalleeName(ci))
					}
				}
			})
			sort.Strings(callees)
			s.ctor = strings.Join(callees, ",")
			out = append(out, s)
		})
	}
	sort.Slice(out, func(i, j int) bool { return out[i].call.Pos() < out[j].call.Pos() })
	return out
}

func isAnyType(t types.Type) bool {
	it, ok := t.Underlying().(*types.Interface)
	return ok && it.NumMethods() == 0
}

// keyPrefix: the constant role prefix of a key expression ("regexp:"+x, fmt.Sprintf("rx:%v:%s", ...)).
func keyPrefix(key ssa.Value) (string, bool) {
	switch x := key.(type) {
	case *ssa.BinOp:
		if x.Op == token.ADD {
			if c, ok := x.X.(*ssa.Const); ok && c.Value != nil && c.Value.Kind() == constant.String {
				return constant.StringVal(c.Value), true
			}
			return keyPrefix(x.X)
		}
	case *ssa.Call:
		if sc := x.Call.StaticCallee(); sc != nil && sc.Pkg != nil && sc.Pkg.Pkg.Path() == "fmt" && sc.Name() == "Sprintf" {
			if c, ok := x.Call.Args[0].(*ssa.Const); ok && c.Value != nil && c.Value.Kind() == constant.String {
				f := constant.StringVal(c.Value)
				if i := strings.IndexByte(f, '%'); i > 0 {
					return f[:i], true
				}
			}
		}
	}
	return "", false
}

func runC13(c *an.Ctx) {
	if c.P.Cfg.Name == "no_memoize" {
		// the cache is compiled out; only API agreement matters here
		c13API(c)
		return
	}
	sites := memoSites(c)
	groups := map[string][]memoSite{}
	seen := map[string]int{}
	for si, s := range sites {
		c.FuncsAnalysed[s.fn] = true
		k := "memoize site in " + an.RelName(s.fn)
		seen[k]++
		key := k
		if seen[k] > 1 {
			key += fmt.Sprintf("#%d", seen[k])
		}
		s.relation = keyRelation(s, an.Deps(s.key))
		// ---- R1 namespace
		if !s.hasPfx || !strings.HasSuffix(s.prefix, ":") && !strings.HasSuffix(s.prefix, "/") {
			c.Bad("R1", key+": key has a role prefix", s.call.Pos(), "the cache key "+tempName.ReplaceAllString(an.Expr(s.key), "")+" does not start with a constant role prefix ending in ':'; an entry cached for another role under the same text would be returned (wrong matcher or interface-conversion panic)")
		} else {
			c.Ok("R1", key+": key has a role prefix", s.call.Pos(), fmt.Sprintf("prefix %q, cached type %s", s.prefix, strings.Join(s.dyn, "|")))
			groups[s.prefix] = append(groups[s.prefix], s)
		}
		// ---- R2 completeness
		keyDeps := an.Deps(s.key)
		missing := memoMissing(s, keyDeps)
		// relation between the key's variable part and what the closure consumes
		s.relation = keyRelation(s, keyDeps)
		sites[si] = s
		sort.Strings(missing)
		if len(missing) > 0 {
			c.Bad("R2", key+": cached value determined by the key", s.call.Pos(),
				"the cached closure reads inputs the key does not depend on ("+strings.Join(missing, "; ")+"): two WAFs with equal key text but different inputs would share one cached value")
		} else {
			c.Ok("R2", key+": cached value determined by the key", s.call.Pos(), fmt.Sprintf("%d captured variables all derive from the key's operands", len(s.binds)))
		}
		// ... and the key is a lossless rendering of those inputs: an input the closure captures must reach the key
		// through concatenation / formatting / hashing only, not through a normalising function (Fields, ToLower,
		// TrimSpace ...) that maps different inputs to the same key text.
		inj := injectiveDeps(s.key)
		var lossy []string
		for i, b := range s.binds {
			if _, isC := b.(*ssa.Const); isC {
				continue
			}
			// sources that reach the captured value along a path avoiding everything the key renders losslessly
			for r := range an.RootsAvoiding(b, inj) {
				if !keyDeps[r] {
					covered := false
					for d := range keyDeps {
						if an.Expr(d) == an.Expr(r) {
							covered = true
						}
					}
					if !covered {
						continue // not in the key at all: reported by the completeness check above
					}
				}
				name := "?"
				if i < len(s.closure.FreeVars) {
					name = s.closure.FreeVars[i].Name()
				}
				lossy = append(lossy, name+" <- "+tempName.ReplaceAllString(an.Expr(r), ""))
			}
		}
		sort.Strings(lossy)
		c.Check(len(lossy) == 0, "R2", key+": key is a lossless rendering of the cached inputs", s.call.Pos(), "inputs reach the key through concatenation/formatting/hashing only",
			"the cached closure is computed from "+strings.Join(lossy, "; ")+" along a path the key does not render losslessly (the key sees that input only through a normalising function such as Fields/ToLower/Trim, the closure sees more of it): inputs that normalise to the same key text but build different values share one cache entry, so which WAF is built first decides what the others get")
	}
	c.MinCount("R1", "memoize call sites", len(sites), 9)
	// groups: same type and constructor
	var pfx []string
	for p := range groups {
		pfx = append(pfx, p)
	}
	sort.Strings(pfx)
	for _, p := range pfx {
		g := groups[p]
		okT, okC := true, true
		for _, s := range g[1:] {
			if strings.Join(s.dyn, "|") != strings.Join(g[0].dyn, "|") {
				okT = false
			}
			if s.ctor != g[0].ctor {
				okC = false
			}
		}
		c.Check(okT, "R1", fmt.Sprintf("prefix %q: one cached type", p), g[0].call.Pos(), fmt.Sprintf("%d sites cache %s", len(g), strings.Join(g[0].dyn, "|")),
			"call sites sharing the prefix cache values of different dynamic types: the later caller's type assertion panics")
		okR := true
		for _, s := range g[1:] {
			if s.relation != g[0].relation {
				okR = false
			}
		}
		var rels []string
		for _, s := range g {
			rels = append(rels, shortFn(an.RelName(s.fn))+": "+s.relation)
		}
		c.Check(okR, "R1", fmt.Sprintf("prefix %q: key and cached input related the same way at every site", p), g[0].call.Pos(), g[0].relation,
			"call sites sharing the prefix relate the key text to the cached input differently ("+strings.Join(rels, "; ")+"): equal key text does not imply equal cached input (e.g. a joined list vs. a split string)")
		c.Check(okC, "R1", fmt.Sprintf("prefix %q: one constructor", p), g[0].call.Pos(), "all sites build the value with "+g[0].ctor,
			"call sites sharing the prefix build the cached value differently: one role would receive the other's artefact")
		if len(g[0].dyn) == 0 {
			c.Bad("R1", fmt.Sprintf("prefix %q: cached type known", p), g[0].call.Pos(), "the dynamic type cached under this prefix could not be determined")
		}
	}
	for i, p := range pfx {
		for _, q := range pfx[i+1:] {
			ok := !strings.HasPrefix(p, q) && !strings.HasPrefix(q, p)
			c.Check(ok, "R1", fmt.Sprintf("prefixes %q and %q are prefix-free", p, q), token.NoPos, "no key of one role can equal a key of the other",
				"one role prefix is a prefix of the other: keys of the two roles can collide")
		}
	}
	// ---- R5 cached values are immutable: they are shared by every WAF (and every role under the same prefix),
	// so nothing may change them after construction.  The cached types are library objects (regexp, binaryregexp,
	// aho-corasick, JSON schemas) whose only mutating method is (*Regexp).Longest; it must not be called on
	// anything that comes out of the cache — simplest sound form: it is not called in the module at all.
	nLongest := 0
	for _, fn := range c.P.ModFuncs {
		rp := relPkg(fn)
		if strings.HasPrefix(rp, "testing") || strings.HasPrefix(rp, "examples") {
			continue
		}
		an.Instrs(fn, func(in ssa.Instruction) {
			cc := an.CallOf(in)
			if cc == nil || cc.StaticCallee() == nil || cc.StaticCallee().Name() != "Longest" || cc.StaticCallee().Signature.Recv() == nil {
				return
			}
			if !strings.HasSuffix(cc.StaticCallee().Signature.Recv().Type().String(), "regexp.Regexp") {
				return
			}
			nLongest++
			c.Bad("R5", "Regexp.Longest called in "+an.RelName(fn), in.Pos(), "Longest() switches a compiled regexp to leftmost-longest matching in place; compiled regexps are shared through the process-wide cache (key 'regexp:'+pattern and others), so every other WAF and every other role using the same pattern text changes behaviour")
		})
	}
	c.OkTrivial("R5", "no in-place mutation of cached library objects", token.NoPos, fmt.Sprintf("%d calls of (*Regexp).Longest in the module", nLongest))

	// ---- R6 the cache itself is keyed by the caller's key, unchanged: every Load/Store/LoadOrStore/Delete on the
	// process-wide map and every singleflight call inside the memoize package receives the `key` parameter itself
	// (a shortened, hashed or normalised key makes different inputs collide whatever the call sites do)
	nKeyed := 0
	for _, fn := range c.P.ModFuncs {
		if relPkg(fn) != "internal/memoize" {
			continue
		}
		for _, f := range an.WithClosures(fn) {
			an.Instrs(f, func(in ssa.Instruction) {
				cc := an.CallOf(in)
				if cc == nil || cc.StaticCallee() == nil || cc.StaticCallee().Signature.Recv() == nil || len(cc.Args) < 2 {
					return
				}
				rt := cc.StaticCallee().Signature.Recv().Type().String()
				isMap := strings.HasSuffix(rt, "sync.Map") && (cc.StaticCallee().Name() == "Load" || cc.StaticCallee().Name() == "Store" || cc.StaticCallee().Name() == "LoadOrStore" || cc.StaticCallee().Name() == "LoadAndDelete")
				isSF := strings.HasSuffix(rt, "singleflight.Group") && cc.StaticCallee().Name() == "Do"
				if !isMap && !isSF {
					return
				}
				// only inside functions that have a string parameter/free variable named like a key (Do and its closure)
				k := cc.Args[1]
				if mi, ok := k.(*ssa.MakeInterface); ok {
					k = mi.X
				}
				if !isStringType(k.Type()) {
					return
				}
				nKeyed++
				_, isParam := k.(*ssa.Parameter)
				_, isFree := k.(*ssa.FreeVar)
				if u, ok := k.(*ssa.UnOp); ok {
					_, isFree = u.X.(*ssa.FreeVar)
					// a parameter captured by a closure lives in a cell: new string (key); *cell = key
					if a, ok := u.X.(*ssa.Alloc); ok {
						nSt, fromParam := 0, false
						for _, r := range *a.Referrers() {
							if st, ok := r.(*ssa.Store); ok && st.Addr == ssa.Value(a) {
								nSt++
								_, fromParam = st.Val.(*ssa.Parameter)
							}
						}
						isParam = nSt == 1 && fromParam
					}
				}
				c.Check(isParam || isFree, "R6", fmt.Sprintf("memoize: %s.%s is keyed by the caller's key itself", typeBaseName(rt), cc.StaticCallee().Name()), in.Pos(), tempName.ReplaceAllString(an.Expr(k), ""),
					"the process-wide cache is accessed under "+tempName.ReplaceAllString(an.Expr(k), "")+", a value computed from the caller's key rather than the key itself: distinct keys that compute to the same value share one entry, so a WAF can be handed another WAF's compiled artefact")
			})
		}
	}
	if c.P.Cfg.Name != "tinygo" {
		c.MinCount("R6", "keyed accesses inside the memoize package", nKeyed, 3)
	}

	// ---- R7 operators keep no process-wide state of their own: what they cache goes through the memoizer (keyed,
	// owned, released).  A package-level object with internal state used while building an operator (a shared
	// schema compiler, a registry) is a second, unkeyed cache that no WAF owns.
	nGlob := 0
	for _, fn := range c.P.ModFuncs {
		if relPkg(fn) != "internal/operators" || fn.Parent() != nil && false {
			continue
		}
		outer := an.OuterFn(fn)
		if !(strings.HasPrefix(outer.Name(), "new") || strings.HasPrefix(outer.Name(), "New")) {
			continue
		}
		an.Instrs(fn, func(in ssa.Instruction) {
			cc := an.CallOf(in)
			if cc == nil || len(cc.Args) == 0 && !cc.IsInvoke() {
				return
			}
			recv := cc.Value
			if !cc.IsInvoke() {
				if cc.StaticCallee() == nil || cc.StaticCallee().Signature.Recv() == nil {
					return
				}
				recv = cc.Args[0]
			}
			u, ok := recv.(*ssa.UnOp)
			if !ok {
				return
			}
			g, ok := u.X.(*ssa.Global)
			if !ok || g.Pkg == nil || !strings.HasPrefix(g.Pkg.Pkg.Path(), an.ModPath) {
				return
			}
			nGlob++
			t := g.Type().String()
			name := g.Name()
			okT := strings.Contains(t, "regexp.Regexp") // compiled patterns are immutable (R5)
			if why, ok := c13GlobalAllow[name]; ok {
				c.Note("R7", "package-level "+name+" used by "+outer.Name(), in.Pos(), "not decided mechanically; manual argument: "+why)
				return
			}
			c.Check(okT, "R7", "package-level "+name+" used by "+outer.Name()+" is an immutable pattern", in.Pos(), t,
				"the operator factory "+outer.Name()+" calls a method on the package-level object "+name+" ("+t+"): state that object accumulates (registered schemas, caches) is shared by every WAF in the process, keyed by nothing the memoizer knows and released by no Close")
		})
	}
	c.OkTrivial("R7", "method calls on package-level objects in operator factories", token.NoPos, fmt.Sprintf("%d calls", nGlob))

	// ---- R3 release
	c13Release(c)
	c13API(c)
}

func c13Release(c *an.Ctx) {
	closeFn := c.Fn("R3", "internal/corazawaf.(*WAF).Close")
	rel := c.Fn("R3", "internal/memoize.Release")
	if closeFn == nil || rel == nil {
		return
	}
	// Release(w.memoizerID) inside closeOnce.Do
	found := false
	for _, f := range an.WithClosures(closeFn) {
		an.Instrs(f, func(in ssa.Instruction) {
			if an.IsCallTo(in, rel) {
				arg := an.Expr(an.CallOf(in).Args[0])
				if strings.HasSuffix(arg, ".memoizerID") && f != closeFn {
					found = true
				}
			}
		})
	}
	c.Check(found, "R3", "WAF.Close releases this WAF's cache entries", closeFn.Pos(), "Release(w.memoizerID) inside closeOnce.Do", "WAF.Close does not call memoize.Release(w.memoizerID) under closeOnce")
	// the memoizer's owner id equals the WAF's memoizerID
	nw := c.Fn("R3", "internal/corazawaf.NewWAF")
	if nw != nil {
		var idVal, memoArg string
		an.Instrs(nw, func(in ssa.Instruction) {
			if st, ok := an.StoreToField(in, fullWAF, "WAF", "memoizerID"); ok {
				idVal = an.Expr(st.Val)
			}
			if st, ok := an.StoreToField(in, fullWAF, "WAF", "memoizer"); ok {
				if call, ok := st.Val.(*ssa.Call); ok && len(call.Call.Args) == 1 {
					memoArg = an.Expr(call.Call.Args[0])
				}
			}
		})
		c.Check(idVal != "" && idVal == memoArg, "R3", "the memoizer registers entries under the id Close releases", nw.Pos(), "NewMemoizer(id) with memoizerID = id", fmt.Sprintf("memoizerID is %q but the memoizer is created with %q", idVal, memoArg))
	}
	if c.P.Cfg.Name == "tinygo" {
		return
	}
	// Release: delete only when owners is empty, under the entry lock
	for _, f := range an.WithClosures(rel) {
		an.Instrs(f, func(in ssa.Instruction) {
			if an.IsCallToMethod(in, "sync", "Map", "Delete") {
				facts := an.FactsAt(in)
				ok := false
				for _, a := range facts {
					if strings.Contains(a.L, ".owners)") && a.Op == "==" && a.R == "0" {
						ok = true
					}
					// a length is never negative: `!(len(owners) > 0)` says the same
					if strings.HasPrefix(a.L, "len(") && strings.Contains(a.L, ".owners)") && (a.Op == "<=" && a.R == "0" || a.Op == "<" && a.R == "1") {
						ok = true
					}
				}
				c.Check(ok, "R3", "Release deletes an entry only when no owner is left", in.Pos(), "cache.Delete under len(e.owners) == 0", "Release deletes cache entries that other WAFs still own", facts.Strings()...)
				// under lock: a Lock call dominates and the matching Unlock does not precede
				locked := false
				an.Instrs(f, func(x ssa.Instruction) {
					if an.IsCallToMethod(x, "sync", "Mutex", "Lock") && (x.Block() == in.Block() || x.Block().Dominates(in.Block())) {
						locked = true
					}
				})
				c.Check(locked, "R3", "Release works under the entry lock", in.Pos(), "e.mu.Lock() dominates the deletion", "the owner set is modified without the entry lock")
			}
		})
	}
}

// c13API: the memoize package exports the same API in this configuration.
func c13API(c *an.Ctx) {
	pk := c.P.Pkg("internal/memoize")
	if pk == nil {
		c.Unknown("R4", "memoize package present", token.NoPos, "package not loaded")
		return
	}
	want := map[string]string{"NewMemoizer": "func(ownerID uint64) *Memoizer", "Release": "func(ownerID uint64)", "Reset": "func()"}
	for _, n := range sortedKeys(want) {
		o := pk.Types.Scope().Lookup(n)
		ok := o != nil
		got := ""
		if ok {
			got = types.TypeString(o.Type(), func(*types.Package) string { return "" })
			// parameter names may differ (_), compare shapes
			ok = strings.Count(got, "uint64") == strings.Count(want[n], "uint64")
		}
		c.Check(ok, "R4", "memoize."+n+" exported with the common signature", token.NoPos, got, "memoize."+n+" missing or with another signature in this build configuration: "+got)
	}
	if mt := c.P.LookupType("internal/memoize", "Memoizer"); mt != nil {
		ms := types.NewMethodSet(types.NewPointer(mt))
		has := false
		for i := 0; i < ms.Len(); i++ {
			if ms.At(i).Obj().Name() == "Do" {
				sig := ms.At(i).Type().(*types.Signature)
				has = sig.Params().Len() == 2 && sig.Results().Len() == 2
			}
		}
		c.Check(has, "R4", "Memoizer.Do(key, fn) (any, error) present", token.NoPos, "same method set", "Memoizer.Do missing or changed in this configuration")
	}
}

// keyRelation describes how the closure's captured inputs relate to the variable part of the key:
// "same" (the captured value is the key suffix), "input=f(key)" with the functions applied, or "key=f(input)".
func keyRelation(s memoSite, keyDeps map[ssa.Value]bool) string {
	var rel []string
	for _, b := range s.binds {
		bv := b
		// captured cell -> stored value
		if al, ok := b.(*ssa.Alloc); ok {
			for _, ref := range *al.Referrers() {
				if st, ok := ref.(*ssa.Store); ok && st.Addr == ssa.Value(al) {
					bv = st.Val
				}
			}
		}
		if len(an.Roots(bv)) == 0 {
			continue // constant-configured
		}
		switch {
		case keyDeps[bv]:
			// the key is computed from the captured value: which functions lie between?
			fs := funcsBetween(s.key, bv)
			if len(fs) == 0 {
				rel = append(rel, "same")
			} else {
				rel = append(rel, "key="+strings.Join(fs, "∘")+"(input)")
			}
		default:
			fs := funcsBetweenAny(bv, keyDeps)
			rel = append(rel, "input="+strings.Join(fs, "∘")+"(key part)")
		}
	}
	sort.Strings(rel)
	return strings.Join(rel, ", ")
}

// funcsBetween lists the calls on the operand path from `from` down to `to`.
func funcsBetween(from, to ssa.Value) []string {
	var best []string
	seen := map[ssa.Value]bool{}
	var walk func(v ssa.Value, acc []string) bool
	walk = func(v ssa.Value, acc []string) bool {
		if v == to {
			best = append([]string{}, acc...)
			return true
		}
		if v == nil || seen[v] {
			return false
		}
		seen[v] = true
		in, ok := v.(ssa.Instruction)
		if !ok {
			return false
		}
		if call, isCall := v.(*ssa.Call); isCall {
			acc = append(acc, an.CalleeName(call))
		}
		for _, op := range in.Operands(nil) {
			if *op != nil && walk(*op, acc) {
				return true
			}
		}
		return false
	}
	walk(from, nil)
	return best
}

// funcsBetweenAny lists the calls from value v down to the first value the key depends on.
func funcsBetweenAny(v ssa.Value, keyDeps map[ssa.Value]bool) []string {
	var best []string
	seen := map[ssa.Value]bool{}
	var walk func(v ssa.Value, acc []string) bool
	walk = func(v ssa.Value, acc []string) bool {
		if v == nil || seen[v] {
			return false
		}
		if keyDeps[v] {
			if _, isC := v.(*ssa.Const); !isC {
				best = append([]string{}, acc...)
				return true
			}
		}
		seen[v] = true
		in, ok := v.(ssa.Instruction)
		if !ok {
			return false
		}
		if call, isCall := v.(*ssa.Call); isCall {
			acc = append(acc, an.CalleeName(call))
		}
		for _, op := range in.Operands(nil) {
			if *op != nil && walk(*op, acc) {
				return true
			}
		}
		return false
	}
	walk(v, nil)
	return best
}

// memoMissing lists captured inputs of the cached closure that the key does not depend on.
func memoMissing(s memoSite, keyDeps map[ssa.Value]bool) []string {
	var missing []string
	for i, b := range s.binds {
		if keyDeps[b] {
			continue
		}
		roots := an.Roots(b)
		for r := range roots {
			if keyDeps[r] {
				continue
			}
			covered := false
			re := an.Expr(r)
			for d := range keyDeps {
				if an.Expr(d) == re {
					covered = true
					break
				}
			}
			if !covered {
				name := "?"
				if i < len(s.closure.FreeVars) {
					name = s.closure.FreeVars[i].Name()
				}
				missing = append(missing, name+" <- "+tempName.ReplaceAllString(re, ""))
			}
		}
	}
	sort.Strings(missing)
	return missing
}

// injectiveDeps walks from the key through steps that keep distinct inputs distinct (string concatenation,
// fmt formatting, conversions, projections, phi, hashing and hex/number formatting) and returns every value
// reached, including the results of other calls (which are leaves: what happens inside them is unknown).
func injectiveDeps(key ssa.Value) map[ssa.Value]bool {
	seen := map[ssa.Value]bool{}
	var walk func(v ssa.Value)
	okCall := func(c *ssa.Call) bool {
		callee := c.Call.StaticCallee()
		if callee == nil {
			return false
		}
		if callee.Origin() != nil {
			callee = callee.Origin()
		}
		if callee.Pkg == nil {
			return false
		}
		switch callee.Pkg.Pkg.Path() {
		case "fmt":
			return strings.HasPrefix(callee.Name(), "Sprint")
		case "strconv":
			return strings.HasPrefix(callee.Name(), "Itoa") || strings.HasPrefix(callee.Name(), "Format") || strings.HasPrefix(callee.Name(), "Quote")
		case "crypto/sha256", "crypto/sha1", "crypto/md5", "crypto/sha512", "encoding/hex", "encoding/base64":
			return true
		case "strings":
			// Join is lossless when no element can contain the separator; accepted only at reviewed sites
			if callee.Name() == "Join" && c.Parent() != nil {
				_, ok := c13JoinAllow[an.RelName(c.Parent())]
				return ok
			}
		}
		// a module helper that only hashes/formats its single argument
		if strings.HasPrefix(callee.Pkg.Pkg.Path(), an.ModPath) && len(callee.Params) == 1 && callee.Signature.Results().Len() == 1 && !helperBusy[callee] {
			helperBusy[callee] = true
			defer func() { helperBusy[callee] = false }()
			ok := true
			an.Instrs(callee, func(in ssa.Instruction) {
				if r, isR := in.(*ssa.Return); isR && !injectiveDeps(r.Results[0])[callee.Params[0]] {
					ok = false
				}
			})
			if !ok {
				// streaming form: h := <crypto>.New(); h.Write(param); return hex(h.Sum(nil))
				newH, fed := false, false
				an.Instrs(callee, func(in ssa.Instruction) {
					cc := an.CallOf(in)
					if cc == nil {
						return
					}
					if sc := cc.StaticCallee(); sc != nil && sc.Pkg != nil && strings.HasPrefix(sc.Pkg.Pkg.Path(), "crypto/") && sc.Name() == "New" {
						newH = true
					}
					if cc.IsInvoke() && cc.Method.Name() == "Write" && len(cc.Args) == 1 && an.Deps(cc.Args[0])[callee.Params[0]] {
						fed = true
					}
				})
				ok = newH && fed
			}
			return ok
		}
		return false
	}
	walk = func(v ssa.Value) {
		if v == nil || seen[v] {
			return
		}
		seen[v] = true
		switch x := v.(type) {
		case *ssa.BinOp:
			if x.Op.String() == "+" {
				walk(x.X)
				walk(x.Y)
			}
		case *ssa.Convert:
			walk(x.X)
		case *ssa.ChangeType:
			walk(x.X)
		case *ssa.MakeInterface:
			walk(x.X)
		case *ssa.Phi:
			for _, e := range x.Edges {
				walk(e)
			}
		case *ssa.UnOp:
			walk(x.X)
		case *ssa.FieldAddr:
			walk(x.X)
		case *ssa.Field:
			walk(x.X)
		case *ssa.Extract:
			walk(x.Tuple)
		case *ssa.Slice:
			// a slice of a locally built array (variadic packaging) is the array; s[a:b] of data is lossy
			if a, ok := x.X.(*ssa.Alloc); ok {
				walk(a)
			}
		case *ssa.Alloc:
			for _, ref := range *x.Referrers() {
				switch r := ref.(type) {
				case *ssa.Store:
					if r.Addr == ssa.Value(x) {
						walk(r.Val)
					}
				case *ssa.IndexAddr:
					for _, r2 := range *r.Referrers() {
						if st, ok := r2.(*ssa.Store); ok && st.Addr == ssa.Value(r) {
							walk(st.Val)
						}
					}
				}
			}
		case *ssa.Call:
			if okCall(x) {
				for _, a := range x.Call.Args {
					walk(a)
				}
			}
		}
	}
	walk(key)
	return seen
}

var helperBusy = map[*ssa.Function]bool{}

// c13JoinAllow: memoize sites whose key joins a list with a separator that no element can contain.
var c13JoinAllow = map[string]string{
	"internal/operators.newPMFromFile":    "the elements are the lines of the file (split at newlines) and the separator is a newline",
	"internal/operators.newPMFromDataset": "data-set entries are the lines of a SecDataset block (split at newlines) and the separator is a newline",
}

// c13GlobalAllow: package-level objects that operator factories may call methods on, with the reason.
var c13GlobalAllow = map[string]string{}
