package props

import (
	"fmt"
	"go/ast"
	"go/token"
	"go/types"
	"sort"
	"strings"

	"czcheck/an"

	"golang.org/x/tools/go/ssa"
)

func init() {
	register(&Property{
		ID:    "C03",
		Title: "Every piece of request data is visible to rules, decoded once, never dropped",
		Explanation: "Decides the plumbing of request data into variables, not the byte-exactness of decoders: R1 the four variable tables agree (fields of TransactionVariables, the constant each constructor is given, the cases of Transaction.Collection, the entries of All): a swapped constant or a missing case would attribute data to another name or hide it; " +
			"R2 decode-once: the module's only percent-decoder is internal/url.queryUnescape, reached only through ParseQuery, whose call sites are frozen (query string, urlencoded body); ProcessURI hands the raw query to it and no net/url decoding function is applied to request data; " +
			"R3 failures are flagged: ProcessURI records a parse failure, and on every limit branch of the four body entry points the INBOUND/OUTBOUND_DATA_ERROR flag is set before returning (body-processor failures: C20.R4); R4 no silent drop at the argument limit (every path that skips the Add must set an error variable or interrupt); " +
			"R5 multi-valued carriers: ingestion never funnels name/value pairs through a single-valued map or an overwriting collection write; R6 look-ahead reads in the URL/cookie/body parsers are length-guarded (A9 shapes); " +
			"R7 ingestion loops are complete (no early exit), a query-string pair that has been split into name and value is always stored (only an empty pair is skipped, before the split), and the JSON key buffer is rewound on every path of the member callback; R8 the body processor is selected from the Content-Type header case-insensitively: every condition on the header value that leads to a reqbodyProcessor assignment looks at a case-folded form of it (media types are case-insensitive; a case-sensitive sibling leaves a whole body uninspected without any error), and the cookie parser strips optional whitespace (SP/HTAB) only. R2 also: REQUEST_URI_RAW and REQUEST_LINE are set from the uri parameter of ProcessURI as received, not from a string cut or re-assembled before.",
		NotDecided: []string{
			"byte-exactness of each decoder and of third-party parsers (mime/multipart, encoding/xml, gjson)",
			"exact values of derived variables (REQUEST_BASENAME, FILES_COMBINED_SIZE, ...)",
			"data the connector never hands to the transaction",
		},
		Run: runC03,
	})
}

func runC03(c *an.Ctx) {
	r7RawURI(c, "R2")
	c03Tables(c)
	c03DecodeOnce(c)
	c03Flags(c)
	c03ArgumentLimit(c)
	c03Carriers(c)
	lookaheadRule(c, "R6", []string{"internal/url", "internal/cookies", "internal/bodyprocessors"}, 5)
	c03Loops(c)
	c03ProcessorSelection(c)
}

// ---- R1
func c03Tables(c *an.Ctx) {
	tvT := c.P.LookupType(pkgWAF, "TransactionVariables")
	ctor := c.Fn("R1", "internal/corazawaf.NewTransactionVariables")
	coll := c.Fn("R1", "internal/corazawaf.(*Transaction).Collection")
	all := c.Fn("R1", "internal/corazawaf.(*TransactionVariables).All")
	if tvT == nil || ctor == nil || coll == nil || all == nil {
		return
	}
	constName := variableConstNames(c)
	st := tvT.Underlying().(*types.Struct)
	// constructor: field -> constant name
	ctorConst := map[string]string{}
	live := an.LiveBlocks(ctor)
	for _, b := range ctor.Blocks {
		if !live[b] {
			continue
		}
		for _, in := range b.Instrs {
			s, ok := in.(*ssa.Store)
			if !ok {
				continue
			}
			fa, ok := s.Addr.(*ssa.FieldAddr)
			if !ok || !strings.HasSuffix(fa.X.Type().String(), "corazawaf.TransactionVariables") {
				continue
			}
			if call, ok := s.Val.(*ssa.Call); ok && len(call.Call.Args) > 0 {
				// constructor New*(variables.X, ...) or base.Names(variables.X)
				for _, a := range call.Call.Args {
					if k, isC := a.(*ssa.Const); isC && k.Value != nil && strings.HasSuffix(k.Type().String(), "variables.RuleVariable") {
						ctorConst[an.FieldVar(fa).Name()] = constName[k.Int64()]
						break
					}
				}
			}
		}
	}
	// Collection: case constant -> field returned (AST: switch idx { case variables.X: return tx.variables.f })
	collCase := map[string]string{}
	if fd := c.P.Decl(coll); fd != nil {
		ast.Inspect(fd, func(n ast.Node) bool {
			cc, ok := n.(*ast.CaseClause)
			if !ok {
				return true
			}
			ret := ""
			for _, s := range cc.Body {
				if r, ok := s.(*ast.ReturnStmt); ok && len(r.Results) == 1 {
					ret = types.ExprString(r.Results[0])
				}
			}
			for _, e := range cc.List {
				collCase[exprName(nil, e)] = strings.TrimPrefix(ret, "tx.variables.")
			}
			return true
		})
	}
	// All: (constant, field) pairs
	allPairs := map[string]string{}
	an.Instrs(all, func(in ssa.Instruction) {
		cc := an.CallOf(in)
		if cc == nil || cc.IsInvoke() || cc.StaticCallee() != nil || len(cc.Args) != 2 {
			return
		}
		if k, isC := cc.Args[0].(*ssa.Const); isC {
			allPairs[strings.TrimPrefix(an.Expr(cc.Args[1]), "v.")] = constName[k.Int64()]
		}
	})
	n := 0
	for i := 0; i < st.NumFields(); i++ {
		f := st.Field(i).Name()
		n++
		want := ctorConst[f]
		if f == "xml" {
			want = "XML" // alias of requestXML by design
		}
		key := "variable field " + f
		if want == "" {
			c.Bad("R1", key+": constructed with a variable constant", ctor.Pos(), "NewTransactionVariables does not initialise TransactionVariables."+f+" with a collection labelled by a variables.* constant")
			continue
		}
		if !strings.EqualFold(want, f) {
			c.Bad("R1", key+": constructed under its own name", ctor.Pos(), "TransactionVariables."+f+" is labelled variables."+want+": its data is reported to rules and logs under another variable's name")
		} else {
			c.Ok("R1", key+": constructed under its own name", ctor.Pos(), "variables."+want)
		}
		// Collection
		got, hasCase := "", false
		for k, fld := range collCase {
			if strings.EqualFold(k, want) {
				got, hasCase = fld, true
			}
		}
		switch {
		case !hasCase:
			c.Bad("R1", key+": reachable through Collection", coll.Pos(), "Transaction.Collection has no case for variables."+want+": rules naming this variable see an empty collection")
		case got != f && !(f == "xml" && got == "xml"):
			c.Bad("R1", key+": Collection returns this field", coll.Pos(), "Collection(variables."+want+") returns tx.variables."+got+", not "+f)
		default:
			c.Ok("R1", key+": reachable through Collection", coll.Pos(), "case variables."+want+" returns the field")
		}
		// All
		if ac, ok := allPairs[f]; !ok {
			c.Bad("R1", key+": enumerated by All", all.Pos(), "All does not visit "+f)
		} else if !strings.EqualFold(ac, want) {
			c.Bad("R1", key+": All pairs it with its own constant", all.Pos(), "All visits "+f+" as variables."+ac)
		} else {
			c.Ok("R1", key+": enumerated by All", all.Pos(), "paired with variables."+ac)
		}
	}
	c.MinCount("R1", "fields of TransactionVariables", n, 80)
	// no Collection case returns a field under a foreign constant
	for _, k := range sortedKeys(collCase) {
		fld := collCase[k]
		if fld == "nil" || fld == "" || fld == "collections.Noop" {
			continue
		}
		if !strings.EqualFold(ctorConst[fld], k) && !(fld == "xml" && k == "XML") {
			c.Bad("R1", "Collection case "+k, coll.Pos(), "Collection(variables."+k+") returns tx.variables."+fld+", which is labelled variables."+ctorConst[fld])
		}
	}
}

// ---- R2
func c03DecodeOnce(c *an.Ctx) {
	qu := c.Fn("R2", "internal/url.queryUnescape")
	pq := c.Fn("R2", "internal/url.ParseQuery")
	dpq := c.Fn("R2", "internal/url.doParseQuery")
	if qu == nil || pq == nil || dpq == nil {
		return
	}
	frozen := map[*ssa.Function]map[string]string{
		qu:  {"internal/url.doParseQuery": "key and value, once each"},
		dpq: {"internal/url.ParseQuery": "wrapper"},
		pq:  {"internal/corazawaf.(*Transaction).ExtractGetArguments": "query string", "internal/bodyprocessors.(*urlencodedBodyProcessor).ProcessRequest": "urlencoded body"},
	}
	for _, target := range []*ssa.Function{qu, dpq, pq} {
		for _, cs := range c.P.CallSites(func(in ssa.Instruction) bool { return an.IsCallTo(in, target) }) {
			caller := an.RelName(cs.Fn)
			why, ok := frozen[target][caller]
			c.Check(ok, "R2", fmt.Sprintf("%s called from %s", shortFn(an.RelName(target)), caller), cs.Call.Pos(), why,
				"a new caller of the percent-decoder: data decoded here may be decoded a second time (or data that must stay raw is decoded)")
		}
	}
	// in doParseQuery each of key/value is decoded exactly once and not re-decoded
	nDec := 0
	an.Instrs(dpq, func(in ssa.Instruction) {
		if an.IsCallTo(in, qu) {
			nDec++
			arg := an.Expr(an.CallOf(in).Args[0])
			c.Check(!strings.Contains(arg, "queryUnescape("), "R2", fmt.Sprintf("doParseQuery decode #%d applies to raw text", nDec), in.Pos(), "argument "+tempName.ReplaceAllString(arg, ""), "queryUnescape is applied to an already decoded value")
		}
	})
	c.Check(nDec == 2, "R2", "doParseQuery decodes key and value once each", dpq.Pos(), "2 decode calls", fmt.Sprintf("%d decode calls in doParseQuery", nDec))
	// net/url decoders on request data
	for _, fn := range c.P.ModFuncs {
		rp := relPkg(fn)
		if strings.HasPrefix(rp, "testing") || strings.HasPrefix(rp, "examples") || strings.HasPrefix(rp, "http/e2e") {
			continue
		}
		an.Instrs(fn, func(in ssa.Instruction) {
			ci, ok := in.(ssa.CallInstruction)
			if !ok {
				return
			}
			n := an.CalleeName(ci)
			sc := ci.Common().StaticCallee()
			if sc == nil || sc.Pkg == nil || sc.Pkg.Pkg.Path() != "net/url" {
				return
			}
			switch n {
			case "url.QueryUnescape", "url.PathUnescape", "url.ParseQuery", "(*url.URL).Query":
				c.Bad("R2", "net/url decoder "+n+" in "+an.RelName(fn), in.Pos(), "request data is decoded with "+n+" in addition to the engine's own decoder: arguments would be decoded twice (or differently)")
			}
		})
	}
	// ProcessURI passes the raw query
	if pu := c.Fn("R2", "internal/corazawaf.(*Transaction).ProcessURI"); pu != nil {
		ega := c.P.Func("internal/corazawaf.(*Transaction).ExtractGetArguments")
		n := 0
		an.Instrs(pu, func(in ssa.Instruction) {
			if an.IsCallTo(in, ega) {
				n++
				arg := tempName.ReplaceAllString(an.Expr(an.CallOf(in).Args[1]), "")
				c.Check(strings.HasSuffix(arg, ".RawQuery"), "R2", "ProcessURI hands the raw query string to the argument parser", in.Pos(), arg, "ExtractGetArguments receives "+arg+", not the raw query: arguments are decoded twice or lose their encoding")
			}
		})
		c.MinCount("R2", "ExtractGetArguments call in ProcessURI", n, 1)
		// QUERY_STRING is the raw query too
		an.Instrs(pu, func(in ssa.Instruction) {
			if an.IsCallToMethod(in, fullColl, "Single", "Set") && strings.HasSuffix(an.Expr(an.CallOf(in).Args[0]), ".queryString") {
				e := tempName.ReplaceAllString(an.Expr(an.CallOf(in).Args[1]), "")
				c.Check(strings.Contains(e, ".RawQuery"), "R2", "QUERY_STRING is the raw query", in.Pos(), e, "QUERY_STRING is set from "+e)
			}
		})
	}
	// cookies are not decoded
	if pc := c.Fn("R2", "internal/cookies.ParseCookies"); pc != nil {
		dec := false
		an.Instrs(pc, func(in ssa.Instruction) {
			if ci, ok := in.(ssa.CallInstruction); ok {
				n := an.CalleeName(ci)
				if strings.Contains(n, "Unescape") || strings.Contains(n, "ParseQuery") {
					dec = true
				}
			}
		})
		c.Check(!dec, "R2", "cookies are stored undecoded", pc.Pos(), "no decoder is called by ParseCookies", "ParseCookies applies a percent-decoder (the documented behaviour is: no URL decoding of cookies)")
	}
}

// ---- R3
func c03Flags(c *an.Ctx) {
	if pu := c.Fn("R3", "internal/corazawaf.(*Transaction).ProcessURI"); pu != nil {
		ok := false
		an.Instrs(pu, func(in ssa.Instruction) {
			if an.IsCallToMethod(in, fullColl, "Single", "Set") && strings.HasSuffix(an.Expr(an.CallOf(in).Args[0]), ".urlencodedError") {
				for _, a := range an.FactsAt(in) {
					if strings.Contains(a.L, "ParseRequestURI(") && a.Op == "!=" && a.R == "nil" {
						ok = true
					}
				}
			}
		})
		c.Check(ok, "R3", "ProcessURI records a URI parse failure", pu.Pos(), "URLENCODED_ERROR set under err != nil", "a failing url.ParseRequestURI is not recorded in URLENCODED_ERROR")
	}
	for _, name := range []string{"WriteRequestBody", "ReadRequestBodyFrom", "WriteResponseBody", "ReadResponseBodyFrom"} {
		fn := c.Fn("R3", "internal/corazawaf.(*Transaction)."+name)
		if fn == nil {
			continue
		}
		flag := ".inboundDataError"
		if strings.Contains(name, "Response") {
			flag = ".outboundDataError"
		}
		isSet := func(in ssa.Instruction) bool {
			return an.IsCallToMethod(in, fullColl, "Single", "Set") && strings.HasSuffix(an.Expr(an.CallOf(in).Args[0]), flag) && an.Expr(an.CallOf(in).Args[1]) == `"1"`
		}
		// every call that rejects, and every ProcessPartial truncation, is preceded by the flag on all paths
		n := 0
		an.Instrs(fn, func(in ssa.Instruction) {
			cc := an.CallOf(in)
			if cc == nil || cc.StaticCallee() == nil {
				return
			}
			sn := cc.StaticCallee().Name()
			if sn != "setAndReturnBodyLimitInterruption" && sn != "ProcessRequestBody" && sn != "ProcessResponseBody" {
				return
			}
			n++
			w := an.FindPath(an.PathQuery{Fn: fn, Stop: isSet, Target: func(x ssa.Instruction) bool { return x == in }})
			if w != nil {
				// the call is guarded by a boolean that is only raised on limit branches: check those branches instead
				if ok, guarded := raisedOnlyAfter(fn, in, isSet); guarded && ok {
					w = nil
				}
			}
			c.Check(w == nil, "R3", fmt.Sprintf("%s: data-error flag set before limit action #%d (%s)", name, n, sn), in.Pos(), "flag set on every path to the limit action", "the body limit is enforced ("+sn+") on a path that does not set "+strings.TrimPrefix(flag, ".")+": the truncation/rejection is invisible to rules")
		})
		c.MinCount("R3", "limit actions in "+name, n, 2)
	}
}

// ---- R4
func c03ArgumentLimit(c *an.Ctx) {
	for _, name := range []string{"AddGetRequestArgument", "AddPostRequestArgument", "AddPathRequestArgument", "AddResponseArgument"} {
		fn := c.Fn("R4", "internal/corazawaf.(*Transaction)."+name)
		if fn == nil {
			continue
		}
		// paths from entry to return that do not Add
		w := an.FindPath(an.PathQuery{Fn: fn, Target: an.IsReturn, Stop: func(in ssa.Instruction) bool {
			cc := an.CallOf(in)
			if cc == nil {
				return false
			}
			n := ""
			if cc.IsInvoke() {
				n = cc.Method.Name()
			} else if sc := cc.StaticCallee(); sc != nil {
				n = sc.Name()
			}
			if n == "Add" {
				return true
			}
			// flagged: an error variable is set or the transaction interrupted
			if n == "Set" && strings.Contains(strings.ToLower(an.Expr(firstArgOrRecv(cc))), "error") {
				return true
			}
			return n == "Interrupt"
		}})
		key := name + ": an argument beyond the limit is not dropped silently"
		if w != nil {
			c.Bad("R4", key, fn.Pos(), "when the argument limit is reached the argument is skipped and only a debug/warn line is written: no error variable is set and no interruption raised, so rules cannot tell that data is missing", c.P.TrailString(w)...)
		} else {
			c.Ok("R4", key, fn.Pos(), "every path adds the argument or flags the omission")
		}
	}
}

// ---- R5
func c03Carriers(c *an.Ctx) {
	n := 0
	for _, fn := range c.P.ModFuncs {
		if relPkg(fn) != "internal/bodyprocessors" && an.RelName(fn) != "internal/corazawaf.(*Transaction).AddRequestHeader" && an.RelName(fn) != "internal/corazawaf.(*Transaction).ExtractGetArguments" {
			continue
		}
		seen := 0
		an.Instrs(fn, func(in ssa.Instruction) {
			r, ok := in.(*ssa.Range)
			if !ok {
				return
			}
			mt, isMap := r.X.Type().Underlying().(*types.Map)
			if !isMap {
				return
			}
			n++
			seen++
			key := fmt.Sprintf("ingestion loop #%d in %s", seen, an.RelName(fn))
			class, detail := classifyMapRange(c, fn, r)
			_, single := mt.Elem().Underlying().(*types.Basic)
			switch {
			case single && (class == "overwrite" || class == "accumulate" || class == "build"):
				c.Bad("R5", key+": carrier keeps every value", r.Pos(), "name/value pairs travel through a single-valued map ("+mt.String()+") before they reach the collection: two values whose names collide after flattening or case folding are merged into one, and which survives depends on map order ("+detail+")")
			case class == "overwrite":
				c.Bad("R5", key+": carrier keeps every value", r.Pos(), "values are written with an overwriting call ("+detail+"): names that fold to the same key replace each other")
			default:
				c.Ok("R5", key+": carrier keeps every value", r.Pos(), "multi-valued map, class "+class)
			}
		})
	}
	c.MinCount("R5", "ingestion loops over maps", n, 4)
}

// ---- R7
func c03Loops(c *an.Ctx) {
	for _, name := range []string{
		"internal/corazawaf.(*Transaction).ExtractGetArguments",
		"internal/corazawaf.(*Transaction).AddRequestHeader",
		"internal/bodyprocessors.(*urlencodedBodyProcessor).ProcessRequest",
		"internal/bodyprocessors.(*jsonBodyProcessor).ProcessRequest",
		"internal/bodyprocessors.(*jsonBodyProcessor).ProcessResponse",
		"internal/url.doParseQuery",
		"internal/cookies.ParseCookies",
	} {
		fn := c.Fn("R7", name)
		if fn == nil {
			continue
		}
		n := 0
		for _, li := range an.Loops(fn) {
			n++
			over := tempName.ReplaceAllString(li.Over, "")
			if over == "" {
				over = "(condition loop)"
			}
			c.Check(!li.EarlyExit, "R7", fmt.Sprintf("%s: loop #%d over %s is complete", shortFn(name), n, over), li.Pos.Pos(), "no exit from inside the body", "the ingestion loop can stop before all names/values were moved into the collection")
		}
		if n == 0 {
			c.Bad("R7", shortFn(name)+": has an ingestion loop", fn.Pos(), "no loop found")
		}
	}
	// query-string pairs: once a pair has been split into name and value it is stored, whatever the name
	// (an empty name is still an argument: "=payload" is ARGS:""); only an empty pair ("&&") is skipped,
	// and that is decided before the split.
	if pq := c.Fn("R7", "internal/url.doParseQuery"); pq != nil {
		var split ssa.Instruction
		an.Instrs(pq, func(in ssa.Instruction) {
			if an.IsCallToFunc(in, "strings", "IndexByte") {
				if k, ok := intConstArg(an.CallOf(in), 1); ok && k == '=' {
					split = in
				}
			}
			for _, fnm := range []string{"Cut", "Index", "SplitN", "Split", "IndexRune"} {
				if an.IsCallToFunc(in, "strings", fnm) && len(an.CallOf(in).Args) > 1 {
					if a := an.Expr(an.CallOf(in).Args[1]); a == `"="` || a == "61" {
						split = in
					}
				}
			}
		})
		if split == nil {
			c.Unknown("R7", "doParseQuery: name/value split", pq.Pos(), "no strings.IndexByte(pair, '=') found")
		} else {
			lp := an.InnermostLoop(split.Block())
			w := an.FindPath(an.PathQuery{Fn: pq, After: split,
				Stop: func(in ssa.Instruction) bool { _, ok := in.(*ssa.MapUpdate); return ok },
				Target: func(in ssa.Instruction) bool {
					if _, ok := in.(*ssa.Return); ok {
						return true
					}
					return lp != nil && in.Block() == lp.Header && in == lp.Header.Instrs[0]
				}})
			if w != nil {
				c.Bad("R7", "doParseQuery: a pair that was split into name and value is always stored", split.Pos(), "after the name/value split an iteration can end without adding the pair to the result: some pairs (e.g. those with an empty name, \"=payload\") never become arguments and are invisible to ARGS*", c.P.TrailString(w)...)
			} else {
				c.Ok("R7", "doParseQuery: a pair that was split into name and value is always stored", split.Pos(), "every path from the split to the next iteration passes the map update")
			}
		}
	}
	// multipart: every part whose content was read is recorded (FILES / ARGS_POST) before the loop goes on or ends
	// — also when the body stops inside the part (the tolerated io.ErrUnexpectedEOF): only an error return may skip it
	if mp := c.Fn("R7", "internal/bodyprocessors.(*multipartBodyProcessor).ProcessRequest"); mp != nil {
		ei := an.ErrorIndex(mp.Signature)
		nRead := 0
		an.Instrs(mp, func(in ssa.Instruction) {
			if !an.IsCallToFunc(in, "io", "Copy") && !an.IsCallToFunc(in, "io", "ReadAll") {
				return
			}
			lp := an.InnermostLoop(in.Block())
			if lp == nil {
				return
			}
			nRead++
			w := an.FindPath(an.PathQuery{Fn: mp, After: in,
				Stop: func(x ssa.Instruction) bool {
					cc := an.CallOf(x)
					if cc == nil {
						return false
					}
					if cc.IsInvoke() {
						return cc.Method.Name() == "Add"
					}
					return cc.StaticCallee() != nil && cc.StaticCallee().Name() == "Add" && strings.Contains(relPkg(cc.StaticCallee()), "collections")
				},
				Target: func(x ssa.Instruction) bool {
					if r, ok := x.(*ssa.Return); ok {
						return ei < 0 || an.ReturnMayBeNilError(r, ei)
					}
					return x.Block() == lp.Header && x == lp.Header.Instrs[0]
				}})
			key := fmt.Sprintf("multipart: part read #%d is recorded before the loop goes on or ends", nRead)
			if w != nil {
				c.Bad("R7", key, in.Pos(), "after a part's content was read, the iteration can end (next part, or a successful return) without the part having been added to FILES / ARGS_POST: an upload whose body stops inside the file content disappears from the variables while no error variable is set", c.P.TrailString(w)...)
			} else {
				c.Ok("R7", key, in.Pos(), "every non-error path passes the collection write")
			}
		})
		c.MinCount("R7", "part reads in the multipart processor", nRead, 2)
	}
	// JSON member callback rewinds the shared key buffer on every continuing path
	var cb *ssa.Function
	if ri := c.Fn("R7", "internal/bodyprocessors.readItems"); ri != nil {
		for _, a := range ri.AnonFuncs {
			cb = a
		}
	}
	if cb == nil {
		c.Unknown("R7", "readItems member callback", token.NoPos, "closure not found")
		return
	}
	var keyVar *ssa.FreeVar
	for _, fv := range cb.FreeVars {
		if fv.Name() == "objKey" {
			keyVar = fv
		}
	}
	if keyVar == nil {
		c.Unknown("R7", "readItems key buffer", cb.Pos(), "objKey is not captured by the callback")
		return
	}
	isRewind := func(in ssa.Instruction) bool {
		st, ok := in.(*ssa.Store)
		if !ok || st.Addr != ssa.Value(keyVar) {
			return false
		}
		sl, ok := st.Val.(*ssa.Slice)
		return ok && sl.High != nil && strings.Contains(an.Expr(sl.High), "len(*objKey)") == false && strings.Contains(tempName.ReplaceAllString(an.Expr(sl.High), ""), "len(objKey)")
	}
	var firstAppend ssa.Instruction
	an.Instrs(cb, func(in ssa.Instruction) {
		if st, ok := in.(*ssa.Store); ok && st.Addr == ssa.Value(keyVar) && firstAppend == nil {
			firstAppend = in
		}
	})
	if firstAppend == nil {
		c.Unknown("R7", "readItems key buffer", cb.Pos(), "no store to objKey")
		return
	}
	w := an.FindPath(an.PathQuery{Fn: cb, After: firstAppend, Stop: isRewind, Target: func(in ssa.Instruction) bool {
		r, ok := in.(*ssa.Return)
		return ok && an.Expr(r.Results[0]) == "true"
	}})
	if w != nil {
		c.Bad("R7", "JSON member callback rewinds the key prefix before continuing", w.Target.Pos(), "a member can be finished (return true) without truncating the shared key buffer back to the parent's length: every following sibling is recorded under a stale prefix, i.e. under another name", c.P.TrailString(w)...)
	} else {
		c.Ok("R7", "JSON member callback rewinds the key prefix before continuing", cb.Pos(), "objKey = objKey[:prevParentLength] on every continuing path")
	}
	_ = sort.Strings
}

// raisedOnlyAfter: `at` is dominated by a fact <phi> == true; every edge that gives the phi the value true
// comes from a block that cannot be reached without passing a `mark` instruction.
func raisedOnlyAfter(fn *ssa.Function, at ssa.Instruction, mark func(ssa.Instruction) bool) (ok bool, guarded bool) {
	var flag *ssa.Phi
	for d := at.Block(); d != nil; d = d.Idom() {
		if len(d.Instrs) == 0 {
			continue
		}
		if ifi, isIf := d.Instrs[len(d.Instrs)-1].(*ssa.If); isIf {
			if phi, isPhi := ifi.Cond.(*ssa.Phi); isPhi && len(d.Succs) == 2 && (d.Succs[0] == at.Block() || d.Succs[0].Dominates(at.Block())) {
				flag = phi
				break
			}
		}
	}
	if flag == nil {
		return false, false
	}
	ok = true
	seen := map[*ssa.Phi]bool{}
	var check func(p *ssa.Phi)
	check = func(p *ssa.Phi) {
		if seen[p] {
			return
		}
		seen[p] = true
		for i, e := range p.Edges {
			switch x := e.(type) {
			case *ssa.Const:
				if an.Expr(x) != "true" {
					continue
				}
				pred := p.Block().Preds[i]
				last := pred.Instrs[len(pred.Instrs)-1]
				w := an.FindPath(an.PathQuery{Fn: fn, Stop: mark, Target: func(in ssa.Instruction) bool { return in == last }})
				if w != nil {
					ok = false
				}
			case *ssa.Phi:
				check(x)
			default:
				ok = false
			}
		}
	}
	check(flag)
	return ok, true
}

// c03ProcessorSelection: conditions on a header value that select a body processor are case-insensitive.
func c03ProcessorSelection(c *an.Ctx) {
	n := 0
	for _, name := range []string{"internal/corazawaf.(*Transaction).AddRequestHeader", "internal/corazawaf.(*Transaction).AddResponseHeader"} {
		fn := c.FnOpt(name)
		if fn == nil || len(fn.Params) < 3 {
			continue
		}
		val := fn.Params[2]
		k := 0
		an.Instrs(fn, func(in ssa.Instruction) {
			if !an.IsCallToMethod(in, fullColl, "Single", "Set") {
				return
			}
			recv := tempName.ReplaceAllString(an.Expr(an.CallOf(in).Args[0]), "")
			if !strings.HasSuffix(recv, "bodyProcessor") {
				return
			}
			for cond, truth := range an.DominatingConds(in.Block()) {
				if !truth {
					continue // the negative of a sibling test: judged at the sibling
				}
				deps := an.Deps(cond)
				if !deps[ssa.Value(val)] {
					continue
				}
				n++
				k++
				folded := false
				for d := range deps {
					if call, ok := d.(*ssa.Call); ok && call.Call.StaticCallee() != nil && call.Call.StaticCallee().Pkg != nil && call.Call.StaticCallee().Pkg.Pkg.Path() == "strings" {
						switch call.Call.StaticCallee().Name() {
						case "ToLower", "ToUpper", "EqualFold":
							folded = true
						}
					}
				}
				e := tempName.ReplaceAllString(an.Expr(cond), "")
				// ... and they look at the media type, not at the whole header value: a Content-Type may carry
				// parameters ("; charset=UTF-8"), so an equality test needs the value cut at ';' first (a prefix
				// test tolerates them as it is)
				if b, isB := cond.(*ssa.BinOp); isB && (b.Op == token.EQL || b.Op == token.NEQ) {
					cut := false
					for d := range deps {
						if call, ok := d.(*ssa.Call); ok && call.Call.StaticCallee() != nil && call.Call.StaticCallee().Pkg != nil {
							full := call.Call.StaticCallee().Pkg.Pkg.Path() + "." + call.Call.StaticCallee().Name()
							switch full {
							case "strings.Cut", "strings.Index", "strings.IndexByte", "strings.SplitN", "strings.Split", "mime.ParseMediaType":
								cut = true
							}
						}
					}
					c.Check(cut, "R8", fmt.Sprintf("%s: body processor condition #%d compares the media type without its parameters", shortFn(name), k), in.Pos(), e,
						"the body processor "+tempName.ReplaceAllString(an.Expr(an.CallOf(in).Args[1]), "")+" is selected by an equality test on the whole header value ("+e+"): `application/x-www-form-urlencoded; charset=UTF-8` selects no processor, so the body is never parsed and ARGS_POST / REQUEST_BODY stay empty with no error variable set")
				}
				c.Check(folded, "R8", fmt.Sprintf("%s: body processor condition #%d on the header value is case-insensitive", shortFn(name), k), in.Pos(), e,
					"the body processor "+tempName.ReplaceAllString(an.Expr(an.CallOf(in).Args[1]), "")+" is selected by "+e+", a case-sensitive test of the raw header value: a media type written in another case (Multipart/Form-Data) selects no processor, so the whole body stays invisible to ARGS_POST/FILES with no error variable set")
			}
		})
	}
	c.MinCount("R8", "header-value conditions selecting a body processor", n, 2)
	// cookie names and values are exposed byte-exact: the cookie parser strips optional whitespace (SP / HTAB,
	// textproto.TrimString) and nothing else.  strings.TrimSpace and friends also remove \v \f \r \n, NBSP, NEL and
	// the Unicode spaces, i.e. bytes that belong to the name or value (or make up the whole name).
	if pc := c.Fn("R8", "internal/cookies.ParseCookies"); pc != nil {
		nTrim, bad := 0, ""
		an.Instrs(pc, func(in ssa.Instruction) {
			cc := an.CallOf(in)
			if cc == nil || cc.StaticCallee() == nil || cc.StaticCallee().Pkg == nil {
				return
			}
			pkg, name := cc.StaticCallee().Pkg.Pkg.Path(), cc.StaticCallee().Name()
			if !strings.HasPrefix(name, "Trim") {
				return
			}
			nTrim++
			switch {
			case pkg == "net/textproto" && name == "TrimString":
			case pkg == "strings" && (name == "Trim" || name == "TrimLeft" || name == "TrimRight" || name == "TrimPrefix" || name == "TrimSuffix"):
				// explicit cut set / affix: must be a constant made of SP and HTAB only for the cut-set forms
				if name == "Trim" || name == "TrimLeft" || name == "TrimRight" {
					cs := an.Expr(cc.Args[1])
					if strings.Trim(strings.Trim(cs, `"`), " \\t") != "" && cs != `" \t"` && cs != `"\t "` && cs != `" "` {
						bad = pkg + "." + name + "(_, " + cs + ")"
					}
				}
			default:
				bad = pkg + "." + name
			}
		})
		c.Check(bad == "" && nTrim >= 1, "R8", "ParseCookies strips optional whitespace (SP/HTAB) only", pc.Pos(), fmt.Sprintf("%d trimming calls, all textproto.TrimString or explicit SP/HTAB cut sets", nTrim),
			"the cookie parser trims with "+bad+": besides SP and HTAB this removes vertical tab, form feed, CR, LF and Unicode spaces (NBSP, NEL ...) from the ends of names and values, so cookies are exposed under another name or with shortened values, and a name consisting of such a character is dropped altogether")
	}
}
