package props

import (
	"go/types"
	"sort"
	"strings"

	"czcheck/an"

	"golang.org/x/tools/go/ssa"
)

// receiverWriteSet: the fields of the receiver that fn stores to directly (top-level field names;
// a store through an embedded/nested struct counts for the outermost field), plus map updates and
// deletes on maps loaded from a receiver field.
func receiverWriteSet(fn *ssa.Function) []string {
	if fn == nil || len(fn.Params) == 0 || fn.Signature.Recv() == nil {
		return nil
	}
	recv := fn.Params[0]
	set := map[string]bool{}
	// outermost field of an address rooted at the receiver
	var root func(v ssa.Value, d int) (string, bool)
	root = func(v ssa.Value, d int) (string, bool) {
		if d > 8 {
			return "", false
		}
		switch x := v.(type) {
		case *ssa.FieldAddr:
			if x.X == ssa.Value(recv) {
				return an.FieldVar(x).Name(), true
			}
			return root(x.X, d+1)
		case *ssa.IndexAddr:
			return root(x.X, d+1)
		case *ssa.UnOp:
			return root(x.X, d+1)
		case *ssa.Slice:
			return root(x.X, d+1)
		}
		return "", false
	}
	for _, f := range an.WithClosures(fn) {
		an.Instrs(f, func(in ssa.Instruction) {
			switch x := in.(type) {
			case *ssa.Store:
				if n, ok := root(x.Addr, 0); ok {
					set[n] = true
				}
			case *ssa.MapUpdate:
				if n, ok := root(x.Map, 0); ok {
					set[n] = true
				}
			case *ssa.Call:
				if b, ok := x.Call.Value.(*ssa.Builtin); ok && (b.Name() == "delete" || b.Name() == "clear") {
					if n, ok := root(x.Call.Args[0], 0); ok {
						set[n] = true
					}
				}
			}
		})
	}
	var out []string
	for k := range set {
		out = append(out, k)
	}
	sort.Strings(out)
	return out
}

// methodsOf lists the module methods declared on pkgRel.typ (pointer and value receivers).
func methodsOf(c *an.Ctx, pkgRel, typ string) []*ssa.Function {
	var out []*ssa.Function
	for _, fn := range c.P.ModFuncs {
		if fn.Signature.Recv() == nil || fn.Parent() != nil || relPkg(fn) != pkgRel {
			continue
		}
		t := fn.Signature.Recv().Type()
		if p, ok := t.(*types.Pointer); ok {
			t = p.Elem()
		}
		if n, ok := t.(*types.Named); ok && n.Obj().Name() == typ {
			out = append(out, fn)
		}
	}
	sort.Slice(out, func(i, j int) bool { return out[i].Name() < out[j].Name() })
	return out
}

// ProbeWriteSets prints the receiver write sets of Rule and RuleGroup methods (development aid).
func ProbeWriteSets(p *an.Prog) {
	c := &an.Ctx{P: p, FuncsAnalysed: map[*ssa.Function]bool{}}
	for _, t := range []string{"Rule", "RuleGroup"} {
		for _, fn := range methodsOf(c, "internal/corazawaf", t) {
			if ws := receiverWriteSet(fn); len(ws) > 0 {
				println(t+"."+fn.Name(), strings.Join(ws, ","))
			}
		}
	}
}
