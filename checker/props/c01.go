package props

import (
	"fmt"
	"go/ast"
	"go/token"
	"go/types"
	"sort"
	"strings"

	"czcheck/an"

	"golang.org/x/tools/go/ssa"
)

func init() {
	register(&Property{
		ID:    "C01",
		Title: "Rule matching is exact: no missed match, no phantom match",
		Explanation: "Decides the selection/evaluation mechanism, not the operators' and transformations' values: R1 key normalisation agrees between compile time, store time and lookup time (tables extracted from caseSensitiveVariable, NewTransactionVariables and every method indexing the backing map: each lookup folds its key exactly like Map.Add does; regex selectors need compile-time folding == store-time folding); " +
			"R2 GetField dispatches KeyRx!=nil -> FindRegex, KeyStr!=\"\" -> FindString, else FindAll, filters exceptions before counting, and the count datum is len(filtered) labelled with the rule's variable and key; R3 Operator.Evaluate is invoked only from executeOperator and negated iff operator.Negation, which only SetOperator writes; " +
			"R4 the match datum appended by doEvaluate is (arg.Variable(), arg.Key(), transformed value) and dominated by match==true; R5 RuleGroup.rules is only appended or order-preservingly filtered and Eval walks it by ascending index; R6 a chain's actions and MatchRule are reachable only after every link returned a non-empty match list; " +
			"R7 the phase filter lets a rule run only when Phase_==0 or Phase_==phase (non-multiphase builds); R8 selection loops are complete: concatenating views visit every member, result builders emit one datum per stored value, the exception predicate keeps its three disjuncts, AddVariableNegation visits every target, and the three evaluation loops of Rule.doEvaluate (targets, selected values, transformed values) are never left from inside (no early exit in any of these loops); the size view (ARGS_COMBINED_SIZE) sums the key and value stored with each pair, not the folded map index.",
		NotDecided: []string{
			"that operators and transformations compute the right values (C14, C15)",
			"regular-expression key semantics, exclusion semantics beyond the normalisation used",
			"multiphase inference tables (only the non-multiphase phase filter is decided)",
		},
		Run: runC01,
	})
}

func runC01(c *an.Ctx) {
	c01Normalisation(c)
	c01GetField(c)
	c01Negation(c)
	c01MatchDatum(c)
	c01Order(c)
	c01Chain(c)
	c01PhaseFilter(c)
	c01Completeness(c)
}

// ---- R1
func c01Normalisation(c *an.Ctx) {
	// CS_compile: case labels of caseSensitiveVariable
	csCompile := map[string]bool{}
	if fn := c.Fn("R1", "internal/corazawaf.caseSensitiveVariable"); fn != nil {
		if fd := c.P.Decl(fn); fd != nil {
			ast.Inspect(fd, func(n ast.Node) bool {
				if cc, ok := n.(*ast.CaseClause); ok {
					for _, e := range cc.List {
						csCompile[exprName(nil, e)] = true
					}
				}
				return true
			})
		}
	}
	// CS_store: collections built by NewCaseSensitive* in the live branch of NewTransactionVariables
	csStore := map[string]bool{}
	ctor := c.Fn("R1", "internal/corazawaf.NewTransactionVariables")
	fieldVarConst := map[string]string{} // field -> variables constant name (by value)
	if ctor != nil {
		live := an.LiveBlocks(ctor)
		constName := variableConstNames(c)
		for _, b := range ctor.Blocks {
			if !live[b] {
				continue
			}
			for _, in := range b.Instrs {
				st, ok := in.(*ssa.Store)
				if !ok {
					continue
				}
				fa, ok := st.Addr.(*ssa.FieldAddr)
				if !ok || !an.IsFieldAddrOf(fa, fullWAF, "TransactionVariables", an.FieldVar(fa).Name()) {
					continue
				}
				if call, ok := st.Val.(*ssa.Call); ok {
					if sc := call.Call.StaticCallee(); sc != nil && len(call.Call.Args) > 0 {
						if k, isC := call.Call.Args[0].(*ssa.Const); isC {
							fieldVarConst[an.FieldVar(fa).Name()] = constName[k.Int64()]
							if strings.HasPrefix(sc.Name(), "NewCaseSensitive") {
								csStore[constName[k.Int64()]] = true
							}
						}
					}
				}
			}
		}
	}
	// derived views share the sensitivity of their base: ARGS (concat of GET/POST/PATH), *_NAMES
	derive := map[string][]string{"Args": {"ArgsGet", "ArgsPost"}, "ArgsNames": {"ArgsGet", "ArgsPost"}, "ArgsGetNames": {"ArgsGet"}, "ArgsPostNames": {"ArgsPost"}}
	for d, bases := range derive {
		all := true
		for _, b := range bases {
			if !csStore[b] {
				all = false
			}
		}
		if all {
			csStore[d] = true
		}
	}
	c.MinCount("R1", "variables folded at compile time by caseSensitiveVariable", len(csCompile), 4)
	// regex selectors: compile-time folding must equal store-time folding
	all := map[string]bool{}
	for k := range csCompile {
		all[k] = true
	}
	for k := range csStore {
		all[k] = true
	}
	for _, v := range sortedKeys(all) {
		if v == "ArgsPath" {
			continue // not selectable through caseSensitiveVariable; listed for the store only
		}
		key := "regex-key folding for " + v
		switch {
		case csCompile[v] && !csStore[v]:
			c.Bad("R1", key, token.NoPos, "regex selectors on "+v+" are kept case-sensitive at compile time, but the collection stores folded (lower-case) keys in this build: a selector such as "+v+":/^Foo/ can never match the stored key \"foo\"")
		case !csCompile[v] && csStore[v]:
			c.Bad("R1", key, token.NoPos, "regex selectors on "+v+" are lower-cased at compile time, but the collection stores keys case-sensitively in this build")
		default:
			c.Ok("R1", key, token.NoPos, "compile-time and store-time treatment agree")
		}
	}
	// N_lookup: every index into a backing `data` map with a caller-supplied key folds like Add
	n := 0
	for _, fn := range c.P.ModFuncs {
		if relPkg(fn) != "internal/collections" {
			continue
		}
		k := 0
		an.Instrs(fn, func(in ssa.Instruction) {
			var idx, m ssa.Value
			switch x := in.(type) {
			case *ssa.Lookup:
				idx, m = x.Index, x.X
			case *ssa.MapUpdate:
				idx, m = x.Key, x.Map
			case *ssa.Call:
				if an.IsBuiltinCall(x, "delete") {
					m, idx = x.Call.Args[0], x.Call.Args[1]
				}
			}
			if idx == nil || !strings.HasSuffix(an.Expr(m), ".data") {
				return
			}
			// only keys derived from a string parameter (the caller-supplied key), whatever it is called and whether
			// the folding is written inline or sits in a private helper (c.lookupKey(key)): the index is resolved to
			// the values it can take, which must be the raw parameter, or strings.ToLower of it on a path where the
			// collection is known not to be case sensitive
			isKeyParam := func(v ssa.Value) bool {
				p, ok := v.(*ssa.Parameter)
				if !ok {
					return false
				}
				b, isB := p.Type().Underlying().(*types.Basic)
				return isB && b.Kind() == types.String
			}
			leaves := leavesOf(idx, nil, 0)
			fromParam := false
			for _, lf := range leaves {
				for d := range an.Deps(lf.V) {
					if isKeyParam(d) {
						fromParam = true
					}
				}
			}
			if !fromParam {
				return
			}
			n++
			k++
			c.FuncsAnalysed[fn] = true
			e := tempName.ReplaceAllString(an.Expr(idx), "")
			nRaw, nFold := 0, 0
			okNorm := true
			for _, lf := range leaves {
				switch {
				case isKeyParam(lf.V):
					nRaw++
				default:
					call, isCall := lf.V.(*ssa.Call)
					if !isCall || call.Call.StaticCallee() == nil || call.Call.StaticCallee().Pkg == nil || call.Call.StaticCallee().Pkg.Pkg.Path() != "strings" || call.Call.StaticCallee().Name() != "ToLower" || !isKeyParam(call.Call.Args[0]) {
						okNorm = false
						continue
					}
					nFold++
					guarded := false
					for _, a := range lf.F {
						if strings.HasSuffix(a.L, ".isCaseSensitive") && a.Op == "==" && a.R == "false" {
							guarded = true
						}
					}
					if !guarded {
						okNorm = false
					}
				}
			}
			if nRaw == 0 || nFold == 0 {
				okNorm = false
			}
			c.Check(okNorm, "R1", fmt.Sprintf("key lookup #%d in %s folds like Map.Add", k, an.RelName(fn)), in.Pos(),
				"data["+e+"] with the fold applied iff !isCaseSensitive", "the backing map is indexed with "+e+": the key is not folded the way Map.Add stores it (lower-cased iff the collection is case-insensitive), so a stored entry is missed or a wrong one is found")
		})
	}
	c.MinCount("R1", "keyed accesses to the backing map", n, 7)
	// delegating views must hand the key on unchanged (members fold by themselves)
	for _, fn := range c.P.ModFuncs {
		if relPkg(fn) != "internal/collections" || !strings.Contains(an.RelName(fn), "Concat") {
			continue
		}
		an.Instrs(fn, func(in ssa.Instruction) {
			cc := an.CallOf(in)
			if cc == nil || !cc.IsInvoke() || len(cc.Args) == 0 {
				return
			}
			arg := an.Expr(cc.Args[0])
			if strings.HasPrefix(arg, "strings.ToLower(") && len(csStore) > 0 {
				c.Bad("R1", "delegating lookup "+an.RelName(fn)+" passes the key unchanged", in.Pos(), "the concatenating view lower-cases the key before delegating to member collections that are case-sensitive in this build: "+cc.Method.Name()+"(\"Foo\") misses the entry stored under \"Foo\"")
			} else if strings.HasPrefix(arg, "strings.ToLower(") {
				c.Ok("R1", "delegating lookup "+an.RelName(fn)+" passes the key unchanged", in.Pos(), "pre-folding is harmless in this build: every member collection folds its keys")
			}
		})
	}
	_ = fieldVarConst
}

// variableConstNames maps the numeric value of each internal/variables constant to its name.
func variableConstNames(c *an.Ctx) map[int64]string {
	out := map[int64]string{}
	pk := c.P.Pkg("internal/variables")
	if pk == nil {
		return out
	}
	for _, f := range pk.Syntax {
		for _, d := range f.Decls {
			gd, ok := d.(*ast.GenDecl)
			if !ok || gd.Tok != token.CONST {
				continue
			}
			for _, s := range gd.Specs {
				vs := s.(*ast.ValueSpec)
				for _, n := range vs.Names {
					if o := pk.TypesInfo.Defs[n]; o != nil {
						if cst, ok := o.(interface {
							Val() interface{ String() string }
						}); ok {
							_ = cst
						}
					}
				}
			}
		}
	}
	sc := pk.Types.Scope()
	for _, n := range sc.Names() {
		if cst, ok := sc.Lookup(n).(interface {
			Val() interface{ ExactString() string }
		}); ok {
			_ = cst
		}
	}
	for _, n := range sc.Names() {
		o := sc.Lookup(n)
		if k, ok := o.(*typesConst); ok {
			_ = k
		}
	}
	fillConstNames(pk.Types.Scope(), out)
	return out
}

// ---- R2
func c01GetField(c *an.Ctx) {
	fn := c.Fn("R2", "internal/corazawaf.(*Transaction).GetField")
	if fn == nil {
		return
	}
	type want struct {
		method string
		facts  [][3]string
	}
	wants := []want{
		{"FindRegex", [][3]string{{"rv.KeyRx", "!=", "nil"}}},
		{"FindString", [][3]string{{"rv.KeyRx", "==", "nil"}, {"rv.KeyStr", "!=", `""`}}},
		{"FindAll", [][3]string{{"rv.KeyRx", "==", "nil"}, {"rv.KeyStr", "==", `""`}}},
	}
	for _, w := range wants {
		found := 0
		an.Instrs(fn, func(in ssa.Instruction) {
			cc := an.CallOf(in)
			if cc == nil || !cc.IsInvoke() || cc.Method.Name() != w.method {
				return
			}
			found++
			f := an.FactsAt(in)
			ok := true
			for _, a := range w.facts {
				if !f.Has(a[0], a[1], a[2]) {
					ok = false
				}
			}
			// the selector passed is the rule's own
			if w.method == "FindRegex" && an.Expr(cc.Args[0]) != "rv.KeyRx" || w.method == "FindString" && an.Expr(cc.Args[0]) != "rv.KeyStr" {
				ok = false
			}
			c.Check(ok, "R2", "GetField: "+w.method+" under its selector condition", in.Pos(), "dispatch guard and argument as documented", w.method+" is called under "+shortFacts(f)+" with argument "+fmt.Sprint(argExprs(cc)))
		})
		if found != 1 {
			c.Bad("R2", "GetField: exactly one "+w.method+" call", fn.Pos(), fmt.Sprintf("%d calls of %s in GetField (a second selection path bypasses the dispatch)", found, w.method))
		}
	}
	// the count datum
	nCount := 0
	an.Instrs(fn, func(in ssa.Instruction) {
		call, ok := in.(*ssa.Call)
		if !ok || !an.IsCallToFunc(in, "strconv", "Itoa") {
			return
		}
		nCount++
		f := an.FactsAt(in)
		arg := call.Call.Args[0]
		okLen := false
		desc := tempName.ReplaceAllString(an.Expr(arg), "")
		if lc, ok := arg.(*ssa.Call); ok && an.IsBuiltinCall(lc, "len") {
			if sl, ok := lc.Call.Args[0].(*ssa.Slice); ok && sl.High != nil {
				if phi, ok := sl.High.(*ssa.Phi); ok && phi.Comment == "filteredCount" {
					okLen = true
				}
			}
		}
		c.Check(okLen && f.Has("rv.Count", "==", "true"), "R2", fmt.Sprintf("GetField: count #%d is the number of values left after exclusions", nCount), in.Pos(),
			"Itoa(len(matches[:filteredCount])) under rv.Count", "a count is produced from "+desc+" under "+shortFacts(f)+": the & count must be the number of selected values after key selection and exclusions")
	})
	c.MinCount("R2", "count datum in GetField", nCount, 1)
	// label of the count datum
	an.Instrs(fn, func(in ssa.Instruction) {
		st, ok := in.(*ssa.Store)
		if !ok {
			return
		}
		fa, ok := st.Addr.(*ssa.FieldAddr)
		if !ok || !strings.HasSuffix(fa.X.Type().String(), "corazarules.MatchData") {
			return
		}
		switch an.FieldVar(fa).Name() {
		case "Variable_":
			c.Check(an.Expr(st.Val) == "rv.Variable", "R2", "GetField: count datum carries the rule's variable", st.Pos(), "Variable_ = rv.Variable", "count datum variable is "+an.Expr(st.Val))
		case "Key_":
			c.Check(an.Expr(st.Val) == "rv.KeyStr", "R2", "GetField: count datum carries the rule's key", st.Pos(), "Key_ = rv.KeyStr", "count datum key is "+an.Expr(st.Val))
		}
	})
	// filter precedes count: the filter loop's header dominates the count
	// exception predicate: three disjuncts
	// The predicate is recognised by what it tests (the KeyRx / KeyStr fields of a ruleVariableException), not by
	// variable names, and may sit in GetField or in a private bool helper GetField calls with the folded key.
	var preds []string
	usesExceptionKey := func(v ssa.Value) bool {
		for d := range an.Deps(v) {
			if fa, ok := d.(*ssa.FieldAddr); ok {
				if n := an.FieldVar(fa).Name(); (n == "KeyRx" || n == "KeyStr") && strings.HasSuffix(strings.TrimPrefix(fa.X.Type().String(), "*"), "corazawaf.ruleVariableException") {
					return true
				}
			}
		}
		return false
	}
	predFns := []*ssa.Function{fn}
	foldedArg := false
	an.Instrs(fn, func(in ssa.Instruction) {
		cc := an.CallOf(in)
		if cc == nil || cc.StaticCallee() == nil || cc.StaticCallee() == fn || relPkg(cc.StaticCallee()) != pkgWAF || len(cc.StaticCallee().Blocks) == 0 {
			return
		}
		h := cc.StaticCallee()
		if h.Signature.Results().Len() != 1 || h.Signature.Results().At(0).Type().String() != "bool" {
			return
		}
		uses := false
		for _, b := range h.Blocks {
			if ifi, ok := b.Instrs[len(b.Instrs)-1].(*ssa.If); ok && usesExceptionKey(ifi.Cond) {
				uses = true
			}
		}
		if uses {
			predFns = append(predFns, h)
			for _, a := range cc.Args {
				if strings.HasPrefix(an.Expr(a), "strings.ToLower(") {
					foldedArg = true
				}
			}
		}
	})
	for _, pf := range predFns {
		for _, b := range pf.Blocks {
			if ifi, ok := b.Instrs[len(b.Instrs)-1].(*ssa.If); ok && usesExceptionKey(ifi.Cond) {
				preds = append(preds, tempName.ReplaceAllString(an.Expr(ifi.Cond), ""))
			}
		}
	}
	sort.Strings(preds)
	joined := strings.Join(preds, " ; ")
	need := []string{".KeyRx != nil", ".KeyRx.MatchString(", "strings.ToLower(", ".KeyStr) == ", `.KeyStr == ""`, ".KeyRx == nil"}
	okP := true
	for _, n := range need {
		if !strings.Contains(joined, n) {
			okP = false
		}
	}
	// the key the predicate sees is the folded key of the selected value
	if len(predFns) == 1 {
		if !strings.Contains(joined, ".KeyRx.MatchString(strings.ToLower(") || !strings.Contains(joined, ".KeyStr) == strings.ToLower(") {
			okP = false
		}
	} else if !foldedArg {
		okP = false
	}
	c.Check(okP, "R2", "GetField: exception predicate keeps its three disjuncts", fn.Pos(), "regex on the folded key | folded string equality | whole-variable exclusion", "the exclusion predicate changed: "+joined)
}

func argExprs(cc *ssa.CallCommon) []string {
	var out []string
	for _, a := range cc.Args {
		out = append(out, an.Expr(a))
	}
	return out
}

// ---- R3
func c01Negation(c *an.Ctx) {
	n := 0
	for _, fn := range c.P.ModFuncs {
		rp := relPkg(fn)
		if strings.HasPrefix(rp, "testing") || strings.HasPrefix(rp, "examples") {
			continue
		}
		an.Instrs(fn, func(in ssa.Instruction) {
			if !an.IsCallToMethod(in, fullPT, "Operator", "Evaluate") {
				return
			}
			cc := an.CallOf(in)
			if !cc.IsInvoke() {
				return
			}
			n++
			name := an.RelName(fn)
			c.Check(name == "internal/corazawaf.(*Rule).executeOperator", "R3", "Operator.Evaluate invoked from "+name, in.Pos(), "the single evaluation point", "an operator is evaluated outside executeOperator: its result escapes the negation handling")
		})
	}
	c.MinCount("R3", "Operator.Evaluate call sites", n, 1)
	if fn := c.Fn("R3", "internal/corazawaf.(*Rule).executeOperator"); fn != nil {
		// every value the function can return is the operator's result E or !E; !E is returned exactly where
		// operator.Negation is known to be set, E exactly where it is known to be clear (whether the function uses
		// a named result, a phi or two return statements)
		var evalCall ssa.Value
		an.Instrs(fn, func(in ssa.Instruction) {
			if cc := an.CallOf(in); cc != nil && cc.IsInvoke() && cc.Method.Name() == "Evaluate" {
				if v, isV := in.(ssa.Value); isV {
					evalCall = v
				}
			}
		})
		ok := evalCall != nil
		nPos, nNeg := 0, 0
		negFact := func(f an.Facts, val string) bool {
			for _, a := range f {
				if strings.HasSuffix(a.L, ".Negation") && a.Op == "==" && a.R == val {
					return true
				}
			}
			return false
		}
		// f: the facts under which the value flows to the return (facts of the edge a phi operand comes in on)
		var leaf func(v ssa.Value, f an.Facts, d int)
		leaf = func(v ssa.Value, f an.Facts, d int) {
			if phi, isPhi := v.(*ssa.Phi); isPhi && d < 4 {
				for i, ed := range phi.Edges {
					pred := phi.Block().Preds[i]
					si := 0
					for k, sc := range pred.Succs {
						if sc == phi.Block() {
							si = k
						}
					}
					leaf(ed, an.EdgeFacts(pred, si), d+1)
				}
				return
			}
			switch {
			case v == evalCall:
				nPos++
				if !negFact(f, "false") {
					ok = false
				}
			default:
				if u, isU := v.(*ssa.UnOp); isU && u.Op == token.NOT && u.X == evalCall {
					nNeg++
					if !negFact(f, "true") {
						ok = false
					}
				} else {
					ok = false
				}
			}
		}
		an.Instrs(fn, func(in ssa.Instruction) {
			if r, isR := in.(*ssa.Return); isR && len(r.Results) == 1 {
				leaf(r.Results[0], an.FactsAtBlock(r.Block()), 0)
			}
		})
		if nPos == 0 || nNeg == 0 {
			ok = false
		}
		c.Check(ok, "R3", "executeOperator negates iff operator.Negation", fn.Pos(), "result inverted exactly on the Negation branch", "executeOperator does not return the operator result inverted exactly when operator.Negation is set")
		// evaluated on the transformed value it was given
		an.Instrs(fn, func(in ssa.Instruction) {
			if an.IsCallToMethod(in, fullPT, "Operator", "Evaluate") {
				cc := an.CallOf(in)
				c.Check(an.Expr(cc.Args[0]) == "tx" && an.Expr(cc.Args[1]) == "data", "R3", "executeOperator evaluates its own argument", in.Pos(), "Evaluate(tx, data)", "operator evaluated on "+fmt.Sprint(argExprs(cc)))
			}
		})
	}
	// Negation written only by SetOperator, from the leading '!'
	for _, fs := range c.P.StoresToField(pkgWAF, "ruleOperatorParams", "Negation") {
		name := an.RelName(fs.Fn)
		e := tempName.ReplaceAllString(an.Expr(fs.Store.Val), "")
		ok := name == "internal/corazawaf.(*Rule).SetOperator"
		c.Check(ok, "R3", "operator.Negation written by "+name, fs.Store.Pos(), "value "+e, "operator.Negation is written outside SetOperator")
		if ok {
			// first byte == '!' in either spelling: name[0] == '!' under a length guard, or strings.HasPrefix(name, "!")
			fromBang := strings.Contains(e, `[0] == 33`) || strings.Contains(e, "33") || strings.Contains(e, `strings.HasPrefix(`) && strings.Contains(e, `,"!")`)
			c.Check(fromBang, "R3", "SetOperator derives Negation from the leading '!'", fs.Store.Pos(), e, "Negation is computed as "+e)
		}
	}
}

// ---- R4
func c01MatchDatum(c *an.Ctx) {
	fn := c.Fn("R4", "internal/corazawaf.(*Rule).doEvaluate")
	if fn == nil {
		return
	}
	execOp := c.P.Func("internal/corazawaf.(*Rule).executeOperator")
	n := 0
	// literal MatchData with Variable_/Key_/Value_ stores
	lits := map[*ssa.Alloc]map[string]*ssa.Store{}
	an.Instrs(fn, func(in ssa.Instruction) {
		st, ok := in.(*ssa.Store)
		if !ok {
			return
		}
		fa, ok := st.Addr.(*ssa.FieldAddr)
		if !ok {
			return
		}
		al, ok := fa.X.(*ssa.Alloc)
		if !ok || !strings.HasSuffix(al.Type().String(), "corazarules.MatchData") {
			return
		}
		if lits[al] == nil {
			lits[al] = map[string]*ssa.Store{}
		}
		lits[al][an.FieldVar(fa).Name()] = st
	})
	for al, f := range lits {
		if f["Value_"] == nil {
			continue // the forced-match datum of SecAction/SecMarker
		}
		n++
		facts := an.FactsAt(f["Value_"])
		matched := false
		for _, a := range facts {
			if strings.Contains(a.L, "executeOperator(") && a.Op == "==" && a.R == "true" {
				matched = true
			}
		}
		c.Check(matched, "R4", "doEvaluate: match datum only built when the operator matched", al.Pos(), "dominated by executeOperator(...) == true", "a match datum is built without the operator having matched", facts.Strings()...)
		val := tempName.ReplaceAllString(an.Expr(f["Value_"].Val), "")
		// the value stored is the value the operator saw
		saw := ""
		an.Instrs(fn, func(in ssa.Instruction) {
			if an.IsCallTo(in, execOp) && (in.Block() == al.Block() || in.Block().Dominates(al.Block())) {
				saw = tempName.ReplaceAllString(an.Expr(an.CallOf(in).Args[1]), "")
			}
		})
		c.Check(val == saw && saw != "", "R4", "doEvaluate: datum value is the transformed value given to the operator", al.Pos(), "Value_ = the operator's argument", "Value_ is "+val+" but the operator evaluated "+saw)
		if f["Variable_"] != nil {
			e := tempName.ReplaceAllString(an.Expr(f["Variable_"].Val), "")
			c.Check(strings.HasSuffix(e, ".Variable()") && strings.Contains(e, "GetField("), "R4", "doEvaluate: datum variable is the selected value's variable", al.Pos(), e, "Variable_ is "+e)
		} else {
			c.Bad("R4", "doEvaluate: datum variable is the selected value's variable", al.Pos(), "Variable_ is not set")
		}
		if f["Key_"] != nil {
			e := tempName.ReplaceAllString(an.Expr(f["Key_"].Val), "")
			c.Check(strings.HasSuffix(e, ".Key()") && strings.Contains(e, "GetField("), "R4", "doEvaluate: datum key is the selected value's key", al.Pos(), e, "Key_ is "+e)
		} else {
			c.Bad("R4", "doEvaluate: datum key is the selected value's key", al.Pos(), "Key_ is not set")
		}
	}
	c.MinCount("R4", "match data built in doEvaluate", n, 1)
	// the operator sees the transformation result of the selected value
	an.Instrs(fn, func(in ssa.Instruction) {
		if an.IsCallTo(in, execOp) {
			arg := tempName.ReplaceAllString(an.Expr(an.CallOf(in).Args[1]), "")
			c.Check(strings.Contains(arg, "transformArg(") || strings.Contains(arg, "transformMultiMatchArg(") || strings.Contains(arg, "args"), "R4", "doEvaluate: operator evaluated on the transformed value", in.Pos(), arg, "the operator is evaluated on "+arg+", not on the output of the rule's transformations")
		}
	})
}

// ---- R5
func c01Order(c *an.Ctx) {
	allowed := map[string]string{
		"internal/corazawaf.(*RuleGroup).Add":                 "append",
		"internal/corazawaf.(*RuleGroup).DeleteByID":          "order-preserving removal",
		"internal/corazawaf.(*RuleGroup).DeleteByRange":       "order-preserving filter",
		"internal/corazawaf.(*RuleGroup).DeleteByMsg":         "order-preserving filter",
		"internal/corazawaf.(*RuleGroup).DeleteByTag":         "order-preserving filter",
		"internal/corazawaf.(*RuleGroup).DiscardPendingChain": "drops the last rule",
		"internal/corazawaf.NewRuleGroup":                     "empty group",
	}
	for _, fs := range c.P.StoresToField(pkgWAF, "RuleGroup", "rules") {
		name := an.RelName(fs.Fn)
		why, ok := allowed[name]
		c.Check(ok, "R5", "RuleGroup.rules written by "+name, fs.Store.Pos(), why, "the rule list is rewritten outside the order-preserving helpers: rules may no longer fire in configuration order")
	}
	// no sort / swap on the rule list
	for _, fn := range c.P.ModFuncs {
		if relPkg(fn) != "internal/corazawaf" {
			continue
		}
		an.Instrs(fn, func(in ssa.Instruction) {
			cc := an.CallOf(in)
			if cc == nil || cc.StaticCallee() == nil || cc.StaticCallee().Pkg == nil {
				return
			}
			pp := cc.StaticCallee().Pkg.Pkg.Path()
			if (pp == "sort" || pp == "slices") && len(cc.Args) > 0 && strings.Contains(an.Expr(cc.Args[0]), ".rules") {
				c.Bad("R5", "rule list reordered in "+an.RelName(fn), in.Pos(), "the rule list is passed to "+an.CalleeName(in.(ssa.CallInstruction)))
			}
		})
	}
	// Add appends at the end
	if add := c.Fn("R5", "internal/corazawaf.(*RuleGroup).Add"); add != nil {
		for _, fs := range c.P.StoresToField(pkgWAF, "RuleGroup", "rules") {
			if fs.Fn == add {
				e := tempName.ReplaceAllString(an.Expr(fs.Store.Val), "")
				c.Check(strings.HasPrefix(e, "append(rg.rules,"), "R5", "RuleGroup.Add appends at the end", fs.Store.Pos(), e, "Add stores "+e)
			}
		}
	}
	// filters keep relative order: kept = append(kept, r) inside an ascending range over rg.rules
	for _, name := range []string{"DeleteByRange", "DeleteByMsg", "DeleteByTag"} {
		fn := c.Fn("R5", "internal/corazawaf.(*RuleGroup)."+name)
		if fn == nil {
			continue
		}
		ok := false
		for _, li := range an.Loops(fn) {
			if li.Over == "rg.rules" && !li.EarlyExit {
				for b := range li.Loop.Blocks {
					for _, in := range b.Instrs {
						if an.IsBuiltinCall(in, "append") && strings.HasPrefix(an.Expr(an.CallOf(in).Args[0]), "*kept") {
							ok = true
						}
					}
				}
			}
		}
		c.Check(ok, "R5", name+" filters in list order without early exit", fn.Pos(), "kept = append(kept, rules[i]) over the whole list", name+" no longer walks the whole rule list appending kept rules in order")
	}
	// Eval walks by ascending index: r = &rg.rules[i] with i the range index
	if m := buildEvalModel(c, "R5"); m != nil {
		recv := tempName.ReplaceAllString(an.Expr(an.CallOf(m.call).Args[0]), "")
		// the receiver is &<rule list>[idx] where the list is RuleGroup.rules (read directly or through a local
		// taken before the loop) and idx is the loop's counter: a header value starting at 0 (or the hidden -1 of a
		// range loop, used as counter+1) and incremented by exactly one on every back edge
		okAsc := false
		if ia, ok := an.CallOf(m.call).Args[0].(*ssa.IndexAddr); ok {
			fromRules := false
			for d := range an.Deps(ia.X) {
				if fa, ok := d.(*ssa.FieldAddr); ok && an.FieldVar(fa) != nil && an.FieldVar(fa).Name() == "rules" && strings.HasSuffix(strings.TrimPrefix(fa.X.Type().String(), "*"), "corazawaf.RuleGroup") {
					fromRules = true
				}
			}
			idx, off := ia.Index, int64(0)
			if b, ok := idx.(*ssa.BinOp); ok && b.Op == token.ADD {
				if k, ok := an.ConstInt(b.Y); ok {
					idx, off = b.X, k
				}
			}
			if phi, ok := idx.(*ssa.Phi); ok && phi.Block() == m.loop.Header && fromRules {
				okAsc = true
				for j, e := range phi.Edges {
					if !m.loop.Blocks[phi.Block().Preds[j]] {
						if k, ok := an.ConstInt(e); !ok || k+off != 0 {
							okAsc = false
						}
						continue
					}
					step := false
					for _, lf := range leavesOf(e, nil, 0) {
						if b, ok := lf.V.(*ssa.BinOp); ok && b.Op == token.ADD && b.X == ssa.Value(phi) {
							if k, ok := an.ConstInt(b.Y); ok && k == 1 {
								step = true
								continue
							}
						}
						step = false
						break
					}
					if !step {
						okAsc = false
					}
				}
			}
		}
		c.Check(okAsc, "R5", "Eval evaluates rules[i] for ascending i", m.call.Pos(), recv, "Eval evaluates "+recv+", which is not the rule list indexed by a counter going 0,1,2,...")
	}
}

// ---- R6
func c01Chain(c *an.Ctx) {
	fn := c.Fn("R6", "internal/corazawaf.(*Rule).doEvaluate")
	mr := c.Fn("R6", "internal/corazawaf.(*Transaction).MatchRule")
	if fn == nil || mr == nil {
		return
	}
	// recursive evaluation of the links
	var rec []ssa.Instruction
	an.Instrs(fn, func(in ssa.Instruction) {
		if an.IsCallTo(in, fn) {
			rec = append(rec, in)
		}
	})
	c.MinCount("R6", "recursive link evaluations in doEvaluate", len(rec), 1)
	for i, r := range rec {
		// after the call, on the edge len(result) == 0 the function returns without MatchRule/actions
		res := an.Expr(r.(ssa.Value))
		var emptyBlk *ssa.BasicBlock
		for _, b := range fn.Blocks {
			if an.FactsAtBlock(b).Has("len("+res+")", "==", "0") && (emptyBlk == nil || b.Dominates(emptyBlk)) {
				emptyBlk = b
			}
		}
		key := fmt.Sprintf("doEvaluate: link #%d must match before the chain completes", i+1)
		if emptyBlk == nil {
			c.Bad("R6", key, r.Pos(), "the result of evaluating a chained rule is not tested for emptiness: a chain would fire although a link did not match")
			continue
		}
		w := an.FindPath(an.PathQuery{Fn: fn, StartBlock: emptyBlk, Target: func(in ssa.Instruction) bool {
			if an.IsCallTo(in, mr) {
				return true
			}
			cc := an.CallOf(in)
			return cc != nil && cc.IsInvoke() && cc.Method.Name() == "Evaluate" && strings.Contains(an.Expr(cc.Value), ".Function")
		}})
		c.Check(w == nil, "R6", key, r.Pos(), "when a link returns no match, neither MatchRule nor any action is reachable", "after a chained rule failed to match, MatchRule or an action is still reachable: the chain fires without all links")
		// the next link is the Chain successor
	}
	// MatchRule and flow/disruptive actions only for the chain starter
	an.Instrs(fn, func(in ssa.Instruction) {
		if an.IsCallTo(in, mr) {
			f := an.FactsAt(in)
			c.Check(f.HasSuffix(".ParentID_", "==", "0") && f.HasSuffix(".ID_", "!=", "0"), "R6", "doEvaluate: MatchRule only for the chain starter", in.Pos(), "guarded by ParentID_ == 0 and ID_ != 0", "MatchRule is called for chain members / markers too", f.Strings()...)
		}
	})
}

// ---- R7
func c01PhaseFilter(c *an.Ctx) {
	if c.P.Cfg.Name == "multiphase" {
		c.Note("R7", "phase filter", token.NoPos, "multiphase build: the inferred-phase tables are not decided")
		return
	}
	m := buildEvalModel(c, "R7")
	if m == nil {
		return
	}
	// from the first block of the loop body, every path to r.Evaluate passes an edge with Phase_ == 0 or Phase_ == phase
	var body *ssa.BasicBlock
	for _, s := range m.loop.Header.Succs {
		if m.loop.Blocks[s] {
			body = s
		}
	}
	w := an.FindPath(an.PathQuery{Fn: m.fn, StartBlock: body, Target: func(in ssa.Instruction) bool { return in == m.call },
		PruneEdge: func(b *ssa.BasicBlock, si int) bool {
			if b.Succs[si] == m.loop.Header {
				return true
			}
			ifi, ok := b.Instrs[len(b.Instrs)-1].(*ssa.If)
			if !ok {
				return false
			}
			for _, a := range an.CondAtoms(ifi.Cond, si == 0) {
				if strings.HasSuffix(a.L, ".Phase_") && a.Op == "==" && (a.R == "0" || a.R == "phase") {
					return true
				}
			}
			return false
		}})
	if w != nil {
		c.Bad("R7", "Eval: phase filter", m.call.Pos(), "a rule can be evaluated in a phase other than its own (no Phase_ == 0 / Phase_ == phase test on some path to r.Evaluate)", c.P.TrailString(w)...)
	} else {
		c.Ok("R7", "Eval: phase filter", m.call.Pos(), "r.Evaluate is reachable only through Phase_ == 0 or Phase_ == phase")
	}
}

// ---- R8
func c01Completeness(c *an.Ctx) {
	type spec struct {
		fn, over string
		mayExit  bool
	}
	specs := []spec{
		{"internal/collections.(*ConcatCollection).FindAll", "c.data", false},
		{"internal/collections.(*ConcatKeyed).FindAll", "c.data", false},
		{"internal/collections.(*ConcatKeyed).FindRegex", "c.data", false},
		{"internal/collections.(*ConcatKeyed).FindString", "c.data", false},
		{"internal/collections.(*ConcatKeyed).Get", "c.data", false},
		{"internal/collections.(*Map).FindAll", "c.data", false},
		{"internal/collections.(*Map).FindRegex", "c.data", false},
		{"internal/collections.(*NamedCollectionNames).FindAll", "c.collection.Map.data", false},
		{"internal/collections.(*NamedCollectionNames).FindRegex", "c.collection.Map.data", false},
		{"internal/corazawaf.(*Rule).AddVariableNegation", "r.variables", false},
		{"internal/collections.replaceVariable", "md", false},
	}
	for _, s := range specs {
		fn := c.Fn("R8", s.fn)
		if fn == nil {
			continue
		}
		n := 0
		for _, li := range an.Loops(fn) {
			over := tempName.ReplaceAllString(li.Over, "")
			n++
			key := fmt.Sprintf("%s: loop #%d over %s is complete", shortFn(s.fn), n, over)
			c.Check(!li.EarlyExit, "R8", key, li.Pos.Pos(), "no exit from inside the loop body", "the loop over "+over+" can stop early: members / stored values / targets after the exit point are skipped (missed match or phantom match)")
		}
		if n == 0 {
			c.Bad("R8", shortFn(s.fn)+": iterates "+s.over, fn.Pos(), "no loop found in a function that must visit every element of "+s.over)
		}
	}
	// the evaluation loops of a rule offer every target, every selected value and every transformed value to the
	// operator: none of them is left from inside (which value comes first depends on map iteration order, so an
	// early exit also makes the match data vary between runs)
	if de := c.Fn("R8", "internal/corazawaf.(*Rule).doEvaluate"); de != nil {
		nEv := 0
		for _, li := range an.Loops(de) {
			over := tempName.ReplaceAllString(li.Over, "")
			what := ""
			switch {
			case over == "r.variables":
				what = "the rule's targets"
			case strings.HasPrefix(over, "tx.GetField("):
				what = "the values selected by a target"
			case strings.HasPrefix(over, "*args[") || strings.HasPrefix(over, "φ(r.transformArg("):
				what = "the transformed values of one selected value"
			default:
				continue
			}
			nEv++
			if c.P.Cfg.Name == "multiphase" {
				continue // the multiphase build re-evaluates and de-duplicates with its own exits (not decided)
			}
			c.Check(!li.EarlyExit, "R8", "doEvaluate: the loop over "+what+" is complete", li.Pos.Pos(), "no exit from inside the loop body",
				"the loop over "+what+" can be left from inside: the remaining values are never offered to the operator, so matches are missed and the reported match data is incomplete (and, values being selected in map order, differs between runs)")
		}
		c.MinCount("R8", "evaluation loops in doEvaluate", nEv, 3)
	}
	// the size view (ARGS_COMBINED_SIZE ...) measures what was received: it sums the lengths of the key and of the
	// value *stored with each pair* (the name as received), never the length of the folded map index
	if sz := c.Fn("R8", "internal/collections.(*SizeCollection).size"); sz != nil {
		fields := map[string]bool{}
		bad := ""
		an.Instrs(sz, func(in ssa.Instruction) {
			if !an.IsBuiltinCall(in, "len") {
				return
			}
			arg := an.CallOf(in).Args[0]
			if !isStringType(arg.Type()) {
				return // len of a slice: loop bound
			}
			if u, ok := arg.(*ssa.UnOp); ok {
				if fa, ok := u.X.(*ssa.FieldAddr); ok {
					fields[an.FieldVar(fa).Name()] = true
					return
				}
			}
			if f, ok := arg.(*ssa.Field); ok {
				if st, ok := f.X.Type().Underlying().(*types.Struct); ok {
					fields[st.Field(f.Field).Name()] = true
					return
				}
			}
			bad = tempName.ReplaceAllString(an.Expr(arg), "")
		})
		c.Check(bad == "" && fields["key"] && fields["value"], "R8", "SizeCollection.size sums the stored key and value of every pair", sz.Pos(), "len(pair.key) + len(pair.value)",
			"the combined size is computed from len("+bad+") (fields measured: "+strings.Join(sortedKeys(fields), ",")+") rather than from the key and value stored with each pair: for names whose folded form has another byte length (non-ASCII upper case, invalid UTF-8) the variable no longer equals the number of bytes received")
	}
	// the key reported in the match data is the key as received (the one stored with the pair), never the folded
	// map index nor the selector: MATCHED_VAR_NAME, MATCHED_VARS_NAMES and the audit log show what the client sent
	nKey := 0
	for _, fn := range c.P.ModFuncs {
		if relPkg(fn) != "internal/collections" {
			continue
		}
		an.Instrs(fn, func(in ssa.Instruction) {
			st, ok := in.(*ssa.Store)
			if !ok {
				return
			}
			fa, ok := st.Addr.(*ssa.FieldAddr)
			if !ok || an.FieldVar(fa) == nil || an.FieldVar(fa).Name() != "Key_" || !strings.HasSuffix(fa.X.Type().String(), "corazarules.MatchData") {
				return
			}
			nKey++
			isStoredKey := func(v ssa.Value) bool {
				switch v := v.(type) {
				case *ssa.UnOp:
					if f2, ok := v.X.(*ssa.FieldAddr); ok && an.FieldVar(f2) != nil && an.FieldVar(f2).Name() == "key" {
						return true
					}
				case *ssa.Field:
					if stt, ok := v.X.Type().Underlying().(*types.Struct); ok && stt.Field(v.Field).Name() == "key" {
						return true
					}
				}
				return false
			}
			okV := isStoredKey(st.Val)
			// a private builder of the datum (nameMatch(name)) receives the key as a parameter: then every caller
			// must pass the stored key
			if prm, isP := st.Val.(*ssa.Parameter); isP && !okV && !token.IsExported(fn.Name()) {
				idx := -1
				for i, p2 := range fn.Params {
					if p2 == prm {
						idx = i
					}
				}
				sites := c.P.CallSites(func(x ssa.Instruction) bool { return an.IsCallTo(x, fn) })
				okV = idx >= 0 && len(sites) > 0
				for _, cs := range sites {
					args := cs.Call.Common().Args
					if idx >= len(args) || !isStoredKey(args[idx]) {
						okV = false
					}
				}
			}
			c.Check(okV, "R8", fmt.Sprintf("match datum key #%d in %s is the stored (received) key", nKey, an.RelName(fn)), in.Pos(), tempName.ReplaceAllString(an.Expr(st.Val), ""),
				"the match data built here reports "+tempName.ReplaceAllString(an.Expr(st.Val), "")+" as the key instead of the key stored with the pair: for case-folded collections this is the lower-cased index (or the selector), so MATCHED_VAR_NAME / MATCHED_VARS_NAMES no longer show the name as received and rules or chains testing it miss")
		})
	}
	c.MinCount("R8", "match data keys built in the collections", nKey, 5)
	// concat views relabel with their own variable
	for _, name := range []string{"internal/collections.(*ConcatCollection).FindAll", "internal/collections.(*ConcatKeyed).FindAll", "internal/collections.(*ConcatKeyed).FindRegex", "internal/collections.(*ConcatKeyed).FindString"} {
		fn := c.P.Func(name)
		rv := c.P.Func("internal/collections.replaceVariable")
		if fn == nil || rv == nil {
			continue
		}
		ok := false
		an.Instrs(fn, func(in ssa.Instruction) {
			if an.IsCallTo(in, rv) && an.Expr(an.CallOf(in).Args[0]) == "c.variable" {
				ok = true
			}
		})
		c.Check(ok, "R8", shortFn(name)+" relabels results with its own variable", fn.Pos(), "replaceVariable(c.variable, ...)", "results of member collections are not relabelled with the concatenated variable")
	}
	// AddVariableNegation: exception appended for every target with the same variable, written back
	if fn := c.P.Func("internal/corazawaf.(*Rule).AddVariableNegation"); fn != nil {
		nApp := 0
		an.Instrs(fn, func(in ssa.Instruction) {
			if an.IsBuiltinCall(in, "append") && strings.Contains(an.Expr(an.CallOf(in).Args[0]), ".Exceptions") {
				f := an.FactsAt(in)
				if f.HasSuffix(".Variable", "==", "v") || c.P.Cfg.Name == "multiphase" {
					nApp++
				}
			}
		})
		c.Check(nApp >= 1, "R8", "AddVariableNegation: exception attached under rv.Variable == v", fn.Pos(), "append under the variable equality", "the exception is attached under another condition")
	}
}
