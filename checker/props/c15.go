package props

import (
	"fmt"
	"go/token"
	"go/types"
	"sort"
	"strconv"
	"strings"

	"czcheck/an"

	"golang.org/x/tools/go/ssa"
)

func init() {
	register(&Property{
		ID:    "C15",
		Title: "Built-in operators decide exactly their documented predicates",
		Explanation: "Decides structural agreement between operators, not the predicates themselves: R1 capture bound agreement: every loop that stores captures stores a value for every index it visits (a group that did not participate is stored as empty, never skipped) stops after index 9, and is left only when the matches are exhausted or ten captures are stored (the bound constant extracted from each loop's exit test is 10 everywhere), so TX.0-9 are filled alike by @rx, binary @rx, @pm and @validateNid; " +
			"R2 macro re-expansion: every operator holding a macro argument expands it with the transaction inside Evaluate and never at construction, and keeps no expanded copy; R3 single negation point (C01.R3 re-applied); R4 look-ahead and fixed-position reads in the operators are length-guarded (A9 shapes); " +
			"R5 the @pm family builds its matcher and its minimum-length shortcut from the same phrase list, the matcher is ASCII-case-insensitive, and the minimum-length test can only reject; R6 @ipMatch gives a bare address the host mask of its family: /32 only when the entry contains no ':' (path query with infeasible-branch pruning), /128 only when it does; R7 the numeric comparisons (@eq @ge @gt @le @lt) are siblings: each returns one comparison of the same two parsed numbers (input and expanded argument, parsed by the same function with the same error handling), so they differ only in the comparison operator; R8 a rune obtained by ranging over the input is never narrowed to a byte without a bound (bytes are examined as bytes); R2 also: every return of a macro-argument operator's Evaluate follows the expansion (nothing is decided from the argument text as written). R7 also: @within, @contains, @strmatch, @beginsWith, @endsWith and @streq return their library predicate over (value, expanded argument) on every path, operands in the documented order; R8 also: character class tests are inclusive at their boundary characters and width tests cover the whole class.",
		NotDecided: []string{
			"every predicate itself (substring search, CIDR membership, byte ranges, UTF-8 validation, RE2 semantics)",
			"numeric parsing leniency of the comparison operators (non-numeric text counts as 0)",
			"third-party matchers (aho-corasick, libinjection)",
		},
		Run: runC15,
	})
}

func runC15(c *an.Ctx) {
	// ---- R1 capture bounds
	nLoops := 0
	loopDone := map[*ssa.BasicBlock]bool{}
	exitsDone := map[*ssa.BasicBlock]bool{}
	bounds := map[string][]string{}
	for _, fn := range c.P.ModFuncs {
		if relPkg(fn) != "internal/operators" {
			continue
		}
		an.Instrs(fn, func(in ssa.Instruction) {
			cc := an.CallOf(in)
			if cc == nil || !cc.IsInvoke() || cc.Method.Name() != "CaptureField" {
				return
			}
			l := an.InnermostLoop(in.Block())
			if l == nil {
				return
			}
			nLoops++
			c.FuncsAnalysed[fn] = true
			// every iteration stores its capture: no path through the loop body reaches the next iteration without a
			// CaptureField call (a group that did not participate is stored as "", otherwise TX.n keeps the text of
			// an earlier match)
			if !loopDone[l.Header] {
				loopDone[l.Header] = true
				var body *ssa.BasicBlock
				for _, sx := range l.Header.Succs {
					if l.Blocks[sx] && sx != l.Header {
						body = sx
					}
				}
				if body != nil {
					w := an.FindPath(an.PathQuery{Fn: fn, StartBlock: body,
						Stop: func(x ssa.Instruction) bool {
							xc := an.CallOf(x)
							return xc != nil && xc.IsInvoke() && xc.Method.Name() == "CaptureField"
						},
						Target:    func(x ssa.Instruction) bool { return x.Block() == l.Header && x == l.Header.Instrs[0] },
						PruneEdge: func(bb *ssa.BasicBlock, si int) bool { return !l.Blocks[bb.Succs[si]] }})
					if why, ok := c15CaptureFilterAllow[an.RelName(fn)]; ok && w != nil {
						c.Note("R1", "capture loop in "+an.RelName(fn)+" stores a value for every index it visits", in.Pos(), "filtering capture loop: "+why)
					} else if w != nil {
						c.Bad("R1", "capture loop in "+an.RelName(fn)+" stores a value for every index it visits", in.Pos(), "an iteration of the capture loop can finish without calling CaptureField: TX.n then keeps what an earlier value or rule captured (stale capture) instead of the text of this match", c.P.TrailString(w)...)
					} else {
						c.Ok("R1", "capture loop in "+an.RelName(fn)+" stores a value for every index it visits", in.Pos(), "every path through the body passes CaptureField")
					}
				}
			}
			// ... and the loop is left only because the matches are exhausted or ten captures are stored: every edge
			// out of the loop is caused by the match source (nil / end of the match list) or by the capture counter
			if !exitsDone[l.Header] {
				exitsDone[l.Header] = true
				nEx := 0
				for _, e := range l.ExitEdges() {
					b, si := e[0].(*ssa.BasicBlock), e[1].(int)
					ifi, ok := b.Instrs[len(b.Instrs)-1].(*ssa.If)
					if !ok {
						continue
					}
					nEx++
					legit := false
					var desc []string
					for _, a := range an.CondAtoms(ifi.Cond, si == 0) {
						desc = append(desc, tempName.ReplaceAllString(a.String(), ""))
						switch {
						case a.R == "nil" && a.Op == "==": // iterator exhausted
							legit = true
						case a.R == "10" || a.R == "9": // capture counter (the bound itself is checked above)
							legit = true
						case strings.Contains(a.R, "len(") || strings.Contains(a.L, "rangeindex"): // end of the match list
							legit = true
						}
					}
					c.Check(legit, "R1", fmt.Sprintf("capture loop in %s: exit #%d is caused by the end of the matches or by the tenth capture", an.RelName(fn), nEx), ifi.Pos(), strings.Join(desc, " && "),
						"the capture loop is also left when "+strings.Join(desc, " && ")+": matches that follow are not captured (and, for @pm, not stored in TX.1-9) although fewer than ten captures exist")
				}
			}
			idx := an.Expr(cc.Args[0])
			// constants the index (or index+1) is compared with anywhere in the function
			var ks []string
			an.Instrs(fn, func(x ssa.Instruction) {
				ifi, ok := x.(*ssa.If)
				if !ok {
					return
				}
				for _, a := range an.CondAtoms(ifi.Cond, true) {
					if _, err := strconv.Atoi(a.R); err != nil {
						continue
					}
					k, _ := strconv.Atoi(a.R)
					switch {
					case a.L == idx && (a.Op == "==" || a.Op == ">="):
						ks = append(ks, strconv.Itoa(k))
					case a.L == idx && a.Op == ">":
						ks = append(ks, strconv.Itoa(k+1))
					case a.L == "("+idx+" + 1)" && (a.Op == "==" || a.Op == ">="):
						ks = append(ks, strconv.Itoa(k))
					case a.L == idx && a.Op == "<":
						ks = append(ks, strconv.Itoa(k))
					}
				}
			})
			sort.Strings(ks)
			name := an.RelName(fn)
			bounds[name] = ks
			ok := len(ks) >= 1
			for _, k := range ks {
				if k != "10" {
					ok = false
				}
			}
			c.Check(ok, "R1", "capture loop in "+name+" fills TX.0 to TX.9", in.Pos(), "loop stops when the capture index reaches 10",
				"the capture loop compares its index with "+strings.Join(ks, ",")+" (expected 10): the operator stores a different number of captures than the others (e.g. TX.9 never set)")
		})
	}
	c.MinCount("R1", "capture loops in operators", nLoops, 4)

	// ---- R2 macro re-expansion
	regFn := c.Fn("R2", "internal/operators.Register")
	nMacroOps := 0
	if regFn != nil {
		for _, f := range c.P.ModFuncs {
			if relPkg(f) != "internal/operators" {
				continue
			}
			an.Instrs(f, func(in ssa.Instruction) {
				if !an.IsCallTo(in, regFn) {
					return
				}
				cc := an.CallOf(in)
				arg := cc.Args[1]
				if ct, ok := arg.(*ssa.ChangeType); ok {
					arg = ct.X
				}
				fac, ok := arg.(*ssa.Function)
				if !ok {
					return
				}
				opName := strings.Trim(an.Expr(cc.Args[0]), "\"")
				// operator struct types returned
				an.Instrs(fac, func(x ssa.Instruction) {
					r, ok := x.(*ssa.Return)
					if !ok || len(r.Results) != 2 {
						return
					}
					mi, ok := r.Results[0].(*ssa.MakeInterface)
					if !ok {
						return
					}
					tn := typeBaseName(mi.X.Type().String())
					nn := c.P.LookupType("internal/operators", tn)
					if nn == nil {
						return
					}
					st, ok := nn.Underlying().(*types.Struct)
					if !ok {
						return
					}
					var macroFields []string
					for i := 0; i < st.NumFields(); i++ {
						if strings.HasSuffix(st.Field(i).Type().String(), "macro.Macro") {
							macroFields = append(macroFields, st.Field(i).Name())
						}
					}
					if len(macroFields) == 0 {
						return
					}
					ev := c.P.Func("internal/operators.(*" + tn + ").Evaluate")
					if ev == nil {
						return
					}
					nMacroOps++
					for _, mf := range macroFields {
						expanded := false
						an.Instrs(ev, func(y ssa.Instruction) {
							c2 := an.CallOf(y)
							if c2 != nil && c2.IsInvoke() && c2.Method.Name() == "Expand" && an.Expr(c2.Value) == "o."+mf && an.Expr(c2.Args[0]) == "tx" && an.InnermostLoop(y.Block()) == nil {
								expanded = true
							}
						})
						c.Check(expanded, "R2", "@"+opName+" expands its argument at evaluation time", ev.Pos(), "o."+mf+".Expand(tx) in Evaluate", "@"+opName+" does not expand its macro argument inside Evaluate: %{...} would be frozen at compile time or shared between transactions")
						// ... and nothing is decided before the expansion: every return of Evaluate follows it (a shortcut
						// computed from the argument text as written, e.g. its length, says nothing about the expanded value)
						if expanded {
							w := an.FindPath(an.PathQuery{Fn: ev,
								Stop: func(x ssa.Instruction) bool {
									xc := an.CallOf(x)
									return xc != nil && xc.IsInvoke() && xc.Method.Name() == "Expand" && an.Expr(xc.Value) == "o."+mf
								},
								Target: func(x ssa.Instruction) bool { _, ok := x.(*ssa.Return); return ok }})
							if w != nil {
								c.Bad("R2", "@"+opName+" decides nothing before expanding its argument", w.Target.Pos(), "@"+opName+".Evaluate can return without having expanded "+mf+": the verdict on that path depends on the argument as written in the rule (macro text), not on its value for this transaction", c.P.TrailString(w)...)
							} else {
								c.Ok("R2", "@"+opName+" decides nothing before expanding its argument", ev.Pos(), "every return of Evaluate follows "+mf+".Expand(tx)")
							}
						}
					}
					// no Expand at construction
					early := false
					an.Instrs(fac, func(y ssa.Instruction) {
						c2 := an.CallOf(y)
						if c2 != nil && c2.IsInvoke() && c2.Method.Name() == "Expand" {
							early = true
						}
					})
					c.Check(!early, "R2", "@"+opName+" does not expand its argument at construction", fac.Pos(), "factory keeps the macro", "the factory expands the macro once, at compile time")
					// the struct is not written at request time
					for i := 0; i < st.NumFields(); i++ {
						for _, fs := range c.P.StoresToField("internal/operators", tn, st.Field(i).Name()) {
							if fs.Fn != fac {
								c.Bad("R2", "@"+opName+" keeps no per-request state ("+st.Field(i).Name()+" written in "+an.RelName(fs.Fn)+")", fs.Store.Pos(), "the shared operator object is written outside its factory")
							}
						}
					}
				})
			})
		}
	}
	c.MinCount("R2", "operators with a macro argument", nMacroOps, 9)

	// ---- R3
	c01Negation(c)
	// ---- R4
	lookaheadRule(c, "R4", []string{"internal/operators"}, 40)

	// ---- R5 @pm family
	mpl := c.Fn("R5", "internal/operators.minPatternLen")
	for _, name := range []string{"newPM", "newPMFromFile", "newPMFromDataset"} {
		fn := c.Fn("R5", "internal/operators."+name)
		if fn == nil || mpl == nil {
			continue
		}
		var built, measured string
		an.Instrs(fn, func(in ssa.Instruction) {
			if an.IsCallTo(in, mpl) {
				measured = tempName.ReplaceAllString(an.Expr(an.CallOf(in).Args[0]), "")
			}
		})
		for _, f := range an.WithClosures(fn) {
			an.Instrs(f, func(in ssa.Instruction) {
				if ci, ok := in.(ssa.CallInstruction); ok && strings.HasSuffix(an.CalleeName(ci), "AhoCorasickBuilder).Build") {
					built = tempName.ReplaceAllString(an.Expr(ci.Common().Args[1]), "")
				}
			})
		}
		// inside the closure the list is a captured variable: compare by variable name
		norm := func(s string) string { return strings.TrimPrefix(s, "*") }
		c.Check(built != "" && norm(built) == norm(measured), "R5", name+": matcher and minimum length come from the same phrase list", fn.Pos(), "Build("+built+") and minPatternLen("+measured+")",
			"the matcher is built from "+built+" but the minimum-length shortcut from "+measured+": inputs shorter than a phrase of the other list are rejected without being searched")
		// ASCII case insensitive option set
		ci := false
		an.Instrs(fn, func(in ssa.Instruction) {
			if st, ok := in.(*ssa.Store); ok {
				if fa, ok := st.Addr.(*ssa.FieldAddr); ok && an.FieldVar(fa).Name() == "AsciiCaseInsensitive" && an.Expr(st.Val) == "true" {
					ci = true
				}
			}
		})
		c.Check(ci, "R5", name+": matcher is ASCII-case-insensitive", fn.Pos(), "AsciiCaseInsensitive: true", "the phrase matcher is built without AsciiCaseInsensitive")
	}
	// the cached matcher is determined by the phrase list (shared with C13.R2)
	for _, ms := range memoSites(c) {
		if relPkg(ms.fn) != "internal/operators" || !strings.HasPrefix(ms.fn.Name(), "newPM") {
			continue
		}
		missing := memoMissing(ms, an.Deps(ms.key))
		c.Check(len(missing) == 0, "R5", ms.fn.Name()+": cached matcher is determined by its phrase list", ms.call.Pos(), "the cache key covers every input of the matcher",
			"the cached matcher reads inputs its cache key does not cover ("+strings.Join(missing, "; ")+"): a data set or file with the same name but other phrases reuses the first one's matcher")
	}
	if pe := c.Fn("R5", "internal/operators.(*pm).Evaluate"); pe != nil {
		ok := false
		an.Instrs(pe, func(in ssa.Instruction) {
			if r, isR := in.(*ssa.Return); isR && an.Expr(r.Results[0]) == "false" && an.FactsAt(r).Has("len(value)", "<", "o.minLen") {
				ok = true
			}
		})
		c.Check(ok, "R5", "@pm: the minimum-length test only rejects", pe.Pos(), "return false under len(value) < minLen", "the minimum-length shortcut of @pm does not simply reject")
	}

	// ---- R7 the numeric comparison operators are siblings: they compare the same two parsed numbers and differ
	// only in the comparison itself (a value parsed differently by one of them makes @gt disagree with @ge/!@le).
	c15NumericSiblings(c)

	// ---- R8 bytes are examined as bytes: the byte-oriented operators (byte ranges, URL encoding, UTF-8 validation,
	// pm, the string operators) index their input; ranging over a string yields runes, and byte(r) of a rune
	// produced by such a range keeps the low byte of the code point, which is not a byte of the input.
	nConv := runeToByte(c, "R8", "internal/operators", "internal/transformations", "internal/strings", "internal/url")
	c.OkTrivial("R8", "rune-to-byte conversions of string-range values in the byte-oriented packages", token.NoPos, fmt.Sprintf("%d sites", nConv))

	// the ASCII boundary: a byte is ASCII iff it is < utf8.RuneSelf (0x80).  Tests against that constant use < or >=;
	// a strict > (or <=) puts 0x80 itself on the wrong side.
	nB := 0
	for _, fn := range c.P.ModFuncs {
		if rp := relPkg(fn); rp != "internal/operators" && rp != "internal/transformations" && rp != "internal/strings" {
			continue
		}
		an.Instrs(fn, func(in ssa.Instruction) {
			b, ok := in.(*ssa.BinOp)
			if !ok {
				return
			}
			ky, isY := an.ConstInt(b.Y)
			kx, isX := an.ConstInt(b.X)
			op := b.Op.String()
			if isX && !isY { // constant on the left: mirror
				ky, isY = kx, true
				op = map[string]string{"<": ">", ">": "<", "<=": ">=", ">=": "<="}[op]
			}
			if !isY || ky != 128 {
				return
			}
			switch op {
			case "<", ">=":
				nB++
			case ">", "<=":
				nB++
				c.Bad("R8", "ASCII boundary test in "+an.RelName(fn), in.Pos(), "a value is compared with 0x80 (utf8.RuneSelf) using "+b.Op.String()+": the byte 0x80 itself lands on the ASCII side, so a stray 0x80 is treated as plain ASCII (valid UTF-8, nothing to decode)")
			}
		})
	}
	c.OkTrivial("R8", "comparisons with utf8.RuneSelf in the byte-oriented packages", token.NoPos, fmt.Sprintf("%d sites", nB))
	// the boundaries of the character classes (digits, octal digits, hex letters, letters) are inclusive: every
	// class test of these packages is `lo <= c && c <= hi`.  A strict comparison at a boundary constant (c < 'z',
	// c > 'a') or a width one short of the class (c-'a' < 25) leaves the boundary character out of the class:
	// 'z' is not upper-cased, '9' is not a digit.
	nC := 0
	upperB := map[int64]string{'9': "'9'", '7': "'7'", 'z': "'z'", 'Z': "'Z'", 'f': "'f'", 'F': "'F'"}
	lowerB := map[int64]string{'0': "'0'", 'a': "'a'", 'A': "'A'"}
	for _, fn := range c.P.ModFuncs {
		if rp := relPkg(fn); rp != "internal/operators" && rp != "internal/transformations" && rp != "internal/strings" && rp != "internal/url" {
			continue
		}
		an.Instrs(fn, func(in ssa.Instruction) {
			b, ok := in.(*ssa.BinOp)
			if !ok {
				return
			}
			op := b.Op.String()
			if op != "<" && op != ">" && op != "<=" && op != ">=" {
				return
			}
			x, ky, isY := b.X, int64(0), false
			if k, ok := an.ConstInt(b.Y); ok {
				ky, isY = k, true
			} else if k, ok := an.ConstInt(b.X); ok {
				x, ky, isY = b.Y, k, true
				op = map[string]string{"<": ">", ">": "<", "<=": ">=", ">=": "<="}[op]
			}
			if !isY {
				return
			}
			// only byte / rune / small-int operands that look like characters: the other operand must not be a length
			if bt, ok := x.Type().Underlying().(*types.Basic); !ok || bt.Info()&types.IsInteger == 0 || strings.HasPrefix(an.Expr(x), "len(") {
				return
			}
			// width form: (c - 'a') < 26
			if sub, ok := x.(*ssa.BinOp); ok && sub.Op == token.SUB {
				if base, ok := an.ConstInt(sub.Y); ok && lowerB[base] != "" {
					nC++
					width := map[int64][]int64{'a': {26, 6}, 'A': {26, 6}, '0': {10, 8}}[base]
					for _, w := range width {
						if op == "<" && ky == w-1 || op == "<=" && ky == w {
							c.Bad("R8", "character class width in "+an.RelName(fn), in.Pos(), fmt.Sprintf("(c - %s) %s %d covers %d characters, one %s than the class has: its last character is left out (or the one after it let in)", lowerB[base], op, ky, map[string]int64{"<": ky, "<=": ky + 1}[op], map[bool]string{true: "fewer", false: "more"}[op == "<"]))
						}
					}
				}
				return
			}
			if bt, ok := x.Type().Underlying().(*types.Basic); !ok || (bt.Kind() != types.Uint8 && bt.Kind() != types.Int32) {
				return
			}
			switch {
			case upperB[ky] != "":
				nC++
				if op == "<" {
					c.Bad("R8", "character class boundary in "+an.RelName(fn), in.Pos(), "c < "+upperB[ky]+" leaves "+upperB[ky]+" itself out of the class (every class test of these packages is inclusive: c <= "+upperB[ky]+")")
				}
			case lowerB[ky] != "":
				nC++
				if op == ">" {
					c.Bad("R8", "character class boundary in "+an.RelName(fn), in.Pos(), "c > "+lowerB[ky]+" leaves "+lowerB[ky]+" itself out of the class (every class test of these packages is inclusive: c >= "+lowerB[ky]+")")
				}
			}
		})
	}
	c.MinCount("R8", "character class boundary tests in the byte-oriented packages", nC, 20)
	// @pmFromFile: the line that is tested (blank? comment?) is the line that becomes a phrase — trimmed once, before
	// the tests (otherwise a whitespace-only line becomes the empty phrase, which matches everything)
	if pf := c.FnOpt("internal/operators.newPMFromFile"); pf != nil {
		var appended, tested []string
		an.Instrs(pf, func(in ssa.Instruction) {
			if an.IsCallToFunc(in, "strings", "ToLower") {
				appended = append(appended, tempName.ReplaceAllString(an.Expr(an.CallOf(in).Args[0]), ""))
			}
			if an.IsBuiltinCall(in, "len") {
				a := an.CallOf(in).Args[0]
				if isStringType(a.Type()) {
					tested = append(tested, tempName.ReplaceAllString(an.Expr(a), ""))
				}
			}
			// the other spelling of the emptiness test: l == ""
			if b, ok := in.(*ssa.BinOp); ok && (b.Op == token.EQL || b.Op == token.NEQ) {
				for _, pair := range [][2]ssa.Value{{b.X, b.Y}, {b.Y, b.X}} {
					if cst, isC := pair[1].(*ssa.Const); isC && an.Expr(cst) == `""` && isStringType(pair[0].Type()) {
						tested = append(tested, tempName.ReplaceAllString(an.Expr(pair[0]), ""))
					}
				}
			}
		})
		ok := len(appended) >= 1 && len(tested) >= 1
		for _, a := range appended {
			found := false
			for _, t := range tested {
				if a == t {
					found = true
				}
			}
			if !found || !strings.Contains(a, "TrimSpace(") {
				ok = false
			}
		}
		c.Check(ok, "R5", "@pmFromFile tests and stores the same trimmed line", pf.Pos(), strings.Join(appended, ","),
			"the phrase stored ("+strings.Join(appended, ",")+") is not the value whose emptiness was tested ("+strings.Join(tested, ",")+"): a line of blanks passes the blank-line test untrimmed and is then stored as the empty phrase, which occurs in every input")
	}

	// ---- R7 (cont.) the string operators are the library predicate and nothing else
	c15StringSiblings(c)

	// ---- R6 @ipMatch masks
	if im := c.Fn("R6", "internal/operators.newIPMatch"); im != nil {
		n := 0
		// the completion may sit in newIPMatch or in a private helper it calls (withHostMask(entry))
		fns := []*ssa.Function{im}
		an.Instrs(im, func(in ssa.Instruction) {
			if cc := an.CallOf(in); cc != nil {
				if h := cc.StaticCallee(); h != nil && h != im && relPkg(h) == "internal/operators" && len(h.Blocks) > 0 && !token.IsExported(h.Name()) {
					fns = append(fns, h)
				}
			}
		})
		for _, im := range fns {
			an.Instrs(im, func(in ssa.Instruction) {
				b, ok := in.(*ssa.BinOp)
				if !ok || b.Op.String() != "+" {
					return
				}
				cst, ok := b.Y.(*ssa.Const)
				if !ok {
					return
				}
				mask := strings.Trim(an.Expr(cst), "\"")
				if mask != "/32" && mask != "/128" {
					return
				}
				n++
				subject := an.Expr(b.X)
				wantColon := mask == "/128"
				need := an.Atom{L: "strings.Contains(" + subject + ",\":\")", Op: "==", R: map[bool]string{true: "true", false: "false"}[wantColon]}
				ok2 := everyFeasiblePathHas(im, b, need)
				c.Check(ok2, "R6", "@ipMatch appends "+mask+" only to "+map[bool]string{true: "IPv6", false: "IPv4"}[wantColon]+" entries", b.Pos(), "every feasible path carries "+need.String(),
					"a bare entry can receive "+mask+" although it "+map[bool]string{true: "contains no ':'", false: "contains ':' (e.g. ::ffff:10.0.0.1)"}[wantColon]+": the entry then denotes a different network than the address written")
			})
		}
		c.MinCount("R6", "host-mask completions in newIPMatch", n, 2)
	}
}

// everyFeasiblePathHas: every path from the function entry (or the enclosing loop body) to `at` that is consistent
// with the facts holding at `at` passes an edge carrying the atom `need`.
func everyFeasiblePathHas(fn *ssa.Function, at ssa.Instruction, need an.Atom) bool {
	target := an.FactsAt(at)
	var start *ssa.BasicBlock
	if l := an.InnermostLoop(at.Block()); l != nil {
		for _, s := range l.Header.Succs {
			if l.Blocks[s] {
				start = s
			}
		}
	}
	q := an.PathQuery{Fn: fn, StartBlock: start, Target: func(in ssa.Instruction) bool { return in == at },
		PruneEdge: func(b *ssa.BasicBlock, si int) bool {
			ifi, ok := b.Instrs[len(b.Instrs)-1].(*ssa.If)
			if !ok {
				return false
			}
			for _, a := range an.CondAtoms(ifi.Cond, si == 0) {
				if a.L == need.L && a.Op == need.Op && a.R == need.R {
					return true // this edge satisfies the requirement
				}
				// infeasible with respect to the target's facts
				for _, t := range target {
					if t.L == a.L && t.R != a.R && t.Op == "==" && a.Op == "==" && (t.R == "true" || t.R == "false") {
						return true
					}
					if t.L == a.L && t.R == a.R && ((t.Op == "==" && a.Op == "!=") || (t.Op == "!=" && a.Op == "==")) {
						return true
					}
				}
			}
			return false
		}}
	// a dominating fact also satisfies the requirement
	if target.Has(need.L, need.Op, need.R) {
		return true
	}
	return an.FindPath(q) == nil
}

var _ = fmt.Sprint

// c15CaptureFilterAllow: capture loops that store only some of the candidates they visit, by design.
var c15CaptureFilterAllow = map[string]string{
	"internal/operators.(*validateNid).Evaluate": "the loop visits regex candidates and captures only those that pass the checksum; a candidate that fails is not a match and has no capture",
}

func c15NumericSiblings(c *an.Ctx) {
	type sk struct {
		name, op, l, r string
		pos            token.Pos
	}
	var sks []sk
	for _, n := range []string{"eq", "ge", "gt", "le", "lt"} {
		fn := c.Fn("R7", "internal/operators.(*"+n+").Evaluate")
		if fn == nil {
			continue
		}
		c.FuncsAnalysed[fn] = true
		var rets []*ssa.Return
		an.Instrs(fn, func(in ssa.Instruction) {
			if r, ok := in.(*ssa.Return); ok {
				rets = append(rets, r)
			}
		})
		if len(rets) != 1 {
			c.Bad("R7", "@"+n+" returns one comparison", fn.Pos(), fmt.Sprintf("@%s.Evaluate has %d return sites; its siblings return a single comparison of the two parsed numbers", n, len(rets)))
			continue
		}
		b, ok := rets[0].Results[0].(*ssa.BinOp)
		if !ok {
			c.Bad("R7", "@"+n+" returns one comparison", rets[0].Pos(), "the result of @"+n+" is "+tempName.ReplaceAllString(an.Expr(rets[0].Results[0]), "")+", not a comparison of the two parsed numbers")
			continue
		}
		c.Ok("R7", "@"+n+" returns one comparison", rets[0].Pos(), tempName.ReplaceAllString(an.Expr(b), ""))
		l, r := tempName.ReplaceAllString(an.Expr(b.X), ""), tempName.ReplaceAllString(an.Expr(b.Y), "")
		if l > r {
			l, r = r, l
		}
		sks = append(sks, sk{n, b.Op.String(), l, r, rets[0].Pos()})
	}
	c.MinCount("R7", "numeric comparison operators", len(sks), 5)
	if len(sks) == 0 {
		return
	}
	// majority operand pair is the reference
	count := map[string]int{}
	for _, s := range sks {
		count[s.l+" | "+s.r]++
	}
	ref, best := "", 0
	for k, v := range count {
		if v > best || (v == best && k < ref) {
			ref, best = k, v
		}
	}
	for _, s := range sks {
		c.Check(s.l+" | "+s.r == ref, "R7", "@"+s.name+" compares the same two parsed numbers as its siblings", s.pos, ref,
			"@"+s.name+" compares "+s.l+" with "+s.r+" while its siblings compare "+ref+": for inputs on which the two ways of parsing differ (non-numeric text, numbers outside the int range) the comparison operators contradict each other")
	}
}

// runeToByte: every conversion of a rune (int32) to a byte in the given packages is bounded to 0..255 by a
// dominating guard.  Returns the number of conversion sites.
func runeToByte(c *an.Ctx, rule string, pkgs ...string) int {
	n := 0
	seen := map[string]int{}
	for _, fn := range c.P.ModFuncs {
		rp := relPkg(fn)
		in := false
		for _, p := range pkgs {
			if rp == p {
				in = true
			}
		}
		if !in {
			continue
		}
		an.Instrs(fn, func(ins ssa.Instruction) {
			cv, ok := ins.(*ssa.Convert)
			if !ok {
				return
			}
			db, ok := cv.Type().Underlying().(*types.Basic)
			if !ok || db.Kind() != types.Uint8 {
				return
			}
			sb, ok := cv.X.Type().Underlying().(*types.Basic)
			if !ok || sb.Kind() != types.Int32 {
				return
			}
			if _, isC := cv.X.(*ssa.Const); isC {
				return
			}
			n++
			k := "rune converted to byte in " + an.RelName(fn)
			seen[k]++
			key := k
			if seen[k] > 1 {
				key += fmt.Sprintf("#%d", seen[k])
			}
			e := an.Expr(cv.X)
			f := an.FactsAt(ins)
			_, hi, _ := f.Range(e)
			okB := hi <= 255 && exactAtom(f, e)
			// arithmetic that keeps the value small: (r & 0xff), r - c under a range guard
			if b, isB := cv.X.(*ssa.BinOp); isB && b.Op.String() == "&" {
				if k, isK := an.ConstInt(b.Y); isK && k <= 255 {
					okB = true
				}
			}
			if why, ok := runeToByteAllow[an.RelName(fn)]; ok && !okB {
				c.Note(rule, key, ins.Pos(), "not decided mechanically; manual argument: "+why)
				return
			}
			c.Check(okB, rule, key, ins.Pos(), "guarded to 0..255",
				"a rune is narrowed to a byte with no guard keeping it below 256: for non-ASCII characters the result is the low byte of the code point, not a byte of the text (a literal such as \u00f1 becomes the single byte 0xF1, a multi-byte input character is judged by a byte it does not contain)")
		})
	}
	return n
}

func exactAtom(f an.Facts, e string) bool {
	for _, a := range f {
		if a.L == e {
			return true
		}
	}
	return false
}

var runeToByteAllow = map[string]string{
	"internal/operators.matchesArbitraryBytes": "the rune comes from strconv.UnquoteChar on a \\xNN escape with multibyte == false (tested on the line above), which yields a single byte value",
}

// c15StringSiblings: @within, @contains, @strmatch, @beginsWith, @endsWith and @streq are each documented as one
// string predicate over (inspected value, expanded argument).  Their Evaluate methods return that predicate on
// every path: a "cheap rejection" in front of it (empty input, length comparison) changes the answer on exactly
// the inputs where the predicate is true trivially ("" is contained in everything).  Table: operator type ->
// predicate and operand order.
func c15StringSiblings(c *an.Ctx) {
	type spec struct{ pred, first string } // first: which operand comes first, "value" or "arg"
	table := map[string]spec{
		"within":     {"strings.Contains", "arg"},
		"contains":   {"strings.Contains", "value"},
		"strmatch":   {"strings.Contains", "value"},
		"beginsWith": {"strings.HasPrefix", "value"},
		"endsWith":   {"strings.HasSuffix", "value"},
		"streq":      {"==", ""},
	}
	n := 0
	for _, tn := range sortedKeys(table) {
		sp := table[tn]
		fn := c.P.Func("internal/operators.(*" + tn + ").Evaluate")
		if fn == nil || len(fn.Params) < 3 {
			continue
		}
		n++
		c.FuncsAnalysed[fn] = true
		value := ssa.Value(fn.Params[2])
		isArg := func(v ssa.Value) bool {
			cc, ok := v.(*ssa.Call)
			return ok && cc.Call.IsInvoke() && cc.Call.Method.Name() == "Expand"
		}
		okAll, why := true, ""
		nRet := 0
		an.Instrs(fn, func(in ssa.Instruction) {
			r, ok := in.(*ssa.Return)
			if !ok || len(r.Results) != 1 {
				return
			}
			nRet++
			var leaves []ssa.Value
			var walk func(v ssa.Value, d int)
			walk = func(v ssa.Value, d int) {
				if phi, ok := v.(*ssa.Phi); ok && d < 4 {
					for _, e := range phi.Edges {
						walk(e, d+1)
					}
					return
				}
				leaves = append(leaves, v)
			}
			walk(r.Results[0], 0)
			for _, lf := range leaves {
				switch x := lf.(type) {
				case *ssa.Call:
					sc := x.Call.StaticCallee()
					if sc == nil || sc.Pkg == nil || sc.Pkg.Pkg.Path()+"."+sc.Name() != sp.pred || len(x.Call.Args) != 2 {
						okAll, why = false, "returns "+tempName.ReplaceAllString(an.Expr(lf), "")
						continue
					}
					a0, a1 := x.Call.Args[0], x.Call.Args[1]
					if sp.first == "value" && !(a0 == value && isArg(a1)) || sp.first == "arg" && !(isArg(a0) && a1 == value) {
						okAll, why = false, "operands of "+sp.pred+" are ("+tempName.ReplaceAllString(an.Expr(a0), "")+", "+tempName.ReplaceAllString(an.Expr(a1), "")+")"
					}
				case *ssa.BinOp:
					if sp.pred != "==" || x.Op != token.EQL || !(x.X == value && isArg(x.Y) || x.Y == value && isArg(x.X)) {
						okAll, why = false, "returns "+tempName.ReplaceAllString(an.Expr(lf), "")
					}
				default:
					okAll, why = false, "returns "+tempName.ReplaceAllString(an.Expr(lf), "")+" under "+shortFacts(an.FactsAtBlock(r.Block()))
				}
			}
		})
		c.Check(okAll && nRet >= 1, "R7", "@"+tn+" answers with its documented predicate on every path", fn.Pos(), sp.pred+" over the inspected value and the expanded argument",
			"@"+tn+" does not simply return "+sp.pred+" of (value, expanded argument): "+why+" — on those inputs the operator disagrees with its documented predicate (\"\" is a substring, prefix and suffix of every string)")
	}
	c.MinCount("R7", "plain string operators", n, 6)
}
