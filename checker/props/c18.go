package props

import (
	"fmt"
	"go/token"
	"sort"
	"strings"

	"czcheck/an"

	"golang.org/x/tools/go/ssa"
)

func init() {
	register(&Property{
		ID:    "C18",
		Title: "HTTP middleware blocks completely and otherwise passes traffic through intact",
		Explanation: "Decides the control structure of the net/http middleware, not byte-for-byte pass-through: R1 the wrapped handler is only invoked when request processing returned neither an interruption nor an error (or the engine is Off); " +
			"R2 ProcessLogging and Close are deferred in the entry block of the handler, unconditionally; R3 every write of body bytes to the downstream ResponseWriter is dominated by 'not interrupted' facts established after the last phase call, the buffered body is copied downstream only from call sites dominated by 'no interruption', and buffering stops once the buffered body has been released (same three-part guard in Write and in the response processor), and every interruption branch that flushes the response status first declares an empty body (Content-Length: 0); " +
			"R4 no entry point of the interceptor (exported methods, response processor) flushes a status to the delegate unless WriteHeader - the only writer of wroteHeader, and the caller of ProcessResponseHeaders - ran on that path; Flush is forwarded only under allowFlushing and after the header was flushed, and allowFlushing is raised only when the body is not buffered or after it was processed; R5 after a successful ReadRequestBodyFrom every successful exit of processRequest has re-spliced the buffered bytes in front of the unread remainder of the client's body; " +
			"R6 the built-in default status replaces the interruption's only when it carries none (Status == 0); every Action string a disruptive action can put into an Interruption is mapped by the status function. R2 also: in the connector ProcessLogging and Close are called from the deferred clean-up of the request closure and nowhere else. R5 also: a Content-Type response header sets RESPONSE_CONTENT_TYPE on every path of its branch.",
		NotDecided: []string{
			"byte-for-byte equality of what handler and client see, for all sizes and chunkings",
			"behaviour of the embedding server (hijacking, HTTP/2 push, trailers)",
			"phase 3/4 evaluation when the handler writes nothing (recorded as an observation in DESIGN.md)",
		},
		Run: runC18,
	})
}

func runC18(c *an.Ctx) {
	r7ResponseContentType(c, "R5")
	r7CloseOnce(c, "R2")
	if c.P.Pkg("http") == nil || c.P.Func("http.WrapHandler") == nil {
		if c.P.Cfg.Name == "tinygo" {
			c.Note("R1", "http middleware", 0, "the net/http middleware is excluded from the tinygo build (//go:build !tinygo): nothing to check in this configuration")
			c.OkTrivial("R1", "http middleware not part of this build configuration", 0, "package http is not compiled under the tinygo tag")
			return
		}
	}
	wh := c.Fn("R1", "http.WrapHandler")
	if wh == nil {
		return
	}
	// the handler closure: the anonymous function that calls processRequest
	pr := c.Fn("R1", "http.processRequest")
	var handler *ssa.Function
	for _, a := range an.WithClosures(wh) {
		an.Instrs(a, func(in ssa.Instruction) {
			if an.IsCallTo(in, pr) {
				handler = a
			}
		})
	}
	if handler == nil || pr == nil {
		c.Unknown("R1", "handler closure", wh.Pos(), "the closure calling processRequest was not found")
		return
	}
	c.FuncsAnalysed[handler] = true
	off := ".IsRuleEngineOff() == true" // whatever the transaction value is called (a captured variable, or the call creating it)
	// ---- R1
	n := 0
	an.Instrs(handler, func(in ssa.Instruction) {
		cc := an.CallOf(in)
		if cc == nil || !cc.IsInvoke() || cc.Method.Name() != "ServeHTTP" {
			return
		}
		n++
		f := an.FactsAt(in)
		fs := strings.Join(f.Strings(), " && ")
		okOff := strings.Contains(fs, off)
		noErr, noIt := false, false
		for _, a := range f {
			if strings.HasPrefix(a.L, "http.processRequest(") && strings.HasSuffix(a.L, "#1") && a.Op == "==" && a.R == "nil" {
				noErr = true
			}
			if strings.HasPrefix(a.L, "http.processRequest(") && strings.HasSuffix(a.L, "#0") && a.Op == "==" && a.R == "nil" {
				noIt = true
			}
		}
		wrapped := strings.Contains(an.Expr(cc.Args[0]), "wrap(")
		switch {
		case okOff:
			c.Ok("R1", fmt.Sprintf("handler invocation #%d (engine off pass-through)", n), in.Pos(), "only with the rule engine Off")
		case noErr && noIt:
			c.Check(wrapped, "R1", fmt.Sprintf("handler invocation #%d (inspected request)", n), in.Pos(), "reached only with no interruption and no error; response writer is wrapped", "the handler is invoked with the unwrapped response writer although the engine is on: response phases never run")
		default:
			c.Bad("R1", fmt.Sprintf("handler invocation #%d", n), in.Pos(), "the wrapped handler can be reached although request processing returned an interruption or an error: a blocked request still reaches the application", f.Strings()...)
		}
	})
	c.MinCount("R1", "ServeHTTP calls in the middleware", n, 2)
	// the interruption branch writes the mapped status and returns without calling the handler
	an.Instrs(handler, func(in ssa.Instruction) {
		cc := an.CallOf(in)
		if cc != nil && cc.IsInvoke() && cc.Method.Name() == "WriteHeader" {
			arg := tempName.ReplaceAllString(an.Expr(cc.Args[0]), "")
			c.Check(strings.HasPrefix(arg, "http.obtainStatusCodeFromInterruptionOrDefault(http.processRequest("), "R1", "blocked request: status taken from the interruption", in.Pos(), arg, "the status written for a blocked request is "+arg)
			w := an.FindPath(an.PathQuery{Fn: handler, After: in, Target: func(x ssa.Instruction) bool {
				c2 := an.CallOf(x)
				return c2 != nil && c2.IsInvoke() && c2.Method.Name() == "ServeHTTP"
			}})
			c.Check(w == nil, "R1", "blocked request: handler not reachable after the status was written", in.Pos(), "returns", "the handler is still reachable after the blocking status was written")
		}
	})

	// ---- R2
	var def *ssa.Defer
	an.Instrs(handler, func(in ssa.Instruction) {
		if d, ok := in.(*ssa.Defer); ok && def == nil {
			def = d
		}
	})
	if def == nil {
		c.Bad("R2", "handler defers ProcessLogging and Close", handler.Pos(), "the middleware handler has no deferred cleanup: an early return or a panic in the application skips phase 5 and leaks the transaction")
	} else {
		c.Check(def.Block() == handler.Blocks[0], "R2", "cleanup deferred before any return", def.Pos(), "defer in the entry block", "the cleanup is deferred conditionally / after a possible return")
		var body *ssa.Function
		if mc, ok := def.Call.Value.(*ssa.MakeClosure); ok {
			body, _ = mc.Fn.(*ssa.Function)
		} else if sc := def.Call.StaticCallee(); sc != nil && len(sc.Blocks) > 0 {
			body = sc // defer finishTransaction(tx): a named private function instead of a closure
		}
		okL, okC := false, false
		if body != nil {
			an.Instrs(body, func(in ssa.Instruction) {
				cc := an.CallOf(in)
				if cc == nil || !cc.IsInvoke() {
					return
				}
				if cc.Method.Name() == "ProcessLogging" && len(an.FactsAt(in)) == 0 {
					okL = true
				}
				if cc.Method.Name() == "Close" && len(an.FactsAt(in)) == 0 {
					okC = true
				}
			})
		}
		c.Check(okL, "R2", "deferred cleanup runs ProcessLogging unconditionally", def.Pos(), "tx.ProcessLogging()", "the deferred function does not call ProcessLogging unconditionally: logging-phase rules and the audit record are skipped for some requests")
		c.Check(okC, "R2", "deferred cleanup closes the transaction unconditionally", def.Pos(), "tx.Close()", "the deferred function does not call Close unconditionally: temporary files and the pooled transaction leak")
	}

	// ---- R3 downstream writes
	wr := c.Fn("R3", "http.(*rwInterceptor).Write")
	wb := c.Fn("R3", "http.(*rwInterceptor).writeBufferedResponseBodyToDownstream")
	var rp *ssa.Function
	if wrapFn := c.Fn("R3", "http.wrap"); wrapFn != nil {
		for _, a := range wrapFn.AnonFuncs {
			rp = a
		}
	}
	if wr != nil {
		nW := 0
		an.Instrs(wr, func(in ssa.Instruction) {
			cc := an.CallOf(in)
			if cc == nil || !cc.IsInvoke() || cc.Method.Name() != "Write" || an.Expr(cc.Value) != "i.w" {
				return
			}
			nW++
			f := an.FactsAt(in)
			notInt := f.Has("i.tx.IsInterrupted()", "==", "false")
			afterBody := true
			// when the chunk went through WriteResponseBody first, its interruption result must be nil
			for _, a := range f {
				_ = a
			}
			buffered := false
			an.Instrs(wr, func(x ssa.Instruction) {
				c2 := an.CallOf(x)
				if c2 != nil && c2.IsInvoke() && c2.Method.Name() == "WriteResponseBody" && (x.Block() == in.Block() || x.Block().Dominates(in.Block())) {
					buffered = true
					e := an.Expr(x.(ssa.Value))
					if !f.Has(e+"#0", "==", "nil") {
						afterBody = false
					}
				}
			})
			_ = buffered
			c.Check(notInt && afterBody, "R3", fmt.Sprintf("Write: downstream write #%d only when not interrupted", nW), in.Pos(), "dominated by IsInterrupted()==false (and a nil interruption from WriteResponseBody)", "body bytes are written to the client on a path where the transaction may have been interrupted: a blocked response still delivers handler output", f.Strings()...)
		})
		c.MinCount("R3", "downstream writes in rwInterceptor.Write", nW, 2)
	}
	// every request body the client sent is handed to the transaction: the connector reads it whenever there is one
	// (req.Body present) and body access is on, whatever the framing (Content-Length, chunked, HTTP/2)
	if pr := c.FnOpt("http.processRequest"); pr != nil {
		nRd := 0
		an.Instrs(pr, func(in ssa.Instruction) {
			cc := an.CallOf(in)
			if cc == nil || !cc.IsInvoke() || cc.Method.Name() != "ReadRequestBodyFrom" {
				return
			}
			nRd++
			fg := foreignGuards(an.FactsAt(in), "req.Body", "NoBody", "IsRequestBodyAccessible", "ProcessRequestHeaders", "ProcessConnection", "ProcessURI", "rangeindex", "range(req.Header)", "req.TransferEncoding", "req.Header")
			c.Check(len(fg) == 0, "R5", "processRequest reads the request body whenever one is present", in.Pos(), "guards: body present, body access on, no earlier interruption",
				"the connector hands the request body to the transaction only when additionally "+strings.Join(fg, ", ")+": bodies that do not satisfy it (for instance chunked or HTTP/2 bodies, whose ContentLength is -1) are never inspected — no ARGS_POST, no REQUEST_BODY, no limit — and are forwarded to the handler untouched")
		})
		c.MinCount("R5", "request body reads in the connector", nRd, 1)
	}
	// the two "is the body accessible" predicates the connector branches on answer from the access switch alone:
	// they are consulted several times while one response is written, and must not change under the connector's
	// feet (a predicate that also looks at the phase flips after the body phase ran and strands buffered bytes)
	for _, pn := range []string{"IsResponseBodyAccessible", "IsRequestBodyAccessible"} {
		fn := c.FnOpt("internal/corazawaf.(*Transaction)." + pn)
		if fn == nil {
			continue
		}
		var others []string
		an.Instrs(fn, func(in ssa.Instruction) {
			if fa, ok := in.(*ssa.FieldAddr); ok {
				if fv := an.FieldVar(fa); fv != nil && !strings.HasSuffix(fv.Name(), "BodyAccess") {
					others = append(others, fv.Name())
				}
			}
			if cc := an.CallOf(in); cc != nil {
				others = append(others, "a call")
			}
		})
		c.Check(len(others) == 0, "R3", pn+" answers from the access switch alone", fn.Pos(), "reads only *BodyAccess", pn+" also depends on "+strings.Join(others, ", ")+": the http interceptor asks it on every Write and again when the handler returns, so an answer that changes during the response leaves bytes in the buffer that are never sent (or streams bytes that were meant to be inspected)")
	}
	// the handler's status reaches the client before any of its body bytes: every hand-over of body bytes to the
	// delegate writer (Write, ReadFrom) in the interceptor is preceded by flushWriteHeader on every path
	if c.P.Func("http.(*rwInterceptor).flushWriteHeader") != nil {
		nDel := 0
		for _, fn := range c.P.ModFuncs {
			if relPkg(fn) != "http" || fn.Name() == "flushWriteHeader" {
				continue
			}
			an.Instrs(fn, func(in ssa.Instruction) {
				cc := an.CallOf(in)
				if cc == nil || !cc.IsInvoke() || (cc.Method.Name() != "Write" && cc.Method.Name() != "ReadFrom") {
					return
				}
				recv := tempName.ReplaceAllString(an.Expr(cc.Value), "")
				if !(recv == "i.w" || strings.HasPrefix(recv, "i.w.(")) {
					return
				}
				nDel++
				w := an.FindPath(an.PathQuery{Fn: fn,
					Stop: func(x ssa.Instruction) bool {
						xc := an.CallOf(x)
						if xc == nil || xc.StaticCallee() == nil {
							return false
						}
						if xc.StaticCallee().Name() == "flushWriteHeader" {
							return true
						}
						// a helper of the interceptor that flushes the status itself before writing (it returns early
						// only when it already ran, i.e. after a flush)
						if relPkg(xc.StaticCallee()) == "http" && xc.StaticCallee() != fn {
							flushes := false
							an.Instrs(xc.StaticCallee(), func(y ssa.Instruction) {
								if yc := an.CallOf(y); yc != nil && yc.StaticCallee() != nil && yc.StaticCallee().Name() == "flushWriteHeader" {
									flushes = true
								}
							})
							return flushes
						}
						return false
					},
					Target: func(x ssa.Instruction) bool { return x == in }})
				key := fmt.Sprintf("delegate %s #%d in %s follows flushWriteHeader", cc.Method.Name(), nDel, shortFn(an.RelName(fn)))
				if why, ok := c18FlushAllow[shortFn(an.RelName(fn))]; ok && w != nil {
					c.Note("R4", key, in.Pos(), "not decided mechanically; manual argument: "+why)
				} else if w != nil {
					c.Bad("R4", key, in.Pos(), "body bytes are handed to the delegate response writer on a path that has not flushed the recorded status: net/http then sends an implicit 200, so the client does not receive the handler's (or the interruption's) status", c.P.TrailString(w)...)
				} else {
					c.Ok("R4", key, in.Pos(), "every path to the hand-over passes flushWriteHeader")
				}
			})
		}
		c.MinCount("R4", "hand-overs of body bytes to the delegate writer", nDel, 2)
	}
	// the response rules see every response: no entry point of the interceptor (exported methods, the response
	// processor closure) hands a status to the delegate writer unless the response-header phase has run, i.e. unless
	// (*rwInterceptor).WriteHeader was called on the path or the path is one on which wroteHeader is already set
	// (wroteHeader has one writer, WriteHeader, storing true).  A handler that returns without writing anything
	// otherwise gets net/http's implicit 200 without phase 3 and 4 ever being evaluated.
	if wh := c.P.Func("http.(*rwInterceptor).WriteHeader"); wh != nil && c.P.Func("http.(*rwInterceptor).flushWriteHeader") != nil {
		whoMayWrite(c, "R4", "http", "rwInterceptor", "wroteHeader", []storeRule{{fn: "http.(*rwInterceptor).WriteHeader", check: storesConst("true"), why: "set by WriteHeader, which runs the response-header phase"}})
		flushes := func(f *ssa.Function) bool {
			if f == nil || relPkg(f) != "http" || f == wh {
				return false
			}
			if f.Name() == "flushWriteHeader" {
				return true
			}
			r := false
			an.Instrs(f, func(y ssa.Instruction) {
				if yc := an.CallOf(y); yc != nil && yc.StaticCallee() != nil && yc.StaticCallee().Name() == "flushWriteHeader" {
					r = true
				}
			})
			return r
		}
		nEntry := 0
		for _, fn := range c.P.ModFuncs {
			if relPkg(fn) != "http" || fn == wh || !flushes(fn) || fn.Name() == "flushWriteHeader" {
				continue
			}
			entry := false
			if fn.Parent() != nil && fn.Parent().Name() == "wrap" {
				entry = true
			}
			if fn.Signature.Recv() != nil && token.IsExported(fn.Name()) && strings.Contains(fn.Signature.Recv().Type().String(), "rwInterceptor") {
				entry = true
			}
			if !entry {
				continue
			}
			nEntry++
			c.FuncsAnalysed[fn] = true
			w := an.FindPath(an.PathQuery{Fn: fn,
				Stop: func(x ssa.Instruction) bool { return an.IsCallTo(x, wh) },
				Target: func(x ssa.Instruction) bool {
					xc := an.CallOf(x)
					return xc != nil && xc.StaticCallee() != nil && flushes(xc.StaticCallee())
				},
				PruneEdge: func(b *ssa.BasicBlock, succ int) bool {
					iff, ok := b.Instrs[len(b.Instrs)-1].(*ssa.If)
					if !ok {
						return false
					}
					cond, neg := iff.Cond, false
					if u, ok := cond.(*ssa.UnOp); ok && u.Op == token.NOT {
						cond, neg = u.X, true
					}
					if !strings.HasSuffix(tempName.ReplaceAllString(an.Expr(cond), ""), ".wroteHeader") {
						return false
					}
					// the successor on which wroteHeader is true needs no further WriteHeader
					if neg {
						return succ == 1
					}
					return succ == 0
				}})
			key := "status reaches the delegate only after the response-header phase in " + shortFn(an.RelName(fn))
			if w != nil {
				c.Bad("R4", key, w.Target.Pos(), "the recorded status is flushed to the delegate writer on a path on which neither WriteHeader was called nor wroteHeader is known to be set: ProcessResponseHeaders never ran for this response (a handler that returns without writing gets the implicit 200 with no phase 3/4 rule evaluated and no relevant-status audit decision)", c.P.TrailString(w)...)
			} else {
				c.Ok("R4", key, fn.Pos(), "every path to a status flush calls WriteHeader or is one on which wroteHeader is set")
			}
		}
		c.MinCount("R4", "interceptor entry points that can flush the status", nEntry, 2)
	}
	// a response interrupted in a response phase declares an empty body before its status is flushed: the first
	// Write of a handler that never called WriteHeader runs phase 3 from inside Write, after the interruption test
	// at the top of Write, and goes on to hand its bytes to the delegate — only the declared Content-Length: 0 makes
	// net/http refuse them.  Every interruption branch that flushes the status therefore sets it, like its siblings.
	{
		nInt := 0
		for _, fn := range c.P.ModFuncs {
			if relPkg(fn) != "http" {
				continue
			}
			an.Instrs(fn, func(in ssa.Instruction) {
				cc := an.CallOf(in)
				if cc == nil || cc.StaticCallee() == nil || cc.StaticCallee().Name() != "flushWriteHeader" {
					return
				}
				interruptedAt := func(f an.Facts) bool {
					for _, a := range f {
						if a.Op == "!=" && a.R == "nil" && (strings.Contains(a.L, "ProcessResponseHeaders(") || strings.Contains(a.L, "WriteResponseBody(") || strings.Contains(a.L, "ProcessResponseBody(") || strings.Contains(a.L, "ReadResponseBodyFrom(")) && (strings.HasSuffix(a.L, "#0") || strings.HasSuffix(a.L, ")")) {
							return true
						}
					}
					return false
				}
				interrupted := interruptedAt(an.FactsAt(in))
				if !interrupted && fn.Parent() == nil && !token.IsExported(fn.Name()) {
					// a private helper that answers with the interruption (sendInterruption(it)): interrupted when
					// every one of its call sites is
					sites := c.P.CallSites(func(x ssa.Instruction) bool { return an.IsCallTo(x, fn) })
					interrupted = len(sites) > 0
					for _, cs := range sites {
						if !interruptedAt(an.FactsAt(cs.Call)) {
							interrupted = false
						}
					}
				}
				if !interrupted {
					return
				}
				nInt++
				declared := false
				an.Instrs(fn, func(x ssa.Instruction) {
					xc := an.CallOf(x)
					if xc == nil || xc.StaticCallee() == nil || xc.StaticCallee().Name() != "Set" || len(xc.Args) != 3 {
						return
					}
					if an.Expr(xc.Args[1]) == `"Content-Length"` && an.Expr(xc.Args[2]) == `"0"` && (x.Block() == in.Block() || x.Block().Dominates(in.Block())) {
						declared = true
					}
				})
				c.Check(declared, "R3", fmt.Sprintf("interrupted response #%d in %s declares an empty body before the status is flushed", nInt, shortFn(an.RelName(an.OuterFn(fn)))), in.Pos(), "Header().Set(\"Content-Length\", \"0\") dominates flushWriteHeader",
					"this interruption branch flushes the status without declaring Content-Length: 0 (its siblings do): when phase 3 denies from inside the handler's first Write, that Write continues and the delegate accepts its bytes, so handler output reaches the client of a blocked response")
			})
		}
		c.MinCount("R3", "interruption branches flushing the response status", nInt, 1)
	}
	// call sites of writeBufferedResponseBodyToDownstream
	if wb != nil {
		nC := 0
		for _, cs := range c.P.CallSites(func(in ssa.Instruction) bool { return an.IsCallTo(in, wb) }) {
			nC++
			f := an.FactsAt(cs.Call)
			ok := false
			for _, a := range f {
				if (strings.Contains(a.L, "WriteResponseBody(") || strings.Contains(a.L, "ProcessResponseBody()")) && strings.HasSuffix(a.L, "#0") && a.Op == "==" && a.R == "nil" {
					ok = true
				}
			}
			c.Check(ok, "R3", fmt.Sprintf("buffered body released #%d only after a phase call returned no interruption", nC), cs.Call.Pos(), "dominated by <phase call>#0 == nil", "the buffered response body is copied to the client from a point not dominated by 'the last phase call returned no interruption'", f.Strings()...)
		}
		c.MinCount("R3", "release sites of the buffered body", nC, 2)
	}
	// same three-part buffering guard in Write and in the response processor
	guard := func(fn *ssa.Function, method string) []string {
		var out []string
		if fn == nil {
			return nil
		}
		an.Instrs(fn, func(in ssa.Instruction) {
			cc := an.CallOf(in)
			if cc == nil || !cc.IsInvoke() || cc.Method.Name() != method {
				return
			}
			for _, a := range an.FactsAt(in) {
				s := strings.NewReplacer("i.tx.", "TX.", "tx.", "TX.").Replace(a.String())
				if strings.Contains(s, "IsResponseBodyAccessible") || strings.Contains(s, "IsResponseBodyProcessable") || strings.Contains(s, "wroteBufferedBodyToDownstream") {
					out = append(out, s)
				}
			}
		})
		sort.Strings(out)
		return out
	}
	gW, gP := guard(wr, "WriteResponseBody"), guard(rp, "ProcessResponseBody")
	want := []string{"TX.IsResponseBodyAccessible() == true", "TX.IsResponseBodyProcessable() == true", "i.wroteBufferedBodyToDownstream == false"}
	c.Check(strings.Join(gW, ";") == strings.Join(want, ";"), "R3", "Write buffers only while accessible, processable and not yet released", posOf(wr), strings.Join(gW, " && "),
		"rwInterceptor.Write hands chunks to WriteResponseBody under ["+strings.Join(gW, " && ")+"], expected ["+strings.Join(want, " && ")+"]: after the buffered body was released, later chunks must go straight to the client or they are swallowed")
	c.Check(strings.Join(gP, ";") == strings.Join(want, ";"), "R3", "response processor runs the body phase only while accessible, processable and not yet released", posOf(rp), strings.Join(gP, " && "),
		"the response processor calls ProcessResponseBody under ["+strings.Join(gP, " && ")+"], expected ["+strings.Join(want, " && ")+"]")

	// ---- R4 flushing
	if fl := c.Fn("R4", "http.(*rwInterceptor).Flush"); fl != nil {
		nF := 0
		an.Instrs(fl, func(in ssa.Instruction) {
			cc := an.CallOf(in)
			if cc != nil && cc.IsInvoke() && cc.Method.Name() == "Flush" {
				nF++
				f := an.FactsAt(in)
				c.Check(f.Has("i.allowFlushing", "==", "true") && f.Has("i.isWriteHeaderFlush", "==", "true"), "R4", "Flush forwarded only when allowed and after the header", in.Pos(), "allowFlushing && isWriteHeaderFlush", "Flush is forwarded downstream while the response is still being buffered for inspection", f.Strings()...)
			}
		})
		c.MinCount("R4", "forwarded Flush calls", nF, 1)
	}
	for _, fs := range c.P.StoresToField("http", "rwInterceptor", "allowFlushing") {
		name := an.RelName(fs.Fn)
		f := an.FactsAt(fs.Store)
		fsj := strings.Join(f.Strings(), " && ")
		ok := false
		switch {
		case name == "http.(*rwInterceptor).WriteHeader":
			// (not accessible || not processable): the store block is entered from both disjuncts
			ok = edgeConds(fs.Store.Block(), []string{"IsResponseBodyAccessible() == false", "IsResponseBodyProcessable() == false"})
			if !ok {
				// or: guarded by the negation of a predicate whose truth implies "accessible and processable"
				for _, a := range f {
					if a.Op != "==" || a.R != "false" || a.If == nil {
						continue
					}
					var call *ssa.Call
					switch x := a.If.Cond.(type) {
					case *ssa.Call:
						call = x
					case *ssa.UnOp:
						call, _ = x.X.(*ssa.Call)
					}
					if call == nil {
						continue
					}
					acc, proc := false, false
					for _, ia := range an.ImpliedByCall(call, true) {
						s := ia.String()
						acc = acc || strings.HasSuffix(s, "IsResponseBodyAccessible() == true")
						proc = proc || strings.HasSuffix(s, "IsResponseBodyProcessable() == true")
					}
					if acc && proc {
						ok = true
					}
				}
			}
		case strings.HasPrefix(name, "http.wrap$"):
			ok = !strings.Contains(fsj, "#0 != nil") // processor: after processing / when nothing is buffered
		}
		c.Check(ok, "R4", "allowFlushing raised in "+name, fs.Store.Pos(), "only when the body is not buffered or already processed", "allowFlushing is raised in "+name+" under ["+fsj+"]: flushes could push uninspected bytes to the client")
	}

	// ---- R5 request body splice
	an.Instrs(pr, func(in ssa.Instruction) {
		cc := an.CallOf(in)
		if cc == nil || !cc.IsInvoke() || cc.Method.Name() != "ReadRequestBodyFrom" {
			return
		}
		e := an.Expr(in.(ssa.Value))
		var start *ssa.BasicBlock
		for _, b := range pr.Blocks {
			f := an.FactsAtBlock(b)
			if f.Has(e+"#2", "==", "nil") && f.Has(e+"#0", "==", "nil") && (start == nil || b.Dominates(start)) {
				start = b
			}
		}
		if start == nil {
			c.Bad("R5", "processRequest: splice after buffering", in.Pos(), "no branch for 'body buffered without interruption or error' found")
			return
		}
		isSplice := func(x ssa.Instruction) bool {
			st, ok := x.(*ssa.Store)
			if !ok {
				return false
			}
			fa, ok := st.Addr.(*ssa.FieldAddr)
			if !ok || an.FieldVar(fa).Name() != "Body" {
				return false
			}
			return splicesRemainder(st.Val, 0)
		}
		errIdx := an.ErrorIndex(pr.Signature)
		w := an.FindPath(an.PathQuery{Fn: pr, StartBlock: start, Target: func(x ssa.Instruction) bool {
			r, ok := x.(*ssa.Return)
			return ok && an.ReturnMayBeNilError(r, errIdx)
		}, Stop: func(x ssa.Instruction) bool {
			if isSplice(x) {
				return true
			}
			// the splice moved into a private helper of the package (spliceRequestBody(tx, req)): it counts when
			// every successful return of the helper has passed it
			if cc := an.CallOf(x); cc != nil && cc.StaticCallee() != nil {
				h := cc.StaticCallee()
				if h != pr && relPkg(h) == "http" && len(h.Blocks) > 0 && !token.IsExported(h.Name()) {
					hErr := an.ErrorIndex(h.Signature)
					w := an.FindPath(an.PathQuery{Fn: h, Stop: isSplice, Target: func(y ssa.Instruction) bool {
						r, ok := y.(*ssa.Return)
						return ok && (hErr < 0 || an.ReturnMayBeNilError(r, hErr))
					}})
					has := false
					an.Instrs(h, func(y ssa.Instruction) {
						if isSplice(y) {
							has = true
						}
					})
					return has && w == nil
				}
			}
			return false
		}})
		if w != nil {
			c.Bad("R5", "processRequest: splice after buffering", in.Pos(), "after the request body was buffered for inspection, processRequest can succeed without replacing req.Body by (buffered bytes + unread remainder): the application would read a truncated or empty body", c.P.TrailString(w)...)
		} else {
			c.Ok("R5", "processRequest: splice after buffering", in.Pos(), "every successful exit re-splices io.MultiReader(buffered, req.Body)")
		}
	})

	// ---- R6 status mapping exhaustive
	handled := map[string]bool{}
	// the status of a deny is the interruption's; the built-in default replaces it only when the rule gave none
	// (Status == 0), under no other condition (a private or unregistered code such as 444 is still the rule's)
	if sf := c.Fn("R6", "http.obtainStatusCodeFromInterruptionOrDefault"); sf != nil {
		nDef := 0
		bad := ""
		an.Instrs(sf, func(in ssa.Instruction) {
			r, ok := in.(*ssa.Return)
			if !ok || len(r.Results) != 1 {
				return
			}
			var leaves func(v ssa.Value, from *ssa.BasicBlock, d int)
			leaves = func(v ssa.Value, from *ssa.BasicBlock, d int) {
				if phi, ok := v.(*ssa.Phi); ok && d < 4 {
					for i, e := range phi.Edges {
						leaves(e, phi.Block().Preds[i], d+1)
					}
					return
				}
				cst, isC := v.(*ssa.Const)
				if !isC {
					return
				}
				nDef++
				f := an.FactsAtBlock(from)
				if from == r.Block() {
					f = an.FactsAt(r)
				}
				// the edge into the merge point, when `from` branches
				if len(from.Succs) == 2 {
					for si, sx := range from.Succs {
						if sx == r.Block() || r.Block().Preds != nil && containsBlock(r.Block().Preds, from) && sx == r.Block() {
							f = append(f, an.EdgeFacts(from, si)...)
						}
					}
				}
				if !f.HasSuffix(".Status", "==", "0") {
					bad = "the constant " + cst.Value.String() + " is returned under " + shortFacts(f)
				}
			}
			leaves(r.Results[0], r.Block(), 0)
		})
		c.Check(bad == "" && nDef >= 1, "R6", "default deny status only when the interruption carries none", sf.Pos(), "403 under it.Status == 0 only",
			"the middleware answers with its built-in default although the interruption has a status ("+bad+"): the client does not receive the status of the rule that denied")
	}
	if sf := c.Fn("R6", "http.obtainStatusCodeFromInterruptionOrDefault"); sf != nil {
		an.Instrs(sf, func(in ssa.Instruction) {
			if ifi, ok := in.(*ssa.If); ok {
				// an action is handled when some branch singles it out, whichever way round the test is written
				for _, truth := range []bool{true, false} {
					for _, a := range an.CondAtoms(ifi.Cond, truth) {
						if strings.HasSuffix(a.L, ".Action") && a.Op == "==" {
							handled[strings.Trim(a.R, "\"")] = true
						}
					}
				}
			}
		})
	}
	produced := map[string]bool{}
	for _, fn := range c.P.ModFuncs {
		rp2 := relPkg(fn)
		if rp2 != "internal/actions" && rp2 != "internal/corazawaf" {
			continue
		}
		an.Instrs(fn, func(in ssa.Instruction) {
			st, ok := in.(*ssa.Store)
			if !ok {
				return
			}
			fa, ok := st.Addr.(*ssa.FieldAddr)
			if !ok || !strings.HasSuffix(fa.X.Type().String(), "types.Interruption") || an.FieldVar(fa).Name() != "Action" {
				return
			}
			produced[strings.Trim(an.Expr(st.Val), "\"")] = true
		})
	}
	c.MinCount("R6", "interruption kinds produced by the engine", len(produced), 3)
	for _, a := range sortedKeys(produced) {
		c.Check(handled[a], "R6", "middleware maps interruption action "+a, posOf(c.P.Func("http.obtainStatusCodeFromInterruptionOrDefault")), "handled explicitly",
			"an interruption with Action \""+a+"\" falls through to the default status: the client receives 200 (and, for redirect, no Location) although the transaction was interrupted")
	}
}

func posOf(fn *ssa.Function) (p tokenPos) {
	if fn == nil {
		return 0
	}
	return fn.Pos()
}

// edgeConds: every predecessor edge of b carries exactly one of the given condition suffixes.
func edgeConds(b *ssa.BasicBlock, suffixes []string) bool {
	seen := map[string]bool{}
	for _, p := range b.Preds {
		ifi, ok := p.Instrs[len(p.Instrs)-1].(*ssa.If)
		if !ok {
			return false
		}
		truth := p.Succs[0] == b
		hit := false
		for _, a := range an.CondAtoms(ifi.Cond, truth) {
			for _, s := range suffixes {
				if strings.HasSuffix(a.String(), s) {
					seen[s] = true
					hit = true
				}
			}
		}
		if !hit {
			return false
		}
	}
	return len(seen) == len(suffixes)
}

// splicesRemainder: v is (a wrapper around) io.MultiReader(<buffered reader>, req.Body) on every incoming edge.
func splicesRemainder(v ssa.Value, depth int) bool {
	if depth > 6 {
		return false
	}
	switch x := v.(type) {
	case *ssa.MakeInterface:
		return splicesRemainder(x.X, depth+1)
	case *ssa.ChangeInterface:
		return splicesRemainder(x.X, depth+1)
	case *ssa.Phi:
		for _, e := range x.Edges {
			if !splicesRemainder(e, depth+1) {
				return false
			}
		}
		return len(x.Edges) > 0
	case *ssa.Call:
		name := an.CalleeName(x)
		switch name {
		case "io.NopCloser":
			return splicesRemainder(x.Call.Args[0], depth+1)
		case "io.MultiReader":
			e := an.Expr(x.Call.Args[0])
			return strings.Contains(e, "RequestBodyReader()") && strings.Contains(e, "req.Body")
		}
	}
	return false
}

func containsBlock(bs []*ssa.BasicBlock, b *ssa.BasicBlock) bool {
	for _, x := range bs {
		if x == b {
			return true
		}
	}
	return false
}

// c18FlushAllow: delegate writes in helpers that are only entered after the status was flushed by the caller.
var c18FlushAllow = map[string]string{}
