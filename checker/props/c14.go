package props

import (
	"fmt"
	"go/token"
	"go/types"
	"strings"

	"czcheck/an"

	"golang.org/x/tools/go/ssa"
)

func init() {
	register(&Property{
		ID:    "C14",
		Title: "Transformations are total, pure functions with sound change reports",
		Explanation: "Decides ownership, change-flag shape and look-ahead guards, not the transformations' identities: R1 every buffer handed to WrapUnsafe (a zero-copy []byte->string cast) is freshly allocated in the same call tree (make, []byte(string), append on such, library result), is never stored elsewhere, the cast is the last use, and buffers received as parameters are fresh at every call site; no transformation writes through its input; " +
			"R2 change-flag classification for each return of the registered transformations: the flag is the constant true, or false with the input returned unchanged, or a content comparison input != output, or a length comparison only when the output comes from a delete-only call (Trim*, ReplaceAll(_,_,\"\")); flags computed by helper loops are listed as not decided, except that a flag which is not a content comparison is refused when the output comes from a call that re-encodes its argument as UTF-8 (strings.Map, ToLower, ToUpper, ..., string([]rune)): such a call rewrites invalid bytes on its own; " +
			"R3 look-ahead reads in the decoders are length-guarded (A9 shapes); R4 every registered name maps to a function and lookups are by the registered name; " +
			"R5 multiMatch: the running value is replaced and collected together, only for a successful transformation that reported a change and under no further condition; a failing step leaves the running value untouched (also in the cached path transformArg and in the non-multiMatch executor). R2 also: a change flag accumulated over a loop is only ever set to true inside the loop (back-edge values are the flag itself or true).",
		NotDecided: []string{
			"the defining identities (hex/base64/url round trips, md5/sha1, idempotence of trimming)",
			"change flags computed inside helper loops (cmdLine, compressWhitespace, escapeSeqDecode, jsDecode, removeComments*, removeWhitespace, replaceComments, urlDecodeUni, urlEncode)",
			"totality beyond the A9 index shapes",
		},
		Run: runC14,
	})
}

func runC14(c *an.Ctx) {
	wu := c.Fn("R1", "internal/strings.WrapUnsafe")
	// ---- R1 ownership
	if wu != nil {
		sites := c.P.CallSites(func(in ssa.Instruction) bool { return an.IsCallTo(in, wu) })
		perFn := map[string]int{}
		for _, s := range sites {
			name := an.RelName(s.Fn)
			perFn[name]++
			key := fmt.Sprintf("WrapUnsafe #%d in %s", perFn[name], name)
			c.FuncsAnalysed[s.Fn] = true
			arg := s.Call.Common().Args[0]
			ok, why := freshBuffer(c, arg, 0, map[ssa.Value]bool{})
			if !ok {
				c.Bad("R1", key+": buffer is owned", s.Call.Pos(), "the byte slice cast to a string by WrapUnsafe is not provably a private, freshly allocated buffer ("+why+"): a later write to it would change a string a rule already holds, or the string aliases the transformation's input")
				continue
			}
			c.Ok("R1", key+": buffer is owned", s.Call.Pos(), why)
			// the cast is the last use: its result goes straight to a return and nothing writes the buffer afterwards
			call := s.Call.(*ssa.Call)
			last := true
			for _, ref := range *call.Referrers() {
				if _, isRet := ref.(*ssa.Return); !isRet {
					if _, isDbg := ref.(*ssa.DebugRef); !isDbg {
						last = false
					}
				}
			}
			w := an.FindPath(an.PathQuery{Fn: s.Fn, After: call, Target: func(in ssa.Instruction) bool {
				st, ok := in.(*ssa.Store)
				if !ok {
					return false
				}
				_, isIdx := st.Addr.(*ssa.IndexAddr)
				return isIdx
			}})
			c.Check(last && w == nil, "R1", key+": the cast is the buffer's last use", s.Call.Pos(), "returned immediately, no element store afterwards", "the buffer is still written (or the string used) after it was cast to a string")
		}
		c.MinCount("R1", "WrapUnsafe call sites", len(sites), 10)
	}
	// no transformation stores through a []byte view of its input string: unsafe.StringData / unsafe.Slice are not used
	nUnsafe := 0
	for _, fn := range c.P.ModFuncs {
		if relPkg(fn) != "internal/transformations" {
			continue
		}
		an.Instrs(fn, func(in ssa.Instruction) {
			if ci, ok := in.(ssa.CallInstruction); ok {
				n := an.CalleeName(ci)
				if strings.Contains(n, "StringData") || strings.Contains(n, "unsafe.Slice") || strings.Contains(n, "unsafe.String") {
					nUnsafe++
					c.Bad("R1", "no mutable view of the input in "+an.RelName(fn), in.Pos(), "a transformation obtains a writable view of its input string ("+n+"): the input could be modified in place")
				}
			}
		})
	}
	c.OkTrivial("R1", "transformations take no unsafe view of their input", 0, fmt.Sprintf("%d uses of unsafe.StringData/Slice/String in internal/transformations", nUnsafe))

	// ---- R2 change flags
	regFn := c.Fn("R2", "internal/transformations.Register")
	var registered []*ssa.Function
	names := map[string]string{}
	if regFn != nil {
		for _, f := range c.P.ModFuncs {
			if relPkg(f) != "internal/transformations" || !strings.HasPrefix(an.OuterFn(f).Name(), "init") {
				continue
			}
			an.Instrs(f, func(in ssa.Instruction) {
				if !an.IsCallTo(in, regFn) {
					return
				}
				cc := an.CallOf(in)
				arg := cc.Args[1]
				if ct, ok := arg.(*ssa.ChangeType); ok {
					arg = ct.X
				}
				name := strings.Trim(an.Expr(cc.Args[0]), "\"")
				if tf, ok := arg.(*ssa.Function); ok {
					if _, dup := names[name]; dup {
						c.Bad("R4", "transformation "+name+" registered once", in.Pos(), "the name is registered twice")
					}
					names[name] = tf.Name()
					registered = append(registered, tf)
				} else {
					c.Bad("R4", "transformation "+name+" maps to a function", in.Pos(), "Register is called with "+an.Expr(arg))
				}
			})
		}
	}
	c.MinCount("R4", "registered transformations", len(names), 30)
	if gt := c.Fn("R4", "internal/transformations.GetTransformation"); gt != nil {
		ok := false
		an.Instrs(gt, func(in ssa.Instruction) {
			if lk, isL := in.(*ssa.Lookup); isL && strings.HasSuffix(an.Expr(lk.X), "transformations.transformations") {
				e := an.Expr(lk.Index)
				if e == "strings.ToLower(name)" || e == "name" {
					ok = true
				}
			}
		})
		c.Check(ok, "R4", "GetTransformation looks the name up in the registry", gt.Pos(), "registry lookup by (lower-cased) name", "GetTransformation does not index the registry with the requested name")
	}
	seenFn := map[*ssa.Function]bool{}
	nFlags, nUndecided := 0, 0
	for _, tf := range registered {
		if seenFn[tf] {
			continue
		}
		seenFn[tf] = true
		c.FuncsAnalysed[tf] = true
		if len(tf.Params) != 1 {
			continue
		}
		in := tf.Params[0].Name()
		k := 0
		an.Instrs(tf, func(x ssa.Instruction) {
			r, ok := x.(*ssa.Return)
			if !ok || len(r.Results) != 3 {
				return
			}
			if !an.ReturnMayBeNilError(r, 2) {
				return // failing transformation: the flag is not consulted
			}
			k++
			nFlags++
			key := fmt.Sprintf("%s return #%d: change flag", tf.Name(), k)
			out := tempName.ReplaceAllString(an.Expr(r.Results[0]), "")
			flag := tempName.ReplaceAllString(an.Expr(r.Results[1]), "")
			switch {
			case flag == "true":
				c.OkTrivial("R2", key, r.Pos(), "always reports a change")
			case flag == "false":
				c.Check(out == in, "R2", key, r.Pos(), "reports no change and returns its input", "reports 'unchanged' but returns "+out+" instead of the input: with multiMatch the new value is never evaluated")
			case flag == "("+in+" != "+out+")" || flag == "("+out+" != "+in+")":
				c.Ok("R2", key, r.Pos(), "content comparison input != output")
			case strings.HasPrefix(flag, "(len("+in+") != len(") || strings.HasPrefix(flag, "(len("+out+") != len("):
				del := deleteOnly(r.Results[0])
				c.Check(del, "R2", key, r.Pos(), "length comparison on a delete-only result ("+out+")", "the change flag compares lengths although the output ("+out+") is not produced by a delete-only call: a same-length rewrite (e.g. &nGg; -> 5 bytes) is reported as unchanged")
			default:
				if re := reencodingCall(r.Results[0]); re != "" {
					// strings.Map and the case-mapping functions decode their input as UTF-8 and write
					// U+FFFD for every byte that is not: the output can differ from the input although
					// the mapping never asked for a change, so only a content comparison is sound.
					c.Bad("R2", key, r.Pos(), "the output comes from "+re+", which rewrites bytes that are not valid UTF-8 whatever the mapping does, but the change flag ("+flag+") is not the content comparison input != output")
					return
				}
				nUndecided++
				c.Note("R2", key, r.Pos(), "computed flag "+flag+": not decided")
			}
		})
	}
	c.MinCount("R2", "change flags classified", nFlags-nUndecided, 25)

	// R2 (cont.) a change flag accumulated over a loop is monotone: inside the loop it is only ever set to true
	// (`if x { changed = true }`), never assigned a computed value (`changed = x` forgets an earlier change as soon
	// as x is false for a later byte).  Every bool result of a function of the package is traced back to the loop
	// header phis it comes from; the values entering such a phi on the loop's back edges must be the phi itself
	// or the constant true.
	{
		nAcc := 0
		for _, fn := range c.P.ModFuncs {
			if relPkg(fn) != "internal/transformations" {
				continue
			}
			var heads []*ssa.Phi
			seenV := map[ssa.Value]bool{}
			var trace func(v ssa.Value, d int)
			trace = func(v ssa.Value, d int) {
				if seenV[v] || d > 10 {
					return
				}
				seenV[v] = true
				phi, ok := v.(*ssa.Phi)
				if !ok {
					return
				}
				if lp := an.InnermostLoop(phi.Block()); lp != nil && lp.Header == phi.Block() {
					heads = append(heads, phi)
				}
				for _, e := range phi.Edges {
					trace(e, d+1)
				}
			}
			an.Instrs(fn, func(in ssa.Instruction) {
				r, ok := in.(*ssa.Return)
				if !ok {
					return
				}
				for _, res := range r.Results {
					if b, ok := res.Type().Underlying().(*types.Basic); ok && b.Kind() == types.Bool {
						trace(res, 0)
					}
				}
			})
			for i, h := range heads {
				lp := an.InnermostLoop(h.Block())
				nAcc++
				c.FuncsAnalysed[fn] = true
				var bad []string
				seenL := map[ssa.Value]bool{}
				var leaf func(v ssa.Value, d int)
				leaf = func(v ssa.Value, d int) {
					if seenL[v] || d > 10 || v == ssa.Value(h) {
						return
					}
					seenL[v] = true
					if p2, ok := v.(*ssa.Phi); ok {
						for _, e := range p2.Edges {
							leaf(e, d+1)
						}
						return
					}
					if cst, ok := v.(*ssa.Const); ok && an.Expr(cst) == "true" {
						return
					}
					bad = append(bad, tempName.ReplaceAllString(an.Expr(v), ""))
				}
				for j, e := range h.Edges {
					if lp.Blocks[h.Block().Preds[j]] {
						leaf(e, 0)
					}
				}
				key := fmt.Sprintf("%s: accumulated flag #%d is only ever set", fn.Name(), i+1)
				if len(bad) > 0 {
					c.Bad("R2", key, h.Pos(), "inside the loop the flag is assigned "+strings.Join(bad, ", ")+" instead of being set to true: a later iteration can clear a change recorded by an earlier one, and the transformation reports 'unchanged' although its output differs")
				} else {
					c.Ok("R2", key, h.Pos(), "back-edge values are the flag itself or true")
				}
			}
		}
		c.MinCount("R2", "change flags accumulated over a loop", nAcc, 5)
	}

	// ---- R3 look-ahead reads
	lookaheadRule(c, "R3", []string{"internal/transformations", "internal/strings"}, 40)

	// the digest transformations are copies of each other: whatever package-level value one of them returns or
	// consults belongs to its own algorithm (sha1 must not hand out the MD5 of the empty input kept for md5)
	for _, pair := range [][2]string{{"md5T", "sha1"}, {"sha1T", "md5"}} {
		fn := c.FnOpt("internal/transformations." + pair[0])
		if fn == nil {
			continue
		}
		bad := ""
		for f := range c.P.Reachable(fn) {
			if relPkg(f) != "internal/transformations" {
				continue
			}
			an.Instrs(f, func(in ssa.Instruction) {
				for _, op := range in.Operands(nil) {
					if g, ok := (*op).(*ssa.Global); ok && g.Pkg != nil && relPkgPath(g.Pkg.Pkg.Path()) == "internal/transformations" && strings.Contains(strings.ToLower(g.Name()), pair[1]) {
						bad = g.Name() + " in " + f.Name()
					}
				}
			})
		}
		c.Check(bad == "", "R4", pair[0]+" uses only values of its own algorithm", fn.Pos(), "no package-level "+pair[1]+" value reachable", pair[0]+" reaches the package-level value "+bad+", which belongs to the other digest: some input (the empty one) is answered with the wrong algorithm's digest")
	}

	// ---- R5 multiMatch executor
	for _, name := range []string{"internal/corazawaf.(*Rule).executeTransformationsMultimatch", "internal/corazawaf.(*Rule).executeTransformations", "internal/corazawaf.(*Rule).transformArg"} {
		fn := c.Fn("R5", name)
		if fn == nil {
			continue
		}
		multi := strings.HasSuffix(name, "Multimatch")
		// the loop-carried running value: the loop-header phi that is handed to the transformation function
		run := runningValuePhi(fn)
		if run == nil {
			c.Unknown("R5", shortFn(name)+": running value", fn.Pos(), "loop-carried value handed to transformations[i].Function not found")
			continue
		}
		// every back-edge value: either the running value itself or the call result, the latter only from
		// blocks where err == nil (and changed == true for multiMatch)
		okAll := true
		why := ""
		for i, e := range run.Edges {
			if run.Block().Preds[i] == run.Block() || run.Block().Dominates(run.Block().Preds[i]) {
				if ok, w := runningValueDiscipline(e, run.Block().Preds[i], run, multi); !ok {
					okAll, why = false, w
				}
			}
		}
		// and by nothing else: the update of the running value is conditioned on the step's own error and change
		// report only (a further condition — "already collected", "same length" — skips the step for the steps
		// that follow, which then run on the value from before it)
		if multi {
			for i, e := range run.Edges {
				pb := run.Block().Preds[i]
				if !(pb == run.Block() || run.Block().Dominates(pb)) {
					continue
				}
				var leaf func(v ssa.Value, from *ssa.BasicBlock, d int)
				seenL := map[ssa.Value]bool{}
				leaf = func(v ssa.Value, from *ssa.BasicBlock, d int) {
					if d > 6 || seenL[v] || v == ssa.Value(run) {
						return
					}
					seenL[v] = true
					if phi, ok := v.(*ssa.Phi); ok {
						for j, e2 := range phi.Edges {
							leaf(e2, phi.Block().Preds[j], d+1)
						}
						return
					}
					if ex, ok := v.(*ssa.Extract); ok && ex.Index == 0 {
						base := strings.TrimSuffix(an.Expr(v), "#0")
						var foreign []string
						// the loop's own continuation test (i < len(list) of an index loop, the hidden index of a range
						// loop) is not a condition on the step
						loopGuard := map[string]bool{}
						if hb := run.Block(); len(hb.Instrs) > 0 {
							if hif, ok := hb.Instrs[len(hb.Instrs)-1].(*ssa.If); ok {
								for _, a := range an.CondAtoms(hif.Cond, true) {
									loopGuard[a.String()] = true
								}
							}
						}
						for _, a := range an.FactsAtBlock(from) {
							if strings.HasPrefix(a.L, base+"#") || strings.Contains(a.L, "rangeindex") || loopGuard[a.String()] {
								continue
							}
							foreign = append(foreign, tempName.ReplaceAllString(a.String(), ""))
						}
						if len(foreign) > 0 {
							okAll, why = false, "the running value is replaced by the step's output only when additionally "+strings.Join(foreign, ", ")+": a changed step can be skipped for the following steps, which then transform the value from before it (the operator never sees T3(T2(T1(v))))"
						}
					}
				}
				leaf(e, pb, 0)
			}
		}
		c.Check(okAll, "R5", shortFn(name)+": running value only replaced by a successful"+map[bool]string{true: ", changed", false: ""}[multi]+" step", run.Pos(), "guards on every update", why)
		if multi {
			// collection under the same guard
			n := 0
			an.Instrs(fn, func(in ssa.Instruction) {
				if an.IsBuiltinCall(in, "append") && strings.HasPrefix(tempName.ReplaceAllString(an.Expr(an.CallOf(in).Args[0]), ""), "*res") {
					n++
					f := an.FactsAt(in)
					okG := false
					for _, a := range f {
						if strings.HasSuffix(a.L, ".Function(*value.t5)#1") || strings.Contains(a.L, ".Function(") && strings.HasSuffix(a.L, "#1") {
							okG = a.Op == "==" && a.R == "true"
						}
					}
					c.Check(okG, "R5", "multiMatch collects a value iff the step reported a change", in.Pos(), "append under changed == true", "intermediate values are collected without the change test")
				}
			})
			c.MinCount("R5", "collection points in the multiMatch executor", n, 1)
			// the original value is evaluated too
			okOrig := false
			an.Instrs(fn, func(in ssa.Instruction) {
				if al, ok := in.(*ssa.Alloc); ok && al.Comment == "slicelit" {
					for _, ref := range *al.Referrers() {
						if ia, ok := ref.(*ssa.IndexAddr); ok {
							for _, r2 := range *ia.Referrers() {
								if st, ok := r2.(*ssa.Store); ok && an.Expr(st.Val) == "value" {
									okOrig = true
								}
							}
						}
					}
				}
			})
			c.Check(okOrig, "R5", "multiMatch evaluates the original value first", fn.Pos(), "res starts as []string{value}", "the result list does not start with the untransformed value")
		}
	}
}

// freshBuffer: v is (a slice of) a buffer allocated in this call tree and not stored anywhere.
func freshBuffer(c *an.Ctx, v ssa.Value, depth int, seen map[ssa.Value]bool) (bool, string) {
	if depth > 8 {
		return false, "provenance too deep"
	}
	if seen[v] {
		return true, "loop-carried"
	}
	seen[v] = true
	switch x := v.(type) {
	case *ssa.MakeSlice:
		return escapesNot(x), "make([]byte, ...)"
	case *ssa.Slice:
		return freshBuffer(c, x.X, depth+1, seen)
	case *ssa.Alloc:
		return true, "local array"
	case *ssa.Convert:
		if bt, ok := x.X.Type().Underlying().(*types.Basic); ok && bt.Info()&types.IsString != 0 {
			return escapesNot(x), "[]byte(string) copy"
		}
		return freshBuffer(c, x.X, depth+1, seen)
	case *ssa.ChangeType:
		return freshBuffer(c, x.X, depth+1, seen)
	case *ssa.Phi:
		whys := []string{}
		for _, e := range x.Edges {
			ok, why := freshBuffer(c, e, depth+1, seen)
			if !ok {
				return false, why
			}
			whys = append(whys, why)
		}
		return true, strings.Join(dedupStrings(whys), " | ")
	case *ssa.UnOp:
		if x.Op == token.MUL {
			if al, ok := x.X.(*ssa.Alloc); ok {
				// local variable holding the buffer: all stores into it must be fresh
				for _, ref := range *al.Referrers() {
					if st, ok := ref.(*ssa.Store); ok && st.Addr == ssa.Value(al) {
						if ok, why := freshBuffer(c, st.Val, depth+1, seen); !ok {
							return false, why
						}
					}
				}
				return true, "local buffer variable"
			}
		}
		return false, "loaded from " + an.Expr(x.X)
	case *ssa.Extract:
		if call, ok := x.Tuple.(*ssa.Call); ok {
			if sc := call.Call.StaticCallee(); sc != nil && !c.P.InModule(sc) {
				return true, "result of " + an.CalleeName(call)
			}
		}
		return false, "tuple element of unknown origin"
	case *ssa.Call:
		if b, ok := x.Call.Value.(*ssa.Builtin); ok && b.Name() == "append" {
			return freshBuffer(c, x.Call.Args[0], depth+1, seen)
		}
		if x.Call.IsInvoke() {
			// hash.Hash.Sum(nil) allocates
			if x.Call.Method.Name() == "Sum" && an.Expr(x.Call.Args[0]) == "nil" {
				return true, "hash.Sum(nil)"
			}
			return false, "result of interface call " + x.Call.Method.Name()
		}
		if sc := x.Call.StaticCallee(); sc != nil {
			if !c.P.InModule(sc) {
				return true, "result of " + an.CalleeName(x)
			}
			// module helper returning a buffer: its returns must be fresh
			okAll, why := true, "result of "+sc.Name()
			an.Instrs(sc, func(in ssa.Instruction) {
				if r, ok := in.(*ssa.Return); ok {
					for _, res := range r.Results {
						if _, isSlice := res.Type().Underlying().(*types.Slice); isSlice {
							if ok, w := freshBuffer(c, res, depth+1, seen); !ok {
								okAll, why = false, w
							}
						}
					}
				}
			})
			return okAll, why
		}
	case *ssa.Parameter:
		// every call site must pass a fresh buffer
		fn := x.Parent()
		idx := -1
		for i, p := range fn.Params {
			if p == x {
				idx = i
			}
		}
		sites := c.P.CallSites(func(in ssa.Instruction) bool { return an.IsCallTo(in, fn) })
		if len(sites) == 0 || idx < 0 {
			return false, "parameter " + x.Name() + " of a function without visible callers"
		}
		for _, s := range sites {
			if ok, why := freshBuffer(c, s.Call.Common().Args[idx], depth+1, seen); !ok {
				return false, "call site in " + an.RelName(s.Fn) + ": " + why
			}
		}
		return true, fmt.Sprintf("parameter %s, fresh at all %d call sites", x.Name(), len(sites))
	case *ssa.Const:
		return true, "nil"
	}
	return false, "unknown origin " + an.Expr(v)
}

// escapesNot: the freshly allocated buffer is never stored into memory that outlives the call.
func escapesNot(v ssa.Value) bool {
	for _, ref := range *v.Referrers() {
		if st, ok := ref.(*ssa.Store); ok && st.Val == v {
			if _, local := st.Addr.(*ssa.Alloc); !local {
				return false
			}
		}
	}
	return true
}

func dedupStrings(s []string) []string {
	seen := map[string]bool{}
	var out []string
	for _, x := range s {
		if !seen[x] {
			seen[x] = true
			out = append(out, x)
		}
	}
	return out
}

// deleteOnly: v is produced by a call that can only remove bytes from its input.
func deleteOnly(v ssa.Value) bool {
	call, ok := v.(*ssa.Call)
	if !ok || call.Call.StaticCallee() == nil || call.Call.StaticCallee().Pkg == nil || call.Call.StaticCallee().Pkg.Pkg.Path() != "strings" {
		return false
	}
	switch call.Call.StaticCallee().Name() {
	case "Trim", "TrimLeft", "TrimRight", "TrimSpace", "TrimPrefix", "TrimSuffix", "TrimFunc", "TrimLeftFunc", "TrimRightFunc":
		return true
	case "ReplaceAll", "Replace":
		return an.Expr(call.Call.Args[2]) == `""`
	}
	return false
}

// isTransformationCall: a call through the Function field of a transformation entry (r.transformations[i].Function(x)).
func isTransformationCall(in ssa.Instruction) (*ssa.Call, bool) {
	call, ok := in.(*ssa.Call)
	if !ok || call.Call.IsInvoke() || call.Call.StaticCallee() != nil || len(call.Call.Args) != 1 {
		return nil, false
	}
	// a dynamic call of a value of the transformation type func(string) (string, bool, error)
	sig, ok := call.Call.Value.Type().Underlying().(*types.Signature)
	if !ok || sig.Params().Len() != 1 || sig.Results().Len() != 3 {
		return nil, false
	}
	isStr := func(t types.Type) bool { b, ok := t.Underlying().(*types.Basic); return ok && b.Kind() == types.String }
	if !isStr(sig.Params().At(0).Type()) || !isStr(sig.Results().At(0).Type()) || !isBoolType(sig.Results().At(1).Type()) || sig.Results().At(2).Type().String() != "error" {
		return nil, false
	}
	return call, true
}

// runningValuePhi: the loop-header phi whose value is the argument of the transformation call in that loop.
func runningValuePhi(fn *ssa.Function) *ssa.Phi {
	var run *ssa.Phi
	an.Instrs(fn, func(in ssa.Instruction) {
		call, ok := isTransformationCall(in)
		if !ok || run != nil {
			return
		}
		lp := an.InnermostLoop(call.Block())
		if lp == nil {
			return
		}
		// the argument, through trivial phis, down to a phi at the loop header
		var find func(v ssa.Value, d int) *ssa.Phi
		find = func(v ssa.Value, d int) *ssa.Phi {
			phi, ok := v.(*ssa.Phi)
			if !ok || d > 4 {
				return nil
			}
			if phi.Block() == lp.Header {
				return phi
			}
			for _, e := range phi.Edges {
				if r := find(e, d+1); r != nil {
					return r
				}
			}
			return nil
		}
		run = find(call.Call.Args[0], 0)
	})
	return run
}

// runningValueDiscipline: v (as seen when control comes from block `from`) is the running value itself or
// the output of a transformation step that succeeded (err == nil on the path; changed == true when multi).
func runningValueDiscipline(v ssa.Value, from *ssa.BasicBlock, run *ssa.Phi, multi bool) (bool, string) {
	okAll, why := true, ""
	seen := map[ssa.Value]bool{}
	var visit func(v ssa.Value, from *ssa.BasicBlock, d int)
	visit = func(v ssa.Value, from *ssa.BasicBlock, d int) {
		if d > 6 || v == ssa.Value(run) {
			return
		}
		if phi, ok := v.(*ssa.Phi); ok {
			if seen[phi] {
				return
			}
			seen[phi] = true
			for i, e := range phi.Edges {
				visit(e, phi.Block().Preds[i], d+1)
			}
			return
		}
		if _, isParam := v.(*ssa.Parameter); isParam {
			return
		}
		e := tempName.ReplaceAllString(an.Expr(v), "")
		ex, isEx := v.(*ssa.Extract)
		var call *ssa.Call
		if isEx && ex.Index == 0 {
			if cl, ok := ex.Tuple.(*ssa.Call); ok {
				if _, isT := isTransformationCall(cl); isT {
					call = cl
				}
			}
		}
		if call == nil {
			okAll, why = false, "the running value is replaced by "+e
			return
		}
		f := an.FactsAtBlock(from)
		base := strings.TrimSuffix(an.Expr(v), "#0")
		if !f.Has(base+"#2", "==", "nil") {
			okAll, why = false, "the value is a transformation's output although the step may have failed (no err == nil guard): a failing step like hexDecode returns \"\" and every later step, the operator and the cache work on the empty string"
		}
		if multi && !f.Has(base+"#1", "==", "true") {
			okAll, why = false, "with multiMatch the running value is replaced without the step having reported a change: the collected values and the running value diverge"
		}
	}
	visit(v, from, 0)
	return okAll, why
}

func relPkgPath(p string) string { return strings.TrimPrefix(strings.TrimPrefix(p, an.ModPath), "/") }

// reencodingCall names the standard-library call producing v when that call re-encodes its
// whole argument as UTF-8 (invalid bytes become U+FFFD), or "".
func reencodingCall(v ssa.Value) string {
	switch x := v.(type) {
	case *ssa.Call:
		if f := x.Call.StaticCallee(); f != nil && f.Pkg != nil && f.Pkg.Pkg.Path() == "strings" {
			switch f.Name() {
			case "Map", "ToLower", "ToUpper", "ToTitle", "Title", "ToValidUTF8", "ToLowerSpecial", "ToUpperSpecial":
				return "strings." + f.Name()
			}
		}
	case *ssa.Convert:
		if sl, ok := x.X.Type().Underlying().(*types.Slice); ok {
			if b, ok := sl.Elem().Underlying().(*types.Basic); ok && b.Kind() == types.Int32 {
				return "string([]rune)"
			}
		}
	}
	return ""
}
