package props

import (
	"fmt"
	"go/token"
	"go/types"
	"sort"
	"strings"

	"czcheck/an"

	"golang.org/x/tools/go/ssa"
)

func init() {
	register(&Property{
		ID:    "C06",
		Title: "A WAF is safe to share: concurrent transactions are race-free and independent",
		Explanation: "Decides the structural causes of races, not their absence in general: R1 effect analysis: over everything reachable from the Transaction API (VTA call graph) no store, map update, delete or append writes memory whose access path goes through a shared object (WAF, Rule, RuleGroup, operator/action/writer/formatter/body-processor structs, package variables), " +
			"per-transaction copies of rule data are made fresh before being appended to (path query with infeasible-branch pruning), reference-typed transaction fields that alias WAF storage are never written through, and the lazy audit-writer initialisation is dead for WAFs built by coraza.NewWAF; " +
			"R2 guarded-by table: every access to the process-wide tables (memoize entries, random source, transformation-id tables, concurrent audit index) happens with the associated lock held, writes exclusively; R3 no lock is acquired while another module lock is held (lock-order graph has no edge, hence no cycle); " +
			"R4 the transaction pool is only used by newTransaction (Get) and Close (deferred Put); R2 also: no mutex is locked through a by-value copy of the struct that holds it; R5 a value derived from an object by appending to one of its slices (a logger with more context, an event, a copied list) never grows into the parent's spare capacity: the source is clipped or cloned first; R6 a goroutine the library starts itself is given no transaction state (arguments and captures) and can complete each of its sends without a receiver when its starter may stop waiting. R2 also: the debug log output shared by all transactions is written only through its log.Logger wrapper or under a lock of the module. R1 also: calls of the mutating methods of a sync.Map whose receiver is WAF- or rule-owned count as writes to shared state, and every constructor-style factory handed to a plugin registry (audit-log writers, actions, operators, body processors) returns an object built in the call, never a captured or package-level instance.",
		NotDecided: []string{
			"absence of data races in general (needs a happens-before argument over schedules)",
			"deadlock freedom beyond the module's own locks",
			"equality of each transaction's outcome with its run-alone outcome",
			"thread safety of third-party objects shared through the WAF (regexp, aho-corasick matchers, loggers)",
		},
		Run: runC06,
	})
}

func c06Shared(c *an.Ctx) an.SharedClassifier {
	names := map[string]bool{}
	add := func(pkgRel, n string) { names[an.ModPath+"/"+pkgRel+"."+n] = true }
	add("internal/corazawaf", "WAF")
	add("internal/corazawaf", "Rule")
	add("internal/corazawaf", "RuleGroup")
	add("internal/memoize", "Memoizer")
	for _, spec := range [][2]string{
		{"experimental/plugins/plugintypes", "Operator"}, {"experimental/plugins/plugintypes", "Action"},
		{"experimental/plugins/plugintypes", "AuditLogWriter"}, {"experimental/plugins/plugintypes", "AuditLogFormatter"},
		{"experimental/plugins/plugintypes", "BodyProcessor"},
		{"experimental/plugins/macro", "Macro"}, // compiled macros hang off rules, actions and operators
	} {
		pk := c.P.Pkg(spec[0])
		if pk == nil {
			continue
		}
		o := pk.Types.Scope().Lookup(spec[1])
		if o == nil {
			continue
		}
		it, ok := o.Type().Underlying().(*types.Interface)
		if !ok {
			continue
		}
		for _, t := range c.P.Implementers(it) {
			if p, ok := t.(*types.Pointer); ok {
				t = p.Elem()
			}
			names[t.String()] = true
		}
	}
	return func(t types.Type) bool {
		if t == nil {
			return false
		}
		if n, ok := t.(*types.Named); ok {
			if _, isStruct := n.Underlying().(*types.Struct); isStruct {
				return names[n.String()]
			}
		}
		return false
	}
}

// functions reached only through the lazy audit-writer initialisation, allowed under the companion obligation.
func isAuditInit(fn *ssa.Function) bool {
	return fn.Name() == "Init" && strings.Contains(an.RelName(fn), "internal/auditlog.")
}

func runC06(c *an.Ctx) {
	r7LockPairing(c, "R3")
	r7FactoriesFresh(c, "R1")
	shared := c06Shared(c)
	var roots []*ssa.Function
	if txT := c.P.LookupType(pkgWAF, "Transaction"); txT != nil {
		ms := c.P.SSA.MethodSets.MethodSet(types.NewPointer(txT))
		for i := 0; i < ms.Len(); i++ {
			if ms.At(i).Obj().Exported() {
				roots = append(roots, c.P.SSA.MethodValue(ms.At(i)))
			}
		}
	}
	for _, n := range []string{"internal/corazawaf.(*WAF).NewTransaction", "internal/corazawaf.(*WAF).NewTransactionWithOptions"} {
		if f := c.P.Func(n); f != nil {
			roots = append(roots, f)
		}
	}
	if len(roots) < 30 {
		c.Unknown("R1", "request-time entry points", token.NoPos, fmt.Sprintf("only %d entry points resolved", len(roots)))
		return
	}
	reach := c.P.Reachable(roots...)
	var fns []*ssa.Function
	for fn := range reach {
		if c.P.InModule(fn) && !strings.HasPrefix(an.OuterFn(fn).Name(), "init") {
			fns = append(fns, fn)
		}
	}
	sort.Slice(fns, func(i, j int) bool { return fns[i].String() < fns[j].String() })
	if len(fns) < 300 {
		c.Unknown("R1", "reachability", token.NoPos, fmt.Sprintf("only %d module functions reachable from the Transaction API", len(fns)))
	}
	nWrites, nShared := 0, 0
	seen := map[string]int{}
	report := func(fn *ssa.Function, in ssa.Instruction, kind, why string) {
		nShared++
		k := fmt.Sprintf("%s to %s in %s", kind, why, an.RelName(fn))
		seen[k]++
		key := k
		if seen[k] > 1 {
			key += fmt.Sprintf("#%d", seen[k])
		}
		if isAuditInit(an.OuterFn(fn)) {
			c.Ok("R1", key, in.Pos(), "audit writer initialisation: reachable at request time only through the lazy branch of WAF.AuditLogWriter, which is dead once InitAuditLogWriter ran (companion obligation below)")
			return
		}
		c.Bad("R1", key, in.Pos(), "request-time code writes memory shared by all transactions of the WAF ("+why+"): concurrent transactions race on it and can observe each other's state")
	}
	for _, fn := range fns {
		c.FuncsAnalysed[fn] = true
		live := an.LiveBlocks(fn)
		for _, b := range fn.Blocks {
			if !live[b] {
				continue
			}
			for _, in := range b.Instrs {
				switch x := in.(type) {
				case *ssa.Store:
					nWrites++
					if s, why := an.SharedRoot(x.Addr, shared); s {
						// stores under a lock of the guarded-by table are R2's business
						if lockProtected(fn, in) {
							continue
						}
						report(fn, in, "store", why)
					}
				case *ssa.MapUpdate:
					nWrites++
					if s, why := an.SharedRoot(x.Map, shared); s && !lockProtected(fn, in) {
						report(fn, in, "map update", why)
					}
				case *ssa.Call:
					// a container with its own lock (sync.Map) is race-free, but what a transaction stores
					// into a WAF-owned one is still seen by every later transaction of that WAF
					// (the process-wide pattern cache of internal/memoize is shared by design: C13.R3 decides its discipline)
					if sc := x.Call.StaticCallee(); sc != nil && sc.Signature.Recv() != nil && strings.HasSuffix(sc.Signature.Recv().Type().String(), "sync.Map") && relPkg(fn) != "internal/memoize" {
						switch sc.Name() {
						case "Store", "LoadOrStore", "LoadAndDelete", "Delete", "Swap", "CompareAndSwap", "CompareAndDelete", "Clear":
							nWrites++
							if s, why := an.SharedRoot(x.Call.Args[0], shared); s {
								report(fn, in, "sync.Map."+sc.Name(), why)
							}
						}
					}
					if bi, ok := x.Call.Value.(*ssa.Builtin); ok {
						switch bi.Name() {
						case "delete", "copy", "clear":
							nWrites++
							if s, why := an.SharedRoot(x.Call.Args[0], shared); s && !lockProtected(fn, in) {
								report(fn, in, bi.Name(), why)
							}
						case "append":
							nWrites++
							c06Append(c, fn, x, shared, report)
						}
					}
				}
			}
		}
	}
	c.OkTrivial("R1", "write instructions scanned", token.NoPos, fmt.Sprintf("%d stores/map updates/appends in %d functions reachable from %d entry points; %d had a shared root", nWrites, len(fns), len(roots), nShared))
	if nWrites < 500 {
		c.Unknown("R1", "write scan", token.NoPos, "too few write instructions seen")
	}
	// companion: NewWAF initialises the audit writer on every successful path
	if nw := c.Fn("R1", ".NewWAF"); nw != nil {
		initFn := c.Fn("R1", "internal/corazawaf.(*WAF).InitAuditLogWriter")
		errIdx := an.ErrorIndex(nw.Signature)
		w := an.FindPath(an.PathQuery{Fn: nw, Stop: func(in ssa.Instruction) bool { return an.IsCallTo(in, initFn) }, Target: func(in ssa.Instruction) bool {
			r, ok := in.(*ssa.Return)
			return ok && an.ReturnMayBeNilError(r, errIdx)
		}})
		c.Check(w == nil, "R1", "NewWAF initialises the audit writer before handing out the WAF", nw.Pos(), "every successful return passes InitAuditLogWriter", "coraza.NewWAF can return a WAF whose audit writer is initialised lazily by the first transaction that logs: concurrent first transactions race in Init")
		if initFn != nil {
			ei := an.ErrorIndex(initFn.Signature)
			w2 := an.FindPath(an.PathQuery{Fn: initFn, Stop: func(in ssa.Instruction) bool {
				st, ok := an.StoreToField(in, fullWAF, "WAF", "auditLogWriterInitialized")
				return ok && an.Expr(st.Val) == "true"
			}, Target: func(in ssa.Instruction) bool {
				r, ok := in.(*ssa.Return)
				return ok && an.ReturnMayBeNilError(r, ei)
			}})
			c.Check(w2 == nil, "R1", "InitAuditLogWriter marks the writer initialised", initFn.Pos(), "flag set on every successful path", "InitAuditLogWriter can succeed without setting auditLogWriterInitialized: the lazy branch stays live")
		}
	}
	// aliasing transaction fields
	if nt := c.P.Func("internal/corazawaf.(*WAF).newTransaction"); nt != nil {
		if txT := c.P.LookupType(pkgWAF, "Transaction"); txT != nil {
			wafAliases(c, "R1", nt, txT.Underlying().(*types.Struct))
		}
	}

	// ---- R2 guarded-by table.
	internTables(c, "R2", false)
	c06Guarded(c)

	// ---- R3 lock order.
	c06LockOrder(c)

	// ---- R4 pool discipline (shared with C05.R5).
	c06Pool(c)

	// ---- R6 goroutines started by the library.
	c06Goroutines(c)

	// ---- R2 (cont.) the debug log's output is shared by every transaction of the WAF.
	c06SharedSink(c)
}

// c06SharedSink: every transaction's logger is derived from the WAF's and writes to the io.Writer the user gave
// (SecDebugLog, WithOutput).  The only thing that serialises those writes is the log.Logger the default printer
// wraps the writer in (its mutex makes one record one Write at a time).  Writing to the io.Writer directly
// (fmt.Fprintf, io.WriteString, w.Write) from the logging path, outside a lock of the module, lets concurrent
// transactions interleave records and race on writers that are not goroutine-safe (bytes.Buffer, bufio.Writer).
func c06SharedSink(c *an.Ctx) {
	n, nLogger := 0, 0
	for _, fn := range c.P.ModFuncs {
		if relPkg(fn) != "debuglog" {
			continue
		}
		an.Instrs(fn, func(in ssa.Instruction) {
			cc := an.CallOf(in)
			if cc == nil {
				return
			}
			direct := ""
			if cc.IsInvoke() && cc.Method.Name() == "Write" && strings.HasSuffix(cc.Value.Type().String(), "io.Writer") {
				direct = "Write on the io.Writer"
			} else if sc := cc.StaticCallee(); sc != nil && sc.Pkg != nil {
				full := sc.Pkg.Pkg.Path() + "." + sc.Name()
				switch full {
				case "fmt.Fprintf", "fmt.Fprint", "fmt.Fprintln", "io.WriteString":
					if len(cc.Args) > 0 && !strings.Contains(an.Expr(cc.Args[0]), "os.Std") {
						direct = full
					}
				case "log.New":
					nLogger++
				}
			}
			if direct == "" {
				return
			}
			n++
			key := fmt.Sprintf("debug log sink written through its serialising logger in %s #%d", an.RelName(fn), n)
			c.Check(lockProtected(fn, in), "R2", key, in.Pos(), "under a lock of the module", direct+" writes to the debug log's shared io.Writer without the log.Logger (or a lock) in between: records of concurrent transactions interleave, and a writer that is not goroutine-safe is raced on")
		})
	}
	c.MinCount("R2", "log.Logger wrappers of the debug log output", nLogger, 1)
}

// c06Goroutines: a transaction belongs to the goroutine that drives it and goes back to the pool
// when that goroutine closes it.  A goroutine the library starts on its own (an operator doing
// a lookup with a timeout) may outlive the call that started it, so (a) nothing it is given or
// captures may be transaction state — it would write into a transaction that has been recycled
// — and (b) every send it performs must be able to complete without a receiver (buffered
// channel) when the starter receives inside a select with another way out, otherwise the
// goroutine blocks forever.
func c06Goroutines(c *an.Ctx) {
	isTxType := func(t types.Type) bool {
		str := t.String()
		return strings.HasSuffix(str, "plugintypes.TransactionState") || strings.HasSuffix(str, "corazawaf.Transaction") ||
			strings.HasSuffix(str, "types.Transaction") || strings.HasSuffix(str, "plugintypes.TransactionVariables")
	}
	n := 0
	for _, fn := range c.P.ModFuncs {
		if p := relPkg(fn); strings.HasPrefix(p, "testing") || strings.HasPrefix(p, "examples") {
			continue
		}
		nf := 0
		an.Instrs(fn, func(in ssa.Instruction) {
			g, ok := in.(*ssa.Go)
			if !ok {
				return
			}
			n++
			nf++
			c.FuncsAnalysed[fn] = true
			key := fmt.Sprintf("goroutine #%d started in %s", nf, an.RelName(fn))
			var given []ssa.Value
			given = append(given, g.Call.Args...)
			var body *ssa.Function
			switch v := g.Call.Value.(type) {
			case *ssa.MakeClosure:
				given = append(given, v.Bindings...)
				body, _ = v.Fn.(*ssa.Function)
			case *ssa.Function:
				body = v
			}
			var bad []string
			for _, v := range given {
				t := v.Type()
				if pt, ok := t.(*types.Pointer); ok {
					// a captured variable is bound by address
					if isTxType(pt.Elem()) {
						bad = append(bad, tempName.ReplaceAllString(an.Expr(v), "")+" ("+pt.Elem().String()+")")
						continue
					}
				}
				if isTxType(t) {
					bad = append(bad, tempName.ReplaceAllString(an.Expr(v), "")+" ("+t.String()+")")
				}
			}
			c.Check(len(bad) == 0, "R6", key+" is given no transaction state", g.Pos(), "captures and arguments carry no transaction", "the goroutine is handed "+strings.Join(bad, ", ")+": it can run after the call that started it has returned (timeouts), i.e. on a transaction that was closed, recycled and is being used by another request")
			if body == nil {
				c.Unknown("R6", key+" body resolves", g.Pos(), "the goroutine's function is not statically known")
				return
			}
			// sends inside the goroutine
			starterSelects := false
			an.Instrs(fn, func(x ssa.Instruction) {
				if sel, ok := x.(*ssa.Select); ok && (len(sel.States) > 1 || !sel.Blocking) {
					starterSelects = true
				}
			})
			ns := 0
			an.Instrs(body, func(x ssa.Instruction) {
				snd, ok := x.(*ssa.Send)
				if !ok {
					return
				}
				ns++
				ch := snd.Chan
				if fv, ok := ch.(*ssa.FreeVar); ok {
					if mc, ok := g.Call.Value.(*ssa.MakeClosure); ok {
						for i, f := range body.FreeVars {
							if f == fv && i < len(mc.Bindings) {
								ch = mc.Bindings[i]
							}
						}
					}
				}
				if u, ok := ch.(*ssa.UnOp); ok && u.Op == token.MUL {
					if fv, ok := u.X.(*ssa.FreeVar); ok {
						if mc, ok := g.Call.Value.(*ssa.MakeClosure); ok {
							for i, f := range body.FreeVars {
								if f == fv && i < len(mc.Bindings) {
									ch = mc.Bindings[i]
								}
							}
						}
					}
				}
				// the binding is the address of the starter's variable: find what is stored there
				size := int64(-1)
				if al, ok := ch.(*ssa.Alloc); ok {
					for _, r := range *al.Referrers() {
						if st, ok := r.(*ssa.Store); ok && st.Addr == al {
							if mk, ok := st.Val.(*ssa.MakeChan); ok {
								if k, ok := an.ConstInt(mk.Size); ok {
									size = k
								}
							}
						}
					}
				} else if mk, ok := ch.(*ssa.MakeChan); ok {
					if k, ok := an.ConstInt(mk.Size); ok {
						size = k
					}
				}
				k2 := fmt.Sprintf("%s: send #%d can complete without a receiver", key, ns)
				switch {
				case !starterSelects:
					c.OkTrivial("R6", k2, snd.Pos(), "the starter receives unconditionally")
				case size >= 1:
					c.Ok("R6", k2, snd.Pos(), fmt.Sprintf("channel made with capacity %d", size))
				case size == 0:
					c.Bad("R6", k2, snd.Pos(), "the goroutine sends on an unbuffered channel while its starter receives inside a select with another way out (timeout): once the starter has left, the send blocks forever and the goroutine (with everything it references) is never released")
				default:
					c.Unknown("R6", k2, snd.Pos(), "the channel's capacity is not visible")
				}
			})
		})
	}
	c.MinCount("R6", "goroutines started by the library", n, 0)
}

// lockProtected: the instruction runs with some sync lock of the module held (decided by R2).
func lockProtected(fn *ssa.Function, in ssa.Instruction) bool {
	for _, l := range moduleLocks(fn) {
		if an.LockState(in, l) != "none" {
			return true
		}
	}
	return false
}

// moduleLocks lists the lock expressions acquired in fn.
func moduleLocks(fn *ssa.Function) []string {
	set := map[string]bool{}
	an.Instrs(fn, func(in ssa.Instruction) {
		cc := an.CallOf(in)
		if cc == nil || cc.IsInvoke() || cc.StaticCallee() == nil || cc.StaticCallee().Pkg == nil || cc.StaticCallee().Pkg.Pkg.Path() != "sync" {
			return
		}
		if n := cc.StaticCallee().Name(); (n == "Lock" || n == "RLock") && len(cc.Args) > 0 {
			set[an.Expr(cc.Args[0])] = true
		}
	})
	var out []string
	for k := range set {
		out = append(out, k)
	}
	sort.Strings(out)
	return out
}

// c06Append: append(s, ...) where s is (a copy of) a slice header loaded from shared state must be made fresh first.
func c06Append(c *an.Ctx, fn *ssa.Function, call *ssa.Call, shared an.SharedClassifier, report func(*ssa.Function, ssa.Instruction, string, string)) {
	s := call.Call.Args[0]
	if an.FreshSlice(s) {
		return
	}
	if sh, why := an.SharedRoot(s, shared); sh {
		report(fn, call, "append onto a slice held in", why)
		return
	}
	// s = load of a field of a local struct copy: where does the copy come from?
	ld, ok := s.(*ssa.UnOp)
	if !ok || ld.Op != token.MUL {
		return
	}
	fa, ok := ld.X.(*ssa.FieldAddr)
	if !ok {
		return
	}
	al, ok := fa.X.(*ssa.Alloc)
	if !ok {
		return
	}
	fname := an.FieldVar(fa).Name()
	// whole-struct stores into the local from shared memory
	for _, ref := range *al.Referrers() {
		st, ok := ref.(*ssa.Store)
		if !ok || st.Addr != ssa.Value(al) {
			continue
		}
		sh, why := an.SharedRoot(st.Val, shared)
		if !sh {
			continue
		}
		// every feasible path from the copy to the append must re-point the field at fresh storage
		tf := an.FactsAt(call)
		w := an.FindPath(an.PathQuery{Fn: fn, After: st, Target: func(in ssa.Instruction) bool { return in == ssa.Instruction(call) },
			Stop: func(in ssa.Instruction) bool {
				s2, ok := in.(*ssa.Store)
				if !ok {
					return false
				}
				fa2, ok := s2.Addr.(*ssa.FieldAddr)
				return ok && fa2.X == ssa.Value(al) && an.FieldVar(fa2).Name() == fname && an.FreshSlice(s2.Val)
			},
			PruneEdge: func(b *ssa.BasicBlock, si int) bool {
				// an edge that asserts len(x) <= 0 is infeasible when the target needs len(x) >= 1
				ifi, ok := b.Instrs[len(b.Instrs)-1].(*ssa.If)
				if !ok {
					return false
				}
				for _, a := range an.CondAtoms(ifi.Cond, si == 0) {
					if strings.HasPrefix(a.L, "len(") && (a.Op == "<=" && a.R == "0" || a.Op == "==" && a.R == "0" || a.Op == "<" && a.R == "1") {
						if an.FactsImplyLenAtLeast(tf, a.L, 1) {
							return true
						}
					}
				}
				return false
			}})
		if w != nil {
			report(fn, call, "append onto the copied slice header "+fname+" still pointing into", why)
		} else {
			c.Ok("R1", fmt.Sprintf("append to copied %s.%s in %s goes to fresh storage", typeBaseName(al.Type().String()), fname, an.RelName(fn)), call.Pos(),
				"every feasible path from the copy to the append first re-points the field at a fresh slice")
		}
	}
}

type guardSpec struct {
	pkgRel, typ, field string // struct field (typ != "") or package variable (typ == "")
	lock               func(base string) string
	what               string
}

func c06Guarded(c *an.Ctx) {
	if c.P.Cfg.Name == "tinygo" || c.P.Cfg.Name == "no_memoize" {
		// single-threaded / compiled-out variants are covered by their own build: only the common tables are checked
	}
	// 1. memoize.entry.{owners,deleted} <-> entry.mu
	if c.P.LookupType("internal/memoize", "entry") != nil && c.P.Cfg.Name != "tinygo" {
		n := 0
		for _, fn := range c.P.ModFuncs {
			if relPkg(fn) != "internal/memoize" {
				continue
			}
			k := 0
			an.Instrs(fn, func(in ssa.Instruction) {
				fa, ok := in.(*ssa.FieldAddr)
				if !ok {
					return
				}
				fv := an.FieldVar(fa)
				if !(an.IsFieldAddrOf(fa, an.ModPath+"/internal/memoize", "entry", "owners") || an.IsFieldAddrOf(fa, an.ModPath+"/internal/memoize", "entry", "deleted")) {
					return
				}
				// composite literal initialisation of a fresh entry is not an access to shared state
				if _, isAlloc := fa.X.(*ssa.Alloc); isAlloc {
					return
				}
				n++
				k++
				lock := an.Expr(fa.X) + ".mu"
				st := an.LockState(in, lock)
				c.Check(st == "exclusive", "R2", fmt.Sprintf("memoize entry.%s access #%d in %s under entry.mu", fv.Name(), k, an.RelName(fn)), in.Pos(), "e.mu held", "the owner set / deleted flag of a cache entry is accessed without e.mu: concurrent WAF construction and Close race on it")
			})
		}
		c.MinCount("R2", "accesses to memoize entry state", n, 4)
	}
	// 2. strings.src <-> strings.mu
	{
		n := 0
		for _, fn := range c.P.ModFuncs {
			if relPkg(fn) != "internal/strings" || strings.HasPrefix(an.OuterFn(fn).Name(), "init") {
				continue
			}
			k := 0
			an.Instrs(fn, func(in ssa.Instruction) {
				for _, op := range in.Operands(nil) {
					if g, ok := (*op).(*ssa.Global); ok && g.Name() == "src" {
						n++
						k++
						st := an.LockState(in, "strings.mu")
						c.Check(st == "exclusive", "R2", fmt.Sprintf("random source access #%d in %s under mu", k, an.RelName(fn)), in.Pos(), "mu held", "the shared math/rand source is used without the mutex: rand.Source is not safe for concurrent use")
					}
				}
			})
		}
		c.MinCount("R2", "accesses to the shared random source", n, 1)
	}
	// 3. concurrentWriter.log <-> mux
	if c.P.Cfg.Name != "tinygo" && c.P.Cfg.Name != "no_fs_access" {
		n := 0
		for _, fn := range c.P.ModFuncs {
			if relPkg(fn) != "internal/auditlog" || fn.Name() == "Init" {
				continue
			}
			k := 0
			an.Instrs(fn, func(in ssa.Instruction) {
				var base ssa.Value
				switch x := in.(type) {
				case *ssa.FieldAddr:
					if an.IsFieldAddrOf(x, an.ModPath+"/internal/auditlog", "concurrentWriter", "log") {
						base = x.X
					}
				case *ssa.Field:
					if fv := an.FieldVar(x); fv != nil && fv.Name() == "log" && strings.HasSuffix(x.X.Type().String(), "auditlog.concurrentWriter") {
						base = x.X
					}
				}
				if base == nil {
					return
				}
				n++
				k++
				lock := an.Expr(base) + ".mux"
				st := an.LockState(in, lock)
				c.Check(st == "exclusive", "R2", fmt.Sprintf("concurrent audit index access #%d in %s under mux", k, an.RelName(fn)), in.Pos(), "mux held", "the index logger of the concurrent audit writer is used without mux: index lines of concurrent transactions interleave")
			})
		}
		c.MinCount("R2", "uses of the concurrent audit index logger", n, 2)
	}
}

// c06LockOrder: no lock acquisition while another module lock is held, directly or through calls.
func c06LockOrder(c *an.Ctx) {
	// functions that acquire a lock
	acquirers := map[*ssa.Function]bool{}
	for _, fn := range c.P.ModFuncs {
		if len(moduleLocks(fn)) > 0 {
			acquirers[fn] = true
		}
	}
	// transitive: functions that may reach an acquirer
	mayAcquire := map[*ssa.Function]bool{}
	cg := c.P.CallGraph()
	var work []*ssa.Function
	for f := range acquirers {
		mayAcquire[f] = true
		work = append(work, f)
	}
	for len(work) > 0 {
		f := work[len(work)-1]
		work = work[:len(work)-1]
		if n := cg.Nodes[f]; n != nil {
			for _, e := range n.In {
				if !c.P.EdgeOK(e) || !c.P.InModule(e.Caller.Func) {
					continue
				}
				if !mayAcquire[e.Caller.Func] {
					mayAcquire[e.Caller.Func] = true
					work = append(work, e.Caller.Func)
				}
			}
		}
	}
	nCS := 0
	var fns []*ssa.Function
	for f := range acquirers {
		fns = append(fns, f)
	}
	sort.Slice(fns, func(i, j int) bool { return fns[i].String() < fns[j].String() })
	for _, fn := range fns {
		locks := moduleLocks(fn)
		nested := ""
		an.Instrs(fn, func(in ssa.Instruction) {
			ci, ok := in.(ssa.CallInstruction)
			if !ok {
				return
			}
			if _, isDefer := in.(*ssa.Defer); isDefer {
				return
			}
			held := ""
			for _, l := range locks {
				if an.LockState(in, l) != "none" {
					held = l
				}
			}
			if held == "" {
				return
			}
			cc := ci.Common()
			// direct acquisition of another lock
			if sc := cc.StaticCallee(); sc != nil && sc.Pkg != nil && sc.Pkg.Pkg.Path() == "sync" && (sc.Name() == "Lock" || sc.Name() == "RLock") {
				if l2 := an.Expr(cc.Args[0]); l2 != held {
					nested = held + " -> " + l2
				}
				return
			}
			for _, callee := range c.P.Callees(ci) {
				if c.P.InModule(callee) && mayAcquire[callee] {
					nested = held + " -> (via " + an.RelName(callee) + ")"
				}
			}
		})
		nCS++
		c.Check(nested == "", "R3", "no nested lock acquisition in "+an.RelName(fn), fn.Pos(), "critical sections of "+strings.Join(locks, ", ")+" acquire no other module lock", "a lock is acquired while another is held ("+nested+"): the lock-order graph gets an edge and may contain a cycle")
	}
	c.MinCount("R3", "functions with critical sections", nCS, 3)
}

func c06Pool(c *an.Ctx) {
	var sites []string
	for _, fn := range c.P.ModFuncs {
		an.Instrs(fn, func(in ssa.Instruction) {
			cc := an.CallOf(in)
			if cc == nil {
				return
			}
			recv := firstArgOrRecv(cc)
			if recv == nil || !strings.HasSuffix(an.Expr(recv), ".txPool") {
				return
			}
			name := ""
			if cc.IsInvoke() {
				name = cc.Method.Name()
			} else if sc := cc.StaticCallee(); sc != nil {
				name = sc.Name()
			}
			sites = append(sites, name+" in "+an.RelName(fn))
		})
	}
	sort.Strings(sites)
	want := "Get in internal/corazawaf.(*WAF).newTransaction; Put in internal/corazawaf.(*Transaction).Close"
	c.Check(strings.Join(sites, "; ") == want, "R4", "transaction pool used only by newTransaction and Close", token.NoPos, want, "txPool call sites: "+strings.Join(sites, "; "))

	// ---- R5 derived objects do not grow into their parent's spare capacity.
	c06DerivedAppends(c)

	// ---- R2 (cont.) a lock protects only if every user locks the same object: the mutex is never part of a
	// value that is copied per call (a struct received by value — value receiver or by-value parameter — holds
	// its own copy of an embedded sync.Mutex / sync.RWMutex, so Lock() excludes nobody)
	nLk := 0
	seenLk := map[string]int{}
	for _, fn := range c.P.ModFuncs {
		rp := relPkg(fn)
		if strings.HasPrefix(rp, "testing") || strings.HasPrefix(rp, "examples") {
			continue
		}
		an.Instrs(fn, func(in ssa.Instruction) {
			cc := an.CallOf(in)
			if cc == nil || cc.StaticCallee() == nil || cc.StaticCallee().Signature.Recv() == nil || len(cc.Args) == 0 {
				return
			}
			rt := cc.StaticCallee().Signature.Recv().Type().String()
			if rt != "*sync.Mutex" && rt != "*sync.RWMutex" {
				return
			}
			switch cc.StaticCallee().Name() {
			case "Lock", "RLock", "TryLock", "TryRLock":
			default:
				return
			}
			nLk++
			// walk the address down to its base
			base := cc.Args[0]
			copied := false
			for d := 0; d < 6; d++ {
				switch x := base.(type) {
				case *ssa.FieldAddr:
					base = x.X
					continue
				case *ssa.IndexAddr:
					base = x.X
					continue
				case *ssa.Alloc:
					for _, r := range *x.Referrers() {
						if st, ok := r.(*ssa.Store); ok && st.Addr == ssa.Value(x) {
							if _, isP := st.Val.(*ssa.Parameter); isP {
								copied = true
							}
						}
					}
				}
				break
			}
			k := fmt.Sprintf("%s on a shared mutex in %s", cc.StaticCallee().Name(), an.RelName(fn))
			seenLk[k]++
			key := k
			if seenLk[k] > 1 {
				key += fmt.Sprintf("#%d", seenLk[k])
			}
			c.Check(!copied, "R2", key, in.Pos(), "the mutex is reached through a pointer or a package variable", "the mutex locked here lives inside a value the function received by value (a copy made for this call): every caller locks its own copy, so the critical section excludes nobody and the data it was meant to protect is written concurrently")
		})
	}
	c.MinCount("R2", "lock acquisitions in the module", nLk, 2)
}

// c06DerivedAppends: `append(x.f, ...)` whose result goes anywhere but back into x.f builds a *new* object
// (a derived logger, a copy of a rule's list, an event) out of a slice that x keeps using.  If x.f has spare
// capacity, the append writes into memory x still owns: two goroutines deriving from the same x race, and
// sequential derivations overwrite each other.  The slice must be clipped (x.f[:len:len], slices.Clip) or
// copied first.  Handing out x.f itself to an object that appends to it later is the same hazard.
func c06DerivedAppends(c *an.Ctx) {
	n := 0
	seen := map[string]int{}
	clipped := func(v ssa.Value) bool {
		switch x := v.(type) {
		case *ssa.Slice:
			return x.Max != nil
		case *ssa.Call:
			if sc := x.Call.StaticCallee(); sc != nil {
				o := sc
				if sc.Origin() != nil {
					o = sc.Origin()
				}
				if o.Pkg != nil && o.Pkg.Pkg.Path() == "slices" && (o.Name() == "Clip" || o.Name() == "Clone") {
					return true
				}
			}
		}
		return false
	}
	for _, fn := range c.P.ModFuncs {
		rp := relPkg(fn)
		if strings.HasPrefix(rp, "testing") || strings.HasPrefix(rp, "examples") || strings.HasSuffix(rp, "/generator") || rp == "magefiles" {
			continue
		}
		an.Instrs(fn, func(in ssa.Instruction) {
			if !an.IsBuiltinCall(in, "append") {
				return
			}
			call := in.(*ssa.Call)
			src := call.Call.Args[0]
			// peel clipping / cloning / re-slicing to find where the slice comes from
			isClipped := false
			for d := 0; d < 4; d++ {
				if clipped(src) {
					isClipped = true
				}
				if sl, ok := src.(*ssa.Slice); ok {
					src = sl.X
					continue
				}
				if cl, ok := src.(*ssa.Call); ok && clipped(cl) && len(cl.Call.Args) == 1 {
					src = cl.Call.Args[0]
					continue
				}
				break
			}
			// the slice comes from a field of a parameter / receiver (by value or by pointer)
			ld, ok := src.(*ssa.UnOp)
			var fv *types.Var
			var holder ssa.Value
			if ok && ld.Op == token.MUL {
				if fa, ok := ld.X.(*ssa.FieldAddr); ok {
					fv, holder = an.FieldVar(fa), fa.X
				}
			} else if f, ok := src.(*ssa.Field); ok {
				if st, ok := f.X.Type().Underlying().(*types.Struct); ok {
					fv, holder = st.Field(f.Field), f.X
				}
			}
			if fv == nil {
				return
			}
			// holder must be a parameter (possibly spilled by-value receiver)
			isParam := false
			switch h := holder.(type) {
			case *ssa.Parameter:
				isParam = true
			case *ssa.Alloc:
				for _, r := range *h.Referrers() {
					if st, ok := r.(*ssa.Store); ok && st.Addr == ssa.Value(h) {
						if _, isP := st.Val.(*ssa.Parameter); isP {
							isParam = true
						}
					}
				}
			case *ssa.UnOp:
				if _, isP := h.X.(*ssa.Parameter); isP {
					isParam = true
				}
			}
			if !isParam {
				return
			}
			// result stored back into the same field: in-place growth of the owner's state
			back := false
			var walk func(v ssa.Value, d int)
			walk = func(v ssa.Value, d int) {
				if d > 3 || v.Referrers() == nil {
					return
				}
				for _, r := range *v.Referrers() {
					switch x := r.(type) {
					case *ssa.Store:
						if fa2, ok := x.Addr.(*ssa.FieldAddr); ok && an.FieldVar(fa2) == fv && an.Expr(fa2.X) == an.Expr(holder) {
							back = true
						}
					case *ssa.Phi:
						walk(x, d+1)
					}
				}
			}
			walk(call, 0)
			if back {
				return
			}
			n++
			c.FuncsAnalysed[fn] = true
			k := fmt.Sprintf("append to %s.%s builds a new value in %s", fv.Pkg().Name(), fv.Name(), an.RelName(fn))
			seen[k]++
			key := k
			if seen[k] > 1 {
				key += fmt.Sprintf("#%d", seen[k])
			}
			if why, ok := c06DerivedAllow[k]; ok {
				c.Note("R5", key, in.Pos(), "not decided mechanically; manual argument: "+why)
				return
			}
			c.Check(isClipped, "R5", key, in.Pos(), "the source slice is clipped/cloned first",
				"append("+tempName.ReplaceAllString(an.Expr(src), "")+", ...) builds a new value from a slice its owner keeps: when that slice has spare capacity the append writes into memory the owner (and every other value derived from it) still uses — concurrent derivations race, sequential ones overwrite each other")
		})
	}
	c.MinCount("R5", "appends deriving a new value from an owner's slice", n, 1)
}

var c06DerivedAllow = map[string]string{}
