package props

import (
	"fmt"
	"go/token"
	"go/types"
	"strings"

	"czcheck/an"

	"golang.org/x/tools/go/ssa"
)

func init() {
	register(&Property{
		ID:    "C20",
		Title: "Failures are reported, never swallowed, and no temporary files are left behind",
		Explanation: "Decides the cleanup and error-propagation mechanism, not behaviour under injected faults: R1 after every successful os.CreateTemp each path to the function's exit registers the file (FILES_TMPNAMES / BodyBuffer.writer) or removes it (path query from the success edge); " +
			"R2 BodyBuffer.Reset reaches os.Remove on every path where a spill file exists, and Transaction.Close removes every registered upload file in a loop without early exit, skipped only by the keep-files setting, and resets both buffers on all paths; " +
			"R3 in the file-system call graph (body buffer, multipart processor, audit writers, Close, body processing) no call result of type error is dropped (never extracted or never referenced) outside a reasoned allowlist, a tolerated parse error is recognised exactly (sentinel or equality of its message, never a prefix/substring test), an error handed from a callback to its enclosing function is examined where it arises (not overwritten by the next element), a request-body processor failure is reported through the error variables and the interruption, not additionally as an API error, Close reports the collected errors, and the spill-file reader returns the ReadAt error unchanged; " +
			"R4 a body-processor failure sets the error variables and still evaluates the body phase on every path, and an audit-write failure reaches the error log. R2 also: the RelevantOnly upload-retention predicate consults MatchedRule.Log only. R3 also: the audit-log writers store the field Write takes as \"initialised\" only once Init can no longer fail, and after every pointer field Write dereferences.",
		NotDecided: []string{
			"behaviour under injected file-system faults as such",
			"that error values are meaningful; only that they are not dropped",
			"temporary files created by third-party libraries",
		},
		Run: runC20,
	})
}

// allowlisted discarded errors: callee -> reason (one named symbol each).
var c20DropAllow = map[string]string{
	"(*os.File).Close@internal/bodyprocessors.(*multipartBodyProcessor).ProcessRequest": "deferred close of the upload copy; the copy's size and write errors are taken from io.Copy, the content is not inspected from the file",
}

func runC20(c *an.Ctx) {
	r7WriterTypestate(c, "R3")
	r7KeepFilesPredicate(c, "R2")
	// ---- R1 temp-file pairing.
	nCT := 0
	for _, fn := range c.P.ModFuncs {
		an.Instrs(fn, func(in ssa.Instruction) {
			if !an.IsCallToFunc(in, "os", "CreateTemp") {
				return
			}
			nCT++
			c.FuncsAnalysed[fn] = true
			call := in.(*ssa.Call)
			var fileV, errV ssa.Value
			for _, r := range *call.Referrers() {
				if ex, ok := r.(*ssa.Extract); ok {
					if ex.Index == 0 {
						fileV = ex
					} else {
						errV = ex
					}
				}
			}
			key := "CreateTemp in " + an.RelName(fn)
			if fileV == nil || errV == nil {
				c.Bad("R1", key, in.Pos(), "the result of os.CreateTemp is not fully bound (file or error ignored)")
				return
			}
			fileE, errE := an.Expr(fileV), an.Expr(errV)
			registered := func(x ssa.Instruction) bool {
				if st, ok := x.(*ssa.Store); ok && an.Expr(st.Val) == fileE {
					if fa, ok := st.Addr.(*ssa.FieldAddr); ok && an.FieldVar(fa).Name() == "writer" {
						return true
					}
				}
				if cc := an.CallOf(x); cc != nil {
					// Add("", temp.Name()) on the FILES_TMPNAMES collection
					name := ""
					if cc.IsInvoke() {
						name = cc.Method.Name()
					} else if sc := cc.StaticCallee(); sc != nil {
						name = sc.Name()
					}
					if name == "Add" && strings.Contains(an.Expr(firstArgOrRecv(cc)), "FilesTmpNames()") {
						last := an.Expr(cc.Args[len(cc.Args)-1])
						if strings.Contains(last, fileE+".Name()") {
							return true
						}
					}
					if an.IsCallToFunc(x, "os", "Remove") && strings.Contains(an.Expr(cc.Args[0]), fileE+".Name()") {
						return true
					}
					// defer func() { ...; os.Remove(file.Name()) }()
					if d, ok := x.(*ssa.Defer); ok {
						if mc, ok := d.Call.Value.(*ssa.MakeClosure); ok {
							found := false
							an.Instrs(mc.Fn.(*ssa.Function), func(y ssa.Instruction) {
								if an.IsCallToFunc(y, "os", "Remove") && strings.HasSuffix(an.Expr(an.CallOf(y).Args[0]), ".Name()") {
									found = true
								}
							})
							if found {
								return true
							}
						}
					}
				}
				return false
			}
			w := an.FindPath(an.PathQuery{Fn: fn, After: in, Stop: registered, Target: an.IsReturn,
				PruneEdge: func(b *ssa.BasicBlock, si int) bool {
					ifi, ok := b.Instrs[len(b.Instrs)-1].(*ssa.If)
					if !ok {
						return false
					}
					for _, a := range an.CondAtoms(ifi.Cond, si == 0) {
						if a.L == errE && a.Op == "!=" && a.R == "nil" {
							return true // creation failed: nothing to register
						}
					}
					return false
				}})
			if w != nil {
				c.Bad("R1", key, in.Pos(), "after a successful os.CreateTemp the function can return without registering the file for removal (FILES_TMPNAMES / BodyBuffer.writer) or removing it: the temporary file outlives the transaction", c.P.TrailString(w)...)
			} else {
				c.Ok("R1", key, in.Pos(), "every exit after a successful creation registers or removes the file")
			}
		})
	}
	c.MinCount("R1", "os.CreateTemp call sites", nCT, 2)

	// ---- R2 removal on all paths.
	if reset := c.Fn("R2", "internal/corazawaf.(*BodyBuffer).Reset"); reset != nil && c.P.Cfg.Name != "no_fs_access" && c.P.Cfg.Name != "tinygo" {
		var start *ssa.BasicBlock
		for _, b := range reset.Blocks {
			if an.FactsAtBlock(b).Has("br.writer", "!=", "nil") && (start == nil || b.Dominates(start)) {
				start = b
			}
		}
		if start == nil {
			c.Bad("R2", "BodyBuffer.Reset removes the spill file", reset.Pos(), "BodyBuffer.Reset has no branch on br.writer != nil: a spill file is never removed")
		} else {
			w := an.FindPath(an.PathQuery{Fn: reset, StartBlock: start, Target: an.IsReturn, Stop: func(in ssa.Instruction) bool {
				return an.IsCallToFunc(in, "os", "Remove") && strings.HasSuffix(an.Expr(an.CallOf(in).Args[0]), ".Name()")
			}})
			if w != nil {
				c.Bad("R2", "BodyBuffer.Reset removes the spill file", w.Target.Pos(), "with a spill file present, BodyBuffer.Reset can return without os.Remove (e.g. when Close fails): the file is left behind", c.P.TrailString(w)...)
			} else {
				c.Ok("R2", "BodyBuffer.Reset removes the spill file", reset.Pos(), "every path with br.writer != nil reaches os.Remove(w.Name())")
			}
			// the writer is forgotten so a second Reset does not touch a closed file
			w2 := an.FindPath(an.PathQuery{Fn: reset, StartBlock: start, Target: an.IsReturn, Stop: func(in ssa.Instruction) bool {
				st, ok := an.StoreToField(in, fullWAF, "BodyBuffer", "writer")
				return ok && an.Expr(st.Val) == "nil"
			}})
			c.Check(w2 == nil, "R2", "BodyBuffer.Reset forgets the spill file", reset.Pos(), "br.writer = nil on every such path", "BodyBuffer.Reset can keep br.writer pointing at a closed/removed file: the recycled buffer would write to it")
		}
	}
	closeFn := c.Fn("R2", "internal/corazawaf.(*Transaction).Close")
	if closeFn != nil && c.P.Cfg.Name != "no_fs_access" && c.P.Cfg.Name != "tinygo" {
		var rm ssa.Instruction
		an.Instrs(closeFn, func(in ssa.Instruction) {
			if an.IsCallToFunc(in, "os", "Remove") {
				rm = in
			}
		})
		if rm == nil {
			c.Bad("R2", "Close removes the registered upload files", closeFn.Pos(), "Transaction.Close never calls os.Remove: uploaded files are left in the storage directory")
		} else {
			l := an.InnermostLoop(rm.Block())
			arg := an.Expr(an.CallOf(rm).Args[0])
			ok := l != nil && strings.Contains(arg, "tx.variables.filesTmpNames.Get(\"\")[")
			why := "os.Remove argument is " + arg
			if ok {
				exits := 0
				for _, e := range l.ExitEdges() {
					if e[0].(*ssa.BasicBlock) != l.Header {
						exits++
					}
				}
				var body *ssa.BasicBlock
				for _, s := range l.Header.Succs {
					if l.Blocks[s] {
						body = s
					}
				}
				w := an.FindPath(an.PathQuery{Fn: closeFn, StartBlock: body, Stop: func(x ssa.Instruction) bool { return x == rm },
					Target: func(x ssa.Instruction) bool { return x == l.Header.Instrs[0] }})
				if exits != 0 || w != nil {
					ok, why = false, "the removal loop can stop early or skip an element"
				}
			}
			// guard: only keepFiles
			f := an.FactsAtBlock(l.Header)
			for _, a := range f {
				s := a.String()
				if !(strings.Contains(s, "UploadKeepFiles") || strings.Contains(s, "hasLogRelevantMatchedRules") || strings.Contains(s, "environment.HasAccessToFS")) {
					ok, why = false, "the removal loop is additionally conditioned on "+s
				}
			}
			c.Check(ok, "R2", "Close removes every registered upload file unless retention is configured", rm.Pos(),
				"loop over FILES_TMPNAMES without early exit, guarded only by the keep-files setting", why, f.Strings()...)
		}
	}
	// both buffers reset on all paths (shared with C05.R4)
	if closeFn != nil {
		reset := c.P.Func("internal/corazawaf.(*BodyBuffer).Reset")
		for _, buf := range []string{"requestBodyBuffer", "responseBodyBuffer"} {
			buf := buf
			w := an.FindPath(an.PathQuery{Fn: closeFn, Target: an.IsReturn, Stop: func(in ssa.Instruction) bool {
				return an.IsCallTo(in, reset) && an.Expr(an.CallOf(in).Args[0]) == "tx."+buf
			}})
			c.Check(w == nil, "R2", "Close resets "+buf+" whatever failed before", closeFn.Pos(), "called on every path", "Close can skip "+buf+".Reset() (for instance after an earlier failure): its spill file stays and the pooled object keeps the body")
		}
	}

	// ---- R3 error discipline in the file-system call graph.
	scope := []string{
		"internal/corazawaf.(*BodyBuffer).Write", "internal/corazawaf.(*BodyBuffer).WriteTo", "internal/corazawaf.(*BodyBuffer).Reset", "internal/corazawaf.(*BodyBuffer).Reader",
		"internal/corazawaf.(*bodyBufferReader).Read",
		"internal/corazawaf.(*Transaction).Close", "internal/corazawaf.(*Transaction).WriteRequestBody", "internal/corazawaf.(*Transaction).WriteResponseBody",
		"internal/corazawaf.(*Transaction).ReadRequestBodyFrom", "internal/corazawaf.(*Transaction).ReadResponseBodyFrom",
		"internal/corazawaf.(*Transaction).ProcessRequestBody", "internal/corazawaf.(*Transaction).ProcessResponseBody", "internal/corazawaf.(*Transaction).ProcessLogging",
		"internal/bodyprocessors.(*multipartBodyProcessor).ProcessRequest", "internal/bodyprocessors.(*urlencodedBodyProcessor).ProcessRequest",
		"internal/bodyprocessors.(*rawBodyProcessor).ProcessRequest", "internal/bodyprocessors.(*jsonBodyProcessor).ProcessRequest", "internal/bodyprocessors.(*xmlBodyProcessor).ProcessRequest",
		"internal/auditlog.(*serialWriter).Write", "internal/auditlog.(*serialWriter).Init", "internal/auditlog.(concurrentWriter).Write", "internal/auditlog.(*concurrentWriter).Init",
		"internal/corazawaf.(*WAF).InitAuditLogWriter",
	}
	nCalls := 0
	for _, name := range scope {
		fn := c.FnOpt(name)
		if fn == nil {
			if c.P.Cfg.Name == "default" {
				c.Unknown("R3", "anchor "+name, 0, "function in the file-system call graph not found")
			}
			continue
		}
		seen := map[string]int{}
		for _, er := range an.ErrorCalls(fn) {
			callee := an.CalleeName(er.Call)
			// writers that cannot fail / loggers
			if strings.HasPrefix(callee, "(*strings.Builder).") || strings.HasPrefix(callee, "(*bytes.Buffer).") {
				continue
			}
			nCalls++
			seen[callee]++
			key := fmt.Sprintf("error of %s in %s", callee, shortFn(name))
			if seen[callee] > 1 {
				key += fmt.Sprintf("#%d", seen[callee])
			}
			if er.Value != nil && er.Uses > 0 {
				c.OkTrivial("R3", key, er.Call.Pos(), "error value is bound and used")
				continue
			}
			if why, ok := c20DropAllow[callee+"@"+name]; ok {
				c.Ok("R3", key, er.Call.Pos(), "allowlisted discard: "+why)
				continue
			}
			c.Bad("R3", key, er.Call.Pos(), "the error returned by "+callee+" is discarded: a file-system or parsing failure at this point would be swallowed")
		}
	}
	c.MinCount("R3", "error-returning calls in the file-system call graph", nCalls, 25)
	c20ExactTolerance(c)
	// reader returns the ReadAt error unchanged
	if rd := c.FnOpt("internal/corazawaf.(*bodyBufferReader).Read"); rd != nil && c.P.Cfg.Name != "no_fs_access" && c.P.Cfg.Name != "tinygo" {
		var readAt ssa.Value
		an.Instrs(rd, func(in ssa.Instruction) {
			if an.IsCallToMethod(in, "os", "File", "ReadAt") {
				readAt = in.(ssa.Value)
			}
		})
		if readAt == nil {
			c.Unknown("R3", "spill-file reader returns the ReadAt error", rd.Pos(), "no ReadAt call found in bodyBufferReader.Read")
		} else {
			ok := false
			an.Instrs(rd, func(in ssa.Instruction) {
				if r, isR := in.(*ssa.Return); isR && len(r.Results) == 2 {
					if an.Expr(r.Results[1]) == an.Expr(readAt)+"#1" && an.Expr(r.Results[0]) == an.Expr(readAt)+"#0" {
						// and nothing else is returned on paths after ReadAt
						ok = true
					}
				}
			})
			// every return reachable after ReadAt returns exactly its results
			w := an.FindPath(an.PathQuery{Fn: rd, After: readAt.(ssa.Instruction), Target: func(in ssa.Instruction) bool {
				r, isR := in.(*ssa.Return)
				return isR && !(an.Expr(r.Results[1]) == an.Expr(readAt)+"#1" && an.Expr(r.Results[0]) == an.Expr(readAt)+"#0")
			}})
			c.Check(ok && w == nil, "R3", "spill-file reader returns the ReadAt error", readAt.Pos(), "n and err of ReadAt are returned unchanged", "after reading the spill file, bodyBufferReader.Read returns something other than ReadAt's (n, err): an I/O error can be turned into a clean EOF and the body treated as inspected")
		}
	}
	// Close reports collected errors
	if closeFn != nil {
		errIdx := an.ErrorIndex(closeFn.Signature)
		okGuard := true
		an.Instrs(closeFn, func(in ssa.Instruction) {
			if r, isR := in.(*ssa.Return); isR {
				if cst, isC := r.Results[errIdx].(*ssa.Const); isC && cst.Value == nil {
					f := an.FactsAt(in)
					has := false
					for _, a := range f {
						if strings.HasPrefix(a.L, "len(") && a.Op == "==" && a.R == "0" {
							has = true
						}
					}
					if !has {
						okGuard = false
					}
				}
			}
		})
		c.Check(okGuard, "R3", "Close returns nil only when no error was collected", closeFn.Pos(), "return nil is guarded by len(errs) == 0", "Transaction.Close can return nil although errors were collected")
		// every Reset/Remove error is appended
		n := 0
		for _, er := range an.ErrorCalls(closeFn) {
			callee := an.CalleeName(er.Call)
			if !(strings.HasSuffix(callee, ".Reset") || callee == "os.Remove") || er.Value == nil {
				continue
			}
			n++
			// on the err != nil edge an append to errs happens on every path to return
			var start *ssa.BasicBlock
			for _, b := range closeFn.Blocks {
				if an.FactsAtBlock(b).Has(an.Expr(er.Value), "!=", "nil") && (start == nil || b.Dominates(start)) {
					start = b
				}
			}
			if start == nil {
				c.Bad("R3", fmt.Sprintf("Close records the error of %s #%d", callee, n), er.Call.Pos(), "no branch on the error")
				continue
			}
			has := false
			for _, in := range start.Instrs {
				if an.IsBuiltinCall(in, "append") {
					has = true
				}
			}
			c.Check(has, "R3", fmt.Sprintf("Close records the error of %s #%d", callee, n), er.Call.Pos(), "appended to errs", "the failure branch does not record the error")
		}
		c.MinCount("R3", "fallible cleanup calls in Close", n, 2)
	}

	// ---- R4 failures surface and the phase still runs.
	c20BodyFailure(c)
}

func c20BodyFailure(c *an.Ctx) {
	evalFn := c.P.Func("internal/corazawaf.(*RuleGroup).Eval")
	type side struct{ fn, gen, proc string }
	for _, s := range []side{
		{"internal/corazawaf.(*Transaction).ProcessRequestBody", "internal/corazawaf.(*Transaction).generateRequestBodyError", "ProcessRequest"},
		{"internal/corazawaf.(*Transaction).ProcessResponseBody", "internal/corazawaf.(*Transaction).generateResponseBodyError", "ProcessResponse"},
	} {
		fn := c.Fn("R4", s.fn)
		gen := c.Fn("R4", s.gen)
		if fn == nil || gen == nil || evalFn == nil {
			continue
		}
		n := 0
		an.Instrs(fn, func(in ssa.Instruction) {
			cc := an.CallOf(in)
			if cc == nil {
				return
			}
			isProc := cc.IsInvoke() && cc.Method.Name() == s.proc
			isGet := cc.StaticCallee() != nil && cc.StaticCallee().Name() == "GetBodyProcessor"
			if !isProc && !isGet {
				return
			}
			n++
			v := in.(ssa.Value)
			errE := an.Expr(v)
			if isGet {
				errE += "#1"
			}
			var start *ssa.BasicBlock
			for _, b := range fn.Blocks {
				if an.FactsAtBlock(b).Has(errE, "!=", "nil") && (start == nil || b.Dominates(start)) {
					start = b
				}
			}
			what := s.proc
			if isGet {
				what = "GetBodyProcessor"
			}
			key := shortFn(s.fn) + ": failure of " + what
			if start == nil {
				c.Bad("R4", key+" is tested", in.Pos(), "the error of "+what+" is not tested")
				return
			}
			w := an.FindPath(an.PathQuery{Fn: fn, StartBlock: start, Target: an.IsReturn, Stop: func(x ssa.Instruction) bool { return an.IsCallTo(x, gen) }})
			c.Check(w == nil, "R4", key+" sets the error variables", in.Pos(), "every failure path calls "+shortFn(s.gen), "a failure path returns without setting the body error variables: the body would be silently treated as inspected")
			w2 := an.FindPath(an.PathQuery{Fn: fn, StartBlock: start, Target: an.IsReturn, Stop: func(x ssa.Instruction) bool { return callsThrough(x, evalFn) }})
			c.Check(w2 == nil, "R4", key+" still evaluates the body phase", in.Pos(), "every failure path calls Rules.Eval", "a failure path returns without evaluating the body phase: rules testing the error variable never run")
			// order: error variables before Eval
			w3 := an.FindPath(an.PathQuery{Fn: fn, StartBlock: start, Stop: func(x ssa.Instruction) bool { return an.IsCallTo(x, gen) }, Target: func(x ssa.Instruction) bool { return callsThrough(x, evalFn) }})
			c.Check(w3 == nil, "R4", key+": variables set before the phase runs", in.Pos(), "generate*BodyError precedes Eval", "the body phase can run before the error variables are set")
			// request side: once the failure is recorded in the error variables and the phase was evaluated, the outcome
			// is the interruption (if a rule reacted to REQBODY_ERROR), not an API error: connectors test the error first
			// and abandon the request without a status, so a deny on REQBODY_ERROR would answer 200
			if strings.HasSuffix(s.fn, "ProcessRequestBody") {
				bad := ""
				an.Instrs(fn, func(x ssa.Instruction) {
					r, ok := x.(*ssa.Return)
					if !ok || len(r.Results) != 2 || !(r.Block() == start || start.Dominates(r.Block())) {
						return
					}
					for _, lf := range leavesOf(r.Results[1], nil, 0) {
						if cst, isC := lf.V.(*ssa.Const); !isC || cst.Value != nil {
							bad = tempName.ReplaceAllString(an.Expr(lf.V), "")
						}
					}
				})
				c.Check(bad == "", "R4", key+" is reported through the error variables, not as an API error", in.Pos(), "failure paths return (interruption, nil)",
					"after recording the failure and evaluating the phase, ProcessRequestBody also returns the error "+bad+": the http middleware looks at the error before the interruption and gives up without writing a status, so a request denied by a rule on REQBODY_ERROR is answered with an empty 200")
			}
		})
		c.MinCount("R4", "fallible body-processor calls in "+shortFn(s.fn), n, 2)
		// generate*Error sets "1"
		nSet := 0
		an.Instrs(gen, func(in ssa.Instruction) {
			if an.IsCallToMethod(in, fullColl, "Single", "Set") && an.Expr(an.CallOf(in).Args[1]) == `"1"` && len(an.FactsAt(in)) == 0 {
				nSet++
			}
		})
		c.Check(nSet >= 2, "R4", shortFn(s.gen)+" raises the error flags", gen.Pos(), fmt.Sprintf("%d flags set to \"1\" unconditionally", nSet), "the error flags are not set to \"1\" unconditionally")
	}
	// audit write failure is logged
	if pl := c.Fn("R4", "internal/corazawaf.(*Transaction).ProcessLogging"); pl != nil {
		ok := false
		an.Instrs(pl, func(in ssa.Instruction) {
			cc := an.CallOf(in)
			if cc != nil && cc.IsInvoke() && cc.Method.Name() == "Write" && strings.Contains(an.Expr(cc.Value), "AuditLogWriter") {
				errE := an.Expr(in.(ssa.Value))
				for _, b := range pl.Blocks {
					if an.FactsAtBlock(b).Has(errE, "!=", "nil") {
						for _, x := range b.Instrs {
							if c2 := an.CallOf(x); c2 != nil && c2.IsInvoke() && c2.Method.Name() == "Err" && an.Expr(c2.Args[0]) == errE {
								ok = true
							}
						}
					}
				}
			}
		})
		c.Check(ok, "R4", "ProcessLogging logs an audit write failure", pl.Pos(), "Error().Err(err) on the failure branch", "a failing audit log write is not reported to the error log")
	}
}

// c20ExactTolerance: a body processor may tolerate specific failures (a truncated document), and only those.
// A tolerated error is therefore recognised exactly — errors.Is against a sentinel, or equality of its message
// with a constant — never by a prefix/substring test over the message, which also swallows unrelated syntax
// errors ("unexpected end element") and with them the rest of the body.
func c20ExactTolerance(c *an.Ctx) {
	errIface := types.Universe.Lookup("error").Type().Underlying().(*types.Interface)
	isErrish := func(t types.Type) bool {
		return types.Implements(t, errIface) || types.Implements(types.NewPointer(t), errIface)
	}
	fromError := func(v ssa.Value) bool {
		for d := range an.Deps(v) {
			if d == v {
				continue
			}
			if isErrish(d.Type()) {
				return true
			}
			if p, ok := d.Type().Underlying().(*types.Pointer); ok && isErrish(p.Elem()) {
				return true
			}
		}
		return false
	}
	nExact, nLoose := 0, 0
	for _, fn := range c.P.ModFuncs {
		if rp := relPkg(fn); rp != "internal/bodyprocessors" && rp != "internal/corazawaf" {
			continue
		}
		an.Instrs(fn, func(in ssa.Instruction) {
			switch x := in.(type) {
			case *ssa.BinOp:
				if (x.Op == token.EQL || x.Op == token.NEQ) && isStringType(x.X.Type()) {
					if _, isC := x.Y.(*ssa.Const); isC && fromError(x.X) {
						nExact++
						c.FuncsAnalysed[fn] = true
						c.Ok("R3", fmt.Sprintf("tolerated error recognised by its exact message in %s", an.RelName(fn)), in.Pos(), tempName.ReplaceAllString(an.Expr(x), ""))
					}
				}
			case *ssa.Call:
				callee := x.Call.StaticCallee()
				if callee == nil || callee.Pkg == nil || callee.Pkg.Pkg.Path() != "strings" || len(x.Call.Args) < 1 {
					return
				}
				switch callee.Name() {
				case "HasPrefix", "HasSuffix", "Contains", "Index", "ContainsAny":
					if fromError(x.Call.Args[0]) {
						nLoose++
						c.Bad("R3", fmt.Sprintf("error message matched loosely (strings.%s) in %s", callee.Name(), an.RelName(fn)), in.Pos(), "an error is classified by strings."+callee.Name()+" over its message ("+tempName.ReplaceAllString(an.Expr(x), "")+"): every failure whose text happens to match is treated like the tolerated one, so a malformed body is accepted as fully inspected and the data after the fault is silently dropped")
					}
				}
			}
		})
	}
	c.MinCount("R3", "errors recognised by exact message", nExact, 1)
	// an error recorded for the caller survives the iteration that produced it: inside a callback or loop body,
	// an error result stored into a variable of the enclosing function is examined right there (and the iteration
	// stopped), otherwise the next element's nil overwrites it and the failure is lost
	nCap := 0
	for _, fn := range c.P.ModFuncs {
		if fn.Parent() == nil || len(fn.FreeVars) == 0 {
			continue
		}
		if rp := relPkg(fn); rp != "internal/bodyprocessors" && rp != "internal/corazawaf" {
			continue
		}
		an.Instrs(fn, func(in ssa.Instruction) {
			st, ok := in.(*ssa.Store)
			if !ok || st.Val.Type().String() != "error" {
				return
			}
			if _, isFV := st.Addr.(*ssa.FreeVar); !isFV {
				return
			}
			if _, isC := st.Val.(*ssa.Const); isC {
				return
			}
			nCap++
			tested := false
			for _, r := range *st.Val.Referrers() {
				if b, ok := r.(*ssa.BinOp); ok && (b.Op == token.NEQ || b.Op == token.EQL) {
					tested = true
				}
			}
			// or the variable is read back and tested after the store (same block or dominated by it)
			for _, r := range *st.Addr.Referrers() {
				ld, ok := r.(*ssa.UnOp)
				if !ok || ld.Op != token.MUL {
					continue
				}
				after := ld.Block() != st.Block() && st.Block().Dominates(ld.Block())
				if ld.Block() == st.Block() {
					for _, x := range st.Block().Instrs {
						if x == ssa.Instruction(st) {
							after = true
						}
						if x == ssa.Instruction(ld) {
							break
						}
					}
					// after is true only if the store came first
					pos := map[ssa.Instruction]int{}
					for i, x := range st.Block().Instrs {
						pos[x] = i
					}
					after = pos[ssa.Instruction(st)] < pos[ssa.Instruction(ld)]
				}
				if !after {
					continue
				}
				for _, r2 := range *ld.Referrers() {
					if b, ok := r2.(*ssa.BinOp); ok && (b.Op == token.NEQ || b.Op == token.EQL) {
						tested = true
					}
				}
			}
			c.Check(tested, "R3", "error stored for the enclosing function is examined where it arises, in "+an.RelName(fn), in.Pos(), "the stored error is compared with nil in the callback",
				"a callback stores an error into a variable of the enclosing function and carries on without looking at it: the next call of the callback overwrites it (with nil when that element is fine), so the failure — a JSON value nested too deeply, for instance — is never reported and the body counts as inspected")
		})
	}
	c.MinCount("R3", "errors handed from a callback to its enclosing function", nCap, 1)
}
