package props

import (
	"fmt"
	"go/token"
	"sort"
	"strings"

	"czcheck/an"

	"golang.org/x/tools/go/ssa"
)

func init() {
	register(&Property{
		ID:    "C02",
		Title: "First disruptive match interrupts; interruption is final; engine modes hold",
		Explanation: "Decides the structural mechanism, not the behaviour: R1 every call of RuleGroup.Eval(P) is dominated by guards RuleEngine!=Off and, for P in 1..4, interruption==nil and lastPhase<=P-1 (==P-1 for body phases), with no possible writer of those fields between guard and call (dominator facts + interval domain + may-write sets over the VTA call graph); " +
			"R2 the interruption fields are stored only by Transaction.Interrupt (under exactly the matching engine mode and no other condition, first-wins in both modes: a recorded interruption is never replaced) and reset in newTransaction (who-may-write over the whole module); R2 also: state parsed from rule text at run time (ctl:ruleEngine and the other ctl settings) is stored only from a successfully parsed value (store dominated by err == nil, or the error branch leaves the function); R3 in Eval every path to Rule.Evaluate passes the interruption test of the current iteration; " +
			"R4 lastPhase is written only by Eval(=phase) and newTransaction(=0); R5 each disruptive action builds its Interruption from r.ID()/ParentID() fallback, r.Status() with its documented default/whitelist, and an Action string equal to its registered name; " +
			"R8 every return of the four Process* phase calls yields tx.interruption, or nil only under a still-valid interruption==nil / engine-Off guard; R6 coraza.NewWAF forces ProcessPartial for both body limit actions on every DetectionOnly path before Validate; R7 the action parser replaces rather than appends a second disruptive action. R2 also: a number parsed from ctl text is handed to the engine (RemoveRuleByID and friends) only on paths where its parse error is nil. R5 also: deny, drop and redirect reach tx.Interrupt on every path of Evaluate (whether it interrupts or is only remembered under DetectionOnly is Interrupt's decision).",
		NotDecided: []string{
			"which rule is first for a given request (data dependent)",
			"semantics of status codes / redirect targets beyond field provenance",
			"that connectors honour the returned interruption",
		},
		Run: runC02,
	})
}

func runC02(c *an.Ctx) {
	r7DisruptiveInterrupts(c)
	evalFn := c.Fn("R1", "internal/corazawaf.(*RuleGroup).Eval")
	if evalFn == nil {
		return
	}
	off := constVal(c, "R1", "types", "RuleEngineOff")
	on := constVal(c, "R2", "types", "RuleEngineOn")
	detOnly := constVal(c, "R2", "types", "RuleEngineDetectionOnly")

	// ---- R1: phase guards at every Eval call site.
	sites := c.P.CallSites(func(in ssa.Instruction) bool { return an.IsCallTo(in, evalFn) })
	phases := map[int64]int{}
	perFn := map[string]int{}
	for _, s := range sites {
		call := s.Call.Common()
		c.FuncsAnalysed[s.Fn] = true
		P, ok := intConstArg(call, 1)
		name := an.RelName(s.Fn)
		perFn[name]++
		key := fmt.Sprintf("Eval call #%d in %s", perFn[name], name)
		if !ok {
			c.Unknown("R1", key, s.Call.Pos(), "phase argument of Eval is not a constant; the guard table cannot be applied")
			continue
		}
		key = fmt.Sprintf("Eval(%d) call #%d in %s", P, perFn[name], name)
		phases[P]++
		// the guards are looked for where the call is made; when the call sits in a private helper of the package
		// (the end of the phase moved into evalRequestBodyPhase()), at every call site of that helper
		type ctx struct {
			facts an.Facts
			at    ssa.Instruction
		}
		ctxs := []ctx{{an.FactsAt(s.Call), s.Call}}
		if !token.IsExported(s.Fn.Name()) && s.Fn.Parent() == nil && relPkg(s.Fn) == pkgWAF {
			if hs := c.P.CallSites(func(x ssa.Instruction) bool { return an.IsCallTo(x, s.Fn) }); len(hs) > 0 {
				ctxs = nil
				for _, h := range hs {
					ctxs = append(ctxs, ctx{append(append(an.Facts{}, an.FactsAt(h.Call)...), an.FactsAt(s.Call)...), h.Call})
				}
			}
		}
		facts := ctxs[0].facts
		var problems []string
		for _, cx := range ctxs {
			facts, at := cx.facts, ssa.Instruction(cx.at)
			_ = at
			// engine not off
			if a := findAtom(facts, ".RuleEngine", "!=", off); a == nil {
				problems = append(problems, "no dominating guard RuleEngine != Off")
			} else if ok, why := guardStillValid(c, *a, at, pkgWAF, "Transaction", "RuleEngine"); !ok {
				problems = append(problems, why)
			}
			if P >= 1 && P <= 4 {
				if a := findAtom(facts, ".interruption", "==", "nil"); a == nil {
					problems = append(problems, "no dominating guard interruption == nil")
				} else if ok, why := guardStillValid(c, *a, at, pkgWAF, "Transaction", "interruption"); !ok {
					problems = append(problems, why)
				}
				lo, hi, _ := facts.Range(".lastPhase")
				if hi > P-1 {
					problems = append(problems, fmt.Sprintf("lastPhase is not bounded by %d at the call (derived upper bound %s): the phase could run twice or after a later one", P-1, boundStr(hi)))
				}
				if (P == 2 || P == 4) && lo != P-1 {
					problems = append(problems, fmt.Sprintf("body phase %d requires lastPhase == %d (derived lower bound %s)", P, P-1, boundStr(lo)))
				}
				for _, a := range facts.Find(".lastPhase") {
					if ok, why := guardStillValid(c, a, at, pkgWAF, "Transaction", "lastPhase"); !ok {
						problems = append(problems, why)
						break
					}
				}
			}
		}
		if len(problems) > 0 {
			c.Bad("R1", key, s.Call.Pos(), strings.Join(problems, "; "), facts.Strings()...)
		} else {
			c.Ok("R1", key, s.Call.Pos(), "guards dominate the call and no writer lies between", facts.Strings()...)
		}
	}
	for P := int64(1); P <= 5; P++ {
		if phases[P] == 0 {
			c.Unknown("R1", fmt.Sprintf("phase %d has an Eval call site", P), token.NoPos, "no call Eval(<const phase>) found for this phase")
		}
	}
	c.MinCount("R1", "Eval call sites", len(sites), 5)

	// ---- R2: who writes the interruption fields.
	whoMayWrite(c, "R2", pkgWAF, "Transaction", "interruption", []storeRule{
		{fn: "internal/corazawaf.(*Transaction).Interrupt", why: "stored under RuleEngine == On", check: func(c *an.Ctx, fs an.FieldStore) (bool, string) {
			f := an.FactsAt(fs.Store)
			if !txEngine(f, "==", on) {
				return false, "the store of tx.interruption is not dominated by RuleEngine == On: DetectionOnly/Off transactions could be interrupted"
			}
			if !f.HasSuffix(".interruption", "==", "nil") || hasFactLike(f, ".detectionOnlyInterruption") && !f.HasSuffix(".interruption", "==", "nil") {
				return false, "the store of tx.interruption is not dominated by interruption == nil: a later disruptive match (a logging-phase rule, a body limit reached after a deny) replaces the interruption that every later phase call must keep reporting"
			}
			var fg []string
			for _, g := range foreignGuards(f, ".RuleEngine") {
				if strings.Contains(g, ".interruption") && !strings.Contains(g, "detectionOnly") {
					continue // the first-wins test itself
				}
				fg = append(fg, g)
			}
			if len(fg) > 0 {
				return false, "with the engine On the interruption is additionally conditioned on " + strings.Join(fg, ", ") + ": in those states a disruptive match does not interrupt (e.g. after a would-be interruption recorded in DetectionOnly and a ctl:ruleEngine=On)"
			}
			return true, "guards RuleEngine == On and interruption == nil (first wins), and nothing else, dominate the store"
		}},
		{fn: "internal/corazawaf.(*WAF).newTransaction", why: "reset", check: storesConst("nil")},
	})
	whoMayWrite(c, "R2", pkgWAF, "Transaction", "detectionOnlyInterruption", []storeRule{
		{fn: "internal/corazawaf.(*Transaction).Interrupt", why: "remembered under RuleEngine == DetectionOnly, first wins", check: func(c *an.Ctx, fs an.FieldStore) (bool, string) {
			f := an.FactsAt(fs.Store)
			if !txEngine(f, "==", detOnly) {
				return false, "store not dominated by RuleEngine == DetectionOnly"
			}
			if !f.HasSuffix(".detectionOnlyInterruption", "==", "nil") {
				return false, "store not dominated by detectionOnlyInterruption == nil (the first would-be interruption must win)"
			}
			if fg := foreignGuards(f, ".RuleEngine", ".detectionOnlyInterruption"); len(fg) > 0 {
				return false, "the would-be interruption is additionally conditioned on " + strings.Join(fg, ", ")
			}
			return true, "guards RuleEngine == DetectionOnly and detectionOnlyInterruption == nil, and nothing else, dominate"
		}},
		{fn: "internal/corazawaf.(*WAF).newTransaction", why: "reset", check: storesConst("nil")},
	})
	// Interrupt must not be reachable with another engine mode writing: the On-branch stores its parameter unchanged.
	if fn := c.Fn("R2", "internal/corazawaf.(*Transaction).Interrupt"); fn != nil {
		for _, fs := range c.P.StoresToField(pkgWAF, "Transaction", "interruption") {
			if fs.Fn == fn {
				_, isParam := fs.Store.Val.(*ssa.Parameter)
				c.Check(isParam, "R2", "Interrupt stores its argument", fs.Store.Pos(), "the interruption stored is the caller's record", "Interrupt stores something other than its parameter: "+an.Expr(fs.Store.Val))
			}
		}
	}

	// ... and state set from parsed text (ctl:ruleEngine and friends) is only set from successfully parsed values.
	c02CheckedStores(c, "R2", "internal/actions", "internal/corazawaf")

	// ---- R3: stop after interruption inside Eval.
	ruleEval := c.Fn("R3", "internal/corazawaf.(*Rule).Evaluate")
	logging := constVal(c, "R3", "types", "PhaseLogging")
	if ruleEval != nil {
		n := 0
		an.Instrs(evalFn, func(in ssa.Instruction) {
			if !an.IsCallTo(in, ruleEval) {
				return
			}
			n++
			// The test `IsInterrupted() && phase != Logging -> break` leaves, on the fall-through
			// path, either interruption == nil or phase == Logging. Both predecessors of the join are
			// guarded; we check that every path from the loop header to the call passes a branch on
			// tx.interruption whose "interrupted && phase != logging" edge does not lead to the call.
			ok, why := interruptionTestPrecedes(c, evalFn, in, logging)
			c.Check(ok, "R3", "Eval: r.Evaluate preceded by interruption test", in.Pos(),
				"every path of the current iteration to r.Evaluate passes the test IsInterrupted() && phase != PhaseLogging", why)
		})
		c.MinCount("R3", "r.Evaluate call in Eval", n, 1)
	}

	// ---- R4: lastPhase writers.
	whoMayWrite(c, "R4", pkgWAF, "Transaction", "lastPhase", []storeRule{
		{fn: "internal/corazawaf.(*RuleGroup).Eval", why: "records the phase being evaluated", check: func(c *an.Ctx, fs an.FieldStore) (bool, string) {
			if p, ok := fs.Store.Val.(*ssa.Parameter); ok && p.Name() == "phase" {
				// must dominate the rule loop: it is in the entry block or dominates r.Evaluate
				return true, "stores the phase parameter"
			}
			return false, "Eval stores something other than its phase parameter into lastPhase: " + an.Expr(fs.Store.Val)
		}},
		{fn: "internal/corazawaf.(*WAF).newTransaction", why: "reset", check: storesConst("0")},
	})
	if ruleEval != nil {
		// the lastPhase store dominates the rule loop
		for _, fs := range c.P.StoresToField(pkgWAF, "Transaction", "lastPhase") {
			if fs.Fn != evalFn {
				continue
			}
			an.Instrs(evalFn, func(in ssa.Instruction) {
				if an.IsCallTo(in, ruleEval) {
					dom := fs.Store.Block() == in.Block() || fs.Store.Block().Dominates(in.Block())
					c.Check(dom, "R4", "Eval: lastPhase stored before any rule runs", fs.Store.Pos(), "store dominates r.Evaluate", "lastPhase = phase does not dominate r.Evaluate: an action interrupting mid-phase would leave the phase unrecorded")
				}
			})
		}
	}

	// ---- R5: disruptive actions build the right record.
	c02DisruptiveRecords(c)

	// ---- R8: every phase call reports the interruption once there is one.
	for _, m := range []string{"ProcessRequestHeaders", "ProcessRequestBody", "ProcessResponseHeaders", "ProcessResponseBody"} {
		fn := c.Fn("R8", "internal/corazawaf.(*Transaction)."+m)
		if fn == nil {
			continue
		}
		nret := 0
		an.Instrs(fn, func(in ssa.Instruction) {
			ret, ok := in.(*ssa.Return)
			if !ok || len(ret.Results) == 0 {
				return
			}
			nret++
			key := fmt.Sprintf("%s return #%d", m, nret)
			// the returned interruption, looked at value by value (a phi, or the result of a private helper that
			// ends the phase: `return tx.evalRequestBodyPhase()`)
			okAll, how, bad := true, "", ""
			for _, lf := range leavesOf(ret.Results[0], an.FactsAt(ret), 0) {
				v, facts := lf.V, lf.F
				switch {
				case an.LoadsField(v, fullWAF, "Transaction", "interruption"):
					how = "returns tx.interruption"
				default:
					cst, isC := v.(*ssa.Const)
					if !isC || cst.Value != nil {
						okAll, bad = false, m+" returns an interruption value that is neither tx.interruption nor nil: "+an.Expr(v)
						continue
					}
					if txEngine(facts, "==", off) {
						how = "returns nil only with the engine Off"
						continue
					}
					if a := findAtom(facts, ".interruption", "==", "nil"); a != nil {
						if ok, why := guardStillValid(c, *a, ret, pkgWAF, "Transaction", "interruption"); ok {
							how = "returns nil only where interruption == nil is established and not invalidated"
						} else {
							okAll, bad = false, "returns nil although an interruption may have been raised since the guard: "+why
						}
						continue
					}
					okAll, bad = false, m+" can return a nil interruption on a path where the transaction may already be interrupted (no dominating interruption == nil or engine Off guard): a later phase call would not report the interruption"
				}
			}
			if okAll {
				c.Ok("R8", key, ret.Pos(), how, an.FactsAt(ret).Strings()...)
			} else {
				c.Bad("R8", key, ret.Pos(), bad, an.FactsAt(ret).Strings()...)
			}
		})
		c.MinCount("R8", "returns of "+m, nret, 2)
	}

	// ---- R6: DetectionOnly forces ProcessPartial in coraza.NewWAF.
	c02DetectionOnlyPartial(c, detOnly)

	// ---- R7: one disruptive action per rule.
	c02OneDisruptive(c)
}

func boundStr(v int64) string {
	if v > 1<<60 {
		return "+inf"
	}
	if v < -(1 << 60) {
		return "-inf"
	}
	return fmt.Sprint(v)
}

func findAtom(f an.Facts, lsuffix, op, r string) *an.Atom {
	for i := range f {
		if strings.HasSuffix(f[i].L, lsuffix) && f[i].Op == op && f[i].R == r && !(lsuffix == ".RuleEngine" && strings.Contains(f[i].L, ".WAF.")) {
			return &f[i]
		}
	}
	return nil
}

// interruptionTestPrecedes: in Eval, find the If whose condition tests tx.interruption != nil
// inside the loop; require (1) it dominates the call, (2) on its true edge the next branch
// tests phase != logging and its true edge cannot reach the call without leaving the loop body
// (i.e. reaches the call only through the loop header = a later iteration, where the test is repeated).
func interruptionTestPrecedes(c *an.Ctx, fn *ssa.Function, call ssa.Instruction, logging string) (bool, string) {
	// Within one iteration of the rule loop every path from the loop header to r.Evaluate must take an edge on
	// which either "no interruption is recorded" or "this is the logging phase" holds; the order and nesting of
	// the two tests, and whether the loop is left by break or by a labelled break, do not matter.
	lp := an.InnermostLoop(call.Block())
	if lp == nil {
		return false, "r.Evaluate is not inside a loop"
	}
	nTests := 0
	w := an.FindPath(an.PathQuery{
		Fn:         fn,
		StartBlock: lp.Header,
		Target:     func(in ssa.Instruction) bool { return in == call },
		PruneEdge: func(b *ssa.BasicBlock, si int) bool {
			if !lp.Blocks[b.Succs[si]] || (b.Succs[si] == lp.Header) {
				return true // leaves the loop, or starts the next iteration (which re-tests)
			}
			ifi, ok := b.Instrs[len(b.Instrs)-1].(*ssa.If)
			if !ok {
				return false
			}
			for _, a := range an.CondAtoms(ifi.Cond, si == 0) {
				if strings.HasSuffix(a.L, ".interruption") && a.Op == "==" && a.R == "nil" {
					nTests++
					return true
				}
				if a.L == "phase" && a.Op == "==" && a.R == logging {
					return true
				}
			}
			return false
		},
	})
	if w != nil {
		return false, "a path of one iteration reaches r.Evaluate without having established 'no interruption recorded' or 'logging phase': " + strings.Join(c.P.TrailString(w), " -> ")
	}
	if nTests == 0 {
		return false, "no branch on tx.interruption lies between the loop header and r.Evaluate"
	}
	return true, ""
}

// c02DisruptiveRecords: R5.
func c02DisruptiveRecords(c *an.Ctx) {
	regNames := actionRegistry(c, "R5")
	if regNames == nil {
		return
	}
	// every invoke of TransactionState.Interrupt inside internal/actions
	n := 0
	for _, fn := range c.P.ModFuncs {
		if relPkg(fn) != "internal/actions" {
			continue
		}
		an.Instrs(fn, func(in ssa.Instruction) {
			if !an.IsCallToMethod(in, fullPT, "TransactionState", "Interrupt") {
				return
			}
			n++
			c.FuncsAnalysed[fn] = true
			name := an.RelName(fn)
			call := an.CallOf(in)
			rec, ok := call.Args[0].(*ssa.Alloc)
			if !ok {
				c.Unknown("R5", "Interrupt record in "+name, in.Pos(), "interruption record is not a fresh composite literal")
				return
			}
			fields := map[string]ssa.Value{}
			for _, ref := range *rec.Referrers() {
				if fa, ok := ref.(*ssa.FieldAddr); ok {
					for _, r2 := range *fa.Referrers() {
						if st, ok := r2.(*ssa.Store); ok && st.Addr == fa {
							fields[an.FieldVar(fa).Name()] = st.Val
						}
					}
				}
			}
			// registered name of the enclosing action type
			recv := ""
			if fn.Signature.Recv() != nil {
				recv = typeBaseName(fn.Signature.Recv().Type().String())
			}
			want, have := regNames[recv], ""
			if v, ok := fields["Action"]; ok {
				have = strings.Trim(an.Expr(v), "\"")
			}
			if want == "" {
				c.Unknown("R5", "Action string in "+name, in.Pos(), "receiver type "+recv+" is not registered as an action")
			} else {
				c.Check(have == want, "R5", "Action string in "+name, in.Pos(),
					fmt.Sprintf("Interruption.Action %q equals the registered action name", have),
					fmt.Sprintf("Interruption.Action is %q but the action is registered as %q: connectors would apply the wrong disposition", have, want))
			}
			// RuleID provenance
			rid := "<unset>"
			if v, ok := fields["RuleID"]; ok {
				rid = an.Expr(v)
			}
			// every value the field can take is the rule's own id, or the parent's id on a path where the own id
			// is known to be 0 (whether written as if/else, a named local or a private helper)
			ridOK := false
			if v, ok := fields["RuleID"]; ok {
				nID, nParent := 0, 0
				ridOK = true
				for _, lf := range leavesOf(v, an.FactsAt(in), 0) {
					cc, isCall := lf.V.(*ssa.Call)
					switch {
					case isCall && cc.Call.IsInvoke() && cc.Call.Method.Name() == "ID":
						nID++
					case isCall && cc.Call.IsInvoke() && cc.Call.Method.Name() == "ParentID":
						nParent++
						okG := false
						for _, a := range lf.F {
							if strings.HasSuffix(a.L, ".ID()") && a.Op == "==" && a.R == "0" {
								okG = true
							}
						}
						if !okG {
							ridOK = false
						}
					default:
						ridOK = false
					}
				}
				if nID == 0 || nParent == 0 {
					ridOK = false
				}
			}
			c.Check(ridOK, "R5", "RuleID in "+name, in.Pos(), "RuleID = r.ID() with ParentID() fallback when ID is 0", "Interruption.RuleID is not r.ID() with the ParentID() fallback under r.ID()==0: "+rid)
			// Status provenance
			st := "<unset>"
			if v, ok := fields["Status"]; ok {
				st = an.Expr(v)
			}
			switch want {
			case "deny":
				c.Check(st == "φ(403|r.Status())", "R5", "Status in "+name, in.Pos(), "status = r.Status(), default 403", "deny status provenance is "+st+", expected r.Status() defaulting to 403")
			case "drop":
				c.Check(st == "r.Status()", "R5", "Status in "+name, in.Pos(), "status = r.Status()", "drop status provenance is "+st)
			case "redirect":
				ok := st == "φ(302|r.Status())"
				wl := ""
				if phi, isPhi := fields["Status"].(*ssa.Phi); ok && isPhi {
					wl = redirectWhitelist(phi)
					ok = wl == "301,302,303,307"
				}
				c.Check(ok, "R5", "Status in "+name, in.Pos(), "status = r.Status() when in {301,302,303,307}, else 302", "redirect status provenance "+st+" whitelist {"+wl+"}, expected default 302 and whitelist {301,302,303,307}")
				d := "<unset>"
				if v, ok := fields["Data"]; ok {
					d = an.Expr(v)
				}
				c.Check(d == "a.target", "R5", "Data in "+name, in.Pos(), "Data = the configured target", "redirect Data is "+d+", expected a.target")
			}
		})
	}
	c.MinCount("R5", "Interrupt calls in actions", n, 3)
}

func blockHasFact(b *ssa.BasicBlock, l, op, r string) bool {
	return an.FactsAtBlock(b).Has(l, op, r)
}

// redirectWhitelist: the phi edge carrying r.Status() comes from a block all of whose
// predecessors are `r.Status() == <const>` true-edges; returns the sorted consts.
func redirectWhitelist(phi *ssa.Phi) string {
	var consts []string
	for i, e := range phi.Edges {
		if _, isC := e.(*ssa.Const); isC {
			continue
		}
		pb := phi.Block().Preds[i]
		for _, pp := range pb.Preds {
			ifi, ok := pp.Instrs[len(pp.Instrs)-1].(*ssa.If)
			if !ok || pp.Succs[0] != pb {
				return "?"
			}
			at := an.CondAtoms(ifi.Cond, true)
			if len(at) != 1 || at[0].Op != "==" || !strings.HasSuffix(at[0].L, ".Status()") {
				return "?"
			}
			consts = append(consts, at[0].R)
		}
	}
	sort.Strings(consts)
	return strings.Join(consts, ",")
}

func typeBaseName(s string) string {
	s = strings.TrimPrefix(s, "*")
	if i := strings.LastIndex(s, "."); i >= 0 {
		s = s[i+1:]
	}
	return s
}

// actionRegistry maps the receiver type name of each action implementation to the name
// it is registered under in internal/actions.init (Register("deny", deny) -> denyFn: "deny").
func actionRegistry(c *an.Ctx, rule string) map[string]string {
	reg := c.Fn(rule, "internal/actions.Register")
	if reg == nil {
		return nil
	}
	out := map[string]string{}
	for _, f := range c.P.ModFuncs {
		if relPkg(f) != "internal/actions" || !strings.HasPrefix(an.OuterFn(f).Name(), "init") {
			continue
		}
		an.Instrs(f, func(in ssa.Instruction) {
			if !an.IsCallTo(in, reg) {
				return
			}
			call := an.CallOf(in)
			name := strings.Trim(an.Expr(call.Args[0]), "\"")
			var ctor *ssa.Function
			switch v := call.Args[1].(type) {
			case *ssa.Function:
				ctor = v
			case *ssa.MakeClosure:
				ctor, _ = v.Fn.(*ssa.Function)
			}
			if ctor == nil {
				return
			}
			an.Instrs(ctor, func(in2 ssa.Instruction) {
				if r, ok := in2.(*ssa.Return); ok && len(r.Results) == 1 {
					if mi, ok := r.Results[0].(*ssa.MakeInterface); ok {
						out[typeBaseName(mi.X.Type().String())] = name
					}
				}
			})
		})
	}
	if len(out) < 20 {
		c.Unknown(rule, "action registry", token.NoPos, fmt.Sprintf("only %d registered actions resolved", len(out)))
		return nil
	}
	return out
}

// c02DetectionOnlyPartial: R6.
func c02DetectionOnlyPartial(c *an.Ctx, detOnly string) {
	fn := c.Fn("R6", ".NewWAF")
	if fn == nil {
		return
	}
	partial := constVal(c, "R6", "types", "BodyLimitActionProcessPartial")
	// the DetectionOnly guard
	var guard *ssa.If
	for _, b := range fn.Blocks {
		if ifi, ok := b.Instrs[len(b.Instrs)-1].(*ssa.If); ok {
			for _, a := range an.CondAtoms(ifi.Cond, true) {
				if strings.HasSuffix(a.L, ".RuleEngine") && a.Op == "==" && a.R == detOnly {
					guard = ifi
				}
			}
		}
	}
	if guard == nil {
		c.Bad("R6", "NewWAF: DetectionOnly guard", fn.Pos(), "coraza.NewWAF has no branch on RuleEngine == DetectionOnly: body limit actions are not forced to ProcessPartial")
		return
	}
	errIdx := an.ErrorIndex(fn.Signature)
	for _, field := range []string{"RequestBodyLimitAction", "ResponseBodyLimitAction"} {
		field := field
		w := an.FindPath(an.PathQuery{
			Fn:         fn,
			StartBlock: guard.Block().Succs[0],
			Stop: func(in ssa.Instruction) bool {
				if st, ok := an.StoreToField(in, fullWAF, "WAF", field); ok {
					return an.Expr(st.Val) == partial
				}
				return false
			},
			PruneEdge: func(b *ssa.BasicBlock, si int) bool {
				ifi, ok := b.Instrs[len(b.Instrs)-1].(*ssa.If)
				if !ok {
					return false
				}
				for _, a := range an.CondAtoms(ifi.Cond, si == 0) {
					if strings.HasSuffix(a.L, "."+field) && a.Op == "==" && a.R == partial {
						return true
					}
				}
				return false
			},
			Target: func(in ssa.Instruction) bool {
				r, ok := in.(*ssa.Return)
				return ok && an.ReturnMayBeNilError(r, errIdx)
			},
		})
		if w != nil {
			c.Bad("R6", "NewWAF: "+field+" forced under DetectionOnly", guard.Pos(),
				"a DetectionOnly WAF can be returned with "+field+" != ProcessPartial (Reject would interrupt in DetectionOnly)", c.P.TrailString(w)...)
		} else {
			c.Ok("R6", "NewWAF: "+field+" forced under DetectionOnly", guard.Pos(), "every DetectionOnly path to a successful return sets or already has ProcessPartial")
		}
		// nothing overwrites the field afterwards
		for _, fs := range c.P.StoresToField(pkgWAF, "WAF", field) {
			if fs.Fn != fn {
				continue
			}
			if an.Expr(fs.Store.Val) == partial {
				later := an.FindPath(an.PathQuery{Fn: fn, After: fs.Store, Target: func(in ssa.Instruction) bool {
					st, ok := an.StoreToField(in, fullWAF, "WAF", field)
					return ok && an.Expr(st.Val) != partial
				}})
				c.Check(later == nil, "R6", "NewWAF: "+field+" not overwritten after forcing", fs.Store.Pos(), "no later store", "the forced ProcessPartial is overwritten later in NewWAF")
			}
		}
	}
	// RuleEngine itself must not change between the guard and the return
	for _, fs := range c.P.StoresToField(pkgWAF, "WAF", "RuleEngine") {
		if fs.Fn == fn {
			c.Bad("R6", "NewWAF: RuleEngine written in NewWAF", fs.Store.Pos(), "RuleEngine is modified inside NewWAF; the DetectionOnly guard may be stale")
		}
	}
}

// c02OneDisruptive: R7.
func c02OneDisruptive(c *an.Ctx) {
	fn := c.Fn("R7", "internal/seclang.appendRuleAction")
	if fn == nil {
		return
	}
	disr := constVal(c, "R7", "experimental/plugins/plugintypes", "ActionTypeDisruptive")
	unset := constVal(c, "R7", "internal/seclang", "unset")
	var replaceBlk *ssa.BasicBlock
	for _, b := range fn.Blocks {
		f := an.FactsAtBlock(b)
		if f.HasSuffix(".Type()", "==", disr) && f.Has("disruptiveActionIndex", "!=", unset) {
			if replaceBlk == nil || b.Dominates(replaceBlk) {
				replaceBlk = b
			}
		}
	}
	if replaceBlk == nil {
		c.Bad("R7", "appendRuleAction: replace branch", fn.Pos(), "no branch guarded by Type()==Disruptive && disruptiveActionIndex != unset: a second disruptive action would be appended, not replace the first")
		return
	}
	w := an.FindPath(an.PathQuery{Fn: fn, StartBlock: replaceBlk, Target: func(in ssa.Instruction) bool { return an.IsBuiltinCall(in, "append") }})
	c.Check(w == nil, "R7", "appendRuleAction: second disruptive action replaces", replaceBlk.Instrs[0].Pos(),
		"with a disruptive action already present, the new one is stored at its index and never appended",
		"a second disruptive action can be appended: two disruptive actions would run for one rule")
	// the replace branch stores into res[disruptiveActionIndex]
	stores := false
	for _, b := range fn.Blocks {
		if b != replaceBlk && !replaceBlk.Dominates(b) {
			continue
		}
		for _, in := range b.Instrs {
			if ia, ok := in.(*ssa.IndexAddr); ok && an.Expr(ia.X) == "res" && an.Expr(ia.Index) == "disruptiveActionIndex" {
				stores = true
			}
		}
	}
	c.Check(stores, "R7", "appendRuleAction: replace stores at disruptiveActionIndex", replaceBlk.Instrs[0].Pos(), "res[disruptiveActionIndex] is overwritten", "the replace branch does not write res[disruptiveActionIndex]")
	// the index is recorded when the first disruptive action is appended
	rec := false
	for _, b := range fn.Blocks {
		f := an.FactsAtBlock(b)
		if f.HasSuffix(".Type()", "==", disr) {
			for _, in := range b.Instrs {
				if an.IsBuiltinCall(in, "len") && an.Expr(an.CallOf(in).Args[0]) == "res" {
					rec = true
				}
			}
		}
	}
	c.Check(rec, "R7", "appendRuleAction: index of first disruptive action recorded", fn.Pos(), "disruptiveActionIndex = len(res) under Type()==Disruptive", "the index of the first disruptive action is not recorded (len(res) under Type()==Disruptive)")

	// mergeActions: a rule's own disruptive action other than block suppresses the default one
	mf := c.Fn("R7", "internal/seclang.mergeActions")
	if mf == nil {
		return
	}
	nAppend, guarded := 0, 0
	an.Instrs(mf, func(in ssa.Instruction) {
		if !an.IsBuiltinCall(in, "append") {
			return
		}
		nAppend++
		f := an.FactsAt(in)
		if f.HasSuffix(".Atype", "==", disr) {
			// appending a disruptive action of the rule: must be != "block"
			if f.HasSuffix(".Key", "!=", "\"block\"") {
				guarded++
			} else {
				c.Bad("R7", "mergeActions: rule's disruptive action appended", in.Pos(), "a disruptive action of the rule is appended without the Key != \"block\" test", f.Strings()...)
			}
		}
	})
	c.Check(guarded >= 1, "R7", "mergeActions: block is replaced by the default disruptive action", mf.Pos(), "the rule's own disruptive action is kept only when it is not block", "no append guarded by Atype==Disruptive && Key != \"block\" found")
	c.MinCount("R7", "appends in mergeActions", nAppend, 3)
}

// c02CheckedStores: a value obtained together with an error is stored into transaction (or WAF) state only
// where the error is known to be nil.  The shape `v, err := parse(x); if err != nil { log }; tx.F = v`
// (the error branch falls through) stores the callee's failure value, e.g. an engine mode that is none
// of On/DetectionOnly/Off.
func c02CheckedStores(c *an.Ctx, rule string, pkgs ...string) {
	n := 0
	seen := map[string]int{}
	for _, fn := range c.P.ModFuncs {
		rp := relPkg(fn)
		in := false
		for _, p := range pkgs {
			if rp == p {
				in = true
			}
		}
		if !in {
			continue
		}
		an.Instrs(fn, func(ins ssa.Instruction) {
			call, ok := ins.(*ssa.Call)
			if !ok {
				return
			}
			sig := call.Call.Signature()
			ei := an.ErrorIndex(sig)
			if ei < 1 {
				return
			}
			var errV ssa.Value
			vals := map[ssa.Value]bool{}
			for _, r := range *call.Referrers() {
				if ex, ok := r.(*ssa.Extract); ok {
					if ex.Index == ei {
						errV = ex
					} else {
						vals[ex] = true
					}
				}
			}
			if errV == nil || len(vals) == 0 {
				return
			}
			// is the error tested at all?
			tested := false
			for _, r := range *errV.Referrers() {
				if b, ok := r.(*ssa.BinOp); ok && (b.Op == token.NEQ || b.Op == token.EQL) {
					tested = true
				}
			}
			if !tested {
				return
			}
			errE := an.Expr(errV)
			for v := range vals {
				// ... and handed to the engine (a method or function of the module that is not the logger) only when
				// it parsed: ctl:ruleRemoveById=<garbage> must not remove "rule 0"
				for _, r := range *v.Referrers() {
					ci, ok := r.(ssa.CallInstruction)
					if !ok {
						continue
					}
					cc := ci.Common()
					isArg := false
					for _, a := range cc.Args {
						if a == v {
							isArg = true
						}
					}
					if !isArg {
						continue
					}
					calleePkg, calleeName := "", ""
					if cc.IsInvoke() {
						if cc.Method.Pkg() != nil {
							calleePkg = cc.Method.Pkg().Path()
						}
						calleeName = cc.Method.Name()
					} else if sc := cc.StaticCallee(); sc != nil && sc.Pkg != nil {
						calleePkg, calleeName = sc.Pkg.Pkg.Path(), sc.Name()
					}
					if !strings.HasPrefix(calleePkg, an.ModPath) || strings.Contains(calleePkg, "debuglog") {
						continue
					}
					n++
					c.FuncsAnalysed[fn] = true
					k := fmt.Sprintf("%s handed to %s only when it parsed, in %s", an.CalleeName(call), calleeName, an.RelName(fn))
					seen[k]++
					key := k
					if seen[k] > 1 {
						key += fmt.Sprintf("#%d", seen[k])
					}
					if an.FactsAt(ci).Has(errE, "==", "nil") {
						c.Ok(rule, key, ci.Pos(), "call dominated by err == nil")
					} else if errBranchLeaves(fn, errV) {
						c.Ok(rule, key, ci.Pos(), "the err != nil branch leaves the function without rejoining")
					} else {
						c.Bad(rule, key, ci.Pos(), "the result of "+an.CalleeName(call)+" is passed to "+calleeName+" although the error it was returned with may be non-nil (the error branch falls through): the engine is given the parser's failure value (0, \"\")")
					}
				}
				for _, r := range *v.Referrers() {
					st, ok := r.(*ssa.Store)
					if !ok || st.Val != v {
						continue
					}
					fv := an.FieldVar(st.Addr)
					if fv == nil {
						continue
					}
					n++
					c.FuncsAnalysed[fn] = true
					k := fmt.Sprintf("%s stored into %s only when it parsed, in %s", an.CalleeName(call), fv.Name(), an.RelName(fn))
					seen[k]++
					key := k
					if seen[k] > 1 {
						key += fmt.Sprintf("#%d", seen[k])
					}
					if an.FactsAt(st).Has(errE, "==", "nil") {
						c.Ok(rule, key, st.Pos(), "store dominated by err == nil")
					} else if why, ok := c02CheckedStoreAllow[k]; ok {
						c.Note(rule, key, st.Pos(), "not decided mechanically; manual argument: "+why)
					} else if errBranchLeaves(fn, errV) {
						c.Ok(rule, key, st.Pos(), "stored before the test, but the err != nil branch leaves the function without rejoining")
					} else {
						c.Bad(rule, key, st.Pos(), "the result of "+an.CalleeName(call)+" is stored into "+fv.Name()+" although the error it was returned with may be non-nil (the error branch falls through): the field receives the callee's failure value")
					}
				}
			}
		})
	}
	c.MinCount(rule, "stores of error-checked results into fields", n, 3)
}

// errBranchLeaves: every branch taken when errV != nil ends the function without rejoining the success path.
func errBranchLeaves(fn *ssa.Function, errV ssa.Value) bool {
	errE := an.Expr(errV)
	found := false
	for _, b := range fn.Blocks {
		ifi, ok := b.Instrs[len(b.Instrs)-1].(*ssa.If)
		if !ok {
			continue
		}
		for si := 0; si < 2; si++ {
			isErr := false
			for _, a := range an.CondAtoms(ifi.Cond, si == 0) {
				if a.L == errE && a.Op == "!=" && a.R == "nil" {
					isErr = true
				}
			}
			if !isErr {
				continue
			}
			found = true
			reach := func(start *ssa.BasicBlock) map[*ssa.BasicBlock]bool {
				seen := map[*ssa.BasicBlock]bool{}
				var walk func(x *ssa.BasicBlock)
				walk = func(x *ssa.BasicBlock) {
					if seen[x] {
						return
					}
					seen[x] = true
					for _, s := range x.Succs {
						walk(s)
					}
				}
				walk(start)
				return seen
			}
			r1, r2 := reach(b.Succs[si]), reach(b.Succs[1-si])
			for x := range r1 {
				if r2[x] {
					return false
				}
			}
		}
	}
	return found
}

var c02CheckedStoreAllow = map[string]string{
	"auditlog.GetWriter stored into auditLogWriter only when it parsed, in internal/corazawaf.NewWAF": "the argument is the constant \"serial\", a writer registered by the auditlog package's own init; the lookup cannot fail unless the registry is tampered with, and the error is logged",
}
