package props

import (
	"fmt"
	"go/token"
	"golang.org/x/tools/go/ssa"
	"regexp"
	"strings"

	"czcheck/an"
)

var tempName = regexp.MustCompile(`\.t\d+`)

// laManual lists look-ahead reads that the guard-fact analysis cannot decide and that were
// reviewed by hand (function|access with SSA temporaries stripped -> argument). They are
// reported as notes, not as discharged obligations: nothing is claimed for them.
var laManual = map[string]string{
	"types.ParseAuditLogParts|opts[1:len-1]":                                                                               "reached only when opts starts with \"A\" and ends with \"Z\": a one-byte string cannot do both, so len(opts) >= 2",
	"internal/corazawaf.(*Rule).doEvaluate|*matchedValues[0]":                                                              "the function returns earlier when len(matchedValues)==0 and the slice only grows afterwards; the guard speaks about an earlier SSA version of the accumulator",
	"internal/operators.(*indexedMatcher).matchCI|s[slice-lo=((*i - m.minLen) + 1)]":                                       "Horspool window: i starts at minLen-1 and only increases, the upper bound pos+nlen<=len(s) is tested",
	"internal/operators.(*indexedMatcher).matchCS|s[slice-lo=((*i - m.minLen) + 1)]":                                       "Horspool window: i starts at minLen-1 and only increases, the upper bound pos+nlen<=len(s) is tested",
	"internal/operators.(*restpath).Evaluate|o.re.FindStringSubmatch(value)[(*rangeindex + 1)]":                            "regexp API: a non-empty FindStringSubmatch result has len == len(SubexpNames())",
	"internal/seclang.(*RuleParser).ParseOperator|strings.TrimSpace(strings.Cut(OPERATOR,\" \")#0)[0]":                     "the normalising switch makes the operator start with '@' or '!', so the part before the first blank is not empty",
	"internal/seclang.(*RuleParser).ParseOperator|strings.TrimSpace(strings.Cut(OPERATOR,\" \")#0)[slice-lo=1]":            "same as above",
	"internal/corazarules.(MatchedRule).ErrorLog|mr.MatchedDatas_[0]":                                                      "MatchRule is only reached with a non-empty match list (doEvaluate returns early on no match; SecAction synthesises one datum)",
	"internal/corazawaf.chainPartOf|matchedChains[(*rangeindex + 1)][(*rangeindex + 1)]":                                   "multiphase build only: compared chains are produced by the same rule and have the same number of links",
	"internal/corazawaf.isMultiphaseDoubleEvaluation|collectiveMatchedValues[slice-hi=(len(collectiveMatchedValues) - 1)]": "multiphase build only: the element being removed was appended by the caller just before",
	"internal/operators.newRESTPath|operators.rePathTokenRe.FindAllStringSubmatch(data,-1)[(*rangeindex + 1)][1]":          "rePathTokenRe has exactly one capture group, every submatch slice has two elements",
	"internal/seclang.parseActions|actions[slice-lo=(*beforeKey + 1)]":                                                     "beforeKey/afterKey are indices of bytes already scanned (or -1), so index+1 <= len(actions)",
	"internal/seclang.parseActions|actions[slice-lo=(*afterKey + 1)]":                                                      "beforeKey/afterKey are indices of bytes already scanned (or -1), so index+1 <= len(actions)",
	"internal/transformations.doCMDLine|*ret[slice-hi=(len(*ret) - 1)]":                                                    "space is only true right after a blank was appended to ret",
	"internal/transformations.doJsDecode|makeslice[:3][:φ((*j + 1)|*j)][slice-hi=2]":                                       "reached only with j == 3",
	"internal/transformations.doJsDecode|makeslice[:3][:φ((*j + 1)|*j)][0]":                                                "reached only with j > 0",
	"internal/transformations.hasTrimmableComponent|data[*start:*i][(len(data[*start:*i]) - 1)]":                           "isAllDots(\"\") is true, so an empty component never reaches the index",
	"internal/transformations.inplaceUniDecode|input[(*i + 1)]":                                                            "n == i-start == 2 on this branch, so start+1 < i <= len(input)",
}

// Renaming a local variable or a parameter must not turn a reviewed site into an alarm:
// besides the exact key, a site matches an entry whose key is equal after replacing
// free-standing identifiers (not a field, method, package or callee name) by positional
// placeholders.
var laIdent = regexp.MustCompile(`[A-Za-z_][A-Za-z0-9_]*`)
var laKeep = map[string]bool{"len": true, "cap": true, "slice": true, "lo": true, "hi": true, "rangeindex": true, "makeslice": true, "OPERATOR": true}

func laNorm(k string) string {
	fn, d, ok := strings.Cut(k, "|")
	if !ok {
		return k
	}
	names := map[string]string{}
	d = strings.ReplaceAll(d, "*", "") // a loop variable of the caller (rendered *i) is a parameter (i) after extraction
	out := laIdent.ReplaceAllStringFunc(d, func(id string) string { return "\x00" + id + "\x00" })
	var b strings.Builder
	parts := strings.Split(out, "\x00")
	for i, p := range parts {
		if i%2 == 0 {
			b.WriteString(p)
			continue
		}
		prev, next := "", ""
		if i > 0 {
			prev = parts[i-1]
		}
		if i+1 < len(parts) {
			next = parts[i+1]
		}
		if laKeep[p] || strings.HasSuffix(prev, ".") || strings.HasSuffix(prev, "-") || strings.HasPrefix(next, ".") || strings.HasPrefix(next, "(") {
			b.WriteString(p)
			continue
		}
		n, ok := names[p]
		if !ok {
			n = fmt.Sprintf("$%d", len(names)+1)
			names[p] = n
		}
		b.WriteString(n)
	}
	return fn + "|" + b.String()
}

// laManualTwice: entries of laManual whose argument was checked for two reads of the same
// shape in that function (all other entries cover exactly one read).
var laManualTwice = map[string]bool{
	"internal/corazawaf.(*Rule).doEvaluate|*matchedValues[0]":                            true, // Message_ and Data_ assignments
	"internal/seclang.parseActions|actions[slice-lo=(*beforeKey + 1)]":                   true, // inside the loop and after it
	"internal/seclang.parseActions|actions[slice-lo=(*afterKey + 1)]":                    true, // inside the loop and after it
	"internal/corazawaf.chainPartOf|matchedChains[(*rangeindex + 1)][(*rangeindex + 1)]": true, // Variable() and Value() comparisons
}

var laManualNorm, laManualCount = func() (map[string]string, map[string]int) {
	m, n := map[string]string{}, map[string]int{}
	for k, v := range laManual {
		m[laNorm(k)] = v
		n[laNorm(k)]++
		if laManualTwice[k] {
			n[laNorm(k)]++
		}
	}
	return m, n
}()

func laManualReason(k string) string {
	if r := laManual[k]; r != "" {
		return r
	}
	return laManualNorm[laNorm(k)]
}

// laViaCaller: a reviewed read that was moved verbatim into a private helper with a single calling function is
// still the reviewed read (loop variables of the caller become parameters of the helper).
func laViaCaller(c *an.Ctx, fn *ssa.Function, desc string, seen map[string]int) string {
	if token.IsExported(fn.Name()) || fn.Parent() != nil {
		return ""
	}
	var caller *ssa.Function
	for _, cs := range c.P.CallSites(func(x ssa.Instruction) bool { return an.IsCallTo(x, fn) }) {
		if caller != nil && caller != cs.Fn {
			return ""
		}
		caller = cs.Fn
	}
	if caller == nil {
		return ""
	}
	k := laNorm(laKey(an.RelName(caller), desc))
	r := laManualNorm[k]
	if r == "" {
		return ""
	}
	if seen != nil {
		if seen[k] >= laManualCount[k] {
			return ""
		}
		seen[k]++
	}
	return r
}

var opPhi = regexp.MustCompile(`φ\("!@rx"\|[^#]*\|operator\)`)

func laKey(fn string, desc string) string {
	d := tempName.ReplaceAllString(desc, "")
	d = opPhi.ReplaceAllString(d, "OPERATOR")
	return fn + "|" + d
}

// lookaheadRule applies the A9 scan to every function of the given packages.
func lookaheadRule(c *an.Ctx, rule string, pkgs []string, minCount int) {
	total, manual := 0, 0
	seen := map[string]int{}
	manualSeen := map[string]int{} // reviewed sites are counted: one more undecided read of the same shape is an alarm
	for _, fn := range c.P.ModFuncs {
		rp := relPkg(fn)
		in := false
		for _, p := range pkgs {
			if rp == p {
				in = true
			}
		}
		if !in {
			continue
		}
		obs := c.P.LookaheadAccesses(fn)
		if len(obs) > 0 {
			c.FuncsAnalysed[fn] = true
		}
		for _, ob := range obs {
			total++
			k := laKey(an.RelName(fn), ob.Desc)
			seen[k]++
			key := "read " + strings.TrimPrefix(k, an.RelName(fn)+"|") + " in " + an.RelName(fn)
			if seen[k] > 1 {
				key += fmt.Sprintf("#%d", seen[k])
			}
			switch {
			case ob.Ok:
				c.Ok(rule, key, ob.Instr.Pos(), ob.Shape+": "+ob.Why)
			case laManualReason(k) != "" && manualSeen[laNorm(k)] < laManualCount[laNorm(k)]:
				manualSeen[laNorm(k)]++
				manual++
				c.Note(rule, key, ob.Instr.Pos(), "not decided mechanically; manual argument: "+laManualReason(k))
			case laViaCaller(c, fn, ob.Desc, manualSeen) != "":
				manual++
				c.Note(rule, key, ob.Instr.Pos(), "not decided mechanically; reviewed in the only caller of this private helper: "+laViaCaller(c, fn, ob.Desc, nil))
			default:
				c.Bad(rule, key, ob.Instr.Pos(), "look-ahead / fixed-position read without a dominating bound: "+ob.Why+"; input chosen by a configuration author or an HTTP peer can make this index out of range (panic)", ob.Facts.Strings()...)
			}
		}
	}
	c.MinCount(rule, "look-ahead reads in "+strings.Join(pkgs, ","), total, minCount)
}
