package props

import (
	"fmt"
	"go/types"
	"sort"

	"czcheck/an"

	"golang.org/x/tools/go/ssa"
)

// ProbeTypeAsserts is a development aid: lists unchecked type assertions.
func ProbeTypeAsserts(p *an.Prog) {
	var out []string
	for _, fn := range p.ModFuncs {
		an.Instrs(fn, func(in ssa.Instruction) {
			ta, ok := in.(*ssa.TypeAssert)
			if !ok || ta.CommaOk {
				return
			}
			out = append(out, fmt.Sprintf("%s | %s | %s", p.Position(ta.Pos()), an.RelName(fn), an.Expr(ta)))
		})
	}
	sort.Strings(out)
	for _, s := range out {
		fmt.Println(s)
	}
	fmt.Println(len(out))
}

// ProbeLookahead lists undischarged look-ahead accesses per package.
func ProbeLookahead(p *an.Prog) {
	tot, bad := 0, 0
	for _, fn := range p.ModFuncs {
		for _, ob := range p.LookaheadAccesses(fn) {
			tot++
			if !ob.Ok {
				bad++
				fmt.Printf("%s | %s | %s %s | %s\n", p.Position(ob.Instr.Pos()), an.RelName(fn), ob.Shape, ob.Desc, ob.Why)
			}
		}
	}
	fmt.Println("total", tot, "undischarged", bad)
}

// ProbeMapRanges lists range-over-map loops in module code.
func ProbeMapRanges(p *an.Prog) {
	for _, fn := range p.ModFuncs {
		an.Instrs(fn, func(in ssa.Instruction) {
			r, ok := in.(*ssa.Range)
			if !ok {
				return
			}
			if _, isMap := r.X.Type().Underlying().(*types.Map); !isMap {
				return
			}
			// loop body calls
			var calls []string
			for _, ref := range *r.Referrers() {
				nx, ok := ref.(*ssa.Next)
				if !ok {
					continue
				}
				l := an.InnermostLoop(nx.Block())
				if l == nil {
					continue
				}
				seen := map[string]bool{}
				for b := range l.Blocks {
					for _, x := range b.Instrs {
						if ci, ok := x.(ssa.CallInstruction); ok {
							n := an.CalleeName(ci)
							if !seen[n] {
								seen[n] = true
								calls = append(calls, n)
							}
						}
						if _, ok := x.(*ssa.Store); ok && !seen["STORE"] {
							seen["STORE"] = true
							calls = append(calls, "STORE")
						}
						if _, ok := x.(*ssa.MapUpdate); ok && !seen["MAPUPDATE"] {
							seen["MAPUPDATE"] = true
							calls = append(calls, "MAPUPDATE")
						}
					}
				}
			}
			sort.Strings(calls)
			fmt.Printf("%s | %s | range %s | %v\n", p.Position(r.Pos()), an.RelName(fn), an.Expr(r.X), calls)
		})
	}
}

// ProbeCopyLoss lists range-copy lost updates.
func ProbeCopyLoss(p *an.Prog) {
	for _, fn := range p.ModFuncs {
		for _, l := range an.RangeCopyLosses(fn) {
			fmt.Printf("%s | %s | copy %s of %s: %s\n", p.Position(l.At.Pos()), an.RelName(fn), l.Alloc.Comment, l.Source, l.Kind)
		}
	}
}

// ProbeTransformFlags lists the change-flag expression of every return of the registered transformations.
func ProbeTransformFlags(p *an.Prog) {
	for _, fn := range p.ModFuncs {
		if fn.Pkg == nil || fn.Pkg.Pkg.Path() != an.ModPath+"/internal/transformations" || fn.Parent() != nil {
			continue
		}
		sig := fn.Signature
		if sig.Results().Len() != 3 || sig.Params().Len() != 1 {
			continue
		}
		an.Instrs(fn, func(in ssa.Instruction) {
			if r, ok := in.(*ssa.Return); ok {
				fmt.Printf("%-22s out=%-60.60s flag=%.90s\n", fn.Name(), an.Expr(r.Results[0]), an.Expr(r.Results[1]))
			}
		})
	}
}

// ProbeArith lists integer divisions / remainders with a non-constant divisor, and map
// updates whose map is loaded from a struct field or a global (development aid).
func ProbeArith(p *an.Prog) {
	nd, nm, ni, nic := 0, 0, 0, 0
	for _, fn := range p.ModFuncs {
		covered := map[ssa.Instruction]bool{}
		for _, ob := range p.LookaheadAccesses(fn) {
			covered[ob.Instr] = true
		}
		an.Instrs(fn, func(in ssa.Instruction) {
			switch x := in.(type) {
			case *ssa.BinOp:
				if x.Op.String() != "/" && x.Op.String() != "%" {
					return
				}
				if b, ok := x.X.Type().Underlying().(*types.Basic); !ok || b.Info()&types.IsInteger == 0 {
					return
				}
				if _, isC := x.Y.(*ssa.Const); isC {
					return
				}
				nd++
				fmt.Printf("DIV %s | %s | %s\n", p.Position(x.Pos()), an.RelName(fn), an.Expr(x))
			case *ssa.MapUpdate:
				if _, ok := x.Map.(*ssa.MakeMap); ok {
					return
				}
				nm++
				fmt.Printf("MAPW %s | %s | %s\n", p.Position(x.Pos()), an.RelName(fn), an.Expr(x.Map))
			case *ssa.IndexAddr:
				ni++
				if covered[in] {
					nic++
				} else {
					fmt.Printf("IDX %s | %s | %s[%s]\n", p.Position(x.Pos()), an.RelName(fn), an.Expr(x.X), an.Expr(x.Index))
				}
			case *ssa.Index:
				ni++
				if covered[in] {
					nic++
				} else {
					fmt.Printf("IDX %s | %s | %s[%s]\n", p.Position(x.Pos()), an.RelName(fn), an.Expr(x.X), an.Expr(x.Index))
				}
			case *ssa.Lookup:
				if _, isMap := x.X.Type().Underlying().(*types.Map); isMap {
					return
				}
				ni++
				if covered[in] {
					nic++
				} else {
					fmt.Printf("IDX %s | %s | %s[%s]\n", p.Position(x.Pos()), an.RelName(fn), an.Expr(x.X), an.Expr(x.Index))
				}
			case *ssa.Slice:
				if x.Low == nil && x.High == nil {
					return
				}
				ni++
				if covered[in] {
					nic++
				} else {
					lo, hi := "", ""
					if x.Low != nil {
						lo = an.Expr(x.Low)
					}
					if x.High != nil {
						hi = an.Expr(x.High)
					}
					fmt.Printf("SLC %s | %s | %s[%s:%s]\n", p.Position(x.Pos()), an.RelName(fn), an.Expr(x.X), lo, hi)
				}
			}
		})
	}
	fmt.Println("divisions", nd, "map writes (non-local)", nm, "index/slice", ni, "covered by A9", nic)
}
