package props

import (
	"fmt"
	"sort"

	"czcheck/an"

	"golang.org/x/tools/go/ssa"
)

// ProbeTypeAsserts is a development aid: lists unchecked type assertions.
func ProbeTypeAsserts(p *an.Prog) {
	var out []string
	for _, fn := range p.ModFuncs {
		an.Instrs(fn, func(in ssa.Instruction) {
			ta, ok := in.(*ssa.TypeAssert)
			if !ok || ta.CommaOk {
				return
			}
			out = append(out, fmt.Sprintf("%s | %s | %s", p.Position(ta.Pos()), an.RelName(fn), an.Expr(ta)))
		})
	}
	sort.Strings(out)
	for _, s := range out {
		fmt.Println(s)
	}
	fmt.Println(len(out))
}

// ProbeLookahead lists undischarged look-ahead accesses per package.
func ProbeLookahead(p *an.Prog) {
	tot, bad := 0, 0
	for _, fn := range p.ModFuncs {
		for _, ob := range p.LookaheadAccesses(fn) {
			tot++
			if !ob.Ok {
				bad++
				fmt.Printf("%s | %s | %s %s | %s\n", p.Position(ob.Instr.Pos()), an.RelName(fn), ob.Shape, ob.Desc, ob.Why)
			}
		}
	}
	fmt.Println("total", tot, "undischarged", bad)
}
