package props

import (
	"go/constant"
	"go/token"
	"go/types"
)

type typesConst = types.Const

// fillConstNames maps integer constant values of the scope to their names (first name wins, exported preferred).
func fillConstNames(sc *types.Scope, out map[int64]string) {
	for _, n := range sc.Names() {
		k, ok := sc.Lookup(n).(*types.Const)
		if !ok || k.Val().Kind() != constant.Int {
			continue
		}
		if _, isNamed := k.Type().(*types.Named); !isNamed {
			continue
		}
		v, ok := constant.Int64Val(k.Val())
		if !ok {
			continue
		}
		if _, dup := out[v]; !dup {
			out[v] = n
		}
	}
}

type tokenPos = token.Pos
