package props

import (
	"fmt"
	"go/token"
	"go/types"
	"os"
	"regexp"
	"sort"
	"strconv"
	"strings"

	"czcheck/an"

	"golang.org/x/tools/go/ssa"
)

func init() {
	register(&Property{
		ID:    "C07",
		Title: "The library never panics, whatever configuration text or traffic it is given",
		Explanation: "Decides the enumerable panic sources, not totality: R1 no explicit panic/log.Fatal/os.Exit is reachable from coraza.NewWAF or any Transaction entry point (VTA reachability); " +
			"R2 every unchecked type assertion in the module has a provenance proof (set of possible dynamic types computed from implementers, callee returns, memoised closures, pool/sync.Map contents) that is included in the asserted type; " +
			"R3 contradiction rule for optional values: a struct field that is compared with nil somewhere is only invoked/dereferenced under a dominating non-nil fact (or after a non-nil store); values obtained together with an error are not used on the error branch; " +
			"R4 Init->Evaluate typestate for every registered action and operator: a field invoked or dereferenced by Evaluate is assigned on every successful path of Init / the factory, or tested for nil before use; " +
			"R5 run-time limits reach slice bounds only range-checked (shared with C10.R2/R3); R6 (incl. indices counted down in a loop, which need a lower bound, and variables indexing fixed-size arrays, which need both bounds; validators returning an error contribute what they guarantee when they return nil) look-ahead and fixed-position reads in the configuration parser, macro expander, string helpers, actions and engine are dominated by a length fact (A9 shapes only); " +
			"R7 Include recursion is bounded by a counter tested before recursing; R8 every non-constant size handed to an allocation primitive (make, Builder/Buffer.Grow, Repeat) is provably non-negative, and a make with both len and cap has len <= cap; R2 also covers assertions to interface types (every possible dynamic type implements the target); R3 also follows pointer fields that a composite literal leaves unset and nothing ever assigns (nil for the object's whole life) through accessors and interface wrapping to every dereference; R9 every store to Rule.DisruptiveStatus carries a status net/http's WriteHeader accepts (0 or 100..999, by constant or by dominating comparisons). R10 every scanning loop of the decoders and parsers whose continuation test reads a loop-carried position advances that position on every feasible path of an iteration (a path that returns to the test unchanged is accepted only when its last edge falsifies the test, and the false side of `j > 0` is pruned when j is a counter whose bounded inner loop provably runs once). R11 every integer division or remainder divides by a non-zero constant or by a value a dominating comparison makes non-zero. R3 also counts an assignment to an entry of a map loaded from an optional field as a use (a nil map panics on assignment).",
		NotDecided: []string{
			"panics from shifts and conversions, map writes on nil maps, and index shapes outside x[c], x[v+c], x[len-c]",
			"panics inside third-party libraries (regexp, aho-corasick, gjson, libinjection, xml)",
			"termination of every loop (hangs), memory exhaustion",
			"look-ahead reads listed under coverage.notes (manual arguments only)",
		},
		Assumptions: []string{"interface values reaching a type assertion are created inside the module (CHA over module types); externally implemented plugin interfaces are out of scope"},
		Run:         runC07,
	})
}

func c07EntryPoints(c *an.Ctx) []*ssa.Function {
	var roots []*ssa.Function
	add := func(fn *ssa.Function) {
		if fn != nil {
			roots = append(roots, fn)
		}
	}
	add(c.P.Func(".NewWAF"))
	add(c.P.Func("internal/corazawaf.(*WAF).NewTransaction"))
	add(c.P.Func("internal/corazawaf.(*WAF).NewTransactionWithOptions"))
	add(c.P.Func("http.WrapHandler"))
	if txT := c.P.LookupType(pkgWAF, "Transaction"); txT != nil {
		ms := c.P.SSA.MethodSets.MethodSet(types.NewPointer(txT))
		for i := 0; i < ms.Len(); i++ {
			if ms.At(i).Obj().Exported() {
				add(c.P.SSA.MethodValue(ms.At(i)))
			}
		}
	}
	return roots
}

func runC07(c *an.Ctx) {
	roots := c07EntryPoints(c)
	if len(roots) < 30 {
		c.Unknown("R1", "entry points", token.NoPos, fmt.Sprintf("only %d entry points resolved", len(roots)))
		return
	}
	reach := c.P.Reachable(roots...)
	nReach := 0
	// ---- R1 explicit panics.
	var fns []*ssa.Function
	for fn := range reach {
		if c.P.InModule(fn) {
			fns = append(fns, fn)
		}
	}
	sort.Slice(fns, func(i, j int) bool { return fns[i].String() < fns[j].String() })
	nP := 0
	for _, fn := range fns {
		nReach++
		c.FuncsAnalysed[fn] = true
		if strings.HasPrefix(an.OuterFn(fn).Name(), "init") {
			continue
		}
		live := an.LiveBlocks(fn)
		for _, b := range fn.Blocks {
			if !live[b] {
				continue
			}
			for _, in := range b.Instrs {
				what := ""
				if pn, ok := in.(*ssa.Panic); ok {
					if strings.Contains(an.Expr(pn.X), "blocking select matched no case") {
						continue // go/ssa's lowering of a select statement, not source code
					}
					what = "panic"
				} else if an.IsCallToFunc(in, "os", "Exit") {
					what = "os.Exit"
				} else if cc := an.CallOf(in); cc != nil && cc.StaticCallee() != nil && cc.StaticCallee().Pkg != nil && cc.StaticCallee().Pkg.Pkg.Path() == "log" && strings.HasPrefix(cc.StaticCallee().Name(), "Fatal") {
					what = "log." + cc.StaticCallee().Name()
				}
				if what == "" {
					continue
				}
				nP++
				key := what + " in " + an.RelName(fn)
				if why, ok := c07PanicAllow[an.RelName(fn)]; ok {
					c.Ok("R1", key, in.Pos(), "allowlisted: "+why)
					continue
				}
				c.Bad("R1", key, in.Pos(), "an explicit "+what+" is reachable from coraza.NewWAF / the Transaction API")
			}
		}
	}
	c.OkTrivial("R1", "reachable module functions scanned", token.NoPos, fmt.Sprintf("%d functions reachable from %d entry points, %d explicit panic sites", nReach, len(roots), nP))
	if nReach < 300 {
		c.Unknown("R1", "reachability", token.NoPos, fmt.Sprintf("only %d module functions reachable; the call graph lost the engine", nReach))
	}

	// ---- R2 unchecked type assertions.
	memoByCall := map[*ssa.Call]memoSite{}
	for _, ms := range memoSites(c) {
		memoByCall[ms.call] = ms
	}
	nTA := 0
	seen := map[string]int{}
	for _, fn := range c.P.ModFuncs {
		rp := relPkg(fn)
		if strings.HasSuffix(rp, "/generator") || strings.HasPrefix(rp, "testing") || strings.HasPrefix(rp, "examples") {
			continue
		}
		an.Instrs(fn, func(in ssa.Instruction) {
			ta, ok := in.(*ssa.TypeAssert)
			if !ok || ta.CommaOk {
				return
			}
			nTA++
			c.FuncsAnalysed[fn] = true
			want := types.TypeString(ta.AssertedType, shortQualifier)
			k := fmt.Sprintf("assert .(%s) in %s", want, an.RelName(fn))
			seen[k]++
			key := k
			if seen[k] > 1 {
				key += fmt.Sprintf("#%d", seen[k])
			}
			why := c07AssertAllow[k]
			if it, isI := ta.AssertedType.Underlying().(*types.Interface); isI {
				// assertion to an interface: every possible dynamic type must implement it
				ts, okProv := c.P.DynTypes(ta.X)
				var names, missing []string
				for _, t := range ts {
					n := types.TypeString(t, shortQualifier)
					names = append(names, n)
					if !types.Implements(t, it) {
						missing = append(missing, n)
					}
				}
				switch {
				case why != "":
					c.Note("R2", key, ta.Pos(), "not decided mechanically; manual argument: "+why)
				case !okProv:
					c.Bad("R2", key, ta.Pos(), "unchecked assertion to interface "+want+" whose operand's dynamic type cannot be established ("+tempName.ReplaceAllString(an.Expr(ta.X), "")+")", "types found so far: "+strings.Join(names, ", "))
				case len(missing) > 0:
					c.Bad("R2", key, ta.Pos(), "unchecked assertion to interface "+want+" but the operand may hold "+strings.Join(missing, ", ")+", which does not implement it: panics with 'interface conversion ... missing method'")
				default:
					c.Ok("R2", key, ta.Pos(), "every possible dynamic type ("+strings.Join(names, ", ")+") implements "+want)
				}
				return
			}
			if why != "" {
				c.Note("R2", key, ta.Pos(), "not decided mechanically; manual argument: "+why)
				return
			}
			// memoised operand: the provenance argument additionally needs a role prefix in the cache key (C13.R1)
			if ex, ok := ta.X.(*ssa.Extract); ok {
				if call, ok := ex.Tuple.(*ssa.Call); ok {
					if ms, isMemo := memoByCall[call]; isMemo && !ms.hasPfx {
						c.Bad("R2", key, ta.Pos(), "unchecked type assertion on a value taken from the process-wide cache under the un-namespaced key "+tempName.ReplaceAllString(an.Expr(ms.key), "")+": another role caching a different type under the same text makes this assertion panic")
						return
					}
				}
			}
			ts, okProv := c.P.DynTypes(ta.X)
			var names []string
			bad := false
			for _, t := range ts {
				n := types.TypeString(t, shortQualifier)
				names = append(names, n)
				if !types.Identical(t, ta.AssertedType) {
					bad = true
				}
			}
			switch {
			case !okProv:
				c.Bad("R2", key, ta.Pos(), "unchecked type assertion whose operand's dynamic type cannot be established ("+tempName.ReplaceAllString(an.Expr(ta.X), "")+"): a value of another type panics with 'interface conversion'", "types found so far: "+strings.Join(names, ", "))
			case bad:
				c.Bad("R2", key, ta.Pos(), "unchecked type assertion to "+want+" but the operand may hold "+strings.Join(names, ", ")+": panics with 'interface conversion'")
			case len(ts) == 0:
				c.Bad("R2", key, ta.Pos(), "unchecked type assertion on a value that is always nil")
			default:
				c.Ok("R2", key, ta.Pos(), "operand can only hold "+strings.Join(names, ", "))
			}
		})
	}
	c.MinCount("R2", "unchecked type assertions", nTA, 40)

	// ---- R3 optional values.
	c07Optional(c)
	c07UseAfterError(c, fns)
	c07Nullable(c, fns)
	c07UnsetPtr(c)

	// ---- R4 typestate.
	c07Typestate(c)

	// ---- R5 shared.
	c.Note("R5", "run-time limits into slice bounds", token.NoPos, "decided by C10.R2 (bound >= 0 and <= len) and C10.R3 (range-checked stores)")

	// ---- R6 look-ahead reads.
	var scope []string
	for _, pk := range c.P.Pkgs {
		rel := strings.TrimPrefix(strings.TrimPrefix(pk.PkgPath, an.ModPath), "/")
		if strings.HasPrefix(rel, "testing") || strings.HasPrefix(rel, "examples") || strings.HasSuffix(rel, "/generator") || rel == "magefiles" {
			continue
		}
		scope = append(scope, rel)
	}
	lookaheadRule(c, "R6", scope, 150)

	// ---- R7 include bound.
	c07Include(c)

	// ---- R8 sizes handed to allocation primitives.
	c07Sizes(c)

	// ---- R9 the status of a disruptive rule is one a connector can send.
	c07Status(c)

	// ---- R10 scanning loops make progress.
	c07Progress(c)

	// ---- R11 integer division and remainder.
	c07Division(c)
}

// c07Division (R11): an integer division or remainder panics when the divisor is zero.  Every
// such operation in the module (init functions and tests excluded) must divide by a non-zero
// constant, or by a value that a dominating comparison (d != 0, d > 0, d >= 1, and the same
// through len()) or the operand's own shape (x | c, x + c over a non-negative x, with c > 0)
// makes non-zero.  Today every divisor is a constant; the rule exists so that a new
// `i % len(list)` over a list that can be empty is reported where it is written.
func c07Division(c *an.Ctx) {
	n := 0
	seen := map[string]int{}
	for _, fn := range c.P.ModFuncs {
		if rp := relPkg(fn); strings.HasPrefix(rp, "testing") || strings.HasPrefix(rp, "examples") || strings.Contains(rp, "/e2e") {
			continue
		}
		an.Instrs(fn, func(in ssa.Instruction) {
			b, ok := in.(*ssa.BinOp)
			if !ok || (b.Op != token.QUO && b.Op != token.REM) {
				return
			}
			if bt, ok := b.X.Type().Underlying().(*types.Basic); !ok || bt.Info()&types.IsInteger == 0 {
				return
			}
			n++
			c.FuncsAnalysed[fn] = true
			name := an.RelName(fn)
			d := tempName.ReplaceAllString(an.Expr(b.Y), "")
			seen[name+d]++
			key := "divisor " + d + " in " + name
			if seen[name+d] > 1 {
				key += fmt.Sprintf("#%d", seen[name+d])
			}
			if k, ok := an.ConstInt(b.Y); ok {
				c.Check(k != 0, "R11", key, b.Pos(), fmt.Sprintf("constant divisor %d", k), "division by the constant 0")
				return
			}
			f := an.FactsAt(b)
			lo, hi, ne := f.Range(d)
			nonzero := lo >= 1 || hi <= -1
			for _, v := range ne {
				if v == 0 {
					nonzero = true
				}
			}
			if !nonzero {
				if bo, ok := b.Y.(*ssa.BinOp); ok && (bo.Op == token.OR || bo.Op == token.ADD) {
					// x | c and len(..) + c with c > 0
					for _, pair := range [][2]ssa.Value{{bo.X, bo.Y}, {bo.Y, bo.X}} {
						if k, ok := an.ConstInt(pair[1]); ok && k > 0 && (bo.Op == token.OR || isLenCall(pair[0])) {
							nonzero = true
						}
					}
				}
			}
			if nonzero {
				c.Ok("R11", key, b.Pos(), "the divisor is non-zero where the operation is reached", f.Strings()...)
			} else {
				c.Bad("R11", key, b.Pos(), "integer "+b.Op.String()+" by "+d+", which no dominating comparison makes non-zero: a zero divisor panics (integer divide by zero) and input chosen by a configuration author or an HTTP peer may produce it", f.Strings()...)
			}
		})
	}
	c.MinCount("R11", "integer divisions and remainders", n, 3)
}

// c07ProgressAllow: no-progress paths that are infeasible for a reason the path search does not see.
var c07ProgressAllow = map[string]string{
	"internal/strings.RandomString": "rejection sampling over a random source: the position is kept when the drawn index falls outside the alphabet, which happens with probability < 1/2 per draw and does not depend on any input",
}

// c07EdgeInfeasible: the CFG edge pred->succ is the false side of a test `v > 0` (v >= 1, v != 0) where v is
// provably positive.  The one proof implemented is the idiom of the decoders: a counter j that starts at a
// non-negative constant, is incremented in a bounded inner loop, and whose loop is entered under a guard that
// already implies the loop's own continuation test for the initial value of j (so the body runs at least once).
func c07EdgeInfeasible(pred, succ *ssa.BasicBlock) bool {
	if len(pred.Instrs) == 0 {
		return false
	}
	ifi, ok := pred.Instrs[len(pred.Instrs)-1].(*ssa.If)
	if !ok || len(pred.Succs) != 2 || pred.Succs[0] == pred.Succs[1] {
		return false
	}
	b, ok := ifi.Cond.(*ssa.BinOp)
	if !ok {
		return false
	}
	k, isC := an.ConstInt(b.Y)
	if !isC {
		return false
	}
	positiveTest := b.Op == token.GTR && k == 0 || b.Op == token.GEQ && k == 1 || b.Op == token.NEQ && k == 0
	if !positiveTest || pred.Succs[1] != succ {
		return false
	}
	r := c07Positive(b.X, map[ssa.Value]bool{})
	if os.Getenv("CZ_DEBUG_C07") != "" {
		fmt.Fprintln(os.Stderr, "C07DBG edge test", an.Expr(ifi.Cond), "positive:", r)
	}
	return r
}

func c07Positive(v ssa.Value, seen map[ssa.Value]bool) bool {
	if seen[v] {
		return true
	}
	seen[v] = true
	if k, ok := an.ConstInt(v); ok {
		return k > 0
	}
	switch x := v.(type) {
	case *ssa.BinOp:
		if x.Op == token.ADD {
			if k, ok := an.ConstInt(x.Y); ok && k >= 1 {
				return c07NonNegCounter(x.X)
			}
		}
		return false
	case *ssa.Phi:
		lp := an.InnermostLoop(x.Block())
		if lp != nil && lp.Header == x.Block() {
			return c07PositiveAtExit(x, lp)
		}
		for _, e := range x.Edges {
			if !c07Positive(e, seen) {
				return false
			}
		}
		return len(x.Edges) > 0
	}
	return false
}

// c07NonNegCounter: v is a loop header phi starting at a constant >= 0 whose back-edge values are v + c, c >= 1.
func c07NonNegCounter(v ssa.Value) bool {
	phi, ok := v.(*ssa.Phi)
	if !ok {
		return false
	}
	lp := an.InnermostLoop(phi.Block())
	if lp == nil || lp.Header != phi.Block() {
		return false
	}
	for j, e := range phi.Edges {
		if !lp.Blocks[phi.Block().Preds[j]] {
			if k, ok := an.ConstInt(e); !ok || k < 0 {
				return false
			}
			continue
		}
		okInc := true
		var leaf func(v ssa.Value, d int)
		seen := map[ssa.Value]bool{}
		leaf = func(v ssa.Value, d int) {
			if seen[v] || d > 6 || v == ssa.Value(phi) {
				return
			}
			seen[v] = true
			if p2, ok := v.(*ssa.Phi); ok {
				for _, e2 := range p2.Edges {
					leaf(e2, d+1)
				}
				return
			}
			if k, ok := an.ConstInt(v); ok && k >= 0 {
				return
			}
			if b, ok := v.(*ssa.BinOp); ok && b.Op == token.ADD {
				if k, ok := an.ConstInt(b.Y); ok && k >= 0 {
					leaf(b.X, d+1)
					return
				}
			}
			okInc = false
		}
		leaf(e, 0)
		if !okInc {
			return false
		}
	}
	return true
}

// c07PositiveAtExit: the counter phi of loop lp is >= 1 whenever the loop is left before the counter's increment
// of the current iteration, because the first evaluation of every such exit test is implied by the facts under
// which the loop is entered (the body runs at least once).
func c07PositiveAtExit(phi *ssa.Phi, lp *an.Loop) bool {
	if !c07NonNegCounter(phi) {
		return false
	}
	init := ""
	for j, e := range phi.Edges {
		if !lp.Blocks[phi.Block().Preds[j]] {
			if k, ok := an.ConstInt(e); ok {
				init = fmt.Sprint(k)
			}
		}
	}
	if init == "" {
		return false
	}
	// the increment(s) of the counter inside the loop
	var incs []*ssa.BinOp
	for _, r := range *phi.Referrers() {
		if b, ok := r.(*ssa.BinOp); ok && b.Op == token.ADD && b.X == ssa.Value(phi) && lp.Blocks[b.Block()] {
			if k, ok := an.ConstInt(b.Y); ok && k >= 1 {
				incs = append(incs, b)
			}
		}
	}
	if len(incs) == 0 {
		return false
	}
	name := regexp.MustCompile(regexp.QuoteMeta(an.Expr(phi)) + `\b`)
	entry := an.FactsAtBlock(phi.Block())
	simplify := func(e string) string {
		e = name.ReplaceAllString(e, init)
		for {
			n := strings.NewReplacer(" + 0)", ")", "(0 + ", "(").Replace(e)
			// "(X)" left by the replacement around a parenthesised operand: "((*i + 1))" -> "(*i + 1)"
			n = strings.ReplaceAll(n, "((", "(\x00")
			n = strings.ReplaceAll(n, "(\x00", "((")
			if n == e {
				break
			}
			e = n
		}
		for strings.HasPrefix(e, "((") && strings.HasSuffix(e, "))") {
			e = e[1 : len(e)-1]
		}
		return e
	}
	for b := range lp.Blocks {
		ifi, ok := b.Instrs[len(b.Instrs)-1].(*ssa.If)
		if !ok {
			continue
		}
		exitIdx := -1
		for si, sc := range b.Succs {
			if !lp.Blocks[sc] {
				exitIdx = si
			}
		}
		if exitIdx < 0 {
			continue
		}
		// only tests evaluated before the increment of the iteration matter
		pre := false
		for _, inc := range incs {
			if b != inc.Block() && b.Dominates(inc.Block()) {
				pre = true
			}
		}
		if !pre {
			continue
		}
		// the staying edge's condition, with the counter at its initial value, must follow from the entry facts
		for _, a := range an.CondAtoms(ifi.Cond, exitIdx == 1) {
			l, r := simplify(a.L), simplify(a.R)
			if li, err1 := strconv.ParseInt(l, 10, 64); err1 == nil {
				if ri, err2 := strconv.ParseInt(r, 10, 64); err2 == nil {
					holds := map[string]bool{"<": li < ri, "<=": li <= ri, ">": li > ri, ">=": li >= ri, "==": li == ri, "!=": li != ri}[a.Op]
					if !holds {
						return false
					}
					continue
				}
			}
			implied := false
			for _, f := range entry {
				if f.Op == a.Op && simplify(f.L) == l && simplify(f.R) == r {
					implied = true
				}
			}
			if os.Getenv("CZ_DEBUG_C07") != "" {
				fmt.Fprintln(os.Stderr, "C07DBG atom", a.String(), "->", l, a.Op, r, "implied", implied, "entry", entry.Strings())
			}
			if !implied {
				return false
			}
		}
	}
	return true
}

// c07Progress: the hand-written decoders and scanners walk their input with `for i < n { ... }` loops whose
// position is advanced inside the body, differently in every branch.  Such a loop hangs as soon as one path
// through the body comes back to the loop test with the position unchanged (the test gives the same answer
// forever): e.g. an escape branch that consumes its bytes only "if something was decoded".  For every loop of the
// byte-oriented packages whose continuation test reads a loop-carried integer, no path of one iteration may
// carry that integer back to the header unchanged — unless another loop-carried value of the test changed on it.
func c07Progress(c *an.Ctx) {
	n := 0
	for _, fn := range c.P.ModFuncs {
		rp := relPkg(fn)
		if rp != "internal/transformations" && rp != "internal/strings" && rp != "internal/url" && rp != "internal/seclang" && rp != "internal/cookies" && rp != "internal/bodyprocessors" {
			continue
		}
		for _, b := range fn.Blocks {
			lp := an.InnermostLoop(b)
			if lp == nil || lp.Header != b {
				continue
			}
			ifi, ok := b.Instrs[len(b.Instrs)-1].(*ssa.If)
			if !ok {
				continue
			}
			// header phis the continuation test depends on
			deps := an.Deps(ifi.Cond)
			var ctl []*ssa.Phi
			for _, in := range b.Instrs {
				phi, ok := in.(*ssa.Phi)
				if !ok {
					break
				}
				if bt, ok := phi.Type().Underlying().(*types.Basic); ok && bt.Info()&types.IsInteger != 0 && deps[phi] {
					ctl = append(ctl, phi)
				}
			}
			if len(ctl) == 0 {
				continue
			}
			n++
			c.FuncsAnalysed[fn] = true
			// unchanged(phi, predIndex): the value entering phi on that back edge can be phi itself
			var canBeSelf func(v ssa.Value, self *ssa.Phi, seen map[ssa.Value]bool) bool
			canBeSelf = func(v ssa.Value, self *ssa.Phi, seen map[ssa.Value]bool) bool {
				if v == ssa.Value(self) {
					return true
				}
				if seen[v] {
					return false
				}
				seen[v] = true
				if p2, ok := v.(*ssa.Phi); ok {
					for j, e := range p2.Edges {
						if c07EdgeInfeasible(p2.Block().Preds[j], p2.Block()) {
							continue
						}
						if canBeSelf(e, self, seen) {
							return true
						}
					}
				}
				return false
			}
			stuck := true
			var where []string
			for _, phi := range ctl {
				self := false
				for j, e := range phi.Edges {
					if !lp.Blocks[b.Preds[j]] || c07EdgeInfeasible(b.Preds[j], b) {
						continue
					}
					via := map[ssa.Value]bool{}
					if !canBeSelf(e, phi, via) {
						continue
					}
					// unchanged, but the edge itself may establish that the loop test now fails (an inner loop that
					// consumed the rest of the input hands back "position >= length"): then the loop ends
					si := 0
					for q, sc := range b.Preds[j].Succs {
						if sc == b {
							si = q
						}
					}
					stayIdx := 0
					if !lp.Blocks[b.Succs[0]] {
						stayIdx = 1
					}
					neg := map[string]string{"<": ">=", "<=": ">", ">": "<=", ">=": "<", "==": "!=", "!=": "=="}
					selfE := an.Expr(phi)
					ends := false
					for _, f := range an.EdgeFacts(b.Preds[j], si) {
						fl, fr := f.L, f.R
						for v := range via {
							if p2, ok := v.(*ssa.Phi); ok {
								fl = strings.ReplaceAll(fl, an.Expr(p2), selfE)
								fr = strings.ReplaceAll(fr, an.Expr(p2), selfE)
							}
						}
						for _, st := range an.CondAtoms(ifi.Cond, stayIdx == 0) {
							if st.L == fl && st.R == fr && neg[st.Op] == f.Op {
								ends = true
							}
						}
					}
					if !ends {
						self = true
					}
				}
				if !self {
					stuck = false // this control value changes on every path
				} else {
					where = append(where, tempName.ReplaceAllString(strings.TrimPrefix(an.Expr(phi), "*"), ""))
				}
			}
			key := fmt.Sprintf("%s: loop at %s advances", an.RelName(fn), strings.TrimPrefix(c.P.Position(b.Instrs[0].Pos()), ""))
			key = tempName.ReplaceAllString(key, "")
			if !stuck {
				c.Ok("R10", fmt.Sprintf("%s: scanning loop #%d advances on every path", an.RelName(fn), n), ifi.Pos(), "a value of the continuation test changes on every path of an iteration")
				continue
			}
			if why, ok := c07ProgressAllow[an.RelName(fn)]; ok {
				c.Note("R10", fmt.Sprintf("%s: scanning loop over %s", an.RelName(fn), strings.Join(where, ",")), ifi.Pos(), "not decided mechanically; manual argument: "+why)
				continue
			}
			c.Bad("R10", fmt.Sprintf("%s: scanning loop over %s advances on every path", an.RelName(fn), strings.Join(where, ",")), ifi.Pos(), "some path through the loop body returns to the loop test with "+strings.Join(where, ", ")+" unchanged: the test then gives the same answer again and the loop never ends (a request value chosen by the peer hangs the transaction)")
		}
	}
	c.MinCount("R10", "scanning loops with a loop-carried position", n, 10)
}

// c07Status: net/http's WriteHeader panics ("invalid WriteHeader code") for a status outside
// 100..999, and the http middleware hands the interruption's status to it unchanged.  The
// status originates in Rule.DisruptiveStatus (read through Rule.Status by deny/drop/redirect):
// every store to that field over the whole module must carry a constant in range (or 0, "no
// status") or a value that dominating comparisons confine to 100..999.
func c07Status(c *an.Ctx) {
	stores := c.P.StoresToField(pkgWAF, "Rule", "DisruptiveStatus")
	seen := map[string]int{}
	for _, fs := range stores {
		name := an.RelName(fs.Fn)
		seen[name]++
		key := "status stored by " + name + " is one net/http can send"
		if seen[name] > 1 {
			key += fmt.Sprintf("#%d", seen[name])
		}
		c.FuncsAnalysed[fs.Fn] = true
		if k, ok := an.ConstInt(fs.Store.Val); ok {
			c.Check(k == 0 || (k >= 100 && k <= 999), "R9", key, fs.Store.Pos(), fmt.Sprintf("constant %d", k), fmt.Sprintf("constant status %d is outside 100..999", k))
			continue
		}
		f := an.FactsAt(fs.Store)
		lo, hi, _ := f.Range(tempName.ReplaceAllString(an.Expr(fs.Store.Val), ""))
		if lo >= 100 && hi <= 999 {
			c.Ok("R9", key, fs.Store.Pos(), fmt.Sprintf("dominating comparisons confine the value to %d..%d", lo, hi), f.Strings()...)
		} else {
			c.Bad("R9", key, fs.Store.Pos(), "the status taken from the rule text ("+an.Expr(fs.Store.Val)+") is stored without being confined to 100..999: a rule such as \"deny,status:42\" compiles, and when it fires the http middleware passes 42 to ResponseWriter.WriteHeader, which panics", f.Strings()...)
		}
	}
	c.MinCount("R9", "stores to Rule.DisruptiveStatus", len(stores), 1)
}

// c07SizeAllow: sizes whose non-negativity rests on a library contract rather than on the code's shape.
var c07SizeAllow = map[string]string{}

// c07Sizes: strings.Builder.Grow, bytes.Buffer.Grow, strings/bytes.Repeat and make panic on a
// negative size ("negative count", "len out of range"); make additionally panics when len > cap.
// Every size that is not a constant must be provably >= 0 (an.NonNeg), and a make with both
// len and cap needs len <= cap from a guard, from identical expressions or from caller arguments.
func c07Sizes(c *an.Ctx) {
	n := 0
	seen := map[string]int{}
	for _, fn := range c.P.ModFuncs {
		rp := relPkg(fn)
		if strings.HasSuffix(rp, "/generator") || strings.HasPrefix(rp, "testing") || strings.HasPrefix(rp, "examples") || rp == "magefiles" {
			continue
		}
		an.Instrs(fn, func(in ssa.Instruction) {
			type sz struct {
				what string
				v    ssa.Value
			}
			var sizes []sz
			switch x := in.(type) {
			case *ssa.MakeSlice:
				sizes = append(sizes, sz{"make len", x.Len})
				if x.Cap != x.Len {
					sizes = append(sizes, sz{"make cap", x.Cap})
				}
			case ssa.CallInstruction:
				cc := x.Common()
				callee := cc.StaticCallee()
				if callee == nil {
					return
				}
				switch callee.String() {
				case "(*strings.Builder).Grow", "(*bytes.Buffer).Grow":
					sizes = append(sizes, sz{callee.Name() + " of " + strings.TrimPrefix(strings.TrimSuffix(strings.Split(callee.String(), ")")[0], ")"), "(*"), cc.Args[1]})
				case "strings.Repeat", "bytes.Repeat":
					sizes = append(sizes, sz{callee.String() + " count", cc.Args[1]})
				case "slices.Grow":
					sizes = append(sizes, sz{"slices.Grow", cc.Args[1]})
				}
			}
			for _, s := range sizes {
				if _, isC := s.v.(*ssa.Const); isC {
					if ok, _ := c.P.NonNeg(s.v, in); ok {
						continue
					}
				}
				n++
				c.FuncsAnalysed[fn] = true
				k := s.what + " " + tempName.ReplaceAllString(an.Expr(s.v), "") + " in " + an.RelName(fn)
				seen[k]++
				key := k
				if seen[k] > 1 {
					key += fmt.Sprintf("#%d", seen[k])
				}
				if why, ok := c07SizeAllow[k]; ok {
					c.Note("R8", key, in.Pos(), "not decided mechanically; manual argument: "+why)
					continue
				}
				if ok, why := c.P.NonNeg(s.v, in); ok {
					c.Ok("R8", key, in.Pos(), "size is non-negative: "+why)
				} else {
					c.Bad("R8", key, in.Pos(), "size handed to an allocation primitive may be negative ("+why+"): a negative size panics ('negative count' / 'len out of range')")
				}
			}
			if m, ok := in.(*ssa.MakeSlice); ok && m.Cap != m.Len {
				// len <= cap
				l, cp := an.Expr(m.Len), an.Expr(m.Cap)
				k := "make len<=cap " + tempName.ReplaceAllString(l+" <= "+cp, "") + " in " + an.RelName(fn)
				f := an.FactsAt(in)
				lc, lIsC := an.ConstInt(m.Len)
				cc2, cIsC := an.ConstInt(m.Cap)
				switch {
				case lIsC && cIsC && lc <= cc2:
				case lIsC && lc == 0:
				case f.Has(l, "<=", cp) || f.Has(l, "<", cp) || f.Has(cp, ">=", l) || f.Has(cp, ">", l):
					n++
					c.Ok("R8", k, in.Pos(), "dominating guard")
				default:
					n++
					if okc, why := c07LenLeCapByCallers(c, fn, m); okc {
						c.Ok("R8", k, in.Pos(), why)
					} else {
						c.Bad("R8", k, in.Pos(), "make with len "+tempName.ReplaceAllString(l, "")+" and cap "+tempName.ReplaceAllString(cp, "")+": no guard gives len <= cap ("+why+"); len > cap panics")
					}
				}
			}
		})
	}
	c.MinCount("R8", "non-constant allocation sizes", n, 20)
}

// c07LenLeCapByCallers: len is a parameter and cap is len(another parameter): every call
// site passes a position that a guard bounds by the length of the slice it passes.
func c07LenLeCapByCallers(c *an.Ctx, fn *ssa.Function, m *ssa.MakeSlice) (bool, string) {
	lp, ok := m.Len.(*ssa.Parameter)
	if !ok {
		return false, "len is not a parameter"
	}
	call, ok := m.Cap.(*ssa.Call)
	if !ok {
		return false, "cap is not len(parameter)"
	}
	b, ok := call.Call.Value.(*ssa.Builtin)
	if !ok || b.Name() != "len" {
		return false, "cap is not len(parameter)"
	}
	cp, ok := call.Call.Args[0].(*ssa.Parameter)
	if !ok {
		return false, "cap is not len(parameter)"
	}
	li, ci := -1, -1
	for i, p := range fn.Params {
		if p == lp {
			li = i
		}
		if p == cp {
			ci = i
		}
	}
	sites := c.P.CallSites(func(in ssa.Instruction) bool { return an.IsCallTo(in, fn) })
	if li < 0 || ci < 0 || len(sites) == 0 {
		return false, "no call sites"
	}
	for _, s := range sites {
		args := s.Call.Common().Args
		pos, buf := args[li], args[ci]
		pe, be := an.Expr(pos), "len("+an.Expr(buf)+")"
		f := an.FactsAt(s.Call)
		if f.Has(pe, "<", be) || f.Has(pe, "<=", be) || f.Has(be, ">", pe) || f.Has(be, ">=", pe) {
			continue
		}
		// position produced by a scan of the same buffer (IndexByte/IndexAny/... >= 0 implies < len)
		if pc, ok := pos.(*ssa.Call); ok {
			if callee := pc.Call.StaticCallee(); callee != nil && (strings.HasPrefix(callee.Name(), "Index") || strings.HasPrefix(callee.Name(), "index")) && len(pc.Call.Args) > 0 && an.Expr(pc.Call.Args[0]) == an.Expr(buf) {
				continue
			}
		}
		// position produced by ranging over the same string
		if ex, ok := pos.(*ssa.Extract); ok && ex.Index == 1 {
			if nx, ok := ex.Tuple.(*ssa.Next); ok && nx.IsString {
				if rg, ok := nx.Iter.(*ssa.Range); ok && an.Expr(rg.X) == an.Expr(buf) {
					continue
				}
			}
		}
		return false, "call in " + an.RelName(s.Fn) + " passes " + tempName.ReplaceAllString(pe, "") + " with no guard bounding it by " + tempName.ReplaceAllString(be, "")
	}
	return true, fmt.Sprintf("every one of the %d call sites bounds the position by the buffer's length", len(sites))
}

func shortQualifier(p *types.Package) string { return p.Name() }

var c07PanicAllow = map[string]string{
	"internal/environment.IsDirWritable": "only compiled in the no_fs_access build, where the single caller is guarded by environment.HasAccessToFS == false",
}

var c07AssertAllow = map[string]string{
	"assert .(*debuglog.defaultEvent) in debuglog.(defaultLogger).With": "ContextField closures are only created by this package and return the event they received",
	"assert .(*coraza.wafConfig) in .NewWAF":                            "WAFConfig values are produced by NewWAFConfig; a foreign implementation is API misuse by the embedding program, not configuration text or traffic",
}

// c07Optional: A7a contradiction rule.
func c07Optional(c *an.Ctx) {
	// 1. optional fields: compared with nil somewhere in the module
	optional := map[*types.Var]token.Pos{}
	for _, fn := range c.P.ModFuncs {
		an.Instrs(fn, func(in ssa.Instruction) {
			b, ok := in.(*ssa.BinOp)
			if !ok || (b.Op != token.EQL && b.Op != token.NEQ) {
				return
			}
			for _, pair := range [][2]ssa.Value{{b.X, b.Y}, {b.Y, b.X}} {
				cst, isC := pair[1].(*ssa.Const)
				if !isC || cst.Value != nil {
					continue
				}
				if u, ok := pair[0].(*ssa.UnOp); ok && u.Op == token.MUL {
					if fv := an.FieldVar(u.X); fv != nil {
						if _, seen := optional[fv]; !seen {
							optional[fv] = b.Pos()
						}
					}
				}
			}
		})
	}
	// 2. uses
	nUse, nOpt := 0, len(optional)
	seen := map[string]int{}
	for _, fn := range c.P.ModFuncs {
		rp := relPkg(fn)
		if strings.HasSuffix(rp, "/generator") || strings.HasPrefix(rp, "testing") || strings.HasPrefix(rp, "examples") {
			continue
		}
		an.Instrs(fn, func(in ssa.Instruction) {
			u, ok := in.(*ssa.UnOp)
			if !ok || u.Op != token.MUL {
				return
			}
			fv := an.FieldVar(u.X)
			if fv == nil {
				return
			}
			if _, isOpt := optional[fv]; !isOpt {
				return
			}
			// how is the loaded value used?
			for _, ref := range *u.Referrers() {
				use := ""
				switch r := ref.(type) {
				case *ssa.Call:
					if r.Call.IsInvoke() && r.Call.Value == ssa.Value(u) {
						use = "method " + r.Call.Method.Name() + " invoked on"
					}
				case *ssa.FieldAddr:
					if r.X == ssa.Value(u) {
						use = "field ." + an.FieldVar(r).Name() + " read through"
					}
				case *ssa.UnOp:
					if r.Op == token.MUL && r.X == ssa.Value(u) {
						use = "dereference of"
					}
				case *ssa.MapUpdate:
					if r.Map == ssa.Value(u) {
						use = "map entry written through" // an assignment to an entry of a nil map panics
					}
				}
				if use == "" {
					continue
				}
				nUse++
				e := an.Expr(u)
				k := fmt.Sprintf("%s %s in %s", use, tempName.ReplaceAllString(e, ""), an.RelName(fn))
				seen[k]++
				key := k
				if seen[k] > 1 {
					key += fmt.Sprintf("#%d", seen[k])
				}
				at := ref.(ssa.Instruction)
				if an.FactsAt(at).Has(e, "!=", "nil") {
					c.Ok("R3", key, at.Pos(), "dominated by "+e+" != nil")
					continue
				}
				if storedNonNilBefore(fn, fv, at) {
					c.Ok("R3", key, at.Pos(), "a non-nil value is stored into the field on every path before the use")
					continue
				}
				if n := callersEstablishNonNil(c, fn, u); n > 0 {
					c.Ok("R3", key, at.Pos(), fmt.Sprintf("all %d call sites of %s are dominated by the non-nil check", n, an.RelName(fn)))
					continue
				}
				if why, ok := c07OptionalAllow[fv.Pkg().Name()+"."+fieldOwner(fv)+"."+fv.Name()]; ok {
					c.Note("R3", key, at.Pos(), "not decided mechanically; manual argument: "+why)
					continue
				}
				c.Bad("R3", key, at.Pos(), fmt.Sprintf("%s is tested for nil elsewhere (%s) but used here without a dominating non-nil check: a nil value panics", tempName.ReplaceAllString(e, ""), c.P.Position(optional[fv])))
			}
		})
	}
	c.MinCount("R3", "optional fields (compared with nil somewhere)", nOpt, 20)
	c.MinCount("R3", "uses of optional fields", nUse, 20)
}

func fieldOwner(fv *types.Var) string {
	// best effort: search the package scope for the struct declaring fv
	if fv.Pkg() == nil {
		return "?"
	}
	sc := fv.Pkg().Scope()
	for _, n := range sc.Names() {
		if tn, ok := sc.Lookup(n).(*types.TypeName); ok {
			if st, ok := tn.Type().Underlying().(*types.Struct); ok {
				for i := 0; i < st.NumFields(); i++ {
					if st.Field(i) == fv {
						return n
					}
				}
			}
		}
	}
	return "?"
}

var c07OptionalAllow = map[string]string{
	"corazawaf.Transaction.requestBodyBuffer": "constructor invariant: newTransaction assigns the buffer whenever it is nil, and transactions are only obtained through newTransaction (C05.R5)",
	"seclang.RuleOptions.WAF":                 "every directive that builds RuleOptions inside the module sets WAF; the nil test in ParseRule only serves direct callers in tests",
}

// callersEstablishNonNil: fn is unexported, the optional field is read through a parameter of fn, and every
// static call site is dominated by `<argument>.<field> != nil`.
func callersEstablishNonNil(c *an.Ctx, fn *ssa.Function, ld *ssa.UnOp) int {
	fa, ok := ld.X.(*ssa.FieldAddr)
	if !ok {
		return 0
	}
	prm, ok := fa.X.(*ssa.Parameter)
	if !ok || fn.Object() == nil || fn.Object().Exported() {
		return 0
	}
	idx := -1
	for i, q := range fn.Params {
		if q == prm {
			idx = i
		}
	}
	if idx < 0 {
		return 0
	}
	fname := an.FieldVar(fa).Name()
	n := 0
	for _, f := range c.P.ModFuncs {
		bad := false
		an.Instrs(f, func(in ssa.Instruction) {
			if !an.IsCallTo(in, fn) {
				return
			}
			n++
			arg := an.Expr(an.CallOf(in).Args[idx])
			if !an.FactsAt(in).Has(arg+"."+fname, "!=", "nil") {
				bad = true
			}
		})
		if bad {
			return 0
		}
	}
	return n
}

// storedNonNilBefore: every path from entry to `at` passes a store of a non-nil value into the field.
func storedNonNilBefore(fn *ssa.Function, fv *types.Var, at ssa.Instruction) bool {
	var e string
	if u, ok := at.(ssa.Instruction); ok {
		_ = u
	}
	w := an.FindPath(an.PathQuery{Fn: fn, Target: func(in ssa.Instruction) bool { return in == at }, Stop: func(in ssa.Instruction) bool {
		st, ok := in.(*ssa.Store)
		if !ok || an.FieldVar(st.Addr) != fv {
			return false
		}
		if cst, isC := st.Val.(*ssa.Const); isC && cst.Value == nil {
			return false
		}
		e = an.Expr(st.Addr)
		return true
	}, PruneEdge: func(b *ssa.BasicBlock, si int) bool {
		// an edge on which the same field is known to be non-nil
		ifi, ok := b.Instrs[len(b.Instrs)-1].(*ssa.If)
		if !ok {
			return false
		}
		for _, a := range an.CondAtoms(ifi.Cond, si == 0) {
			if a.Op == "!=" && a.R == "nil" && strings.HasSuffix(a.L, "."+fv.Name()) {
				return true
			}
		}
		return false
	}})
	_ = e
	return w == nil
}

// c07UseAfterError: v, err := f(); on the err != nil edge v must not be invoked / dereferenced.
func c07UseAfterError(c *an.Ctx, fns []*ssa.Function) {
	n := 0
	seen := map[string]int{}
	for _, fn := range fns {
		an.Instrs(fn, func(in ssa.Instruction) {
			call, ok := in.(*ssa.Call)
			if !ok {
				return
			}
			sig := call.Call.Signature()
			ei := an.ErrorIndex(sig)
			if ei < 1 || sig.Results().Len() != 2 {
				return
			}
			rt := sig.Results().At(0).Type().Underlying()
			_, isPtr := rt.(*types.Pointer)
			_, isIface := rt.(*types.Interface)
			if !isPtr && !isIface {
				return
			}
			var val, errV ssa.Value
			for _, r := range *call.Referrers() {
				if ex, ok := r.(*ssa.Extract); ok {
					if ex.Index == 0 {
						val = ex
					} else if ex.Index == ei {
						errV = ex
					}
				}
			}
			if val == nil || errV == nil {
				return
			}
			// the err != nil edges
			errE := an.Expr(errV)
			for _, b := range fn.Blocks {
				ifi, ok := b.Instrs[len(b.Instrs)-1].(*ssa.If)
				if !ok {
					continue
				}
				for si := 0; si < 2; si++ {
					isErr := false
					for _, a := range an.CondAtoms(ifi.Cond, si == 0) {
						if a.L == errE && a.Op == "!=" && a.R == "nil" {
							isErr = true
						}
					}
					if !isErr {
						continue
					}
					n++
					w := an.FindPath(an.PathQuery{Fn: fn, StartBlock: b.Succs[si], Target: func(x ssa.Instruction) bool {
						if cc := an.CallOf(x); cc != nil && cc.IsInvoke() && cc.Value == val {
							return true
						}
						if fa, ok := x.(*ssa.FieldAddr); ok && fa.X == val {
							return true
						}
						return false
					}, PruneEdge: func(from *ssa.BasicBlock, k int) bool {
						// loops re-assign the value: stop at the defining block
						return from.Succs[k] == call.Block()
					}})
					k := fmt.Sprintf("result of %s not used when it failed, in %s", an.CalleeName(call), an.RelName(fn))
					seen[k]++
					key := k
					if seen[k] > 1 {
						key += fmt.Sprintf("#%d", seen[k])
					}
					if w != nil {
						c.Bad("R3", key, w.Target.Pos(), "the value returned together with a non-nil error is invoked/dereferenced on the error path (nil dereference)", c.P.TrailString(w)...)
					} else {
						c.Ok("R3", key, ifi.Pos(), "the error branch never touches the result")
					}
				}
			}
		})
	}
	c.MinCount("R3", "error branches of (value, error) calls in reachable code", n, 40)
}

// c07Typestate: A7b.
func c07Typestate(c *an.Ctx) {
	reg := actionRegistry(c, "R4")
	if reg == nil {
		return
	}
	var typeNames []string
	for tn := range reg {
		typeNames = append(typeNames, tn)
	}
	sort.Strings(typeNames)
	nAct := 0
	for _, tn := range typeNames {
		ev := c.FnOpt("internal/actions.(*" + tn + ").Evaluate")
		initFn := c.FnOpt("internal/actions.(*" + tn + ").Init")
		if ev == nil || initFn == nil {
			c.Unknown("R4", "action "+reg[tn]+" has Init and Evaluate", token.NoPos, "methods not found on "+tn)
			continue
		}
		nAct++
		typestateCheck(c, "action "+reg[tn], tn, "internal/actions", []*ssa.Function{ev}, initFn, 1)
	}
	c.MinCount("R4", "registered actions", nAct, 30)

	// operators: factories registered through Register(name, factory)
	nOp := 0
	regFn := c.FnOpt("internal/operators.Register")
	if regFn == nil {
		c.Unknown("R4", "operator registry", token.NoPos, "internal/operators.Register not found")
		return
	}
	type opInfo struct {
		name    string
		factory *ssa.Function
	}
	var ops []opInfo
	for _, f := range c.P.ModFuncs {
		if relPkg(f) != "internal/operators" {
			continue
		}
		an.Instrs(f, func(in ssa.Instruction) {
			if !an.IsCallTo(in, regFn) {
				return
			}
			call := an.CallOf(in)
			var fac *ssa.Function
			arg := call.Args[1]
			if ct, ok := arg.(*ssa.ChangeType); ok {
				arg = ct.X
			}
			switch v := arg.(type) {
			case *ssa.Function:
				fac = v
			case *ssa.MakeClosure:
				fac, _ = v.Fn.(*ssa.Function)
			}
			if fac != nil {
				ops = append(ops, opInfo{strings.Trim(an.Expr(call.Args[0]), "\""), fac})
			}
		})
	}
	sort.Slice(ops, func(i, j int) bool { return ops[i].name < ops[j].name })
	for _, op := range ops {
		// the operator struct type(s) the factory returns
		tns := map[string]bool{}
		an.Instrs(op.factory, func(in ssa.Instruction) {
			if r, ok := in.(*ssa.Return); ok && len(r.Results) == 2 {
				if mi, ok := r.Results[0].(*ssa.MakeInterface); ok {
					tns[typeBaseName(mi.X.Type().String())] = true
				}
			}
		})
		for tn := range tns {
			ev := c.FnOpt("internal/operators.(*" + tn + ").Evaluate")
			if ev == nil {
				continue
			}
			nOp++
			typestateCheck(c, "operator @"+op.name, tn, "internal/operators", []*ssa.Function{ev}, op.factory, 1)
		}
	}
	c.MinCount("R4", "registered operators with a pointer-receiver Evaluate", nOp, 20)
}

// typestateCheck: fields of type tn that `users` invoke or dereference must be assigned on every successful
// path of init (or tested for nil before the use).
func typestateCheck(c *an.Ctx, label, tn, pkgRel string, users []*ssa.Function, initFn *ssa.Function, errIdx int) {
	nn := c.P.LookupType(pkgRel, tn)
	if nn == nil {
		return
	}
	st, ok := nn.Underlying().(*types.Struct)
	if !ok {
		return
	}
	full := an.ModPath + "/" + pkgRel
	needed := map[string]ssa.Instruction{}
	for _, u := range users {
		an.Instrs(u, func(in ssa.Instruction) {
			ld, ok := in.(*ssa.UnOp)
			if !ok || ld.Op != token.MUL {
				return
			}
			fa, ok := ld.X.(*ssa.FieldAddr)
			if !ok {
				return
			}
			fieldOK := false
			for i := 0; i < st.NumFields(); i++ {
				if an.IsFieldAddrOf(fa, full, tn, st.Field(i).Name()) {
					fieldOK = true
				}
			}
			if !fieldOK {
				return
			}
			fname := an.FieldVar(fa).Name()
			switch an.FieldVar(fa).Type().Underlying().(type) {
			case *types.Pointer, *types.Interface, *types.Signature:
			default:
				return
			}
			for _, ref := range *ld.Referrers() {
				used := false
				switch r := ref.(type) {
				case *ssa.Call:
					if r.Call.IsInvoke() && r.Call.Value == ssa.Value(ld) {
						used = true
					}
					if !r.Call.IsInvoke() && r.Call.Value == ssa.Value(ld) {
						used = true // call of a func-typed field
					}
					// static method with pointer receiver dereferences inside: count when receiver is this value
					if sc := r.Call.StaticCallee(); sc != nil && sc.Signature.Recv() != nil && len(r.Call.Args) > 0 && r.Call.Args[0] == ssa.Value(ld) {
						used = true
					}
				case *ssa.FieldAddr:
					used = r.X == ssa.Value(ld)
				case *ssa.UnOp:
					used = r.Op == token.MUL && r.X == ssa.Value(ld)
				}
				if !used {
					continue
				}
				at := ref.(ssa.Instruction)
				if an.FactsAt(at).Has(an.Expr(ld), "!=", "nil") {
					continue
				}
				if _, dup := needed[fname]; !dup {
					needed[fname] = at
				}
			}
		})
	}
	var names []string
	for f := range needed {
		names = append(names, f)
	}
	sort.Strings(names)
	for _, fname := range names {
		key := fmt.Sprintf("%s: field %s.%s set before Evaluate uses it", label, tn, fname)
		isInit := func(in ssa.Instruction) bool {
			s, ok := an.StoreToField(in, full, tn, fname)
			if !ok {
				return false
			}
			if cst, isC := s.Val.(*ssa.Const); isC && cst.Value == nil {
				return false
			}
			return true
		}
		w := an.FindPath(an.PathQuery{Fn: initFn, Stop: isInit, Target: func(in ssa.Instruction) bool {
			r, ok := in.(*ssa.Return)
			if !ok {
				return false
			}
			ei := an.ErrorIndex(initFn.Signature)
			if ei < 0 {
				return true
			}
			if initFn.Signature.Results().Len() == 2 {
				// factory: only returns that hand out a value of this very type matter
				mi, isMI := r.Results[0].(*ssa.MakeInterface)
				if !isMI || typeBaseName(mi.X.Type().String()) != tn {
					return false
				}
				// the struct literal may carry the field: &T{f: v} stores precede the return on the same path
			}
			return an.ReturnMayBeNilError(r, ei) && !returnsNilValue(r, initFn)
		}})
		if why, ok := c07TypestateAllow[tn+"."+fname]; ok && w != nil {
			c.Note("R4", key, needed[fname].Pos(), "not decided mechanically; manual argument: "+why)
			continue
		}
		if w != nil {
			c.Bad("R4", key, needed[fname].Pos(), fmt.Sprintf("%s.%s is used by Evaluate without a nil check, but %s can succeed without assigning it: the first matching request panics with a nil dereference", tn, fname, an.RelName(initFn)), c.P.TrailString(w)...)
		} else {
			c.Ok("R4", key, needed[fname].Pos(), "assigned on every successful path of "+an.RelName(initFn))
		}
	}
	if len(names) == 0 {
		c.OkTrivial("R4", label+": no reference-typed field is used unguarded by Evaluate", initFn.Pos(), "nothing to initialise")
	}
}

// returnsNilValue: factory-style function returning (nil, err)/(nil, nil) in the value position.
func returnsNilValue(r *ssa.Return, fn *ssa.Function) bool {
	if fn.Signature.Results().Len() != 2 {
		return false
	}
	cst, ok := r.Results[0].(*ssa.Const)
	return ok && cst.Value == nil
}

func c07Include(c *an.Ctx) {
	fn := c.Fn("R7", "internal/seclang.(*Parser).evaluateLine")
	if fn == nil {
		return
	}
	// find the recursive call into FromFile and require a dominating comparison of an include counter with a constant bound
	ff := c.Fn("R7", "internal/seclang.(*Parser).FromFile")
	if ff == nil {
		return
	}
	n := 0
	// the recursion may sit in evaluateLine or in a private method of the parser it hands the Include to
	fns := append([]*ssa.Function{fn}, privateCallees(fn, "internal/seclang")...)
	inFns := map[*ssa.Function]bool{}
	for _, f := range fns {
		inFns[f] = true
		an.Instrs(f, func(in ssa.Instruction) {
			if !an.IsCallTo(in, ff) {
				return
			}
			n++
			fa := an.FactsAt(in)
			ok := false
			for _, a := range fa {
				if strings.Contains(a.L, "includeCount") && (a.Op == "<" || a.Op == "<=") {
					ok = true
				}
			}
			c.Check(ok, "R7", "Include recursion bounded", in.Pos(), "the recursive FromFile call is dominated by includeCount < bound", "the Include directive recurses into FromFile without a dominating bound on the include counter: a self-including file would recurse until the stack overflows", fa.Strings()...)
		})
	}
	c.MinCount("R7", "recursive FromFile calls in evaluateLine", n, 1)
	// the counter is incremented before the call
	inc := false
	for _, fs := range c.P.StoresToField("internal/seclang", "Parser", "includeCount") {
		if inFns[fs.Fn] && strings.Contains(an.Expr(fs.Store.Val), "includeCount + 1") {
			inc = true
		}
	}
	c.Check(inc, "R7", "Include counter incremented", fn.Pos(), "includeCount++ in evaluateLine", "the include counter is never incremented")
}

var c07TypestateAllow = map[string]string{
	"setvarFn.key": "strings.Cut returns an empty remainder when the separator is absent, and Init rejects an empty key part before reaching the conditional assignment, so colOk is always true there",
}

// c07Nullable: results of functions that can return a nil pointer/interface as a regular result
// must be tested before they are invoked or dereferenced.
func c07Nullable(c *an.Ctx, fns []*ssa.Function) {
	nullable := map[*ssa.Function]bool{}
	isNullable := func(f *ssa.Function) bool {
		if v, ok := nullable[f]; ok {
			return v
		}
		res := false
		if f != nil && len(f.Blocks) > 0 && c.P.InModule(f) && f.Signature.Results().Len() == 1 {
			switch f.Signature.Results().At(0).Type().Underlying().(type) {
			case *types.Pointer, *types.Interface:
				an.Instrs(f, func(in ssa.Instruction) {
					if r, ok := in.(*ssa.Return); ok {
						if cst, isC := r.Results[0].(*ssa.Const); isC && cst.Value == nil {
							res = true
						}
					}
				})
			}
		}
		nullable[f] = res
		return res
	}
	n := 0
	seen := map[string]int{}
	for _, fn := range fns {
		rp := relPkg(fn)
		if strings.HasPrefix(rp, "testing") || strings.HasPrefix(rp, "examples") {
			continue
		}
		an.Instrs(fn, func(in ssa.Instruction) {
			call, ok := in.(*ssa.Call)
			if !ok {
				return
			}
			var src *ssa.Function
			for _, callee := range c.P.Callees(call) {
				if isNullable(callee) {
					src = callee
				}
			}
			if src == nil {
				return
			}
			for _, ref := range *call.Referrers() {
				use := false
				switch r := ref.(type) {
				case *ssa.Call:
					use = r.Call.IsInvoke() && r.Call.Value == ssa.Value(call)
				case *ssa.FieldAddr:
					use = r.X == ssa.Value(call)
				case *ssa.UnOp:
					use = r.Op == token.MUL && r.X == ssa.Value(call)
				}
				if !use {
					continue
				}
				n++
				at := ref.(ssa.Instruction)
				k := fmt.Sprintf("result of %s tested before use in %s", an.RelName(src), an.RelName(fn))
				seen[k]++
				key := k
				if seen[k] > 1 {
					key += fmt.Sprintf("#%d", seen[k])
				}
				e := an.Expr(call)
				if an.FactsAt(at).Has(e, "!=", "nil") {
					c.Ok("R3", key, at.Pos(), "dominated by a non-nil test of the result")
					continue
				}
				if why, ok := c07NullableAllow[k]; ok {
					c.Note("R3", key, at.Pos(), "not decided mechanically; manual argument: "+why)
					continue
				}
				c.Bad("R3", key, at.Pos(), an.RelName(src)+" can return nil as a regular result, and the result is invoked/dereferenced here without a nil test")
			}
		})
	}
	c.MinCount("R3", "uses of results of nil-returning lookups", n, 3)
}

var c07NullableAllow = map[string]string{}

func isLenCall(v ssa.Value) bool {
	call, ok := v.(*ssa.Call)
	return ok && (an.IsBuiltinCall(call, "len") || an.IsBuiltinCall(call, "cap"))
}
