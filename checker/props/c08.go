package props

import (
	"fmt"
	"go/token"
	"go/types"
	"strings"

	"czcheck/an"

	"golang.org/x/tools/go/ssa"
)

func init() {
	register(&Property{
		ID:    "C08",
		Title: "skip, skipAfter, allow and chain steer evaluation exactly as documented",
		Explanation: "Decides the flow-control mechanism of RuleGroup.Eval, not data-dependent skip counts: R1 every path from the rule loop to Eval's return resets Skip, SkipAfter and a phase-scoped AllowType (path query over the SSA CFG); " +
			"R2 every exit edge of the rule loop is classified by its guard facts and an allow-caused exit is impossible in the logging phase unless it is allow:phase (facts on the exit edge: AllowType==All needs phase!=Logging, AllowType==Request needs phase in {1,2}); " +
			"R3 Skip/SkipAfter/AllowType have a frozen writer set and are read only by the rule loop, and Transaction.Allow stores its argument under exactly the guard RuleEngine==On; R4 exclusion lists, pending marker, skip counter and allow switch are all decided before r.Evaluate within the same iteration (facts at the call; no same-iteration path from a skipping edge to the call), a marker clears SkipAfter only on equality, the skip counter is decremented exactly once per skipped rule, an iteration bypasses the counter only for a documented cause (phase filter, removal by ctl, pending skipAfter), and the removal lists a ctl can extend are read inside the rule loop only (no snapshot); " +
			"R5 a chain member with an explicit disruptive action is rejected and the pending chain discarded on that path; R6 allow:request is reset inside the loop only at phase 2; R7 the flow and disruptive actions of a fired rule (skip, skipAfter, allow, deny ...) are evaluated under no condition other than the chain result, the chain-starter test and the action type — in particular not depending on interruption, engine mode or phase; R8 the SecMarker and SecAction directives add their rule to the rule group on every successful path. R7 also: every write of an action record in appendRuleAction writes all of Key, Value, F and Atype. R7 also: Rule.AddAction appends the action it is given on every path that reports success and never overwrites an element of the list.",
		NotDecided: []string{
			"exact number of rules skipped for data-dependent matches",
			"chain link ordering beyond C01.R6",
			"semantics of actions inside skipped rules",
		},
		Run: runC08,
	})
}

func runC08(c *an.Ctx) {
	r7AddActionAppends(c)
	m := buildEvalModel(c, "R1")
	if m == nil {
		return
	}
	unsetA := constVal(c, "R1", "internal/corazatypes", "AllowTypeUnset")
	allowPhase := constVal(c, "R1", "internal/corazatypes", "AllowTypePhase")
	allowReq := constVal(c, "R2", "internal/corazatypes", "AllowTypeRequest")
	allowAll := constVal(c, "R2", "internal/corazatypes", "AllowTypeAll")
	logging := constVal(c, "R2", "types", "PhaseLogging")
	on := constVal(c, "R3", "types", "RuleEngineOn")

	// ---- R1 end-of-phase reset.
	postStore := func(field, val string) func(ssa.Instruction) bool {
		return func(in ssa.Instruction) bool {
			st, ok := an.StoreToField(in, fullWAF, "Transaction", field)
			return ok && m.postLoop(in.Block()) && an.Expr(st.Val) == val
		}
	}
	for _, fv := range [][2]string{{"Skip", "0"}, {"SkipAfter", `""`}} {
		w := an.FindPath(an.PathQuery{Fn: m.fn, Stop: postStore(fv[0], fv[1]), Target: an.IsReturn})
		if w != nil {
			c.Bad("R1", "Eval: "+fv[0]+" reset at end of phase", w.Target.Pos(),
				"Eval can return without resetting tx."+fv[0]+" after the rule loop: a pending "+fv[0]+" would steer the rules of the next phase", c.P.TrailString(w)...)
		} else {
			c.Ok("R1", "Eval: "+fv[0]+" reset at end of phase", m.fn.Pos(), "every path to the return stores tx."+fv[0]+" = "+fv[1]+" after the rule loop")
		}
	}
	{
		w := an.FindPath(an.PathQuery{Fn: m.fn, Stop: postStore("AllowType", unsetA), Target: an.IsReturn,
			PruneEdge: func(b *ssa.BasicBlock, si int) bool {
				if !m.postLoop(b) {
					return false
				}
				return findAtom(an.EdgeFacts(b, si), ".AllowType", "!=", allowPhase) != nil
			}})
		if w != nil {
			c.Bad("R1", "Eval: allow:phase reset at end of phase", w.Target.Pos(), "Eval can return with AllowType == AllowTypePhase still set: allow:phase would leak into the next phase", c.P.TrailString(w)...)
		} else {
			c.Ok("R1", "Eval: allow:phase reset at end of phase", m.fn.Pos(), "after the loop AllowType is reset whenever it equals AllowTypePhase")
		}
	}

	// ---- R2 classification of loop exits.
	exits := m.loop.ExitEdges()
	nAllowExits := 0
	for _, e := range exits {
		b, si := e[0].(*ssa.BasicBlock), e[1].(int)
		f := an.EdgeFacts(b, si)
		pos := b.Instrs[len(b.Instrs)-1].Pos()
		if !pos.IsValid() {
			for _, in := range b.Instrs {
				if in.Pos().IsValid() {
					pos = in.Pos()
				}
			}
		}
		key := ""
		switch {
		case findAtom(f, ".AllowType", "==", allowAll) != nil:
			nAllowExits++
			key = "Eval: loop exit under AllowTypeAll"
			lo, hi, ne := f.Range("phase")
			ok := hi < atoi(logging) || lo > atoi(logging) || containsInt(ne, atoi(logging))
			c.Check(ok, "R2", key, pos, "bare allow leaves the loop only when phase != PhaseLogging", "bare allow breaks out of the rule loop in the logging phase as well: logging-phase rules would not run", f.Strings()...)
		case findAtom(f, ".AllowType", "==", allowReq) != nil:
			nAllowExits++
			lo, hi, _ := f.Range("phase")
			key = fmt.Sprintf("Eval: loop exit under AllowTypeRequest (phase in [%s,%s])", boundStr(lo), boundStr(hi))
			c.Check(lo >= 1 && hi <= 2, "R2", key, pos, "allow:request leaves the loop only in the request phases", "allow:request can break out of the rule loop outside phases 1-2", f.Strings()...)
		case findAtom(f, ".AllowType", "==", allowPhase) != nil:
			nAllowExits++
			c.Ok("R2", "Eval: loop exit under AllowTypePhase", pos, "allow:phase ends the current phase (reset by R1 before the next one)", f.Strings()...)
		case findAtom(f, ".interruption", "!=", "nil") != nil:
			lo, hi, ne := f.Range("phase")
			ok := hi < atoi(logging) || lo > atoi(logging) || containsInt(ne, atoi(logging))
			c.Check(ok, "R2", "Eval: loop exit on interruption", pos, "an interruption ends the loop only when phase != PhaseLogging", "an interruption ends the rule loop in the logging phase too", f.Strings()...)
		case b == m.loop.Header:
			c.OkTrivial("R2", "Eval: loop exit when rules are exhausted", pos, "range exhausted")
		default:
			c.Bad("R2", fmt.Sprintf("Eval: unclassified loop exit from block guarded by %s", shortFacts(f)), pos,
				"the rule loop has an exit that is not caused by interruption, allow scope or the end of the rule list: remaining rules (including logging-phase rules) may be skipped", f.Strings()...)
		}
	}
	c.MinCount("R2", "allow-caused loop exits", nAllowExits, 3)

	// ---- R3 writers of flow state.
	whoMayWrite(c, "R3", pkgWAF, "Transaction", "Skip", []storeRule{
		{fn: "internal/actions.(*skipFn).Evaluate", why: "skip action sets the counter"},
		{fn: "internal/corazawaf.(*RuleGroup).Eval", why: "decrement per skipped rule / reset at end of phase"},
		{fn: "internal/corazawaf.(*WAF).newTransaction", why: "reset", check: storesConst("0")},
	})
	whoMayWrite(c, "R3", pkgWAF, "Transaction", "SkipAfter", []storeRule{
		{fn: "internal/actions.(*skipafterFn).Evaluate", why: "skipAfter action sets the marker"},
		{fn: "internal/corazawaf.(*RuleGroup).Eval", why: "cleared at the marker / at end of phase", check: storesConst(`""`)},
		{fn: "internal/corazawaf.(*WAF).newTransaction", why: "reset", check: storesConst(`""`)},
	})
	whoMayWrite(c, "R3", pkgWAF, "Transaction", "AllowType", []storeRule{
		{fn: "internal/corazawaf.(*Transaction).Allow", why: "allow action, enforced only with the engine On", check: func(c *an.Ctx, fs an.FieldStore) (bool, string) {
			f := an.FactsAt(fs.Store)
			if _, isParam := fs.Store.Val.(*ssa.Parameter); !isParam {
				return false, "Allow stores something other than its argument: " + an.Expr(fs.Store.Val)
			}
			if len(f) == 1 && txEngine(f, "==", on) {
				return true, "stores its argument under exactly RuleEngine == On"
			}
			if !txEngine(f, "==", on) {
				return false, "Allow takes effect without the guard RuleEngine == On (DetectionOnly must not enforce allow)"
			}
			return false, "Allow is additionally conditioned (" + shortFacts(f) + "): with the engine On some allow actions would not take effect"
		}},
		{fn: "internal/corazawaf.(*RuleGroup).Eval", why: "scope expiry", check: storesConst(unsetA)},
		{fn: "internal/corazawaf.(*WAF).newTransaction", why: "reset", check: storesConst(unsetA)},
	})
	// ... and readers: the three flow-control fields are consulted by the rule loop only.
	evalOnly := map[string]string{"internal/corazawaf.(*RuleGroup).Eval": "the rule loop"}
	whoMayRead(c, "R3", pkgWAF, "Transaction", "AllowType", evalOnly, 2)
	whoMayRead(c, "R3", pkgWAF, "Transaction", "Skip", evalOnly, 1)
	whoMayRead(c, "R3", pkgWAF, "Transaction", "SkipAfter", evalOnly, 1)
	// Allow must store on every path with engine On: the only branch in Allow is the engine test.
	if af := c.Fn("R3", "internal/corazawaf.(*Transaction).Allow"); af != nil {
		nIf := 0
		an.Instrs(af, func(in ssa.Instruction) {
			if _, ok := in.(*ssa.If); ok {
				nIf++
			}
		})
		c.Check(nIf == 1, "R3", "Allow: single engine-mode branch", af.Pos(), "Allow branches only on the engine mode", fmt.Sprintf("Allow has %d branches; expected exactly the engine-mode test", nIf))
	}
	// the actions pass the configured value
	for _, an2 := range [][3]string{{"internal/actions.(*skipFn).Evaluate", "Skip", "a.data"}, {"internal/actions.(*skipafterFn).Evaluate", "SkipAfter", "a.data"}} {
		if fn := c.Fn("R3", an2[0]); fn != nil {
			for _, fs := range c.P.StoresToField(pkgWAF, "Transaction", an2[1]) {
				if fs.Fn == fn {
					c.Check(an.Expr(fs.Store.Val) == an2[2] && len(an.FactsAt(fs.Store)) == 0, "R3", an2[1]+" action stores its configured value unconditionally", fs.Store.Pos(),
						"tx."+an2[1]+" = a.data", "the action stores "+an.Expr(fs.Store.Val)+" under "+shortFacts(an.FactsAt(fs.Store)))
				}
			}
		}
	}

	// ---- R4 order inside the loop.
	// The removal tests may sit in Eval itself or in a private predicate it calls (ruleRemovedForTx(tx, id),
	// tx.removedByRange(id)): such a predicate is verified on its own (it answers false only after the lookup
	// missed / the range list was exhausted, and never answers false on an edge where the id is in the set or
	// inside a range) and its result is then read like the inline test.
	preds := c08RemovalPredicates(c, m)
	predFact := func(a an.Atom, list string, val string) bool {
		for _, p := range preds {
			if p.reads[list] && a.Op == "==" && a.R == val && strings.Contains(a.L, p.fn.Name()+"(") {
				return true
			}
		}
		return false
	}
	cf := an.FactsAt(m.call)
	need := []struct{ key, l, op, r, bad, list string }{
		{"exclusion by id consulted before r.Evaluate", "tx.ruleRemoveByID[", "==", "false", "the per-transaction ruleRemoveByID set is not consulted before the rule is evaluated", "ruleRemoveByID"},
		{"pending marker consulted before r.Evaluate", ".SkipAfter", "==", `""`, "a rule is evaluated while a skipAfter marker is pending", ""},
		{"skip counter consulted before r.Evaluate", ".Skip", "<=", "0", "a rule is evaluated while the skip counter is positive", ""},
		{"exclusion ranges exhausted before r.Evaluate", "len(tx.ruleRemoveByIDRanges)", ">=", "", "the ruleRemoveByIDRanges list is not fully scanned before the rule is evaluated", "ruleRemoveByIDRanges"},
	}
	for _, n := range need {
		ok := false
		for _, a := range cf {
			switch {
			case n.r == "" && a.Op == n.op && strings.HasSuffix(a.R, n.l):
				ok = true
			case n.r == "false" && strings.Contains(a.L, n.l) && strings.HasSuffix(a.L, "#1") && a.Op == "==" && a.R == "false":
				ok = true
			case n.r != "" && n.r != "false" && strings.HasSuffix(a.L, n.l) && a.Op == n.op && a.R == n.r:
				ok = true
			case n.list != "" && predFact(a, n.list, "false"):
				ok = true
			}
		}
		c.Check(ok, "R4", "Eval: "+n.key, m.call.Pos(), "guard fact dominates r.Evaluate", n.bad, cf.Strings()...)
	}
	// every skipping edge stays away from r.Evaluate in the same iteration
	nSkipEdges := 0
	for b := range m.loop.Blocks {
		ifi, ok := b.Instrs[len(b.Instrs)-1].(*ssa.If)
		if !ok {
			continue
		}
		for si := 0; si < 2; si++ {
			atoms := an.CondAtoms(ifi.Cond, si == 0)
			skipping, what := false, ""
			for _, a := range atoms {
				switch {
				case strings.Contains(a.L, "tx.ruleRemoveByID[") && a.R == "true":
					skipping, what = true, "rule id in ruleRemoveByID"
				case strings.HasSuffix(a.L, ".SkipAfter") && a.Op == "!=" && a.R == `""`:
					skipping, what = true, "SkipAfter pending"
				case strings.HasSuffix(a.L, ".Skip") && a.Op == ">" && a.R == "0":
					skipping, what = true, "Skip > 0"
				case strings.HasSuffix(a.L, ".ID_") && a.Op == "<=" && c08RangeBound(a.R, 1) != "" && an.FactsAtBlock(b).HasSuffix(".ID_", ">=", c08RangeBound(a.R, 1)+"[0]"):
					skipping, what = true, "rule id inside a ruleRemoveByIDRanges range (inclusive)"
				case predFact(a, "ruleRemoveByID", "true") || predFact(a, "ruleRemoveByIDRanges", "true"):
					skipping, what = true, "the removal predicate answered true"
				}
			}
			if !skipping {
				continue
			}
			nSkipEdges++
			w := m.reachesCallSameIteration(b.Succs[si])
			key := "Eval: no evaluation in the iteration where " + what
			if w != nil {
				c.Bad("R4", key, ifi.Pos(), "r.Evaluate is reachable in the same iteration although "+what, c.P.TrailString(w)...)
			} else {
				c.Ok("R4", key, ifi.Pos(), "the edge leads to the next iteration (or out of the loop) without evaluating the rule")
			}
		}
	}
	c.MinCount("R4", "skipping edges in the rule loop", nSkipEdges+c08PredEdges(preds), 4)
	// inclusive range test present (C17.R5 shares it)
	// stores inside the loop
	for _, fs := range c.P.StoresToField(pkgWAF, "Transaction", "SkipAfter") {
		if fs.Fn == m.fn && m.loop.Blocks[fs.Store.Block()] {
			f := an.FactsAt(fs.Store)
			ok := false
			for _, a := range f {
				if strings.HasSuffix(a.L, ".SecMark_") && a.Op == "==" && strings.HasSuffix(a.R, ".SkipAfter") {
					ok = true
				}
			}
			c.Check(ok, "R4", "Eval: marker clears SkipAfter only on equality", fs.Store.Pos(), "SkipAfter is cleared under r.SecMark_ == tx.SkipAfter", "SkipAfter is cleared inside the loop without the marker-equality test", f.Strings()...)
		}
	}
	nDec := 0
	for _, fs := range c.P.StoresToField(pkgWAF, "Transaction", "Skip") {
		if fs.Fn == m.fn && m.loop.Blocks[fs.Store.Block()] {
			nDec++
			f := an.FactsAt(fs.Store)
			val := an.Expr(fs.Store.Val)
			ok := f.HasSuffix(".Skip", ">", "0") && val == "(tx.Skip - 1)"
			c.Check(ok, "R4", "Eval: skip counter decremented by one per skipped rule", fs.Store.Pos(), "tx.Skip-- under tx.Skip > 0", "the in-loop store to tx.Skip is "+val+" under "+shortFacts(f))
			// not more than one decrement per iteration: no second store reachable in the same iteration
			w := an.FindPath(an.PathQuery{Fn: m.fn, After: fs.Store, Target: func(in ssa.Instruction) bool {
				_, ok := an.StoreToField(in, fullWAF, "Transaction", "Skip")
				return ok && m.loop.Blocks[in.Block()]
			}, PruneEdge: func(from *ssa.BasicBlock, si int) bool { return from.Succs[si] == m.loop.Header }})
			c.Check(w == nil, "R4", "Eval: one decrement per iteration", fs.Store.Pos(), "no second store to tx.Skip in the same iteration", "tx.Skip is written twice in one iteration")
		}
	}
	c.MinCount("R4", "in-loop decrement of tx.Skip", nDec, 1)

	// per-transaction state that rules can change while the phase runs (ctl:ruleRemoveById and its range form) is
	// read afresh for every rule: no read of it sits outside the rule loop (a snapshot taken before the loop makes a
	// ctl take effect only from the next phase on)
	for _, fld := range []string{"ruleRemoveByID", "ruleRemoveByIDRanges"} {
		nIn, nOut := 0, 0
		var outPos token.Pos
		an.Instrs(m.fn, func(in ssa.Instruction) {
			u, ok := in.(*ssa.UnOp)
			if !ok || u.Op != token.MUL || !an.IsFieldAddrOf(u.X, fullWAF, "Transaction", fld) {
				return
			}
			if m.loop.Blocks[in.Block()] {
				nIn++
			} else {
				nOut++
				outPos = in.Pos()
			}
		})
		for _, p := range preds {
			if !p.reads[fld] {
				continue
			}
			for _, cs := range p.calls {
				if m.loop.Blocks[cs.Block()] {
					nIn++
				} else {
					nOut++
					outPos = cs.Pos()
				}
			}
		}
		c.Check(nIn >= 1 && nOut == 0, "R4", "Eval: tx."+fld+" is read inside the rule loop only", outPos, fmt.Sprintf("%d reads, all inside the loop", nIn),
			fmt.Sprintf("tx.%s is read %d time(s) outside the rule loop (and %d inside): the loop works on a snapshot, so an exclusion added by a rule of this phase does not apply to the later rules of the same phase", fld, nOut, nIn))
	}

	// a rule removed for this transaction is out of the way before anything else is decided about it: the removal
	// lists are consulted before the skip counter (and the skipAfter / allow switches), so a removed rule neither
	// consumes a skip count nor ends a skipAfter
	{
		var skipBlk *ssa.BasicBlock
		an.Instrs(m.fn, func(in ssa.Instruction) {
			if u, ok := in.(*ssa.UnOp); ok && u.Op == token.MUL && an.IsFieldAddrOf(u.X, fullWAF, "Transaction", "Skip") && m.loop.Blocks[in.Block()] {
				if skipBlk == nil || in.Block().Dominates(skipBlk) {
					skipBlk = in.Block()
				}
			}
		})
		for _, fld := range []string{"ruleRemoveByID", "ruleRemoveByIDRanges"} {
			okOrder, seenLd := true, false
			an.Instrs(m.fn, func(in ssa.Instruction) {
				u, ok := in.(*ssa.UnOp)
				if !ok || u.Op != token.MUL || !an.IsFieldAddrOf(u.X, fullWAF, "Transaction", fld) || !m.loop.Blocks[in.Block()] {
					return
				}
				seenLd = true
				if skipBlk != nil && !(in.Block() != skipBlk && in.Block().Dominates(skipBlk)) {
					okOrder = false
				}
			})
			for _, p := range preds {
				if !p.reads[fld] {
					continue
				}
				for _, cs := range p.calls {
					if !m.loop.Blocks[cs.Block()] {
						continue
					}
					seenLd = true
					if skipBlk != nil && !(cs.Block() != skipBlk && cs.Block().Dominates(skipBlk)) {
						okOrder = false
					}
				}
			}
			if seenLd && skipBlk != nil {
				c.Check(okOrder, "R4", "Eval: tx."+fld+" is consulted before the skip counter", skipBlk.Instrs[0].Pos(), "removal test dominates the skip test",
					"the run-time removal list "+fld+" is looked at after the skip counter was consulted: a rule removed by ctl still uses up a skip:N count (and ends up being counted although the rewritten configuration does not contain it), so skip:N ends one rule early per removed rule in its window")
			}
		}
	}

	// skip:N counts every entry of the current phase that is not removed: an iteration may go on to the next rule
	// without having consulted the skip counter only because of the phase filter, the removal lists or a pending
	// skipAfter (facts on the continuing block); anything else (e.g. "markers need no evaluation") makes some
	// entries invisible to the counter, so skip:N passes over more rules than N.
	{
		skipRead := map[*ssa.BasicBlock]bool{}
		an.Instrs(m.fn, func(in ssa.Instruction) {
			if u, ok := in.(*ssa.UnOp); ok && u.Op == token.MUL && an.IsFieldAddrOf(u.X, fullWAF, "Transaction", "Skip") && m.loop.Blocks[in.Block()] {
				skipRead[in.Block()] = true
			}
		})
		if len(skipRead) == 0 {
			c.Unknown("R4", "Eval: skip counter consulted", m.fn.Pos(), "no read of tx.Skip inside the rule loop")
		}
		passed := func(b *ssa.BasicBlock) bool {
			for sb := range skipRead {
				if sb == b || sb.Dominates(b) {
					return true
				}
			}
			return false
		}
		// continuing blocks: in-loop predecessors of the header, looking through trivial latch blocks
		var conts []*ssa.BasicBlock
		seenB := map[*ssa.BasicBlock]bool{}
		var addPred func(b *ssa.BasicBlock, d int)
		addPred = func(b *ssa.BasicBlock, d int) {
			if seenB[b] || !m.loop.Blocks[b] || b == m.loop.Header {
				return
			}
			seenB[b] = true
			isLatch := len(b.Preds) > 1 && d < 3
			for _, x := range b.Instrs {
				switch y := x.(type) {
				case *ssa.Jump, *ssa.DebugRef, *ssa.Phi:
				case *ssa.BinOp:
					if y.Op != token.ADD && y.Op != token.SUB {
						isLatch = false
					}
				default:
					isLatch = false
				}
			}
			if isLatch { // latch: i++ ; jump
				for _, p := range b.Preds {
					addPred(p, d+1)
				}
				return
			}
			conts = append(conts, b)
		}
		for _, p := range m.loop.Header.Preds {
			addPred(p, 0)
		}
		nCont := 0
		for _, b := range conts {
			if passed(b) {
				continue
			}
			nCont++
			f := an.FactsAtBlock(b)
			legit := false
			for _, a := range f {
				switch {
				case strings.HasSuffix(a.L, ".Phase_") && a.Op == "!=" && a.R == "phase": // phase filter
					legit = true
				case strings.Contains(a.L, "ruleRemoveByID[") && a.Op == "==" && a.R == "true": // removed by id
					legit = true
				case strings.HasSuffix(a.L, ".ID_") && (c08RangeBound(a.R, 0) != "" || c08RangeBound(a.R, 1) != ""): // removed by id range
					legit = true
				case predFact(a, "ruleRemoveByID", "true") || predFact(a, "ruleRemoveByIDRanges", "true"): // removed (predicate)
					legit = true
				case strings.HasSuffix(a.L, ".SkipAfter") && a.Op == "!=" && a.R == `""`: // pending skipAfter
					legit = true
				}
			}
			key := fmt.Sprintf("Eval: iteration that bypasses the skip counter #%d has a documented cause", nCont)
			c.Check(legit, "R4", key, b.Instrs[0].Pos(), shortFacts(f),
				"an iteration goes on to the next rule without consulting tx.Skip under "+shortFacts(f)+", which is none of: phase filter, removal by ctl, pending skipAfter — such entries are not counted by skip:N, so one rule too many is skipped")
		}
		c.MinCount("R4", "iterations bypassing the skip counter", nCont, 2)
	}

	// ---- R7 (cont.) an action of the list is the whole (name, argument, function, class) record
	c08ActionRecords(c)

	// ---- R6 allow:request reset inside the loop only at phase 2.
	for _, fs := range c.P.StoresToField(pkgWAF, "Transaction", "AllowType") {
		if fs.Fn == m.fn && m.loop.Blocks[fs.Store.Block()] {
			f := an.FactsAt(fs.Store)
			ok := f.HasSuffix(".AllowType", "==", allowReq) && f.Has("phase", "==", constVal(c, "R6", "types", "PhaseRequestBody"))
			c.Check(ok, "R6", "Eval: allow:request expires at the request body phase", fs.Store.Pos(), "in-loop reset of AllowType under AllowType==Request && phase==2", "AllowType is reset inside the loop under "+shortFacts(f))
		}
	}

	// ---- R5 chain members with disruptive actions are rejected and the chain dropped.
	c08Chain(c)

	// ---- R7 the flow actions of a fired rule always run.
	c08FlowActionsRun(c)
	// ... and they are what they are classified as: the engine runs non-disruptive actions per match *before* the
	// chain is known to have completed, flow and disruptive ones once, after it.  The class of the steering actions
	// is therefore part of the contract.
	wantType := map[string]string{"skip": "ActionTypeFlow", "skipafter": "ActionTypeFlow", "chain": "ActionTypeFlow",
		"allow": "ActionTypeDisruptive", "deny": "ActionTypeDisruptive", "drop": "ActionTypeDisruptive", "redirect": "ActionTypeDisruptive", "pass": "ActionTypeDisruptive", "block": "ActionTypeDisruptive"}
	nTy := 0
	for name, want := range wantType {
		fnT := c.FnOpt("internal/actions.(*" + name + "Fn).Type")
		if fnT == nil {
			continue
		}
		nTy++
		wantV := constVal(c, "R7", "experimental/plugins/plugintypes", want)
		got := ""
		an.Instrs(fnT, func(in ssa.Instruction) {
			if r, ok := in.(*ssa.Return); ok && len(r.Results) == 1 {
				got = an.Expr(r.Results[0])
			}
		})
		c.Check(got == wantV, "R7", "action "+name+" is classified "+want, fnT.Pos(), "Type() returns "+got, "action "+name+" reports type "+got+" instead of "+want+" ("+wantV+"): the engine then runs it at another point — a flow action classified as non-disruptive fires as soon as the chain starter matches, before the links are evaluated")
	}
	c.MinCount("R7", "steering actions with a checked class", nTy, 7)
	// the allow action hands its scope to the transaction unconditionally (the engine-mode test lives in
	// Transaction.Allow, R3): no phase or state test in the action itself
	if ae := c.FnOpt("internal/actions.(*allowFn).Evaluate"); ae != nil {
		nA := 0
		an.Instrs(ae, func(in ssa.Instruction) {
			cc := an.CallOf(in)
			if cc == nil || cc.StaticCallee() == nil || cc.StaticCallee().Name() != "Allow" {
				return
			}
			nA++
			f := an.FactsAt(in)
			w := an.FindPath(an.PathQuery{Fn: ae, Stop: func(x ssa.Instruction) bool { return x == in }, Target: an.IsReturn})
			c.Check(len(f) == 0 && w == nil, "R3", "allow action applies its scope unconditionally", in.Pos(), "no guard, no path around the call", "the allow action calls Transaction.Allow only under "+shortFacts(f)+": in the other states (for example allow:request issued from a phase-2 rule) the allow is silently dropped and the remaining rules of its scope still run")
		})
		c.MinCount("R3", "Allow calls in the allow action", nA, 1)
	}

	// ---- R8 every SecMarker directive registers a marker: skipAfter resumes after the *next* marker of that name,
	// so a marker that is accepted by the parser but not added (e.g. "already defined") moves the landing point
	for _, dn := range []string{"directiveSecMarker", "directiveSecAction"} {
		fn := c.Fn("R8", "internal/seclang."+dn)
		if fn == nil {
			continue
		}
		ei := an.ErrorIndex(fn.Signature)
		w := an.FindPath(an.PathQuery{Fn: fn,
			Stop: func(x ssa.Instruction) bool {
				return an.IsCallToMethod(x, fullWAF, "RuleGroup", "Add")
			},
			Target: func(x ssa.Instruction) bool {
				r, ok := x.(*ssa.Return)
				return ok && (ei < 0 || an.ReturnMayBeNilError(r, ei))
			}})
		if w != nil {
			c.Bad("R8", dn+" adds its rule on every successful path", w.Target.Pos(), dn+" can return success without having added the marker/action rule to the rule group: the directive is accepted and silently dropped, so a skipAfter aimed at it lands elsewhere (or nowhere)", c.P.TrailString(w)...)
		} else {
			c.Ok("R8", dn+" adds its rule on every successful path", fn.Pos(), "every nil-error return follows Rules.Add")
		}
	}
}

func c08Chain(c *an.Ctx) {
	fn := c.Fn("R5", "internal/seclang.ParseRule")
	discard := c.Fn("R5", "internal/corazawaf.(*RuleGroup).DiscardPendingChain")
	hasDis := c.Fn("R5", "internal/seclang.hasDisruptiveActions")
	if fn == nil || discard == nil || hasDis == nil {
		return
	}
	// Find the branch on hasDisruptiveActions(...) == true that is dominated by parent != nil.
	var blk *ssa.BasicBlock
	for _, b := range fn.Blocks {
		f := an.FactsAtBlock(b)
		hd, par := false, false
		for _, a := range f {
			if strings.HasPrefix(a.L, "seclang.hasDisruptiveActions(") && a.Op == "==" && a.R == "true" {
				hd = true
			}
			if strings.HasPrefix(a.L, "seclang.getLastRuleExpectingChain(") && a.Op == "!=" && a.R == "nil" {
				par = true
			}
		}
		if hd && par && (blk == nil || b.Dominates(blk)) {
			blk = b
		}
	}
	if blk == nil {
		c.Bad("R5", "ParseRule: chain member with disruptive action rejected", fn.Pos(), "ParseRule has no branch `parent != nil && hasDisruptiveActions(...)`: a chain member could carry its own disruptive action")
		return
	}
	errIdx := an.ErrorIndex(fn.Signature)
	// every path from that block to a return: passes DiscardPendingChain and returns a non-nil error
	w := an.FindPath(an.PathQuery{Fn: fn, StartBlock: blk, Stop: func(in ssa.Instruction) bool { return an.IsCallTo(in, discard) }, Target: an.IsReturn})
	c.Check(w == nil, "R5", "ParseRule: pending chain discarded on rejection", blk.Instrs[0].Pos(), "every path of the rejection branch calls DiscardPendingChain", "the rejection branch can return without DiscardPendingChain: a partial chain would absorb the next rule")
	w2 := an.FindPath(an.PathQuery{Fn: fn, StartBlock: blk, Target: func(in ssa.Instruction) bool {
		r, ok := in.(*ssa.Return)
		return ok && an.ReturnMayBeNilError(r, errIdx)
	}})
	c.Check(w2 == nil, "R5", "ParseRule: chain member with disruptive action rejected", blk.Instrs[0].Pos(), "the branch returns an error", "the branch can return a nil error")
	// the test must look at the member's own actions: the argument of hasDisruptiveActions derives from rawActions via parseActions
	an.Instrs(fn, func(in ssa.Instruction) {
		if an.IsCallTo(in, hasDis) {
			arg := an.Expr(an.CallOf(in).Args[0])
			c.Check(strings.Contains(arg, "parseActions(") && strings.Contains(arg, "rawActions") || strings.Contains(arg, "parseActions("), "R5", "ParseRule: disruptive test looks at the member's own actions", in.Pos(),
				"hasDisruptiveActions(parseActions(rawActions))", "hasDisruptiveActions is applied to "+arg)
		}
	})
}

func atoi(s string) int64 {
	var v int64
	fmt.Sscan(s, &v)
	return v
}

func containsInt(l []int64, v int64) bool {
	for _, x := range l {
		if x == v {
			return true
		}
	}
	return false
}

func shortFacts(f an.Facts) string {
	var s []string
	for i, a := range f {
		if i >= 4 {
			s = append(s, "…")
			break
		}
		s = append(s, a.String())
	}
	if len(s) == 0 {
		return "no guard"
	}
	return strings.Join(s, " && ")
}

// c08FlowActionsRun: the once-per-rule action call in Rule.doEvaluate carries no foreign guard.
func c08FlowActionsRun(c *an.Ctx) {
	fn := c.Fn("R7", "internal/corazawaf.(*Rule).doEvaluate")
	if fn == nil {
		return
	}
	nondis := constVal(c, "R7", "experimental/plugins/plugintypes", "ActionTypeNondisruptive")
	n := 0
	live := an.LiveBlocks(fn)
	for _, b := range fn.Blocks {
		if !live[b] {
			continue
		}
		for _, in := range b.Instrs {
			if !an.IsCallToMethod(in, fullPT, "Action", "Evaluate") {
				continue
			}
			f := an.FactsAt(in)
			if f.HasSuffix(".Function.Type()", "==", nondis) {
				continue // per-match site (multiphase builds)
			}
			n++
			fg := foreignGuards(f, ".Function.Type()", "rangeindex", "r.actions", ".ParentID_", "*nr", "matchedValues", "matchedChainValues")
			c.Check(len(fg) == 0, "R7", "doEvaluate: flow and disruptive actions of a fired rule run unconditionally", in.Pos(),
				"guards: "+shortFacts(f), "the flow/disruptive actions of a fired rule are additionally conditioned on "+strings.Join(fg, ", ")+": in those states skip/skipAfter/allow of a matching rule silently do nothing (e.g. logging-phase rules of an interrupted transaction are no longer skipped)")
		}
	}
	c.MinCount("R7", "once-per-rule action call sites", n, 1)
}

// c08RangeBound: expr is <name>[idx] for a plain identifier (the element of a range over the id ranges, whatever
// the loop variable is called); returns the identifier.
func c08RangeBound(expr string, idx int) string {
	suf := fmt.Sprintf("[%d]", idx)
	if !strings.HasSuffix(expr, suf) {
		return ""
	}
	name := strings.TrimSuffix(expr, suf)
	if name == "" {
		return ""
	}
	for i, r := range name {
		if !(r == '_' || r >= 'a' && r <= 'z' || r >= 'A' && r <= 'Z' || i > 0 && r >= '0' && r <= '9') {
			return ""
		}
	}
	return name
}

type c08Pred struct {
	fn    *ssa.Function
	reads map[string]bool
	calls []ssa.Instruction // call sites inside Eval
	edges int               // skipping edges verified inside the predicate
}

func c08PredEdges(ps []*c08Pred) int {
	n := 0
	for _, p := range ps {
		if len(p.calls) > 0 {
			n += p.edges
		}
	}
	return n
}

// c08RemovalPredicates finds the bool-valued functions of the package that Eval calls inside the rule loop and
// that read the run-time removal lists, and verifies each: a `return false` is reached only with the set lookup
// missed and the range list exhausted (for the lists it reads), and no edge on which the id is in the set or
// inside a range leads to a `return false`.
func c08RemovalPredicates(c *an.Ctx, m *evalModel) []*c08Pred {
	var out []*c08Pred
	seen := map[*ssa.Function]*c08Pred{}
	an.Instrs(m.fn, func(in ssa.Instruction) {
		cc := an.CallOf(in)
		if cc == nil || cc.StaticCallee() == nil || !m.loop.Blocks[in.Block()] {
			return
		}
		h := cc.StaticCallee()
		if relPkg(h) != pkgWAF || h.Signature.Results().Len() != 1 || len(h.Blocks) == 0 {
			return
		}
		if b, ok := h.Signature.Results().At(0).Type().Underlying().(*types.Basic); !ok || b.Kind() != types.Bool {
			return
		}
		if p := seen[h]; p != nil {
			p.calls = append(p.calls, in)
			return
		}
		reads := map[string]bool{}
		an.Instrs(h, func(x ssa.Instruction) {
			u, ok := x.(*ssa.UnOp)
			if !ok || u.Op != token.MUL {
				return
			}
			for _, fld := range []string{"ruleRemoveByID", "ruleRemoveByIDRanges"} {
				if an.IsFieldAddrOf(u.X, fullWAF, "Transaction", fld) {
					reads[fld] = true
				}
			}
		})
		if len(reads) == 0 {
			return
		}
		p := &c08Pred{fn: h, reads: reads, calls: []ssa.Instruction{in}}
		seen[h] = p
		c.FuncsAnalysed[h] = true
		// proceed points: returns of the constant false
		var falses []*ssa.Return
		okShape := true
		an.Instrs(h, func(x ssa.Instruction) {
			r, ok := x.(*ssa.Return)
			if !ok {
				return
			}
			cst, isC := r.Results[0].(*ssa.Const)
			if !isC {
				okShape = false
				return
			}
			if an.Expr(cst) == "false" {
				falses = append(falses, r)
			}
		})
		key := "removal predicate " + h.Name()
		if !okShape || len(falses) == 0 {
			c.Unknown("R4", key+" returns constants", h.Pos(), "the predicate does not return plain true/false constants: its answer cannot be related to the removal lists")
			return
		}
		for _, r := range falses {
			f := an.FactsAt(r)
			if reads["ruleRemoveByID"] {
				ok := false
				for _, a := range f {
					if strings.Contains(a.L, ".ruleRemoveByID[") && strings.HasSuffix(a.L, "#1") && a.Op == "==" && a.R == "false" {
						ok = true
					}
				}
				c.Check(ok, "R4", key+": answers false only after the id set missed", r.Pos(), "lookup == false dominates return false", "the predicate can answer 'not removed' without having looked the id up in ruleRemoveByID", f.Strings()...)
			}
			if reads["ruleRemoveByIDRanges"] {
				ok := false
				for _, a := range f {
					if a.Op == ">=" && strings.HasSuffix(a.R, ".ruleRemoveByIDRanges)") && strings.HasPrefix(a.R, "len(") {
						ok = true
					}
				}
				c.Check(ok, "R4", key+": answers false only after the range list is exhausted", r.Pos(), "loop over ruleRemoveByIDRanges completed", "the predicate can answer 'not removed' before every id range was examined", f.Strings()...)
			}
		}
		for _, b := range h.Blocks {
			ifi, ok := b.Instrs[len(b.Instrs)-1].(*ssa.If)
			if !ok {
				continue
			}
			for si := 0; si < 2; si++ {
				skipping, what := false, ""
				for _, a := range an.CondAtoms(ifi.Cond, si == 0) {
					switch {
					case strings.Contains(a.L, ".ruleRemoveByID[") && a.R == "true":
						skipping, what = true, "id in ruleRemoveByID"
					case a.Op == "<=" && c08RangeBound(a.R, 1) != "":
						for _, g := range an.FactsAtBlock(b) {
							if g.L == a.L && g.Op == ">=" && g.R == c08RangeBound(a.R, 1)+"[0]" {
								skipping, what = true, "id inside a range (inclusive)"
							}
						}
					}
				}
				if !skipping {
					continue
				}
				p.edges++
				w := an.FindPath(an.PathQuery{Fn: h, StartBlock: b.Succs[si], Target: func(x ssa.Instruction) bool {
					for _, r := range falses {
						if x == ssa.Instruction(r) {
							return true
						}
					}
					return false
				}})
				if w != nil {
					c.Bad("R4", key+": "+what+" answers true", ifi.Pos(), "the predicate can answer 'not removed' although "+what, c.P.TrailString(w)...)
				} else {
					c.Ok("R4", key+": "+what+" answers true", ifi.Pos(), "the edge only leads to return true")
				}
			}
		}
		out = append(out, p)
	})
	return out
}

// c08ActionRecords: the rule parser keeps an action list of ruleAction records {Key, Value, F, Atype}.  Every place
// of appendRuleAction that writes such a record writes all four fields: when a later disruptive action takes the
// slot of an earlier one, keeping the old Value turns `pass ... allow:phase` into a bare `allow`.
func c08ActionRecords(c *an.Ctx) {
	fn := c.FnOpt("internal/seclang.appendRuleAction")
	if fn == nil {
		return
	}
	rt := c.P.LookupType("internal/seclang", "ruleAction")
	if rt == nil {
		return
	}
	st, ok := rt.Underlying().(*types.Struct)
	if !ok {
		return
	}
	var all []string
	for i := 0; i < st.NumFields(); i++ {
		all = append(all, st.Field(i).Name())
	}
	// writes grouped by the record they go into (a local literal, or an element of the list)
	groups := map[string]map[string]bool{}
	pos := map[string]token.Pos{}
	whole := map[string]bool{}
	an.Instrs(fn, func(in ssa.Instruction) {
		s, ok := in.(*ssa.Store)
		if !ok {
			return
		}
		if fa, ok := s.Addr.(*ssa.FieldAddr); ok && strings.HasSuffix(strings.TrimPrefix(fa.X.Type().String(), "*"), "seclang.ruleAction") {
			g := tempName.ReplaceAllString(an.Expr(fa.X), "")
			if al, isAl := fa.X.(*ssa.Alloc); isAl {
				g = fmt.Sprintf("literal@%d", al.Pos())
			}
			if groups[g] == nil {
				groups[g] = map[string]bool{}
				pos[g] = s.Pos()
			}
			groups[g][an.FieldVar(fa).Name()] = true
			return
		}
		// whole-record store into the list: the value is a literal checked as its own group
		if ia, ok := s.Addr.(*ssa.IndexAddr); ok && strings.HasSuffix(ia.Type().String(), "seclang.ruleAction") {
			whole[tempName.ReplaceAllString(an.Expr(ia), "")] = true
		}
	})
	n := 0
	for _, g := range sortedKeys(groups) {
		n++
		var missing []string
		for _, f := range all {
			if !groups[g][f] {
				missing = append(missing, f)
			}
		}
		what := "record " + fmt.Sprint(n)
		if !strings.HasPrefix(g, "literal@") {
			what = "record " + g
		}
		c.Check(len(missing) == 0, "R7", "appendRuleAction: "+what+" is written with all its fields", pos[g], strings.Join(all, ", "),
			"this write of an action record leaves "+strings.Join(missing, ", ")+" as it was: when the record replaces an earlier action (a second disruptive action in the list) the new action runs with the old action's "+strings.Join(missing, "/"))
	}
	c.MinCount("R7", "action records written by appendRuleAction", n, 2)
}
