package props

import (
	"fmt"
	"go/token"
	"go/types"
	"sort"
	"strings"

	"czcheck/an"

	"golang.org/x/tools/go/ssa"
)

func init() {
	register(&Property{
		ID:    "C04",
		Title: "A transaction's outcome is a function of configuration and request only",
		Explanation: "Decides the two structural causes of run-to-run variation, not outcome equality itself: R1 map-order taint: the position of an element in a sequence built in Go map iteration order (Map.FindAll/FindRegex and everything returning their results) never flows into a map key, a stored field or a callee that uses it that way; " +
			"R2 every range over a Go map reachable at request time is classified from its body (reset / order-insensitive accumulation / result building / formatting / overwrite / limit-dependent) and the order-sensitive classes are violations: an overwriting collection write (Set/SetIndex) keyed by the loop key, an early exit, an accumulation that stops at a limit; loops over map-ordered result slices must not overwrite a scalar variable with an element-derived value (last wins) nor be left from inside (first k win); " +
			"R5 pooled collections are emptied on Close (Map.Reset removes every key), so a long-lived WAF starts each transaction like a fresh one (details in C05); R3 the inventory of map ranges is complete (minimum count) and every loop has a class; R4 hidden inputs: reads of the wall clock, random sources, environment and process state reachable from the Transaction API are confined to the frozen set of documented sites (TIME*, UNIQUE_ID, DURATION/stopwatches, setenv/ENV).",
		NotDecided: []string{
			"equality of outcomes across repetitions as such (a hyper-property)",
			"order dependence inside third-party libraries",
			"order of multi-valued results where the property only requires multiset equality",
		},
		Run: runC04,
	})
}

// mapOrdered computes the functions whose returned slice may be in Go map iteration order.
var moSeeds = map[*ssa.Function]bool{}

func mapOrdered(c *an.Ctx) map[*ssa.Function]bool {
	mo := map[*ssa.Function]bool{}
	moSeeds = map[*ssa.Function]bool{}
	isSlice := func(t types.Type) bool { _, ok := t.Underlying().(*types.Slice); return ok }
	retSlice := func(fn *ssa.Function) bool {
		r := fn.Signature.Results()
		for i := 0; i < r.Len(); i++ {
			if isSlice(r.At(i).Type()) {
				return true
			}
		}
		return false
	}
	for _, fn := range c.P.ModFuncs {
		if !retSlice(fn) {
			continue
		}
		has := false
		an.Instrs(fn, func(in ssa.Instruction) {
			if r, ok := in.(*ssa.Range); ok {
				if _, isMap := r.X.Type().Underlying().(*types.Map); isMap {
					has = true
				}
			}
		})
		if has {
			mo[fn] = true
			moSeeds[fn] = true
		}
	}
	for changed := true; changed; {
		changed = false
		for _, fn := range c.P.ModFuncs {
			if mo[fn] || !retSlice(fn) {
				continue
			}
			derives := false
			an.Instrs(fn, func(in ssa.Instruction) {
				ret, ok := in.(*ssa.Return)
				if !ok || derives {
					return
				}
				for _, res := range ret.Results {
					if !isSlice(res.Type()) {
						continue
					}
					for d := range an.Deps(res) {
						if call, ok := d.(*ssa.Call); ok {
							for _, callee := range c.P.Callees(call) {
								if mo[callee] {
									derives = true
								}
							}
						}
					}
				}
			})
			if derives {
				mo[fn] = true
				changed = true
			}
		}
	}
	return mo
}

func runC04(c *an.Ctx) {
	roots := c07EntryPoints(c)
	reach := c.P.Reachable(roots...)
	mo := mapOrdered(c)
	var moNames []string
	for f := range mo {
		moNames = append(moNames, an.RelName(f))
	}
	sort.Strings(moNames)
	c.MinCount("R1", "functions returning map-ordered sequences", len(moNames), 6)

	// ---- R1: positions in map-ordered sequences.
	nLoops := 0
	var fns []*ssa.Function
	for fn := range reach {
		if c.P.InModule(fn) {
			fns = append(fns, fn)
		}
	}
	sort.Slice(fns, func(i, j int) bool { return fns[i].String() < fns[j].String() })
	for _, fn := range fns {
		if moSeeds[fn] {
			continue // producers re-index their own result
		}
		// slices derived from calls to map-ordered functions
		an.Instrs(fn, func(in ssa.Instruction) {
			phi, ok := in.(*ssa.Phi)
			if !ok || phi.Comment != "rangeindex" {
				return
			}
			// the ranged slice: index phi is compared with len(S)
			var S ssa.Value
			for _, ref := range *phi.Referrers() {
				if b, ok := ref.(*ssa.BinOp); ok && b.Op == token.ADD {
					for _, r2 := range *b.Referrers() {
						if cmp, ok := r2.(*ssa.BinOp); ok && cmp.Op == token.LSS {
							if call, ok := cmp.Y.(*ssa.Call); ok && an.IsBuiltinCall(call, "len") {
								S = call.Call.Args[0]
							}
						}
					}
				}
			}
			if S == nil {
				return
			}
			fromMO := ""
			for d := range an.Deps(S) {
				if call, ok := d.(*ssa.Call); ok {
					for _, callee := range c.P.Callees(call) {
						if mo[callee] {
							fromMO = an.RelName(callee)
						}
					}
				}
			}
			if fromMO == "" {
				return
			}
			nLoops++
			c.FuncsAnalysed[fn] = true
			// the position value: phi + 1
			key := fmt.Sprintf("position in %s (from %s) in %s", tempName.ReplaceAllString(an.Expr(S), ""), shortFn(fromMO), an.RelName(fn))
			if sink := positionSink(c, phi, 0, map[ssa.Value]bool{}); sink != "" {
				c.Bad("R1", key, phi.Pos(), "the position of an element in a map-ordered sequence is used as identity ("+sink+"): which element gets which position changes from run to run, so state keyed or stored by it is attributed to different elements")
			} else {
				c.Ok("R1", key, phi.Pos(), "the loop position is only used to index the sequence itself")
			}
		})
	}
	c.MinCount("R1", "loops over map-ordered sequences", nLoops, 3)

	// ---- R2/R3: classification of map ranges.
	nRanges := 0
	seen := map[string]int{}
	for _, fn := range c.P.ModFuncs {
		rp := relPkg(fn)
		if strings.HasPrefix(rp, "testing") || strings.HasPrefix(rp, "examples") || strings.HasSuffix(rp, "/generator") || strings.HasPrefix(rp, "http/e2e") {
			continue
		}
		an.Instrs(fn, func(in ssa.Instruction) {
			r, ok := in.(*ssa.Range)
			if !ok {
				return
			}
			if _, isMap := r.X.Type().Underlying().(*types.Map); !isMap {
				return
			}
			nRanges++
			c.FuncsAnalysed[fn] = true
			class, detail := classifyMapRange(c, fn, r)
			k := fmt.Sprintf("range over %s in %s", tempName.ReplaceAllString(an.Expr(r.X), ""), an.RelName(fn))
			seen[k]++
			key := k
			if seen[k] > 1 {
				key += fmt.Sprintf("#%d", seen[k])
			}
			switch class {
			case "overwrite":
				c.Bad("R2", key, r.Pos(), "a collection is overwritten (not accumulated) per map entry: "+detail+". Two entries that map to the same collection key (e.g. names differing only in case) replace each other, and which one survives depends on map iteration order")
			case "early-exit":
				c.Bad("R2", key, r.Pos(), "the loop over a Go map can stop early ("+detail+"): which entries were processed depends on map iteration order")
			case "limit":
				c.Bad("R2", key, r.Pos(), "entries are added in map iteration order until a limit is reached ("+detail+"): with more entries than the limit, which ones are kept varies from run to run")
			case "scalar":
				c.Bad("R2", key, r.Pos(), "a scalar location is overwritten per map entry ("+detail+"): the last entry in map order wins")
			default:
				c.Ok("R2", key, r.Pos(), "class "+class+": "+detail)
			}
		})
	}
	c.MinCount("R3", "ranges over Go maps in the module", nRanges, 14)

	// scalar last-wins over map-ordered slices
	c04ScalarLastWins(c, fns, mo)

	// ---- R4 hidden inputs.
	c04HiddenInputs(c, fns)

	// ---- R5 fresh vs long-lived WAF: pooled collections are really emptied (shared with C05.R2).
	if mr := c.Fn("R5", "internal/collections.(*Map).Reset"); mr != nil {
		c.Check(mapResetEmpties(mr), "R5", "Map.Reset empties the key set", mr.Pos(), "every key is deleted",
			"Map.Reset leaves keys behind: Len(), the argument limit and iteration on a long-lived WAF differ from a fresh one")
	}
	if cl := c.Fn("R5", "internal/corazawaf.(*Transaction).Close"); cl != nil {
		rf := c.P.Func("internal/corazawaf.(*TransactionVariables).reset")
		w := an.FindPath(an.PathQuery{Fn: cl, Stop: func(in ssa.Instruction) bool { return an.IsCallTo(in, rf) }, Target: an.IsReturn})
		c.Check(w == nil && rf != nil, "R5", "Close resets the variables of the pooled object", cl.Pos(), "every path calls variables.reset()", "Close can return without resetting the variables")
	}
}

// positionSink follows the loop position (phi and phi+1) and reports a use as key component or stored state.
func positionSink(c *an.Ctx, v ssa.Value, depth int, seen map[ssa.Value]bool) string {
	if depth > 4 || seen[v] {
		return ""
	}
	seen[v] = true
	refs := v.Referrers()
	if refs == nil {
		return ""
	}
	for _, ref := range *refs {
		switch r := ref.(type) {
		case *ssa.BinOp:
			if r.Op == token.ADD || r.Op == token.SUB {
				if s := positionSink(c, r, depth, seen); s != "" {
					return s
				}
			}
		case *ssa.Convert:
			if s := positionSink(c, r, depth, seen); s != "" {
				return s
			}
		case *ssa.Phi:
			if s := positionSink(c, r, depth, seen); s != "" {
				return s
			}
		case *ssa.Store:
			if r.Val == v {
				// stored into a struct literal or heap location
				if fa, ok := r.Addr.(*ssa.FieldAddr); ok {
					owner := typeBaseName(derefStr(fa.X.Type().String()))
					// composite literal used as a map key?
					if al, ok := fa.X.(*ssa.Alloc); ok {
						for _, r2 := range *al.Referrers() {
							if ld, ok := r2.(*ssa.UnOp); ok {
								for _, r3 := range *ld.Referrers() {
									switch x := r3.(type) {
									case *ssa.Lookup:
										if x.Index == ssa.Value(ld) {
											return "field " + an.FieldVar(fa).Name() + " of the map key " + owner + " at " + c.P.Position(r.Pos())
										}
									case *ssa.MapUpdate:
										if x.Key == ssa.Value(ld) {
											return "field " + an.FieldVar(fa).Name() + " of the map key " + owner + " at " + c.P.Position(r.Pos())
										}
									}
								}
							}
						}
						continue
					}
					return "stored into " + owner + "." + an.FieldVar(fa).Name() + " at " + c.P.Position(r.Pos())
				}
			}
		case *ssa.Call:
			// passed to a module function: follow the parameter
			if sc := r.Call.StaticCallee(); sc != nil && c.P.InModule(sc) && len(sc.Blocks) > 0 {
				for i, a := range r.Call.Args {
					if a == v && i < len(sc.Params) {
						if s := positionSink(c, sc.Params[i], depth+1, seen); s != "" {
							return shortFn(an.RelName(sc)) + ": " + s
						}
					}
				}
			}
		case *ssa.MapUpdate:
			if r.Key == v {
				return "map key at " + c.P.Position(r.Pos())
			}
		}
	}
	return ""
}

func derefStr(s string) string { return strings.TrimPrefix(s, "*") }

var overwritingSetters = map[string]bool{"Set": true, "SetIndex": true}

func isCollectionType(t types.Type) bool {
	s := t.String()
	return strings.Contains(s, "/collection.") || strings.Contains(s, "/internal/collections.")
}

// classifyMapRange decides the class of one range-over-map loop from its body.
func classifyMapRange(c *an.Ctx, fn *ssa.Function, r *ssa.Range) (string, string) {
	var loop *an.Loop
	for _, ref := range *r.Referrers() {
		if nx, ok := ref.(*ssa.Next); ok {
			loop = an.InnermostLoop(nx.Block())
		}
	}
	if loop == nil {
		return "unused", "no iteration"
	}
	var calls []string
	var over, limit string
	stores, appends, deletes, mapupd, format := 0, 0, 0, 0, 0
	for b := range loop.Blocks {
		for _, in := range b.Instrs {
			switch x := in.(type) {
			case *ssa.Store:
				if _, local := x.Addr.(*ssa.Alloc); !local {
					if ia, ok := x.Addr.(*ssa.IndexAddr); ok {
						_ = ia
						stores++ // element of a result slice
					} else {
						stores++
					}
				}
			case *ssa.MapUpdate:
				mapupd++
			case ssa.CallInstruction:
				cc := x.Common()
				if bi, ok := cc.Value.(*ssa.Builtin); ok {
					switch bi.Name() {
					case "append":
						appends++
					case "delete":
						deletes++
					}
					continue
				}
				name := an.CalleeName(x)
				calls = append(calls, name)
				mname := ""
				var recvT types.Type
				if cc.IsInvoke() {
					mname, recvT = cc.Method.Name(), cc.Value.Type()
				} else if sc := cc.StaticCallee(); sc != nil && sc.Signature.Recv() != nil {
					mname, recvT = sc.Name(), sc.Signature.Recv().Type()
				}
				if overwritingSetters[mname] && recvT != nil && isCollectionType(recvT) {
					over = name + " keyed by the loop entry"
				}
				if strings.HasPrefix(name, "(*strings.Builder).") || strings.HasPrefix(name, "(*bytes.Buffer).") {
					format++
				}
				// accumulation behind a limit (depth 2)
				for _, callee := range c.P.Callees(x) {
					if c.P.InModule(callee) && calleeHasLimit(c, callee, 0) {
						limit = an.RelName(callee) + " stops adding at a configured limit"
					}
				}
			}
		}
	}
	// early exits: an exit edge from a block other than the header
	for _, e := range loop.ExitEdges() {
		if e[0].(*ssa.BasicBlock) != loop.Header {
			// a return/break inside the loop
			if over == "" && limit == "" {
				// result builders with an explicit early return are still order dependent
				return "early-exit", "exit from inside the loop body at " + c.P.Position(lastPos(e[0].(*ssa.BasicBlock)))
			}
		}
	}
	sort.Strings(calls)
	switch {
	case over != "":
		return "overwrite", over
	case limit != "":
		return "limit", limit
	case deletes > 0 && stores == 0 && appends == 0 && len(calls) == 0:
		return "reset", "only deletes entries"
	case format > 0:
		return "format", "writes a textual rendering (debug/String/audit formatting); order of lines only"
	case appends > 0 || stores > 0 || mapupd > 0:
		return "build", fmt.Sprintf("builds a result (%d appends, %d element stores, %d map updates); consumers are checked by R1", appends, stores, mapupd)
	case len(calls) > 0:
		return "accumulate", "calls " + strings.Join(dedup(calls), ", ") + " per entry (accumulating writes, no overwrite)"
	}
	return "read-only", "no effect"
}

func lastPos(b *ssa.BasicBlock) token.Pos {
	p := token.NoPos
	for _, in := range b.Instrs {
		if in.Pos().IsValid() {
			p = in.Pos()
		}
	}
	return p
}

func dedup(s []string) []string {
	var out []string
	for i, x := range s {
		if i == 0 || x != s[i-1] {
			out = append(out, x)
		}
	}
	return out
}

// calleeHasLimit: the function (or a module callee, depth <= 1) returns early depending on a Len()/count compared with a limit field.
func calleeHasLimit(c *an.Ctx, fn *ssa.Function, depth int) bool {
	if depth > 1 || len(fn.Blocks) == 0 {
		return false
	}
	found := false
	an.Instrs(fn, func(in ssa.Instruction) {
		if ifi, ok := in.(*ssa.If); ok {
			e := an.Expr(ifi.Cond)
			if strings.Contains(e, "Limit") && (strings.Contains(e, "len(") || strings.Contains(e, "Len()")) {
				found = true
			}
		}
		if ci, ok := in.(ssa.CallInstruction); ok && depth == 0 {
			if sc := ci.Common().StaticCallee(); sc != nil && c.P.InModule(sc) && sc != fn {
				if calleeHasLimit(c, sc, depth+1) {
					found = true
				}
			}
		}
	})
	return found
}

// c04ScalarLastWins: loops over map-ordered slices whose body overwrites a Single (scalar) collection.
func c04ScalarLastWins(c *an.Ctx, fns []*ssa.Function, mo map[*ssa.Function]bool) {
	n := 0
	doneKeys := map[string]bool{}
	nOK := map[string]int{}
	for _, fn := range fns {
		if moSeeds[fn] {
			continue
		}
		an.Instrs(fn, func(in ssa.Instruction) {
			phi, ok := in.(*ssa.Phi)
			if !ok || phi.Comment != "rangeindex" {
				return
			}
			l := an.InnermostLoop(phi.Block())
			if l == nil || l.Header != phi.Block() {
				return
			}
			var S ssa.Value
			for _, ref := range *phi.Referrers() {
				if b, ok := ref.(*ssa.BinOp); ok && b.Op == token.ADD {
					for _, r2 := range *b.Referrers() {
						if cmp, ok := r2.(*ssa.BinOp); ok && cmp.Op == token.LSS {
							if call, ok := cmp.Y.(*ssa.Call); ok && an.IsBuiltinCall(call, "len") {
								S = call.Call.Args[0]
							}
						}
					}
				}
			}
			if S == nil {
				return
			}
			src := ""
			for d := range an.Deps(S) {
				if call, ok := d.(*ssa.Call); ok {
					for _, callee := range c.P.Callees(call) {
						if mo[callee] {
							src = an.RelName(callee)
						}
					}
				}
			}
			if src == "" {
				return
			}
			n++
			// scalar setters reachable from the body (depth 3, static callees)
			targets := map[string]bool{}
			var visit func(f *ssa.Function, d int)
			seenF := map[*ssa.Function]bool{}
			scanInstr := func(x ssa.Instruction, d int) {
				if an.IsCallToMethod(x, fullColl, "Single", "Set") {
					targets[tempName.ReplaceAllString(an.Expr(an.CallOf(x).Args[0]), "")] = true
				}
				if ci, ok := x.(ssa.CallInstruction); ok {
					if sc := ci.Common().StaticCallee(); sc != nil && c.P.InModule(sc) && d < 3 {
						visit(sc, d+1)
					}
				}
			}
			visit = func(f *ssa.Function, d int) {
				if seenF[f] {
					return
				}
				seenF[f] = true
				an.Instrs(f, func(x ssa.Instruction) { scanInstr(x, d) })
			}
			for b := range l.Blocks {
				for _, x := range b.Instrs {
					scanInstr(x, 0)
				}
			}
			key := fmt.Sprintf("scalar variables in the loop over %s in %s", shortFn(src)+" results", an.RelName(fn))
			if doneKeys[key] && len(targets) > 0 {
				return
			}
			if len(targets) > 0 {
				doneKeys[key] = true
			} else {
				nOK[key]++
				if nOK[key] > 1 {
					key += fmt.Sprintf("#%d", nOK[key])
				}
			}
			// first-k-wins: leaving the loop from inside makes the outcome depend on which elements came first
			early := false
			for _, e := range l.ExitEdges() {
				if e[0].(*ssa.BasicBlock) != l.Header {
					early = true
				}
			}
			ekey := strings.Replace(key, "scalar variables in the loop", "no early exit from the loop", 1)
			if early {
				if !doneKeys[ekey] {
					doneKeys[ekey] = true
					c.Bad("R2", ekey, phi.Pos(), "a loop over a map-ordered sequence can be left from inside: only the elements that happen to come first in this run's map order are processed, so which values match, the match data and per-match counters change from run to run")
				}
			} else {
				c.Ok("R2", ekey, phi.Pos(), "the loop runs over the whole sequence")
			}
			if len(targets) > 0 {
				c.Bad("R2", key, phi.Pos(), "inside a loop over a map-ordered sequence, scalar variables are overwritten per element ("+strings.Join(sortedKeys(targets), ", ")+"): the element that comes last in map order wins, and later readers (chained rules, macros) see a run-dependent value")
			} else {
				c.Ok("R2", key, phi.Pos(), "no scalar variable is overwritten per element")
			}
		})
	}
	c.MinCount("R2", "loops over map-ordered result sequences", n, 3)
}

// documented hidden inputs: function -> callee prefix -> reason.
var c04HiddenAllow = map[string]string{
	"internal/corazawaf.(*WAF).newTransaction|time.Now":                        "Timestamp of the transaction (TIME* variables, audit log)",
	"internal/corazawaf.(*Transaction).setTimeVariables|time.Unix":             "TIME* variables, documented as wall-clock dependent",
	"internal/corazawaf.(*RuleGroup).Eval|time.Now":                            "per-phase stopwatch (DURATION / audit stopwatch), order independent",
	"internal/corazawaf.(*WAF).NewTransaction|strings.RandomString":            "UNIQUE_ID / transaction id, documented as random",
	"internal/strings.RandomString|(rand.Source).Int63":                        "random source of the transaction id",
	"internal/actions.(*setenvFn).Evaluate|os.Setenv":                          "setenv action, documented side effect",
	"internal/auditlog.(concurrentWriter).Write|time.Unix":                     "audit file naming from the transaction timestamp",
	"internal/operators.(*rbl).Evaluate|time.After":                            "@rbl network lookup timeout (network operator, outside the quantifier)",
	"internal/operators.(*rbl).Evaluate|context.WithCancel":                    "@rbl network lookup",
	"internal/corazawaf.(*Transaction).AuditLog|time.Unix":                     "audit record timestamp",
	"internal/corazawaf.(*Transaction).AuditLog|time.Now":                      "audit record timestamp",
	"internal/corazawaf.(*Transaction).ProcessLogging|time.Now":                "audit record timestamp",
	"internal/corazawaf.(*Transaction).setTimeVariables|time.Now":              "TIME* variables",
	"internal/corazawaf.(*Transaction).setTimeVariables|(time.Time).":          "TIME* variables",
	"internal/corazawaf.(*WAF).NewTransactionWithOptions|strings.RandomString": "UNIQUE_ID / transaction id when the caller supplies none, documented as random",
	"internal/auditlog.(nativeFormatter).Format|strings.RandomString":          "random part boundary of the native audit format (not part of the outcome compared by the property)",
	"internal/auditlog.(ocsfFormatter).Format|time.Now":                        "OCSF record creation time (audit formatting only)",
	"internal/corazawaf.(*Transaction).GetStopWatch|time.Now":                  "stopwatch rendering for the audit log",
}

func c04HiddenInputs(c *an.Ctx, fns []*ssa.Function) {
	n := 0
	seen := map[string]bool{}
	for _, fn := range fns {
		an.Instrs(fn, func(in ssa.Instruction) {
			ci, ok := in.(ssa.CallInstruction)
			if !ok {
				return
			}
			name := an.CalleeName(ci)
			hidden := false
			switch {
			case name == "time.Now" || name == "time.Since" || name == "time.After" || name == "time.Unix":
				hidden = name != "time.Unix" || true
			case strings.HasPrefix(name, "rand.") || strings.Contains(name, "rand.Source") || strings.Contains(name, "rand.Rand"):
				hidden = true
			case name == "os.Getenv" || name == "os.Environ" || name == "os.Getpid" || name == "os.Hostname" || name == "os.Setenv" || name == "os.LookupEnv":
				hidden = true
			case name == "strings.RandomString":
				hidden = true
			}
			if !hidden {
				return
			}
			k := an.RelName(an.OuterFn(fn)) + "|" + name
			if seen[k] {
				return
			}
			seen[k] = true
			n++
			reason := ""
			for ak, why := range c04HiddenAllow {
				if k == ak || strings.HasPrefix(k, ak) {
					reason = why
				}
			}
			key := "hidden input " + name + " in " + an.RelName(an.OuterFn(fn))
			if reason != "" {
				c.Ok("R4", key, in.Pos(), "documented: "+reason)
			} else {
				c.Bad("R4", key, in.Pos(), "request-time code reads a hidden input ("+name+") outside the documented set (TIME*, UNIQUE_ID, stopwatches, setenv): the outcome can differ between repetitions of the same request")
			}
		})
	}
	c.MinCount("R4", "hidden-input reads reachable from the Transaction API", n, 4)
}
