// Package props wires the rule instances per property (DESIGN.md §3).
package props

import (
	"sort"

	"czcheck/an"
)

type Property struct {
	ID          string
	Title       string
	Explanation string   // which structural clauses are decided, by which rules
	NotDecided  []string // clauses of the property this check does not decide
	Assumptions []string
	Run         func(c *an.Ctx)
}

var registry = map[string]*Property{}

func register(p *Property) { registry[p.ID] = p }

func Get(id string) *Property { return registry[id] }

func All() []*Property {
	var out []*Property
	for _, p := range registry {
		out = append(out, p)
	}
	sort.Slice(out, func(i, j int) bool { return out[i].ID < out[j].ID })
	return out
}

// Configurations (DESIGN.md §1.2).
var Configs = []an.Config{
	{Name: "default"},
	{Name: "multiphase", Tags: []string{"coraza.rule.multiphase_evaluation"}},
	{Name: "case_sensitive_args_keys", Tags: []string{"coraza.rule.case_sensitive_args_keys"}},
	{Name: "no_memoize", Tags: []string{"coraza.no_memoize"}},
	{Name: "rx_prefilter", Tags: []string{"coraza.rule.rx_prefilter"}},
	{Name: "mandatory_rule_id_check", Tags: []string{"coraza.rule.mandatory_rule_id_check"}},
	{Name: "no_regex_multiline", Tags: []string{"coraza.rule.no_regex_multiline"}},
	{Name: "no_fs_access", Tags: []string{"no_fs_access"}},
	{Name: "tinygo", Tags: []string{"tinygo"}},
	{Name: "windows", GOOS: "windows"},
	{Name: "386", GOARCH: "386"},
}

func ConfigByName(n string) (an.Config, bool) {
	for _, c := range Configs {
		if c.Name == n {
			return c, true
		}
	}
	return an.Config{}, false
}

func TierConfigs(tier string) []an.Config {
	if tier == "thorough" {
		return Configs
	}
	return Configs[:1]
}

const (
	pkgWAF   = "internal/corazawaf"
	fullWAF  = an.ModPath + "/internal/corazawaf"
	fullTyp  = an.ModPath + "/types"
	fullPT   = an.ModPath + "/experimental/plugins/plugintypes"
	fullColl = an.ModPath + "/internal/collections"
)
