package props

import (
	"fmt"
	"go/token"
	"go/types"
	"os"
	"strings"

	"czcheck/an"

	"golang.org/x/tools/go/ssa"
)

func init() {
	register(&Property{
		ID:    "C09",
		Title: "Non-disruptive actions run once per match; counters add up exactly",
		Explanation: "Decides where and how often actions run and the shape of the counter updates, not the arithmetic results: R1 Action.Evaluate is invoked from a frozen set of call sites, each under no condition other than its documented type filter (non-disruptive actions per matched value; flow and disruptive actions once, by the chain starter only, after the chain walk); " +
			"R2 on every path through the 'operator matched' branch of doEvaluate the per-match hook (Rule.matchVariable) runs exactly once, never on the no-match path, and MATCHED_* are set before the actions of that match; HIGHEST_SEVERITY is written only by MatchRule (i.e. for rules that fired) and only when the rule's severity is lower than the current value; " +
			"R2 also: MATCHED_VARS is emptied before every rule under no condition other than being non-empty, and MATCHED_VARS/MATCHED_VARS_NAMES are only extended (Add) or reset, never overwritten per name; R3 the RULE collection and the capture flag are set before any operator or action of the rule runs, and TX.0-9 are written by CaptureField only under the rule's capture flag; R4 the logging actions write exactly the documented (Log, Audit) flags; " +
			"R6 code running during a transaction reads the transaction's copy of every setting that WAF and Transaction both hold (AuditLogParts, body access and limits, engine modes), never the configured WAF value, except as the upper bound of a ctl limit; R5 setvar's '+'/'-' branches add / subtract the number parsed from the text after the sign to / from the number parsed from the current value, and macros are expanded inside Evaluate (at match time), not at Init. R3 also: the collection write of CaptureField is reachable for every index 0..9. R5 also: every strconv parse in the setvar arithmetic leaves the function on its error branch (no substitute value flows into the sum).",
		NotDecided: []string{
			"the arithmetic itself (strconv, integer overflow) and macro expansion results",
			"totals at the end of a phase (follow from once-per-match plus the arithmetic)",
			"order of matches within a target (see C04 known finding)",
		},
		Run: runC09,
	})
}

func runC09(c *an.Ctx) {
	r7SetvarParseErrors(c, "R5")
	nondis := constVal(c, "R1", "experimental/plugins/plugintypes", "ActionTypeNondisruptive")
	flow := constVal(c, "R1", "experimental/plugins/plugintypes", "ActionTypeFlow")
	disr := constVal(c, "R1", "experimental/plugins/plugintypes", "ActionTypeDisruptive")

	// ---- R1 call sites of Action.Evaluate
	n := 0
	perFn := map[string]int{}
	for _, fn := range c.P.ModFuncs {
		rp := relPkg(fn)
		if strings.HasPrefix(rp, "testing") || strings.HasPrefix(rp, "examples") {
			continue
		}
		live := an.LiveBlocks(fn)
		for _, b := range fn.Blocks {
			if !live[b] {
				continue
			}
			for _, in := range b.Instrs {
				if !an.IsCallToMethod(in, fullPT, "Action", "Evaluate") {
					continue
				}
				n++
				name := an.RelName(fn)
				perFn[name]++
				key := fmt.Sprintf("Action.Evaluate call #%d in %s", perFn[name], name)
				c.FuncsAnalysed[fn] = true
				f := an.FactsAt(in)
				if os.Getenv("CZ_DEBUG_FACTS") != "" {
					fmt.Fprintln(os.Stderr, "FACTS", key, f.Strings())
				}
				// a private helper of the package with a single call site inside one of the two owning functions acts
				// on the owner's behalf, under the facts of that call (the action loop extracted into its own method)
				role := name
				if role != "internal/corazawaf.(*Rule).matchVariable" && role != "internal/corazawaf.(*Rule).doEvaluate" && relPkg(fn) == pkgWAF && !token.IsExported(fn.Name()) {
					sites := c.P.CallSites(func(x ssa.Instruction) bool { return an.IsCallTo(x, fn) })
					if len(sites) == 1 {
						on := an.RelName(sites[0].Fn)
						if on == "internal/corazawaf.(*Rule).matchVariable" || on == "internal/corazawaf.(*Rule).doEvaluate" {
							role = on
							f = append(append(an.Facts{}, an.FactsAt(sites[0].Call)...), f...)
						}
					}
				}
				switch role {
				case "internal/corazawaf.(*Rule).matchVariable":
					ok := f.HasSuffix(".Function.Type()", "==", nondis)
					if fg := foreignGuards(f, ".Function.Type()", "rangeindex", "r.actions"); ok && len(fg) > 0 {
						c.Bad("R1", key+": no other condition", in.Pos(), "the per-match actions are additionally conditioned on "+strings.Join(fg, ", ")+": in those states setvar/capture-style actions silently do not run for a match")
					} else if ok {
						c.Ok("R1", key+": no other condition", in.Pos(), "only the action type filter guards the call")
					}
					c.Check(ok, "R1", key, in.Pos(), "non-disruptive actions only (per matched value)", "the per-match action loop evaluates actions that are not filtered to ActionTypeNondisruptive: flow/disruptive actions would run once per matched value", f.Strings()...)
				case "internal/corazawaf.(*Rule).doEvaluate":
					if f.HasSuffix(".Function.Type()", "==", nondis) {
						// multiphase per-match site
						c.Ok("R1", key, in.Pos(), "multiphase per-match evaluation of non-disruptive actions")
						continue
					}
					// flow/disruptive once: every path of the iteration to the call passes Type()==Flow or Type()==Disruptive
					l := an.InnermostLoop(in.Block())
					okType := false
					if l != nil {
						var body *ssa.BasicBlock
						for _, s := range l.Header.Succs {
							if l.Blocks[s] {
								body = s
							}
						}
						w := an.FindPath(an.PathQuery{Fn: fn, StartBlock: body, Target: func(x ssa.Instruction) bool { return x == in },
							PruneEdge: func(bb *ssa.BasicBlock, si int) bool {
								if bb.Succs[si] == l.Header {
									return true
								}
								ifi, ok := bb.Instrs[len(bb.Instrs)-1].(*ssa.If)
								if !ok {
									return false
								}
								for _, a := range an.CondAtoms(ifi.Cond, si == 0) {
									if strings.HasSuffix(a.L, ".Function.Type()") && a.Op == "==" && (a.R == flow || a.R == disr) {
										return true
									}
								}
								return false
							}})
						okType = w == nil
					}
					okParent := f.HasSuffix(".ParentID_", "==", "0")
					// nothing else decides: the chain walk result, the chain-starter test and the loop itself
					if fg := foreignGuards(f, ".Function.Type()", "rangeindex", "r.actions", ".ParentID_", "*nr", "matchedValues", "matchedChainValues"); len(fg) > 0 {
						c.Bad("R1", key+": no other condition", in.Pos(), "the flow/disruptive actions of a fired rule are additionally conditioned on "+strings.Join(fg, ", ")+": in those states skip/skipAfter/allow/deny of a matching rule silently do not run (e.g. in the logging phase of an interrupted transaction)")
					} else {
						c.Ok("R1", key+": no other condition", in.Pos(), "only the chain result, the chain-starter test and the action type decide")
					}
					c.Check(okType && okParent, "R1", key, in.Pos(), "flow and disruptive actions only, chain starter only",
						"the once-per-rule action loop is not restricted to flow/disruptive actions of the chain starter (type filter: "+fmt.Sprint(okType)+", ParentID_ == 0: "+fmt.Sprint(okParent)+")", f.Strings()...)
					// after the chain walk: the loop is not reachable when a link failed (C01.R6) and follows the recursive calls
					if okType {
						rec := false
						an.Instrs(fn, func(x ssa.Instruction) {
							if an.IsCallTo(x, fn) && x.Block().Dominates(in.Block()) == false {
								// the chain walk precedes on every path: from entry to the call without passing the chain loop header is fine when r.Chain == nil
								rec = true
							}
						})
						_ = rec
					}
				default:
					c.Bad("R1", key, in.Pos(), "actions are evaluated from a function outside the frozen set (Rule.matchVariable, Rule.doEvaluate): they would run at another multiplicity")
				}
			}
		}
	}
	want := 2
	c.MinCount("R1", "Action.Evaluate call sites", n, want)

	// ---- R2 once per matching value
	de := c.Fn("R2", "internal/corazawaf.(*Rule).doEvaluate")
	rmv := c.Fn("R2", "internal/corazawaf.(*Rule).matchVariable")
	tmv := c.Fn("R2", "internal/corazawaf.(*Transaction).matchVariable")
	execOp := c.P.Func("internal/corazawaf.(*Rule).executeOperator")
	if de != nil && rmv != nil && execOp != nil {
		live := an.LiveBlocks(de)
		var calls []ssa.Instruction
		for _, b := range de.Blocks {
			if !live[b] {
				continue
			}
			for _, in := range b.Instrs {
				if an.IsCallTo(in, rmv) {
					calls = append(calls, in)
				}
			}
		}
		c.MinCount("R2", "per-match hook calls in doEvaluate", len(calls), 2)
		for i, call := range calls {
			f := an.FactsAt(call)
			matched := false
			for _, a := range f {
				if strings.Contains(a.L, "executeOperator(") && a.Op == "==" && a.R == "true" {
					matched = true
				}
				if a.L == "r.operator" && a.Op == "==" && a.R == "nil" {
					matched = true // SecAction / SecMarker: forced match
				}
			}
			c.Check(matched, "R2", fmt.Sprintf("doEvaluate: per-match hook #%d only when the value matched", i+1), call.Pos(), "dominated by executeOperator == true (or the forced match of SecAction)", "non-disruptive actions run for values that did not match", f.Strings()...)
			// no second hook in the same iteration
			l := an.InnermostLoop(call.Block())
			w := an.FindPath(an.PathQuery{Fn: de, After: call, Target: func(x ssa.Instruction) bool { return an.IsCallTo(x, rmv) },
				PruneEdge: func(bb *ssa.BasicBlock, si int) bool { return l != nil && bb.Succs[si] == l.Header }})
			c.Check(w == nil, "R2", fmt.Sprintf("doEvaluate: per-match hook #%d runs once per matched value", i+1), call.Pos(), "no second call in the same iteration", "the per-match hook can run twice for one matched value: setvar counters would be incremented twice")
		}
		// every matched value reaches the hook: from the match==true edge no path to the next iteration avoids it
		for _, b := range de.Blocks {
			if !live[b] {
				continue
			}
			ifi, ok := b.Instrs[len(b.Instrs)-1].(*ssa.If)
			if !ok {
				continue
			}
			if cc, ok := ifi.Cond.(*ssa.Call); ok && cc.Call.StaticCallee() == execOp {
				l := an.InnermostLoop(b)
				if l == nil {
					continue
				}
				w := an.FindPath(an.PathQuery{Fn: de, StartBlock: b.Succs[0], Stop: func(x ssa.Instruction) bool { return an.IsCallTo(x, rmv) },
					Target: func(x ssa.Instruction) bool { return x.Block() == l.Header && x == l.Header.Instrs[0] }})
				c.Check(w == nil, "R2", "doEvaluate: every matched value triggers the per-match hook", ifi.Pos(), "the match branch always reaches r.matchVariable before the next value", "a matched value can be passed over without running the rule's non-disruptive actions")
			}
		}
	}
	if rmv != nil && tmv != nil {
		// MATCHED_* set before the actions of that match
		var first ssa.Instruction
		an.Instrs(rmv, func(in ssa.Instruction) {
			if an.IsCallToMethod(in, fullPT, "Action", "Evaluate") && first == nil {
				first = in
			}
		})
		if first != nil {
			w := an.FindPath(an.PathQuery{Fn: rmv, Stop: func(in ssa.Instruction) bool { return an.IsCallTo(in, tmv) }, Target: func(in ssa.Instruction) bool { return in == first }})
			c.Check(w == nil, "R2", "matchVariable: MATCHED_* updated before the match's actions run", first.Pos(), "tx.matchVariable precedes the action loop", "actions can run before MATCHED_VAR/MATCHED_VARS describe the current match: macros expand to the previous match")
		}
	}
	// HIGHEST_SEVERITY
	nHS := 0
	for _, fn := range c.P.ModFuncs {
		an.Instrs(fn, func(in ssa.Instruction) {
			if !an.IsCallToMethod(in, fullColl, "Single", "Set") {
				return
			}
			recv := tempName.ReplaceAllString(an.Expr(an.CallOf(in).Args[0]), "")
			if !strings.HasSuffix(recv, ".highestSeverity") {
				return
			}
			nHS++
			name := an.RelName(fn)
			switch name {
			case "internal/corazawaf.(*Transaction).MatchRule":
				f := an.FactsAt(in)
				lower, set := false, false
				for _, a := range f {
					isSev := func(e string) bool {
						return strings.HasSuffix(e, ".Severity_.Int()") || strings.HasSuffix(e, ".Severity_")
					}
					isCur := func(e string) bool { return strings.Contains(e, "Atoi(") && strings.Contains(e, "highestSeverity") }
					if isSev(a.L) && a.Op == "<" && isCur(a.R) || isCur(a.L) && a.Op == ">" && isSev(a.R) { // severity < current, either way round
						lower = true
					}
					if strings.HasSuffix(a.L, ".Severity_") && a.Op == "!=" {
						set = true
					}
				}
				val := tempName.ReplaceAllString(an.Expr(an.CallOf(in).Args[1]), "")
				c.Check(lower && set && strings.Contains(val, ".Severity_"), "R2", "MatchRule: HIGHEST_SEVERITY lowered only by a set, lower severity", in.Pos(), "Set(Itoa(severity)) under severity set && severity < current",
					"HIGHEST_SEVERITY is updated to "+val+" under "+shortFacts(f)+" (expected: only when the rule's severity is set and lower than the current value)")
			case "internal/corazawaf.(*WAF).newTransaction":
				c.Ok("R2", "newTransaction seeds HIGHEST_SEVERITY", in.Pos(), "default value")
			default:
				if onlyCalledFrom(c, fn, []string{"internal/corazawaf.(*Transaction).MatchRule"}, 0) {
					c.Ok("R2", "HIGHEST_SEVERITY written in "+name, in.Pos(), "helper called only from MatchRule")
					return
				}
				if onlyCalledFrom(c, fn, []string{"internal/corazawaf.(*WAF).newTransaction"}, 0) {
					c.Ok("R2", "HIGHEST_SEVERITY written in "+name, in.Pos(), "initialisation helper called only from newTransaction")
					return
				}
				c.Bad("R2", "HIGHEST_SEVERITY written in "+name, in.Pos(), "HIGHEST_SEVERITY is updated outside MatchRule: rules that did not fire (for instance a chain starter whose chain did not complete) can lower it")
			}
		})
	}
	c.MinCount("R2", "writers of HIGHEST_SEVERITY", nHS, 2)

	// MATCHED_VARS describes the matches of the rule being evaluated: before every rule it is emptied, under no
	// condition other than "it is not empty" (a leftover of the previous rule — or of the previous phase — would be
	// read by a chained link or a rule targeting MATCHED_VARS as if it were its own)
	if m := buildEvalModel(c, "R2"); m != nil {
		var resets []ssa.Instruction
		an.Instrs(m.fn, func(in ssa.Instruction) {
			cc := an.CallOf(in)
			if cc == nil || cc.StaticCallee() == nil || cc.StaticCallee().Name() != "Reset" || len(cc.Args) == 0 || !m.loop.Blocks[in.Block()] {
				return
			}
			if strings.HasSuffix(tempName.ReplaceAllString(an.Expr(cc.Args[0]), ""), ".variables.matchedVars") {
				resets = append(resets, in)
			}
		})
		if len(resets) == 0 {
			c.Bad("R2", "Eval empties MATCHED_VARS before each rule", m.fn.Pos(), "the rule loop no longer resets MATCHED_VARS before evaluating a rule")
		} else {
			var body *ssa.BasicBlock
			for _, sx := range m.loop.Header.Succs {
				if m.loop.Blocks[sx] && sx != m.loop.Header {
					body = sx
				}
			}
			w := an.FindPath(an.PathQuery{Fn: m.fn, StartBlock: body,
				Stop:   func(x ssa.Instruction) bool { return x == resets[0] || len(resets) > 1 && x == resets[1] },
				Target: func(x ssa.Instruction) bool { return x == m.call },
				PruneEdge: func(b *ssa.BasicBlock, si int) bool {
					if b.Succs[si] == m.loop.Header {
						return true
					}
					ifi, ok := b.Instrs[len(b.Instrs)-1].(*ssa.If)
					if !ok {
						return false
					}
					for _, a := range an.CondAtoms(ifi.Cond, si == 0) {
						if strings.Contains(a.L, ".variables.matchedVars") && (strings.Contains(a.L, "len(") || strings.Contains(a.L, ".Len()")) && (a.Op == "<=" || a.Op == "==" || a.Op == "<") {
							return true // nothing to reset
						}
					}
					return false
				}})
			if w != nil {
				c.Bad("R2", "Eval empties MATCHED_VARS before each rule", resets[0].Pos(), "a rule can be evaluated without MATCHED_VARS having been emptied although it is not empty: a chained link or a rule targeting MATCHED_VARS is then evaluated over what an earlier rule (possibly of the previous phase) matched", c.P.TrailString(w)...)
			} else {
				c.Ok("R2", "Eval empties MATCHED_VARS before each rule", resets[0].Pos(), "every path to r.Evaluate passes the reset or the 'already empty' edge")
			}
		}
	}
	// MATCHED_VARS / MATCHED_VARS_NAMES accumulate one entry per match: the only mutators used on them are
	// Add (one more entry) and Reset (new rule); an overwriting write collapses matches that share a name.
	nMV := 0
	addInHook := false
	for _, fn := range c.P.ModFuncs {
		rp := relPkg(fn)
		if strings.HasPrefix(rp, "testing") || strings.HasPrefix(rp, "examples") {
			continue
		}
		an.Instrs(fn, func(in ssa.Instruction) {
			cc := an.CallOf(in)
			if cc == nil || len(cc.Args) == 0 {
				return
			}
			callee := cc.StaticCallee()
			if callee == nil || callee.Signature.Recv() == nil {
				return
			}
			recv := tempName.ReplaceAllString(an.Expr(cc.Args[0]), "")
			if !strings.HasSuffix(recv, ".variables.matchedVars") && !strings.HasSuffix(recv, ".variables.matchedVarsNames") {
				return
			}
			switch callee.Name() {
			case "Set", "SetIndex", "Remove":
				nMV++
				c.Bad("R2", "MATCHED_VARS mutated by "+callee.Name()+" in "+an.RelName(fn), in.Pos(), "MATCHED_VARS is written with "+callee.Name()+", which replaces what an earlier match stored under the same name: k matches of ARGS:a leave one entry, and a chained rule over MATCHED_VARS runs its actions once instead of k times")
			case "Add":
				nMV++
				if fn == tmv {
					addInHook = true
				}
				c.Ok("R2", "MATCHED_VARS extended by Add in "+an.RelName(fn), in.Pos(), "one more entry per match")
			case "Reset":
				nMV++
			}
		})
	}
	c.MinCount("R2", "mutators of MATCHED_VARS", nMV, 2)
	if tmv != nil {
		c.Check(addInHook, "R2", "Transaction.matchVariable adds the match to MATCHED_VARS", tmv.Pos(), "matchedVars.Add(name, value)", "the per-match hook no longer adds the matched value to MATCHED_VARS")
	}

	// TX.0-9 are written by operators only for rules carrying the capture action: either CaptureField tests
	// the flag itself or every call site does.
	if cf := c.Fn("R3", "internal/corazawaf.(*Transaction).CaptureField"); cf != nil {
		guardedInside, nW := true, 0
		an.Instrs(cf, func(in ssa.Instruction) {
			cc := an.CallOf(in)
			if cc == nil || cc.StaticCallee() == nil || cc.StaticCallee().Signature.Recv() == nil {
				return
			}
			if n := cc.StaticCallee().Name(); n != "SetIndex" && n != "Set" && n != "Add" {
				return
			}
			if !strings.Contains(relPkg(cc.StaticCallee()), "collections") {
				return
			}
			nW++
			if !an.FactsAt(in).HasSuffix(".Capture", "==", "true") {
				guardedInside = false
			}
			// ... and for every slot 0..9: no guard on the index parameter may exclude one of them
			if len(cf.Params) >= 2 {
				lo, hi, ne := an.FactsAt(in).Range(cf.Params[1].Name())
				excl := ""
				for _, x := range ne {
					if x >= 0 && x <= 9 {
						excl = fmt.Sprintf(" (and %d is excluded)", x)
					}
				}
				c.Check(lo <= 0 && hi >= 9 && excl == "", "R3", "CaptureField stores every slot TX.0 to TX.9", in.Pos(), "no guard narrows the index below 0..9",
					fmt.Sprintf("the collection write in CaptureField is only reached for index %d..%d%s: operators that capture ten texts (the match and nine groups, ten @pm hits) silently lose the rest", lo, hi, excl))
			}
		})
		if nW == 0 {
			c.Unknown("R3", "CaptureField writes TX", cf.Pos(), "no collection write found in CaptureField")
		} else if guardedInside {
			c.Ok("R3", "CaptureField writes TX.n only under the rule's capture flag", cf.Pos(), "the collection write is dominated by tx.Capture == true")
		} else {
			// fall back to the call sites
			var bad []string
			for _, s := range c.P.CallSites(func(in ssa.Instruction) bool {
				return an.IsCallTo(in, cf) || an.IsCallToMethod(in, fullPT, "TransactionState", "CaptureField")
			}) {
				f := an.FactsAt(s.Call)
				if !f.HasSuffix(".Capturing()", "==", "true") && !f.HasSuffix(".Capture", "==", "true") {
					bad = append(bad, an.RelName(s.Fn))
				}
			}
			c.Check(len(bad) == 0, "R3", "CaptureField writes TX.n only under the rule's capture flag", cf.Pos(), "every call site tests Capturing()", "CaptureField no longer tests tx.Capture and these callers do not test Capturing() either: "+strings.Join(bad, ", ")+" — a rule without the capture action overwrites TX.0-9 set by an earlier capturing rule")
		}
	}

	// a rule runs its own actions and the inherited default ones: when the two lists are merged, an action is left
	// out only because of its class (metadata defaults; the default disruptive action when the rule has its own) —
	// never because of its name or value, so an inherited setvar/ctl is not displaced by the rule's setvar and a
	// repeated log/nolog/auditlog keeps its position (the flags depend on the order)
	if ma := c.Fn("R1", "internal/seclang.mergeActions"); ma != nil {
		nApp := 0
		an.Instrs(ma, func(in ssa.Instruction) {
			if !an.IsBuiltinCall(in, "append") {
				return
			}
			nApp++
			var foreign []string
			for _, a := range an.FactsAt(in) {
				switch {
				case strings.HasSuffix(a.L, ".Atype"):
				case strings.HasSuffix(a.L, ".Key") && strings.HasPrefix(a.R, "\""):
				case strings.Contains(a.L, "rangeindex") || strings.Contains(a.R, "len("):
				case a.R == "true" || a.R == "false":
					// the "rule has its own disruptive action" flag
					if strings.Contains(a.L, "(") && !strings.HasPrefix(a.L, "φ(") && !strings.HasPrefix(a.L, "*") {
						foreign = append(foreign, tempName.ReplaceAllString(a.String(), ""))
					}
				default:
					foreign = append(foreign, tempName.ReplaceAllString(a.String(), ""))
				}
			}
			c.Check(len(foreign) == 0, "R1", fmt.Sprintf("mergeActions: append #%d depends on the action's class only", nApp), in.Pos(), "guards on Atype / the block keyword / the disruptive flag",
				"when merging a rule's actions with the inherited defaults an action is kept only if additionally "+strings.Join(foreign, ", ")+": actions are then dropped by name or value — an inherited setvar/ctl disappears when the rule has one of its own, or a repeated nolog/auditlog loses its place in the order the logging flags depend on")
		})
		c.MinCount("R1", "appends in mergeActions", nApp, 3)
	}

	// %{COLLECTION.key} expands to the first value stored under the key whenever there is one — an empty value
	// is a value (an unset capture group, a flag, an empty argument); only a missing key falls back to the text
	if et := c.FnOpt("experimental/plugins/macro.expandToken"); et != nil {
		nRet := 0
		an.Instrs(et, func(in ssa.Instruction) {
			r, ok := in.(*ssa.Return)
			if !ok || len(r.Results) != 1 {
				return
			}
			e := tempName.ReplaceAllString(an.Expr(r.Results[0]), "")
			if !strings.Contains(e, ".Get(") || !strings.Contains(e, "[") {
				return
			}
			nRet++
			var foreign []string
			for _, a := range an.FactsAt(r) {
				l := tempName.ReplaceAllString(a.L, "")
				if strings.Contains(l, ".Get(") && strings.Contains(l, ")[") {
					foreign = append(foreign, tempName.ReplaceAllString(a.String(), ""))
				}
			}
			c.Check(strings.HasSuffix(e, "[0]") && len(foreign) == 0, "R5", "macro expansion returns the first value stored under the key", r.Pos(), e,
				"the value a keyed macro expands to is "+e+" under "+strings.Join(foreign, ", ")+": a variable that exists with an empty value (an empty capture, a flag set without value, an empty argument) no longer expands to \"\" — setvar keys and sums built from it are computed from the macro's own text or from another value")
		})
		c.MinCount("R5", "keyed returns of expandToken", nRet, 1)
	}

	// ---- R3 RULE collection and capture flag before anything of the rule runs
	if de != nil && execOp != nil {
		var firstUse ssa.Instruction
		an.Instrs(de, func(in ssa.Instruction) {
			if firstUse == nil && (an.IsCallTo(in, execOp) || an.IsCallTo(in, rmv)) {
				firstUse = in
			}
		})
		checks := []struct {
			key  string
			stop func(in ssa.Instruction) bool
		}{
			{"capture flag copied from the rule", func(in ssa.Instruction) bool {
				st, ok := an.StoreToField(in, fullWAF, "Transaction", "Capture")
				return ok && an.Expr(st.Val) == "r.Capture"
			}},
			{"RULE.id set", func(in ssa.Instruction) bool {
				return an.IsCallToMethod(in, fullColl, "Map", "SetIndex") && an.Expr(an.CallOf(in).Args[1]) == `"id"`
			}},
			{"RULE.severity set", func(in ssa.Instruction) bool {
				return an.IsCallToMethod(in, fullColl, "Map", "SetIndex") && an.Expr(an.CallOf(in).Args[1]) == `"severity"`
			}},
		}
		for _, ch := range checks {
			// all executeOperator / matchVariable calls
			bad := false
			an.Instrs(de, func(in ssa.Instruction) {
				if an.IsCallTo(in, execOp) || an.IsCallTo(in, rmv) {
					if w := an.FindPath(an.PathQuery{Fn: de, Stop: ch.stop, Target: func(x ssa.Instruction) bool { return x == in }}); w != nil {
						bad = true
					}
				}
			})
			c.Check(!bad, "R3", "doEvaluate: "+ch.key+" before operators and actions", de.Pos(), "set on every path before the first operator/action", ch.key+": an operator or action of the rule can run before it (captures or %{rule.*} macros would refer to the previous rule)")
		}
		_ = firstUse
	}

	// ---- R4 logging flag table
	table := map[string]map[string]string{
		"logFn":        {"Log": "true", "Audit": "true"},
		"nologFn":      {"Log": "false", "Audit": "false"},
		"auditlogFn":   {"Audit": "true"},
		"noauditlogFn": {"Audit": "false"},
	}
	for _, tn := range sortedKeys(table) {
		fn := c.Fn("R4", "internal/actions.(*"+tn+").Init")
		if fn == nil {
			continue
		}
		got := map[string]string{}
		an.Instrs(fn, func(in ssa.Instruction) {
			for _, fld := range []string{"Log", "Audit"} {
				if st, ok := an.StoreToField(in, fullWAF, "Rule", fld); ok {
					got[fld] = an.Expr(st.Val)
				}
			}
		})
		ok := len(got) == len(table[tn])
		for k, v := range table[tn] {
			if got[k] != v {
				ok = false
			}
		}
		c.Check(ok, "R4", strings.TrimSuffix(tn, "Fn")+" sets the documented logging flags", fn.Pos(), fmt.Sprint(table[tn]), fmt.Sprintf("%s writes %v, documented %v", tn, got, table[tn]))
		// every successful path stores them
		for fld := range table[tn] {
			fld := fld
			w := an.FindPath(an.PathQuery{Fn: fn, Stop: func(in ssa.Instruction) bool {
				_, ok := an.StoreToField(in, fullWAF, "Rule", fld)
				return ok
			}, Target: func(in ssa.Instruction) bool {
				r, ok := in.(*ssa.Return)
				return ok && an.ReturnMayBeNilError(r, 0)
			}})
			c.Check(w == nil, "R4", strings.TrimSuffix(tn, "Fn")+" always writes "+fld, fn.Pos(), "stored on every successful path", "Init can succeed without writing Rule."+fld)
		}
	}
	// readers of the flags
	for _, fld := range []string{"Log", "Audit"} {
		for _, fs := range c.P.StoresToField(pkgWAF, "Rule", fld) {
			name := an.RelName(fs.Fn)
			ok := strings.HasPrefix(name, "internal/actions.(*") && strings.HasSuffix(name, ".Init") || name == "internal/corazawaf.NewRule"
			c.Check(ok, "R4", "Rule."+fld+" written by "+name, fs.Store.Pos(), "logging action / constructor", "Rule."+fld+" is written outside the logging actions")
		}
	}

	// ---- R6 transaction-time code works on the transaction's own copy of a setting.
	c09TwinSettings(c)

	// ---- R5 setvar shape
	if fn := c.Fn("R5", "internal/actions.(*setvarFn).evaluateTxCollection"); fn != nil {
		plus, minus := 0, 0
		// the arithmetic is located by its operands (parsed current value, parsed delta), wherever it sits: directly
		// inside the Set call of its branch, or computed into a local that the branches merge before one Set call.
		// The condition it runs under is read from its block, or from the edge it enters a merge on.
		an.Instrs(fn, func(in ssa.Instruction) {
			b, ok := in.(*ssa.BinOp)
			if !ok || (b.Op != token.ADD && b.Op != token.SUB) {
				return
			}
			x, y := tempName.ReplaceAllString(an.Expr(b.X), ""), tempName.ReplaceAllString(an.Expr(b.Y), "")
			if !(strings.Contains(x, "Atoi(") && strings.Contains(x, ".Get(key)[0]")) || !strings.Contains(y, "Atoi(value[1:])#0") {
				return
			}
			var under []an.Facts
			onlyPhis := len(*b.Referrers()) > 0
			for _, ref := range *b.Referrers() {
				phi, isPhi := ref.(*ssa.Phi)
				if !isPhi {
					onlyPhis = false
					continue
				}
				for i, e := range phi.Edges {
					if e != ssa.Value(b) {
						continue
					}
					pred := phi.Block().Preds[i]
					si := 0
					for k, sc := range pred.Succs {
						if sc == phi.Block() {
							si = k
						}
					}
					under = append(under, an.EdgeFacts(pred, si))
				}
			}
			if !onlyPhis {
				under = []an.Facts{an.FactsAtBlock(b.Block())}
				if st := an.FactsAt(in); len(st) > 0 {
					under = []an.Facts{st}
				}
			}
			isPlus, isMinus := len(under) > 0, len(under) > 0
			for _, f := range under {
				if !f.Has("value[0]", "==", "43") {
					isPlus = false
				}
				if !f.Has("value[0]", "!=", "43") {
					isMinus = false
				}
			}
			val := "(" + x + " " + b.Op.String() + " " + y + ")"
			desc := ""
			if len(under) > 0 {
				desc = shortFacts(under[0])
			}
			if b.Op == token.ADD {
				plus++
				c.Check(isPlus, "R5", "setvar: '+' adds the parsed delta to the parsed current value", in.Pos(), val, "the addition is "+val+" under "+desc+": expected Atoi(current) + Atoi(value[1:]) under value[0]=='+'")
			} else {
				minus++
				c.Check(isMinus, "R5", "setvar: '-' subtracts the parsed delta from the parsed current value", in.Pos(), val, "the subtraction is "+val+" under "+desc+": expected under value[0]!='+'")
			}
		})
		// ... and what is stored is the decimal rendering of that result
		nSet := 0
		an.Instrs(fn, func(in ssa.Instruction) {
			cc := an.CallOf(in)
			if cc == nil || !cc.IsInvoke() || cc.Method.Name() != "Set" {
				return
			}
			val := tempName.ReplaceAllString(an.Expr(cc.Args[1]), "")
			if strings.Contains(val, "strconv.Itoa(") && strings.Contains(val, "Atoi(value[1:])#0") && strings.Contains(val, ".Get(key)[0]") {
				nSet++
			}
		})
		c.Check(nSet >= 1, "R5", "setvar stores the decimal rendering of the arithmetic result", fn.Pos(), fmt.Sprintf("%d Set call(s) of Itoa(current (+|-) delta)", nSet), "no Set call stores Itoa(Atoi(current) (+|-) Atoi(value[1:]))")
		c.Check(plus == 1 && minus == 1, "R5", "setvar has one addition and one subtraction branch", fn.Pos(), "1 + 1", fmt.Sprintf("%d addition and %d subtraction branches found", plus, minus))
		// the arithmetic branch is entered on a leading sign only
		okEntry := false
		an.Instrs(fn, func(in ssa.Instruction) {
			if an.IsCallToFunc(in, "strconv", "Atoi") && strings.Contains(an.Expr(an.CallOf(in).Args[0]), "value[1:]") {
				f := an.FactsAt(in)
				if f.Has("len(value)", ">", "1") {
					okEntry = true
				}
			}
		})
		c.Check(okEntry, "R5", "setvar parses the delta from the text after the sign", fn.Pos(), "Atoi(value[1:]) under a leading '+' or '-'", "the delta is not parsed from value[1:] under a leading sign")
	}
	if ev := c.Fn("R5", "internal/actions.(*setvarFn).Evaluate"); ev != nil {
		nExp := 0
		an.Instrs(ev, func(in ssa.Instruction) {
			cc := an.CallOf(in)
			if cc != nil && cc.IsInvoke() && cc.Method.Name() == "Expand" && an.Expr(cc.Args[0]) == "tx" {
				nExp++
			}
		})
		c.Check(nExp >= 2, "R5", "setvar expands its macros at match time", ev.Pos(), fmt.Sprintf("%d Expand(tx) calls in Evaluate", nExp), "setvar does not expand key and value macros inside Evaluate: %{...} would reflect the state at compile time or of another match")
		// nothing cached in the action from a previous evaluation
		for _, fld := range []string{"key", "value", "collection", "isRemove"} {
			for _, fs := range c.P.StoresToField("internal/actions", "setvarFn", fld) {
				c.Check(an.RelName(fs.Fn) == "internal/actions.(*setvarFn).Init", "R5", "setvar."+fld+" written only at Init ("+an.RelName(fs.Fn)+")", fs.Store.Pos(), "compile-time state", "the shared setvar action is mutated at request time")
			}
		}
	}
}

// c09TwinSettings: every setting that a ctl action (or a connector) may change per transaction exists twice, as
// WAF.F (configuration) and Transaction.F (copied by newTransaction, then changed by ctl).  Code that runs during
// a transaction must read Transaction.F: reading WAF.F instead silently undoes what earlier rules of the same
// transaction did (ctl:auditLogParts=+E applied to the configured parts, body access decided from the
// configuration although a ctl switched it).  The twins are computed from the two struct types; the only
// transaction-time readers of a WAF twin allowed are pure upper-bound comparisons (ctl limits may not exceed the
// configured limit) in a function that goes on to store the transaction's field of the same name.
func c09TwinSettings(c *an.Ctx) {
	txT, wafT := c.P.LookupType(pkgWAF, "Transaction"), c.P.LookupType(pkgWAF, "WAF")
	if txT == nil || wafT == nil {
		c.Unknown("R6", "Transaction and WAF types resolve", token.NoPos, "type not found")
		return
	}
	txS, ok1 := txT.Underlying().(*types.Struct)
	wafS, ok2 := wafT.Underlying().(*types.Struct)
	if !ok1 || !ok2 {
		return
	}
	twin := map[string]bool{}
	for i := 0; i < txS.NumFields(); i++ {
		for j := 0; j < wafS.NumFields(); j++ {
			if txS.Field(i).Name() == wafS.Field(j).Name() && types.Identical(txS.Field(i).Type(), wafS.Field(j).Type()) && txS.Field(i).Name() != "WAF" {
				twin[txS.Field(i).Name()] = true
			}
		}
	}
	c.MinCount("R6", "settings held both by WAF and Transaction", len(twin), 6)
	nReads := 0
	seen := map[string]int{}
	for _, fn := range c.P.ModFuncs {
		rp := relPkg(fn)
		if rp != "internal/actions" && rp != pkgWAF && rp != "http" && rp != "internal/operators" && rp != "internal/bodyprocessors" && rp != "internal/auditlog" {
			continue
		}
		outer := an.OuterFn(fn)
		if recv := outer.Signature.Recv(); recv != nil && strings.HasSuffix(strings.TrimPrefix(recv.Type().String(), "*"), "corazawaf.WAF") {
			continue // the WAF's own methods (newTransaction copies the settings, Validate checks them)
		}
		if rp == pkgWAF && (outer.Name() == "NewWAF" || outer.Name() == "init") {
			continue
		}
		an.Instrs(fn, func(in ssa.Instruction) {
			ld, ok := in.(*ssa.UnOp)
			if !ok || ld.Op != token.MUL {
				return
			}
			fa, ok := ld.X.(*ssa.FieldAddr)
			if !ok || !strings.HasSuffix(strings.TrimPrefix(fa.X.Type().String(), "*"), "corazawaf.WAF") {
				return
			}
			name := an.FieldVar(fa).Name()
			if !twin[name] {
				return
			}
			nReads++
			c.FuncsAnalysed[fn] = true
			k := "WAF." + name + " read during a transaction in " + an.RelName(fn)
			seen[k]++
			key := k
			if seen[k] > 1 {
				key += fmt.Sprintf("#%d", seen[k])
			}
			boundOnly := len(*ld.Referrers()) > 0
			for _, r := range *ld.Referrers() {
				b, isB := r.(*ssa.BinOp)
				if !isB || !(b.Op == token.GTR || b.Op == token.LSS || b.Op == token.GEQ || b.Op == token.LEQ) {
					boundOnly = false
				}
			}
			storesOwn := false
			for _, fs := range c.P.StoresToField(pkgWAF, "Transaction", name) {
				if fs.Fn == fn {
					storesOwn = true
				}
			}
			if boundOnly && storesOwn {
				c.Ok("R6", key, in.Pos(), "used only as the upper bound of the value stored into Transaction."+name)
			} else {
				c.Bad("R6", key, in.Pos(), "code that runs during a transaction reads the configured WAF."+name+" where the transaction carries its own "+name+" (copied at creation, changed by ctl actions): what an earlier rule of this transaction set is ignored or undone")
			}
		})
	}
	c.MinCount("R6", "transaction-time readers of a WAF twin", nReads, 0)
}
