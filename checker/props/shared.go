package props

import (
	"regexp"
	"sync"

	"czcheck/an"
)

// Share says that the obligations of one rule (restricted to a family of constructs) also
// decide a necessary condition of another property: the twenty properties overlap (a
// transaction whose state leaks into the next one violates isolation, C05, and makes the
// outcome depend on more than configuration and request, C04), and a change that breaks the
// shared clause breaks both.  A shared obligation is reported by the check of To exactly when
// the rule of From reports it; it adds no new demand on the code, only a second attribution.
//
// Every entry was added because an independently written, behaviour-confirmed defect for To
// (seeded/<id>) turned out to be decided by From's rule; Key/Pos restrict the share to the
// family of constructs through which To's behaviour depends on the clause, so that a defect of
// From that leaves To intact is not reported under To.
type Share struct {
	To   string // property the obligation is also reported under
	From string // property owning the rule
	Rule string // rule of From
	Key  string // regexp over the obligation's construct key ("" = every construct of the rule)
	Pos  string // regexp over the obligation's source position ("" = anywhere)
	Why  string // why the clause is a necessary condition of To
	Seed string // the seeded defect(s) of To that exhibited the dependency
	// Zero: the owning rule expects no instance of these constructs on a healthy tree ("no store
	// to a shared Rule"), so the share legitimately matches nothing today.
	Zero bool
}

const (
	reMemoKey  = `prefix "regexp:"|memoize site in internal/corazawaf\.\(\*Rule\)\.AddVariable`
	reBodyBuf  = `(?i)bodybuffer`
	reBodyConf = `Body(Limit|Access)`
)

var Shares = []Share{
	// C01: matching is exact
	{To: "C01", From: "C12", Rule: "R3", Key: `transformArg`, Why: "the value handed to the operator is the output of the rule's transformation chain; a wrong running value is a phantom or missed match", Seed: "C01-C"},
	{To: "C01", From: "C14", Rule: "R5", Why: "the operator input is the chain output: a failed or skipped step must not replace the running value", Seed: "C01-C"},
	{To: "C01", From: "C13", Rule: "R1", Key: reMemoKey, Why: "a regex key selector must be the regex that was written: a cache key that loses the folding hands the rule another rule's selector", Seed: "C01-D"},
	{To: "C01", From: "C13", Rule: "R2", Key: reMemoKey, Why: "same as C13.R1 for the selector memoisation sites", Seed: "C01-D"},
	{To: "C01", From: "C16", Rule: "R4", Key: `ParseVariables`, Why: "the targets evaluated are the targets written: a flag leaking onto the next target changes what is matched", Seed: "C01-E"},
	{To: "C01", From: "C09", Rule: "R2", Key: `MATCHED_VARS`, Why: "chain links reading MATCHED_VARS must see this rule's matches only", Seed: "C01-G"},
	{To: "C01", From: "C03", Rule: "R7", Key: `always stored`, Why: "a received value that never reaches its collection is a missed match for every rule targeting it", Seed: "C01-J"},

	{To: "C01", From: "C17", Rule: "R4", Key: `ctl: rule loop`, Why: "a run-time target exclusion that does not reach every rule of its id range leaves phantom matches on the excluded argument", Seed: "C01-L"},
	// C02: interruption and engine modes
	{To: "C02", From: "C08", Rule: "R1", Key: `reset at end of phase`, Why: "an interrupted phase must leave the same flow state as a completed one: the exit taken on interruption passes through the end-of-phase resets", Seed: "C02-C"},
	{To: "C02", From: "C05", Rule: "R1", Key: `Transaction\.RuleEngine`, Why: "engine modes hold only if every transaction starts from the WAF's mode", Seed: "C02-G"},
	{To: "C02", From: "C16", Rule: "R2", Key: `internal/actions\.\(\*(status|deny|drop|redirect|block|allow|pass)Fn\)`, Why: "the status and action of the interruption are the ones written in the rule", Seed: "C02-H"},

	{To: "C02", From: "C17", Rule: "R5", Key: `DeleteByID`, Why: "removing a rule must keep the others in configuration order: the first rule to interrupt is decided by that order", Seed: "C02-K"},
	{To: "C02", From: "C17", Rule: "R6", Key: `ClearDisruptiveActions`, Why: "an action update must not change the status the rule interrupts with", Seed: "C02-L"},
	// C03: request data visible, never dropped
	{To: "C03", From: "C10", Rule: "R5", Key: reBodyBuf, Why: "rules see the body through the buffer: bytes lost in the buffer are dropped request data", Seed: "C03-D"},
	{To: "C03", From: "C10", Rule: "R6", Key: reBodyBuf, Why: "same as C10.R5 for the spill path", Seed: "C03-D"},
	{To: "C03", From: "C20", Rule: "R3", Pos: `internal/bodyprocessors/`, Why: "a body processor that tolerates more than the documented error silently drops the rest of the body", Seed: "C03-F"},
	{To: "C03", From: "C05", Rule: "R2", Key: `Reset`, Why: "stale names of a pooled collection count against the argument limit and push out received data", Seed: "C03-G"},
	{To: "C03", From: "C18", Rule: "R5", Why: "the connector must hand every request body to the transaction", Seed: "C03-I"},

	{To: "C03", From: "C09", Rule: "R6", Key: `BodyAccess`, Why: "whether a body is read is decided by the transaction's own switch (a ctl may have turned it on)", Seed: "C03-K", Zero: true},
	{To: "C03", From: "C10", Rule: "R1", Why: "the request-body entry points must agree on limits and access: bytes that one of them silently refuses are dropped request data", Seed: "C03-K C03-L"},
	{To: "C03", From: "C10", Rule: "R2", Why: "as C10.R1", Seed: "C03-L"},
	// C04: outcome is a function of configuration and request only
	{To: "C04", From: "C05", Rule: "R1", Why: "state surviving from an earlier transaction makes the outcome depend on history (C05 is the pooled-object instance of C04)", Seed: "C04-J"},
	{To: "C04", From: "C05", Rule: "R2", Why: "as C05.R1", Seed: "C03-G"},
	{To: "C04", From: "C05", Rule: "R3", Why: "as C05.R1", Seed: "C09-H"},
	{To: "C04", From: "C05", Rule: "R4", Why: "as C05.R1", Seed: "C04-H"},
	{To: "C04", From: "C13", Rule: "R1", Key: reMemoKey, Why: "which of two rules populated the cache first must not decide what the other one matches", Seed: "C04-C"},
	{To: "C04", From: "C13", Rule: "R2", Key: reMemoKey, Why: "as C13.R1", Seed: "C04-C"},
	{To: "C04", From: "C14", Rule: "R1", Why: "a transformation result aliasing a pooled buffer changes with what ran before it", Seed: "C04-D"},
	{To: "C04", From: "C07", Rule: "R6", Pos: `internal/collections/`, Why: "an index derived from two walks of a Go map is only in range when both walks agree, which the runtime does not promise", Seed: "C04-G"},
	{To: "C04", From: "C15", Rule: "R1", Key: `capture loop`, Why: "a capture slot left over from the previously examined value makes the result depend on the order values were examined in", Seed: "C04-I"},

	{To: "C04", From: "C03", Rule: "R7", Key: `loop #\d+ over bodyprocessors\.readJSON|is complete`, Why: "an ingestion loop over a Go map that can stop early keeps a run-dependent subset of the body", Seed: "C04-K"},
	// C05: isolation from earlier transactions
	{To: "C05", From: "C06", Rule: "R1", Why: "a write to WAF- or rule-owned state during a transaction outlives it and is seen by the next one", Seed: "C05-G C05-H"},

	// C06: safe to share
	{To: "C06", From: "C05", Rule: "R5", Why: "a transaction returned to the pool before Close is done with it is used by two goroutines", Seed: "C06-F"},
	{To: "C06", From: "C05", Rule: "R2", Key: `Reset`, Why: "collections of a pooled transaction that keep their keys make concurrent users of the pool see each other", Seed: "C06-D"},
	{To: "C06", From: "C13", Rule: "R3", Why: "the pattern cache is shared by all WAFs of the process: its lock pairing is part of race freedom", Seed: "C06-E"},
	{To: "C06", From: "C13", Rule: "R5", Why: "Regexp.Longest mutates a compiled pattern that the cache shares between goroutines", Seed: "C06-J"},
	{To: "C06", From: "C19", Rule: "R4", Key: `serial writer`, Why: "records of concurrent transactions interleave unless each is emitted by one write", Seed: "C06-C"},

	{To: "C06", From: "C13", Rule: "R2", Why: "a cached object that the key does not determine is another WAF's object: concurrent WAFs in one process see each other", Seed: "C06-L"},
	{To: "C08", From: "C02", Rule: "R2", Key: `handed to RemoveRule`, Why: "a malformed ctl must not remove rule 0, i.e. every SecMarker that skipAfter relies on", Seed: "C08-L"},
	{To: "C17", From: "C02", Rule: "R2", Key: `handed to RemoveRule`, Why: "a ctl removal acts on the ids written, not on the parser's failure value", Seed: "C08-L"},
	// C09: non-disruptive actions, counters
	{To: "C09", From: "C14", Rule: "R5", Key: `(?i)multimatch`, Why: "with multiMatch the actions run once per collected value: the collection rule decides how often", Seed: "C09-E"},
	{To: "C09", From: "C15", Rule: "R1", Key: `capture loop`, Why: "the capture action's TX.0-9 must be this match's groups", Seed: "C09-F"},
	{To: "C09", From: "C08", Rule: "R4", Key: `ruleRemoveBy`, Why: "a ctl removal executed by a matched rule must take effect for the rules after it", Seed: "C09-G"},
	{To: "C09", From: "C05", Rule: "R3", Why: "counters add up only from their documented initial value in every transaction", Seed: "C09-H"},

	{To: "C09", From: "C17", Rule: "R5", Key: `ClearDisruptiveActions`, Why: "an action update replaces the disruptive action only: flow and non-disruptive actions keep running once per match", Seed: "C09-L"},
	// C10: body buffering and limits
	{To: "C10", From: "C05", Rule: "R1", Key: reBodyConf, Why: "limits are enforced exactly only if each transaction starts from the configured limits", Seed: "C10-C"},
	{To: "C10", From: "C05", Rule: "R4", Key: reBodyBuf, Why: "a recycled buffer that keeps bytes or its length is not byte-faithful for the next body", Seed: "C10-H"},
	{To: "C10", From: "C20", Rule: "R2", Key: reBodyBuf, Why: "as C05.R4 on the failure path of Close", Seed: "C10-H"},
	{To: "C10", From: "C18", Rule: "R5", Why: "the body that is buffered is the body the connector read", Seed: "C10-I"},

	{To: "C10", From: "C03", Rule: "R7", Key: `multipart`, Why: "under ProcessPartial exactly the first limit bytes are inspected, including the part the limit cuts", Seed: "C10-K"},
	// C11: prefilter
	{To: "C11", From: "C07", Rule: "R6", Pos: `internal/operators/rxprefilter`, Why: "a prefilter that panics on a pattern changes what @rx does with it", Seed: "C11-I"},
	{To: "C11", From: "C15", Rule: "R4", Pos: `internal/operators/rxprefilter`, Why: "as C07.R6", Seed: "C11-I"},

	// C12: transformation cache
	{To: "C12", From: "C14", Rule: "R5", Why: "the cached value is the running value: what is stored and returned must be the chain's output", Seed: "C12-H"},
	{To: "C12", From: "C14", Rule: "R1", Why: "a cached string aliasing a reused buffer is silently replaced by a later value", Seed: "C12-D C12-F"},
	{To: "C12", From: "C06", Rule: "R1", Key: `corazawaf\.Rule`, Why: "a transformed value parked in the shared rule is another transaction's value", Seed: "C12-I", Zero: true},

	{To: "C12", From: "C09", Rule: "R3", Key: `RULE\.`, Why: "a rule whose target is RULE is evaluated against the content set for this rule", Seed: "C12-K"},
	// C13: pattern caching invisible
	{To: "C13", From: "C12", Rule: "R2", Why: "cache keys must identify what they cache at full width", Seed: "C13-I"},

	{To: "C13", From: "C16", Rule: "R2", Key: `regex key .* compiled as written`, Why: "the pattern compiled must be the text the cache key was made from", Seed: "C13-K"},
	{To: "C13", From: "C06", Rule: "R2", Key: `memoize`, Why: "construction must not fail (or crash) because another WAF touches the shared cache entry", Seed: "C13-L"},

	// C14: transformations
	{To: "C14", From: "C15", Rule: "R8", Pos: `internal/transformations/`, Why: "lowercase/uppercase and the decoders equal their definitions only if their character classes are complete", Seed: "C14-L"},

	// C15: operators decide their predicates
	{To: "C15", From: "C11", Rule: "R3", Key: `case-fold arithmetic`, Why: "OR-ing 0x20 into a byte before a range test accepts bytes outside the documented class", Seed: "C15-D"},

	{To: "C15", From: "C09", Rule: "R3", Key: `CaptureField stores every slot`, Why: "capturing operators store the matched texts in TX.0-9", Seed: "C15-K"},

	// C16: directive text
	{To: "C16", From: "C13", Rule: "R1", Key: reMemoKey, Why: "a selector written in one rule must not be replaced by the selector written in another", Seed: "C16-C"},
	{To: "C16", From: "C13", Rule: "R2", Key: reMemoKey, Why: "as C13.R1", Seed: "C16-C"},
	{To: "C16", From: "C01", Rule: "R8", Key: `AddVariable`, Why: "an exclusion written once applies to every target of that collection in the rule", Seed: "C16-F"},
	{To: "C16", From: "C17", Rule: "R5", Key: `AddVariable`, Why: "as C01.R8", Seed: "C16-F"},

	// C17: exclusions and updates
	{To: "C17", From: "C01", Rule: "R2", Key: `exception`, Why: "target exclusions are applied by GetField's exception predicate", Seed: "C17-F"},
	{To: "C17", From: "C01", Rule: "R8", Key: `AddVariableNegation|exception`, Why: "as C01.R2 for where exceptions are attached", Seed: "C16-F"},
	{To: "C17", From: "C08", Rule: "R4", Key: `ruleRemoveBy`, Why: "a removed rule must behave as if it had never been written, also for skip counting", Seed: "C17-J"},

	// C18: middleware
	{To: "C18", From: "C10", Rule: "R5", Key: reBodyBuf, Why: "the middleware passes on what the buffer holds", Seed: "C18-C"},
	{To: "C18", From: "C10", Rule: "R6", Key: reBodyBuf, Why: "as C10.R5", Seed: "C18-C"},
	{To: "C18", From: "C05", Rule: "R4", Key: reBodyBuf, Why: "bodies of a pooled transaction must not reach the next request or response", Seed: "C18-F"},
	{To: "C18", From: "C20", Rule: "R2", Key: reBodyBuf, Why: "as C05.R4", Seed: "C18-F"},
	{To: "C18", From: "C20", Rule: "R4", Why: "the middleware turns an API error of ProcessRequestBody into an aborted exchange", Seed: "C18-H"},

	{To: "C18", From: "C07", Rule: "R9", Why: "the client receives the interruption's status only if the delegate writer accepts it", Seed: "fix30"},

	{To: "C18", From: "C10", Rule: "R3", Key: `ResponseBodyLimit`, Why: "a response limit above the buffer's own makes the handler's writes fail half way", Seed: "C18-K"},
	// C19: audit and error logging
	{To: "C19", From: "C06", Rule: "R1", Key: `(?i)audit`, Why: "the audit configuration of the WAF must not be rewritten by a transaction", Seed: "C19-E"},
	{To: "C19", From: "C05", Rule: "R1", Key: `(?i)audit`, Why: "as C06.R1", Seed: "C19-E"},
	{To: "C19", From: "C09", Rule: "R1", Key: `mergeActions`, Why: "whether a rule logs is the merge of default and own log/nolog/auditlog actions in order", Seed: "C19-I"},
	{To: "C19", From: "C02", Rule: "R2", Key: `detectionOnlyInterruption`, Why: "in DetectionOnly the logged interruption is the first would-be one", Seed: "C19-J"},

	// C20: failures reported, no temporary files left
	{To: "C20", From: "C05", Rule: "R4", Key: reBodyBuf, Why: "the buffer's reset is what removes its temporary file", Seed: "C20-D"},
	{To: "C20", From: "C05", Rule: "R1", Key: reBodyConf, Why: "whether exceeding a limit is reported depends on the transaction carrying the configured limit", Seed: "C20-J"},
	{To: "C20", From: "C10", Rule: "R1", Key: `Write(Request|Response)Body`, Why: "reaching the limit is a failure that has to be reported at exactly the limit", Seed: "C20-E"},
	{To: "C20", From: "C10", Rule: "R2", Key: `Write(Request|Response)Body`, Why: "as C10.R1", Seed: "C20-E"},
	{To: "C20", From: "C16", Rule: "R2", Key: `ParseUploadKeepFilesStatus`, Why: "whether temporary files are kept is the setting written last", Seed: "C20-K"},
	{To: "C20", From: "C18", Rule: "R2", Why: "Close, which removes the temporary files, runs however the handler ends", Seed: "C20-L"},
	{To: "C20", From: "C06", Rule: "R1", Key: `audit writer`, Why: "an audit target that cannot be opened is reported when the WAF is built, not swallowed at the first record", Seed: "C20-G"},
	// round 7
	{To: "C13", From: "C06", Rule: "R3", Key: `released on every path`, Pos: `internal/memoize/`, Why: "the pattern cache is shared by every WAF of the process: an entry lock that stays held blocks the construction and the closing of other WAFs", Seed: "C06-E"},
	{To: "C01", From: "C14", Rule: "R2", Why: "with multiMatch the operator is handed the outputs that report a change: a transformation that wrongly reports \"unchanged\" hides its output from the rule (missed match)", Seed: "C01-M"},
	{To: "C01", From: "C05", Rule: "R1", Key: `Transaction\.(AllowType|Skip|SkipAfter)\b`, Why: "flow state left over from an earlier transaction makes Eval pass over rules whose targets match", Seed: "C01-N"},
	{To: "C03", From: "C05", Rule: "R1", Key: reBodyConf, Why: "whether and how far the body is read is this transaction's setting, seeded from the WAF at hand-out: a predecessor's ctl override silently drops the next request's body", Seed: "C03-M"},
	{To: "C04", From: "C09", Rule: "R5", Key: `used only where it parsed`, Why: "a sum continued with a substitute for an unparsable value depends on the order the values were visited in", Seed: "C04-M"},
	{To: "C04", From: "C18", Rule: "R2", Key: `deferred clean-up`, Why: "a transaction closed twice is pooled twice: two later transactions share one object and see each other's data", Seed: "C04-N"},
	{To: "C05", From: "C18", Rule: "R2", Key: `deferred clean-up`, Why: "as for C04: the pooled object is handed to two transactions at once", Seed: "C04-N"},
	{To: "C05", From: "C10", Rule: "R1", Why: "the body entry points recognise \"limit already reached\" from the buffer's length, which Reset zeroes: a separate latch survives the pooled object", Seed: "C05-M"},
	{To: "C07", From: "C05", Rule: "R4", Key: `reader`, Why: "a reader that survives Reset reads released storage with a stale position: slice bounds out of range", Seed: "C07-M"},
	{To: "C07", From: "C20", Rule: "R3", Key: `Init stores`, Why: "a half-configured audit writer is a nil dereference in ProcessLogging", Seed: "C07-N fix39"},
	{To: "C09", From: "C02", Rule: "R1", Key: `Eval\(`, Why: "a phase evaluated twice runs every non-disruptive action of its rules twice", Seed: "C09-M"},
	{To: "C09", From: "C17", Rule: "R1", Key: `only one for its token`, Why: "an update attached twice makes each of its actions run twice per match", Seed: "C09-N"},
	{To: "C10", From: "C18", Rule: "R4", Key: `delegate Write`, Why: "the connector forwards the buffered bytes before the bytes written after them", Seed: "C10-M"},
	{To: "C12", From: "C01", Rule: "R4", Key: `doEvaluate: datum`, Why: "the value inspected is the selected value of the target being evaluated, read when that target is evaluated", Seed: "C12-N"},
	{To: "C13", From: "C04", Rule: "R4", Pos: `internal/environment`, Why: "construction must not depend on process-wide state that other constructions share (a predictable file name)", Seed: "C13-N", Zero: true},
	{To: "C15", From: "C09", Rule: "R5", Key: `macro expansion`, Why: "operators compare against the macro-expanded argument: the expansion of a present-but-empty variable is the empty string", Seed: "C15-M"},
	{To: "C15", From: "C11", Rule: "R3", Key: `minLen`, Why: "@rx must decide what RE2 decides: a length bound above the real minimum rejects matching inputs", Seed: "C15-N"},
	{To: "C19", From: "C02", Rule: "R5", Key: `reaches tx.Interrupt`, Why: "the would-be status of a DetectionOnly transaction is what RelevantOnly auditing decides on", Seed: "C19-M"},
	{To: "C19", From: "C02", Rule: "R1", Key: `Eval\(`, Why: "a phase evaluated twice reports every fired rule twice to the error callback and the audit record", Seed: "C19-N"},
}

var (
	shareOnce sync.Once
	shareKey  []*regexp.Regexp
	sharePos  []*regexp.Regexp
)

func compileShares() {
	shareKey = make([]*regexp.Regexp, len(Shares))
	sharePos = make([]*regexp.Regexp, len(Shares))
	for i, s := range Shares {
		if s.Key != "" {
			shareKey[i] = regexp.MustCompile(s.Key)
		}
		if s.Pos != "" {
			sharePos[i] = regexp.MustCompile(s.Pos)
		}
	}
}

// SharedTo returns the share entry under which o is also reported for property to, or nil.
func SharedTo(o an.Ob, to string) *Share {
	shareOnce.Do(compileShares)
	if o.Prop == to {
		return nil
	}
	for i := range Shares {
		s := &Shares[i]
		if s.To != to || s.From != o.Prop || s.Rule != o.Rule {
			continue
		}
		if shareKey[i] != nil && !shareKey[i].MatchString(o.Key) {
			continue
		}
		if sharePos[i] != nil && !sharePos[i].MatchString(o.Pos) {
			continue
		}
		return s
	}
	return nil
}

// SharesFor lists the entries of one property.
func SharesFor(to string) []Share {
	var out []Share
	for _, s := range Shares {
		if s.To == to {
			out = append(out, s)
		}
	}
	return out
}
