package props

import (
	"fmt"
	"go/constant"
	"go/token"
	"go/types"
	"sort"
	"strings"

	"czcheck/an"

	"golang.org/x/tools/go/ssa"
)

func init() {
	register(&Property{
		ID:    "C11",
		Title: "SecRxPreFilter never changes what @rx matches or captures",
		Explanation: "Decides the structural necessity conditions of the prefilter, not language inclusion for all patterns x inputs: R1 capture discipline: in rx.Evaluate a result that can be true is returned either with tx.Capturing()==false or after the full submatch search (every fast path is closed for capturing rules); " +
			"R2 the artefacts stored in a compiled @rx (prefilter, minimum length, exact-match literal) come from the reviewed constructors only; reject-only: the minimum-length test and the prefilter function can only lead to 'return false' without side effects, never to a positive result; " +
			"R3 necessity table over the regexp/syntax walkers (switch cases located through guard facts on re.Op): operators that may match zero times (OpQuest, OpStar, OpRepeat with Min==0) contribute no required literal and length 0; an alternation yields nothing as soon as one branch yields nothing and its length is the minimum over branches; a concatenation's length is the sum; a character class or any-char counts 1 byte; only OpBeginText/OpEndText count as anchors; filterShort is never applied to an 'any of' set; prefix/suffix tests are used only for the literal adjacent to the anchor; trie suffixes are taken from the start of a branch; every case-insensitive prefilter sits behind the isASCII guard (every return of prefilterFunc is nil, a length-only closure, the guarded wrapper, or case-sensitive); " +
			"R3 also: the anchor element is recognised by a predicate that accepts only the bare anchor (not a group starting with it), the needle list is reordered only when neither positional test is enabled, and every literal is lower-cased whenever the matcher is case-insensitive (whatever the flags of its own node), arithmetic case folding of a byte is confined to letters by a range test, every literal returned by the trie extractors is non-empty (so the length filter of trieReconstruct never drops a word of an 'any of' set); R4 the prefilter switch is part of the @rx cache key (two WAFs with different settings never share a compiled artefact). R3 also: a loop-carried flag of the literal search loops is cleared only on an edge carrying Index*(s[i:], x) < 0 for an unbounded tail. R1 also: every branch of (*binaryRX).Evaluate depends on the compiled byte pattern's own answer, tx.Capturing() or the capture index only (the byte matcher has no prefilter). R3 also: the text and the fold flag returned by extractExactMatch are read from one syntax node.",
		NotDecided: []string{
			"soundness of the literal extraction for all patterns x inputs (language inclusion), e.g. Unicode case-fold equivalents of literals",
			"the Wu-Manber style multi-needle matcher and the ASCII-fold helpers (algorithmic)",
			"equality of captured groups beyond 'the same code path performs the capture'",
		},
		Run: runC11,
	})
}

// syntaxOps maps regexp/syntax Op constant names to their decimal values.
func syntaxOps(c *an.Ctx) map[string]string {
	out := map[string]string{}
	pk := c.P.ByPath["regexp/syntax"]
	if pk == nil {
		return out
	}
	sc := pk.Types.Scope()
	for _, n := range sc.Names() {
		if k, ok := sc.Lookup(n).(*types.Const); ok && strings.HasPrefix(n, "Op") && k.Val().Kind() == constant.Int {
			out[n] = k.Val().ExactString()
		}
	}
	return out
}

// caseBlocks returns the blocks of fn that are entered exactly when <subject>.Op == value (the body of `case syntax.OpX:`).
func caseBlocks(fn *ssa.Function, opVal string) []*ssa.BasicBlock {
	var out []*ssa.BasicBlock
	for _, b := range fn.Blocks {
		for _, p := range b.Preds {
			ifi, ok := p.Instrs[len(p.Instrs)-1].(*ssa.If)
			if !ok || p.Succs[0] != b {
				continue
			}
			for _, a := range an.CondAtoms(ifi.Cond, true) {
				if strings.HasSuffix(a.L, ".Op") && a.Op == "==" && a.R == opVal {
					out = append(out, b)
				}
			}
		}
	}
	return out
}

// returnsUnder collects the rendered return values (result index idx) of every return reachable from the case
// body without leaving it through another case test.
func returnsUnder(fn *ssa.Function, blocks []*ssa.BasicBlock, idx int) []string {
	seen := map[string]bool{}
	for _, start := range blocks {
		visited := map[*ssa.BasicBlock]bool{}
		var walk func(b *ssa.BasicBlock)
		walk = func(b *ssa.BasicBlock) {
			if visited[b] {
				return
			}
			visited[b] = true
			for _, in := range b.Instrs {
				if r, ok := in.(*ssa.Return); ok && idx < len(r.Results) {
					seen[tempName.ReplaceAllString(an.Expr(r.Results[idx]), "")] = true
				}
			}
			for _, s := range b.Succs {
				if s == start || start.Dominates(s) {
					walk(s)
				}
			}
		}
		walk(start)
	}
	var out []string
	for k := range seen {
		out = append(out, k)
	}
	sort.Strings(out)
	return out
}

func runC11(c *an.Ctx) {
	r7ExactMatchOneNode(c, "R3")
	r7BinaryRxVerdict(c, "R1")
	ops := syntaxOps(c)
	if len(ops) < 15 {
		c.Unknown("R3", "regexp/syntax operator table", 0, "regexp/syntax constants not resolved")
		return
	}
	// ---- R1 / R2 in rx.Evaluate
	ev := c.Fn("R1", "internal/operators.(*rx).Evaluate")
	if ev != nil {
		nRet := 0
		an.Instrs(ev, func(in ssa.Instruction) {
			r, ok := in.(*ssa.Return)
			if !ok || len(r.Results) != 1 {
				return
			}
			nRet++
			v := tempName.ReplaceAllString(an.Expr(r.Results[0]), "")
			key := fmt.Sprintf("rx.Evaluate return #%d", nRet)
			f := an.FactsAt(r)
			if v == "false" {
				c.OkTrivial("R1", key, r.Pos(), "negative result")
				return
			}
			notCapturing := f.Has("tx.Capturing()", "==", "false")
			fullSearch := false
			for _, a := range f {
				if strings.Contains(a.L, "o.re.FindStringSubmatchIndex(value)") && a.Op == "!=" && a.R == "nil" {
					fullSearch = true
				}
			}
			c.Check(notCapturing || fullSearch, "R1", key, r.Pos(), "possibly-true result ("+v+") only when not capturing or after the submatch search",
				"rx.Evaluate can return a match ("+v+") for a capturing rule without running the submatch search: with the prefilter on, TX.0-9 differ from the prefilter-off result", f.Strings()...)
		})
		c.MinCount("R1", "returns of rx.Evaluate", nRet, 4)
		// CaptureField is called only after the submatch search
		nCap := 0
		an.Instrs(ev, func(in ssa.Instruction) {
			cc := an.CallOf(in)
			if cc != nil && cc.IsInvoke() && cc.Method.Name() == "CaptureField" {
				nCap++
				f := an.FactsAt(in)
				ok := false
				for _, a := range f {
					if strings.Contains(a.L, "o.re.FindStringSubmatchIndex(value)") && a.Op == "!=" && a.R == "nil" {
						ok = true
					}
				}
				c.Check(ok, "R1", fmt.Sprintf("rx.Evaluate capture #%d comes from the submatch search", nCap), in.Pos(), "under FindStringSubmatchIndex != nil", "a capture is stored from a fast path instead of the regular submatch search")
			}
		})
		// R2 reject-only
		for _, b := range ev.Blocks {
			f := an.FactsAtBlock(b)
			reject := ""
			if f.Has("len(value)", "<", "o.minLen") {
				reject = "minimum length"
			}
			for _, a := range f {
				if a.L == "o.prefilter(value)" && a.Op == "==" && a.R == "false" {
					reject = "prefilter"
				}
			}
			if reject == "" {
				continue
			}
			for _, in := range b.Instrs {
				switch x := in.(type) {
				case *ssa.Return:
					c.Check(an.Expr(x.Results[0]) == "false", "R2", "rx.Evaluate: a "+reject+" rejection returns false", x.Pos(), "return false", "the "+reject+" test leads to "+an.Expr(x.Results[0])+": the prefilter must only ever reject")
				case *ssa.Call:
					if x.Call.IsInvoke() || x.Call.StaticCallee() != nil && c.P.InModule(x.Call.StaticCallee()) {
						c.Bad("R2", "rx.Evaluate: "+reject+" rejection has no side effect", x.Pos(), "a call ("+an.CalleeName(x)+") runs on the rejection path")
					}
				}
			}
		}
		// the prefilter result is only used as a branch condition
		an.Instrs(ev, func(in ssa.Instruction) {
			call, ok := in.(*ssa.Call)
			if !ok || an.Expr(call.Call.Value) != "o.prefilter" {
				return
			}
			okUse := true
			for _, ref := range *call.Referrers() {
				switch ref.(type) {
				case *ssa.If, *ssa.UnOp, *ssa.DebugRef:
				default:
					okUse = false
				}
			}
			c.Check(okUse, "R2", "rx.Evaluate: prefilter verdict only steers the early return", in.Pos(), "used as a branch condition only", "the prefilter's verdict flows into a value (it could become the match result)")
		})
	}

	// ---- R3 necessity table
	type exp struct {
		fn, op string
		idx    int
		want   func(rets []string) (bool, string)
	}
	isNilOnly := func(rets []string) (bool, string) {
		ok := len(rets) == 1 && (rets[0] == "nil" || rets[0] == "nil:interface{}")
		return ok, strings.Join(rets, " | ")
	}
	isZeroOnly := func(rets []string) (bool, string) { return len(rets) == 1 && rets[0] == "0", strings.Join(rets, " | ") }
	isOneOnly := func(rets []string) (bool, string) { return len(rets) == 1 && rets[0] == "1", strings.Join(rets, " | ") }
	table := []exp{
		{"internal/operators.extractLiterals", "OpQuest", 0, isNilOnly},
		{"internal/operators.extractLiterals", "OpStar", 0, isNilOnly},
		{"internal/operators.minLen", "OpQuest", 0, isZeroOnly},
		{"internal/operators.minLen", "OpStar", 0, isZeroOnly},
		{"internal/operators.minLen", "OpCharClass", 0, isOneOnly},
		{"internal/operators.minLen", "OpAnyChar", 0, isOneOnly},
		{"internal/operators.minLen", "OpAnyCharNotNL", 0, isOneOnly},
	}
	for _, e := range table {
		fn := c.Fn("R3", e.fn)
		if fn == nil {
			continue
		}
		blocks := caseBlocks(fn, ops[e.op])
		key := fmt.Sprintf("%s: case %s", shortFn(e.fn), e.op)
		if len(blocks) == 0 {
			c.Bad("R3", key, fn.Pos(), "no case for syntax."+e.op+" found: the operator falls into the default handling")
			continue
		}
		rets := returnsUnder(fn, blocks, e.idx)
		ok, got := e.want(rets)
		c.Check(ok, "R3", key, blocks[0].Instrs[0].Pos(), "returns "+got, "for syntax."+e.op+" "+shortFn(e.fn)+" returns "+got+": an operator that can match without that literal/length now contributes a required literal or a larger minimum length (false negatives with the prefilter on)")
	}
	// OpRepeat: Min == 0 -> nothing
	for _, fnName := range []string{"internal/operators.extractLiterals", "internal/operators.minLen"} {
		fn := c.P.Func(fnName)
		if fn == nil {
			continue
		}
		ok := false
		want := "nil"
		if strings.HasSuffix(fnName, "minLen") {
			want = "0"
		}
		for _, b := range fn.Blocks {
			f := an.FactsAtBlock(b)
			if !f.HasSuffix(".Op", "==", ops["OpRepeat"]) {
				continue
			}
			zero := f.HasSuffix(".Min", "==", "0") || f.HasSuffix(".Min", "<", "1")
			if !zero {
				continue
			}
			for _, in := range b.Instrs {
				if r, isR := in.(*ssa.Return); isR && strings.HasPrefix(an.Expr(r.Results[0]), want) {
					ok = true
				}
			}
		}
		c.Check(ok, "R3", shortFn(fnName)+": OpRepeat with Min == 0 contributes nothing", fn.Pos(), "returns "+want+" under Min == 0", "a repetition that may occur zero times contributes a required literal / length")
	}
	// OpAlternate in extractLiterals / rawExtractSuffixes: a branch without literal aborts
	for _, fnName := range []string{"internal/operators.extractLiterals", "internal/operators.rawExtractSuffixes"} {
		fn := c.Fn("R3", fnName)
		if fn == nil {
			continue
		}
		ok := false
		for _, b := range fn.Blocks {
			f := an.FactsAtBlock(b)
			if !f.HasSuffix(".Op", "==", ops["OpAlternate"]) {
				continue
			}
			// inside the branch loop: result of the recursive call == nil  ->  return nil
			for _, a := range f {
				if (strings.HasPrefix(a.L, "operators.extractLiterals(") || strings.HasPrefix(a.L, "operators.rawExtractSuffixes(")) && a.Op == "==" && a.R == "nil" {
					for _, in := range b.Instrs {
						if r, isR := in.(*ssa.Return); isR && strings.HasPrefix(an.Expr(r.Results[0]), "nil") {
							ok = true
						}
					}
				}
			}
		}
		c.Check(ok, "R3", shortFn(fnName)+": an alternation with a literal-free branch yields nothing", fn.Pos(), "return nil inside the branch loop", "an alternation keeps its literals although one branch has none: inputs matching through that branch are rejected")
		// and the branch loop has no other early exit that keeps partial results
	}
	// minLen(OpAlternate) = minimum over branches, minLen(OpConcat) = sum
	if ml := c.P.Func("internal/operators.minLen"); ml != nil {
		altMin, catSum := false, false
		for _, b := range ml.Blocks {
			f := an.FactsAtBlock(b)
			if f.HasSuffix(".Op", "==", ops["OpAlternate"]) {
				for _, a := range f {
					if strings.HasPrefix(a.L, "operators.minLen(") && a.Op == "<" {
						altMin = true // v < m -> m = v
					}
				}
			}
			if f.HasSuffix(".Op", "==", ops["OpConcat"]) {
				for _, in := range b.Instrs {
					if bo, ok := in.(*ssa.BinOp); ok && bo.Op.String() == "+" && strings.Contains(an.Expr(bo), "operators.minLen(") {
						catSum = true
					}
				}
			}
		}
		c.Check(altMin, "R3", "minLen: alternation takes the shortest branch", ml.Pos(), "m = v when v < m", "the minimum length of an alternation is not the minimum over its branches")
		c.Check(catSum, "R3", "minLen: concatenation sums its parts", ml.Pos(), "n += minLen(sub)", "the minimum length of a concatenation is not the sum of its parts")
	}
	// anchors: only OpBeginText / OpEndText
	for fnName, anchor := range map[string]string{"internal/operators.hasBeginAnchor": "OpBeginText", "internal/operators.hasEndAnchor": "OpEndText"} {
		fn := c.Fn("R3", fnName)
		if fn == nil {
			continue
		}
		var trueOps []string
		for name, val := range ops {
			blocks := caseBlocks(fn, val)
			if len(blocks) == 0 {
				continue
			}
			for _, r := range returnsUnder(fn, blocks, 0) {
				if r == "true" {
					trueOps = append(trueOps, name)
				}
			}
		}
		sort.Strings(trueOps)
		c.Check(len(trueOps) == 1 && trueOps[0] == anchor, "R3", shortFn(fnName)+" accepts only "+anchor, fn.Pos(), "returns true only for "+anchor, shortFn(fnName)+" returns true for "+strings.Join(trueOps, ", ")+": a line anchor is treated as a text anchor, so HasPrefix/HasSuffix reject multi-line inputs the regex matches")
	}
	// filterShort never on an anyRequired set; prefix/suffix only for the adjacent literal
	for _, fnName := range []string{"internal/operators.prefilterFunc", "internal/operators.buildCombinedPF"} {
		fn := c.Fn("R3", fnName)
		if fn == nil {
			continue
		}
		n := 0
		anchorPredSeen := map[string]bool{}
		an.Instrs(fn, func(in ssa.Instruction) {
			cc := an.CallOf(in)
			if cc == nil || cc.StaticCallee() == nil {
				return
			}
			switch cc.StaticCallee().Name() {
			case "filterShort":
				n++
				arg := cc.Args[0]
				t := ""
				for d := range an.Deps(arg) {
					if ta, ok := d.(*ssa.TypeAssert); ok {
						t += types.TypeString(ta.AssertedType, shortQualifier) + " "
					}
					if fa, ok := d.(*ssa.FieldAddr); ok {
						t += "." + an.FieldVar(fa).Name() + " "
					}
					if fl, ok := d.(*ssa.Field); ok {
						t += "." + an.FieldVar(fl).Name() + " "
					}
				}
				okArg := !strings.Contains(t, "anyRequired") && !strings.Contains(t, ".any ")
				c.Check(okArg, "R3", fmt.Sprintf("%s: filterShort #%d applies to an 'all of' set", shortFn(fnName), n), in.Pos(), "argument derives from "+strings.TrimSpace(t), "filterShort is applied to an 'any of' literal set ("+strings.TrimSpace(t)+"): dropping a short alternative turns 'one of {A,B,C}' into 'one of {A,B}' and rejects inputs matching through C")
			case "buildMultiNeedlePF":
				usePrefix := tempName.ReplaceAllString(an.Expr(cc.Args[2]), "")
				useSuffix := tempName.ReplaceAllString(an.Expr(cc.Args[3]), "")
				c.Check(comparesWithAnchoredLiteral(cc.Args[2]), "R3", shortFn(fnName)+": prefix test only for the literal adjacent to \\A", in.Pos(), "enabled by comparing the first literal with the text that follows the anchor", "the HasPrefix test is enabled by "+usePrefix+": a literal separated from the anchor (\\A.*lit) would be required at position 0")
				c.Check(comparesWithAnchoredLiteral(cc.Args[3]), "R3", shortFn(fnName)+": suffix test only for the literal adjacent to \\z", in.Pos(), "enabled by comparing the last literal with the text that precedes the anchor", "the HasSuffix test is enabled by "+useSuffix)
				// positional needles: the prefix test looks at needles[0] and the suffix test at the last needle, so the
				// needle list may only be reordered when neither positional test is enabled
				an.Instrs(fn, func(srt ssa.Instruction) {
					sc := an.CallOf(srt)
					if sc == nil || sc.StaticCallee() == nil || len(sc.Args) == 0 {
						return
					}
					cal := sc.StaticCallee()
					if cal.Origin() != nil {
						cal = cal.Origin()
					}
					if cal.Pkg == nil || !(cal.Pkg.Pkg.Path() == "slices" || cal.Pkg.Pkg.Path() == "sort") || !strings.HasPrefix(cal.Name(), "Sort") && cal.Name() != "Slice" && cal.Name() != "Strings" && cal.Name() != "Reverse" {
						return
					}
					if tempName.ReplaceAllString(an.Expr(sc.Args[0]), "") != tempName.ReplaceAllString(an.Expr(cc.Args[0]), "") {
						return
					}
					f := an.FactsAt(srt)
					isFalse := func(v ssa.Value) bool {
						if cst, ok := v.(*ssa.Const); ok && cst.Value != nil && cst.Value.String() == "false" {
							return true
						}
						e := an.Expr(v)
						if f.Has(e, "==", "false") || f.Has(e, "!=", "true") {
							return true
						}
						// the flag is a conjunction: one false conjunct suffices
						for _, a := range an.CondAtoms(v, true) {
							if f.Has(a.L, negOp(a.Op), a.R) {
								return true
							}
						}
						return false
					}
					okSort := isFalse(cc.Args[2]) && isFalse(cc.Args[3])
					c.Check(okSort, "R3", shortFn(fnName)+": needles reordered only when no positional test is used", srt.Pos(), "sort dominated by usePrefix == false && useSuffix == false",
						"the needle list is sorted although the prefix or suffix test may be enabled ("+shortFacts(f)+"): HasPrefix/HasSuffix is then applied to whichever literal the sort moved to the first/last position, and inputs matching the pattern are rejected")
				})
				// the functions computing "the literal next to the anchor" recognise the anchor element with a
				// predicate that accepts the anchor itself (possibly inside capture groups), never a
				// concatenation that merely starts/ends with it: (\Ax?)ab has x? between \A and "ab".
				for _, af := range anchoredLiteralFns(cc.Args[2], cc.Args[3]) {
					for _, pred := range regexPredicatesCalledBy(af) {
						if anchorPredSeen[an.RelName(af)+pred.Name()] {
							continue
						}
						anchorPredSeen[an.RelName(af)+pred.Name()] = true
						desc := descendsIntoConcat(pred, ops["OpConcat"])
						c.Check(desc == "", "R3", shortFn(an.RelName(af))+": anchor element recognised by "+pred.Name()+", which accepts only the anchor itself", pred.Pos(), "no case of "+pred.Name()+" descends into a concatenation", pred.Name()+" "+desc+": a group such as (\\Ax?) counts as 'the anchor', so the literal after the group is required at position 0 although x? may precede it")
					}
				}
			}
		})
	}
	// the matcher is case-insensitive as a whole (one flag per pattern), and every case-insensitive matcher expects
	// lower-case needles: when ci is set, every extracted literal is lower-cased, whatever the flags of its own node
	for _, n := range []string{"internal/operators.extractLiterals", "internal/operators.rawLiteral"} {
		f := c.Fn("R3", n)
		if f == nil || len(f.Params) < 2 {
			continue
		}
		ciE := an.Expr(f.Params[len(f.Params)-1])
		nLow := 0
		an.Instrs(f, func(in ssa.Instruction) {
			if !an.IsCallToFunc(in, "strings", "ToLower") {
				return
			}
			nLow++
			fct := an.FactsAt(in)
			var foreign []string
			for _, a := range fct {
				if strings.Contains(a.L, ".Flags") || strings.Contains(a.R, ".Flags") {
					foreign = append(foreign, tempName.ReplaceAllString(a.String(), ""))
				}
			}
			okCI := fct.Has(ciE, "==", "true") || fct.Has(ciE, "!=", "false")
			c.Check(okCI && len(foreign) == 0, "R3", fmt.Sprintf("%s: literal #%d lower-cased whenever the matcher is case-insensitive", shortFn(n), nLow), in.Pos(), "guarded by ci only",
				"the literal is lower-cased only when additionally "+strings.Join(foreign, ", ")+" (ci guard present: "+fmt.Sprint(okCI)+"): with scoped flags such as (?i:x)Lit the matcher still runs case-insensitively and looks for lower-case needles, so a needle that keeps an upper-case letter can never be found and matching inputs are rejected")
		})
		c.MinCount("R3", "lower-casing sites in "+shortFn(n), nLow, 1)
	}
	// ASCII case folding by arithmetic (c + 32, c - 32, c | 0x20 ...) is only correct for letters: every such
	// operation on a byte is dominated by a range test that confines the byte to A-Z or a-z.  Unguarded, it also
	// rewrites @ [ \\ ] ^ _ and control bytes, and a folded bucket index no longer finds needles containing them.
	c11FoldArithmetic(c, "R3", "internal/operators")
	c11ProbeFlags(c)
	// literals are built from whole runes: no rune of a pattern literal is narrowed to a byte
	runeToByte(c, "R3", "internal/operators")
	// trie words are never dropped: trieReconstruct filters the glued words by length, which is harmless only as
	// long as every suffix is a non-empty string (prefix >= 1 byte + suffix >= 1 byte).  Invariant, by induction
	// over the two mutually recursive extractors: every string they return is non-empty.
	extractors := map[*ssa.Function]bool{}
	for _, n := range []string{"internal/operators.rawExtractSuffixes", "internal/operators.trieReconstruct"} {
		if f := c.Fn("R3", n); f != nil {
			extractors[f] = true
		}
	}
	for f := range extractors {
		nRet := 0
		an.Instrs(f, func(in ssa.Instruction) {
			r, ok := in.(*ssa.Return)
			if !ok || len(r.Results) != 1 {
				return
			}
			nRet++
			okE, why := elementsNonEmpty(r.Results[0], extractors, 0, map[ssa.Value]bool{})
			if !okE {
				c.Bad("R3", fmt.Sprintf("%s: every returned literal is non-empty", shortFn(an.RelName(f))), r.Pos(), "a returned list can contain an empty string ("+why+"): glued to a 1-byte prefix it forms a 1-byte word, which trieReconstruct's length filter drops from an 'any of' set — inputs matching through that alternative are rejected by the prefilter")
			}
		})
		if nRet > 0 {
			c.Ok("R3", fmt.Sprintf("%s: returns inspected for empty literals", shortFn(an.RelName(f))), f.Pos(), fmt.Sprintf("%d returns", nRet))
		}
	}
	// trie suffixes: the OpConcat case of rawExtractSuffixes does not fall back to literals from inside the branch
	if rs := c.Fn("R3", "internal/operators.rawExtractSuffixes"); rs != nil {
		el := c.P.Func("internal/operators.extractLiterals")
		bad := false
		for _, b := range rs.Blocks {
			if an.FactsAtBlock(b).HasSuffix(".Op", "==", ops["OpConcat"]) {
				for _, in := range b.Instrs {
					if an.IsCallTo(in, el) {
						bad = true
					}
				}
			}
		}
		c.Check(!bad, "R3", "rawExtractSuffixes: a concatenated branch contributes only its leading text", rs.Pos(), "no literal from inside the branch", "trie reconstruction takes a literal from anywhere inside a concatenated branch and glues it to the prefix: the phantom string need not occur in a matching input")
	}
	// CI guard
	if pf := c.Fn("R3", "internal/operators.prefilterFunc"); pf != nil {
		isASCII := c.P.Func("internal/operators.isASCII")
		nCI, okAll := 0, true
		an.Instrs(pf, func(in ssa.Instruction) {
			r, ok := in.(*ssa.Return)
			if !ok {
				return
			}
			f := an.FactsAt(r)
			ci := false
			for _, a := range f {
				if strings.HasPrefix(a.L, "operators.hasFlag(") && a.Op == "==" && a.R == "true" {
					ci = true
				}
			}
			if !ci {
				return
			}
			if cst, isC := r.Results[0].(*ssa.Const); isC && cst.Value == nil {
				return
			}
			nCI++
			mc, isMC := r.Results[0].(*ssa.MakeClosure)
			guard := false
			if isMC {
				an.Instrs(mc.Fn.(*ssa.Function), func(x ssa.Instruction) {
					if an.IsCallTo(x, isASCII) {
						guard = true
					}
				})
			}
			if !guard {
				okAll = false
			}
		})
		// a case-insensitive prefilter may also be returned from a block not dominated by the flag test: check the final return shape
		c.Check(okAll && nCI >= 1, "R3", "prefilterFunc: case-insensitive prefilters sit behind the isASCII guard", pf.Pos(), fmt.Sprintf("%d case-insensitive returns, all wrapped", nCI), "a case-insensitive prefilter is returned without the non-ASCII bypass: Unicode case folding (ſ, K) makes it reject matching inputs")
		// every non-nil return that is not length-only passes through the final wrapper when ci: no early `return pf`
		nEarly := 0
		an.Instrs(pf, func(in ssa.Instruction) {
			r, ok := in.(*ssa.Return)
			if !ok {
				return
			}
			if _, isPhi := r.Results[0].(*ssa.Phi); isPhi {
				f := an.FactsAt(r)
				plain := true
				for _, a := range f {
					if strings.HasPrefix(a.L, "operators.hasFlag(") && a.R == "false" {
						plain = false
					}
				}
				if plain {
					nEarly++
				}
			}
		})
		// stated positively, for every return: nil, or the closure that tests isASCII first, or a point where the
		// pattern is known to be case-sensitive
		nRet, badRet := 0, ""
		an.Instrs(pf, func(in ssa.Instruction) {
			r, ok := in.(*ssa.Return)
			if !ok || len(r.Results) != 1 {
				return
			}
			nRet++
			if cst, isC := r.Results[0].(*ssa.Const); isC && cst.Value == nil {
				return
			}
			if mc, isMC := r.Results[0].(*ssa.MakeClosure); isMC {
				g := false
				an.Instrs(mc.Fn.(*ssa.Function), func(x ssa.Instruction) {
					if an.IsCallTo(x, isASCII) {
						g = true
					}
				})
				if g {
					return
				}
				// a length-only closure (no call at all) cannot be wrong about case
				calls := 0
				an.Instrs(mc.Fn.(*ssa.Function), func(x ssa.Instruction) {
					if xc := an.CallOf(x); xc != nil {
						if b, isB := xc.Value.(*ssa.Builtin); !isB || b.Name() != "len" {
							calls++
						}
					}
				})
				if calls == 0 {
					return
				}
			}
			for _, a := range an.FactsAt(r) {
				if strings.HasPrefix(a.L, "operators.hasFlag(") && (a.Op == "==" && a.R == "false" || a.Op == "!=" && a.R == "true") {
					return
				}
			}
			badRet = tempName.ReplaceAllString(an.Expr(r.Results[0]), "") + " at " + c.P.Position(r.Pos())
		})
		c.Check(badRet == "" && nRet >= 3, "R3", "prefilterFunc: every return is nil, the isASCII-guarded wrapper, or case-sensitive", pf.Pos(), fmt.Sprintf("%d returns", nRet),
			"prefilterFunc returns "+badRet+" without the non-ASCII bypass and without knowing the pattern to be case-sensitive: for (?i) patterns the ASCII-only matchers reject inputs that match through Unicode case folding (ſ for s, K for k)")
		c.Check(nEarly == 0, "R3", "prefilterFunc: literal prefilters are returned unwrapped only for case-sensitive patterns", pf.Pos(), "the raw prefilter is returned only under caseInsensitive == false", "a literal prefilter can be returned without passing the case-insensitivity test")
	}

	// the artefacts a compiled @rx carries come from the reviewed constructors only: a prefilter built elsewhere
	// (an ad-hoc closure in newRX) is outside everything R1-R3 establish
	{
		want := map[string]string{"prefilter": "prefilterFunc", "minLen": "minMatchLength", "exactMatch": "extractExactMatch", "exactMatchCI": "extractExactMatch"}
		nArt := 0
		for _, fn := range c.P.ModFuncs {
			if relPkg(fn) != "internal/operators" {
				continue
			}
			an.Instrs(fn, func(in ssa.Instruction) {
				st, ok := in.(*ssa.Store)
				if !ok {
					return
				}
				fa, ok := st.Addr.(*ssa.FieldAddr)
				if !ok || !strings.HasSuffix(fa.X.Type().String(), "operators.rxCompiled") {
					return
				}
				fname := an.FieldVar(fa).Name()
				ctor, tracked := want[fname]
				if !tracked {
					return
				}
				nArt++
				okV := false
				for d := range an.Deps(st.Val) {
					if call, ok := d.(*ssa.Call); ok && call.Call.StaticCallee() != nil && call.Call.StaticCallee().Name() == ctor {
						okV = true
					}
				}
				v := st.Val
				if _, isMC := v.(*ssa.MakeClosure); isMC {
					okV = false
				}
				if _, isF := v.(*ssa.Function); isF {
					okV = false
				}
				c.Check(okV, "R2", "rxCompiled."+fname+" is produced by "+ctor, st.Pos(), tempName.ReplaceAllString(an.Expr(st.Val), ""),
					"the compiled @rx receives its "+fname+" from "+tempName.ReplaceAllString(an.Expr(st.Val), "")+" instead of "+ctor+": a prefilter artefact built outside the reviewed extractors can reject inputs the regex matches (for instance by treating ^ and $ as text anchors although the pattern is compiled with (?m))")
			})
		}
		c.MinCount("R2", "prefilter artefacts stored into rxCompiled", nArt, 3)
	}

	// ---- R4 cache key
	if nr := c.Fn("R4", "internal/operators.newRX"); nr != nil {
		ok := false
		for _, ms := range memoSites(c) {
			if ms.fn == nr {
				for d := range an.Deps(ms.key) {
					if strings.HasSuffix(an.Expr(d), "options.RxPreFilterEnabled") {
						ok = true
					}
				}
			}
		}
		c.Check(ok, "R4", "newRX: the prefilter switch is part of the cache key", nr.Pos(), "key depends on options.RxPreFilterEnabled", "the @rx cache key ignores SecRxPreFilter: a WAF with the prefilter off could receive an artefact compiled with it on (or the reverse)")
	}
}

// anchoredLiteralFns: the string-valued functions of the regex tree whose result the prefix/suffix flags compare with.
func anchoredLiteralFns(flags ...ssa.Value) []*ssa.Function {
	var out []*ssa.Function
	seen := map[*ssa.Function]bool{}
	for _, flag := range flags {
		for d := range an.Deps(flag) {
			b, ok := d.(*ssa.BinOp)
			if !ok || (b.Op.String() != "==" && b.Op.String() != "!=") {
				continue
			}
			for _, side := range []ssa.Value{b.X, b.Y} {
				call, ok := side.(*ssa.Call)
				if !ok || call.Call.StaticCallee() == nil {
					continue
				}
				if bt, ok := call.Type().Underlying().(*types.Basic); !ok || bt.Kind() != types.String {
					continue
				}
				for _, a := range call.Call.Args {
					if strings.HasSuffix(a.Type().String(), "syntax.Regexp") && !seen[call.Call.StaticCallee()] {
						seen[call.Call.StaticCallee()] = true
						out = append(out, call.Call.StaticCallee())
					}
				}
			}
		}
	}
	return out
}

// regexPredicatesCalledBy: bool-valued module functions of a *syntax.Regexp that fn calls.
func regexPredicatesCalledBy(fn *ssa.Function) []*ssa.Function {
	var out []*ssa.Function
	seen := map[*ssa.Function]bool{}
	an.Instrs(fn, func(in ssa.Instruction) {
		cc := an.CallOf(in)
		if cc == nil || cc.StaticCallee() == nil || len(cc.StaticCallee().Blocks) == 0 {
			return
		}
		callee := cc.StaticCallee()
		res := callee.Signature.Results()
		if res.Len() != 1 || !isBoolType(res.At(0).Type()) || len(cc.Args) == 0 || !strings.HasSuffix(cc.Args[0].Type().String(), "syntax.Regexp") {
			return
		}
		if !seen[callee] {
			seen[callee] = true
			out = append(out, callee)
		}
	})
	return out
}

func isBoolType(t types.Type) bool {
	b, ok := t.Underlying().(*types.Basic)
	return ok && b.Kind() == types.Bool
}

// descendsIntoConcat: under the fact re.Op == OpConcat the predicate calls something or can return true.
func descendsIntoConcat(pred *ssa.Function, opConcat string) string {
	for _, b := range pred.Blocks {
		if !an.FactsAtBlock(b).HasSuffix(".Op", "==", opConcat) {
			continue
		}
		for _, in := range b.Instrs {
			if cc := an.CallOf(in); cc != nil {
				if bi, isB := cc.Value.(*ssa.Builtin); isB && bi.Name() == "len" {
					continue
				}
				return "looks inside a concatenation (call under re.Op == OpConcat)"
			}
			if r, ok := in.(*ssa.Return); ok && len(r.Results) == 1 {
				if cst, isC := r.Results[0].(*ssa.Const); !isC || cst.Value == nil || cst.Value.String() != "false" {
					return "can accept a concatenation"
				}
			}
		}
	}
	return ""
}

// comparesWithAnchoredLiteral: the flag depends on a string equality between an extracted literal and the result
// of a function of the regex tree (the literal adjacent to the anchor), not merely on "the pattern is anchored".
func comparesWithAnchoredLiteral(flag ssa.Value) bool {
	for d := range an.Deps(flag) {
		b, ok := d.(*ssa.BinOp)
		if !ok || (b.Op.String() != "==" && b.Op.String() != "!=") {
			continue
		}
		for _, side := range []ssa.Value{b.X, b.Y} {
			call, ok := side.(*ssa.Call)
			if !ok || call.Call.StaticCallee() == nil {
				continue
			}
			if bt, ok := call.Type().Underlying().(*types.Basic); !ok || bt.Kind() != types.String {
				continue
			}
			for _, a := range call.Call.Args {
				if strings.HasSuffix(a.Type().String(), "syntax.Regexp") {
					return true
				}
			}
		}
	}
	return false
}

func negOp(op string) string {
	switch op {
	case "==":
		return "!="
	case "!=":
		return "=="
	case "<":
		return ">="
	case ">=":
		return "<"
	case ">":
		return "<="
	case "<=":
		return ">"
	}
	return "?"
}

// elementsNonEmpty: every string in the slice value v is provably non-empty.
func elementsNonEmpty(v ssa.Value, inductive map[*ssa.Function]bool, depth int, seen map[ssa.Value]bool) (bool, string) {
	if depth > 10 {
		return false, "too deep"
	}
	if seen[v] {
		return true, ""
	}
	seen[v] = true
	switch x := v.(type) {
	case *ssa.Const:
		if x.Value == nil {
			return true, ""
		}
	case *ssa.ChangeType:
		return elementsNonEmpty(x.X, inductive, depth+1, seen)
	case *ssa.Convert:
		return elementsNonEmpty(x.X, inductive, depth+1, seen)
	case *ssa.Phi:
		for _, e := range x.Edges {
			if ok, w := elementsNonEmpty(e, inductive, depth+1, seen); !ok {
				return false, w
			}
		}
		return true, ""
	case *ssa.MakeSlice:
		if k, ok := an.ConstInt(x.Len); ok && k == 0 {
			return true, ""
		}
		return false, "make with a non-zero length yields empty strings"
	case *ssa.Slice:
		a, ok := x.X.(*ssa.Alloc)
		if !ok {
			return elementsNonEmpty(x.X, inductive, depth+1, seen)
		}
		n := 0
		for _, r := range *a.Referrers() {
			ia, ok := r.(*ssa.IndexAddr)
			if !ok {
				continue
			}
			for _, rr := range *ia.Referrers() {
				st, ok := rr.(*ssa.Store)
				if !ok || st.Addr != ssa.Value(ia) {
					continue
				}
				n++
				if !nonEmptyString(st.Val, st) {
					return false, "element " + tempName.ReplaceAllString(an.Expr(st.Val), "")
				}
			}
		}
		if n == 0 {
			return false, "slice literal without stores"
		}
		return true, ""
	case *ssa.Call:
		if b, ok := x.Call.Value.(*ssa.Builtin); ok && b.Name() == "append" {
			for _, a := range x.Call.Args {
				if ok, w := elementsNonEmpty(a, inductive, depth+1, seen); !ok {
					return false, w
				}
			}
			return true, ""
		}
		if callee := x.Call.StaticCallee(); callee != nil && inductive[callee] {
			return true, ""
		}
		return false, "result of " + tempName.ReplaceAllString(an.Expr(v), "")
	}
	return false, "value " + tempName.ReplaceAllString(an.Expr(v), "")
}

func nonEmptyString(v ssa.Value, at ssa.Instruction) bool {
	if cst, ok := v.(*ssa.Const); ok {
		return cst.Value != nil && cst.Value.String() != `""`
	}
	f := an.FactsAt(at)
	e := an.Expr(v)
	if f.Has(e, "!=", `""`) {
		return true
	}
	if lo, _, _ := f.Range("len(" + e + ")"); lo >= 1 {
		return true
	}
	if b, ok := v.(*ssa.BinOp); ok && b.Op.String() == "+" {
		return nonEmptyString(b.X, at) || nonEmptyString(b.Y, at)
	}
	return false
}

// c11FoldArithmetic checks the guard of every case-fold arithmetic operation on a byte/rune in the package.
func c11FoldArithmetic(c *an.Ctx, rule, pkg string) {
	n := 0
	seen := map[string]int{}
	for _, fn := range c.P.ModFuncs {
		if relPkg(fn) != pkg {
			continue
		}
		an.Instrs(fn, func(in ssa.Instruction) {
			b, ok := in.(*ssa.BinOp)
			if !ok {
				return
			}
			switch b.Op.String() {
			case "+", "-", "|", "^", "&^":
			default:
				return
			}
			bt, ok := b.Type().Underlying().(*types.Basic)
			if !ok || (bt.Kind() != types.Uint8 && bt.Kind() != types.Int32) {
				return
			}
			k, isC := an.ConstInt(b.Y)
			x := b.X
			if !isC {
				if k, isC = an.ConstInt(b.X); isC {
					x = b.Y
				}
			}
			if !isC || k != 32 {
				return
			}
			n++
			c.FuncsAnalysed[fn] = true
			e := an.Expr(x)
			f := an.FactsAt(in)
			lo, hi, _ := f.Range(e)
			okU := lo >= 65 && hi <= 90
			okL := lo >= 97 && hi <= 122
			key := fmt.Sprintf("case-fold arithmetic %s in %s", tempName.ReplaceAllString(an.Expr(b), ""), an.RelName(fn))
			seen[key]++
			if seen[key] > 1 {
				key += fmt.Sprintf("#%d", seen[key])
			}
			c.Check(okU || okL, rule, key, in.Pos(), fmt.Sprintf("operand confined to [%d,%d]", lo, hi),
				"a byte is case-folded arithmetically ("+tempName.ReplaceAllString(an.Expr(b), "")+") without a dominating range test confining it to A-Z / a-z: punctuation and control bytes (@ [ \\ ] ^ _ ...) are rewritten too, so the folded byte no longer selects the needles that contain them and matching inputs are rejected", f.Strings()...)
		})
	}
	c.MinCount(rule, "case-fold arithmetic sites in "+pkg, n, 3)
}

// c11ProbeFlags: the literal search loops probe for the next candidate position with strings.IndexByte/Index.  A
// flag that switches a probe off for the rest of the search ("no upper-case variant left") may only be cleared
// after a probe over the *whole remaining input* missed; clearing it after a bounded probe (tail[:lo]) skips real
// occurrences further on, i.e. the prefilter rejects inputs the regex matches.  Checked for every loop-carried
// bool of the prefilter's search functions: a back-edge value `false` needs the fact Index*(s[i:], x) < 0 with an
// unbounded slice of a parameter.
func c11ProbeFlags(c *an.Ctx) {
	n := 0
	for _, fn := range c.P.ModFuncs {
		if relPkg(fn) != "internal/operators" || !strings.Contains(c.P.Position(fn.Pos()), "rxprefilter") {
			continue
		}
		for _, b := range fn.Blocks {
			lp := an.InnermostLoop(b)
			if lp == nil || lp.Header != b {
				continue
			}
			for _, in := range b.Instrs {
				phi, ok := in.(*ssa.Phi)
				if !ok {
					break
				}
				if bt, ok := phi.Type().Underlying().(*types.Basic); !ok || bt.Kind() != types.Bool {
					continue
				}
				// where does a constant false enter on a back edge?
				var visit func(v ssa.Value, pred *ssa.BasicBlock, si int, d int)
				seen := map[ssa.Value]bool{}
				visit = func(v ssa.Value, pred *ssa.BasicBlock, si int, d int) {
					if d > 6 {
						return
					}
					if p2, ok := v.(*ssa.Phi); ok && p2 != phi {
						if seen[p2] {
							return
						}
						seen[p2] = true
						for j, e := range p2.Edges {
							pp := p2.Block().Preds[j]
							k := 0
							for q, sc := range pp.Succs {
								if sc == p2.Block() {
									k = q
								}
							}
							visit(e, pp, k, d+1)
						}
						return
					}
					cst, ok := v.(*ssa.Const)
					if !ok || an.Expr(cst) != "false" {
						return
					}
					n++
					okProbe := false
					for _, a := range an.EdgeFacts(pred, si) {
						if a.Op == "<" && a.R == "0" && (strings.HasPrefix(a.L, "strings.IndexByte(") || strings.HasPrefix(a.L, "strings.Index(")) {
							arg := a.L[strings.Index(a.L, "(")+1:]
							// first argument: <param>[<lo>:] with no upper bound
							if i := strings.Index(arg, ":],"); i > 0 && !strings.Contains(arg[:i], ":") && !strings.Contains(arg[:i], "φ") {
								okProbe = true
							}
						}
					}
					key := fmt.Sprintf("%s: probe flag #%d is cleared only after a whole-tail probe missed", fn.Name(), n)
					c.Check(okProbe, "R3", key, phi.Pos(), "cleared under Index*(s[i:], x) < 0", "a loop-carried flag of the literal search is set to false on an edge that is not 'a probe over the whole remaining input found nothing': later occurrences are no longer looked for and the prefilter rejects inputs the regex matches", an.EdgeFacts(pred, si).Strings()...)
				}
				for j, e := range phi.Edges {
					pp := b.Preds[j]
					if !lp.Blocks[pp] {
						continue
					}
					k := 0
					for q, sc := range pp.Succs {
						if sc == b {
							k = q
						}
					}
					visit(e, pp, k, 0)
				}
			}
		}
	}
	c.OkTrivial("R3", "loop-carried probe flags cleared in the prefilter's search loops", token.NoPos, fmt.Sprintf("%d sites", n))
}
