package props

import (
	"fmt"
	"go/ast"
	"go/constant"
	"go/token"
	"strings"

	"czcheck/an"

	"golang.org/x/tools/go/ssa"
)

func init() {
	register(&Property{
		ID:    "C19",
		Title: "Audit and error logging record exactly what happened, once, intact",
		Explanation: "Decides the decision structure and write discipline of logging, not the well-formedness of records for arbitrary bytes: R1 (incl. the precedence interruption status > would-be status > response status, under no other condition) the audit writer is invoked from exactly one call site (ProcessLogging), outside any loop, dominated by AuditEngine != Off, and under RelevantOnly the status tested is the interruption's, else the would-be interruption's, else the response status; " +
			"R1 also: ctl:auditEngine stores the parsed mode under no other condition (any phase, logging included); R2 the error callback has one call site, guarded by callback != nil and the rule's Log flag; fired rules are appended to matchedRules only in MatchRule; the transaction's audit flag is raised only from the fired rule's Audit flag and reset for every transaction; " +
			"R3 the audit record lists a fired rule's messages only under its Audit flag; R4 writers: the native formatter's section boundary is a fresh random string that does not depend on the record; the serial writer emits each record with a single Println on the shared logger (one atomic line), the concurrent writer uses its index logger only under its mutex, the JSON formatter returns json.Marshal's output unmodified; " +
			"R5 the logging actions write the documented flags (C09.R4); R6 audit-part modification rejects A and Z and rebuilds the part list in canonical order. R3 also: the loops of AuditLog over the fired rules and over the match data of a rule have no exit from inside.",
		NotDecided: []string{
			"well-formedness of a record for arbitrary byte content (native format boundaries, JSON escaping by encoding/json)",
			"the full decision table of engine mode x status x flags beyond the listed guards",
			"loss or interleaving inside the operating system / log.Logger",
		},
		Run: runC19,
	})
}

func runC19(c *an.Ctx) {
	offA := constVal(c, "R1", "types", "AuditEngineOff")
	relOnly := constVal(c, "R1", "types", "AuditEngineRelevantOnly")
	// ---- R1
	nW := 0
	for _, fn := range c.P.ModFuncs {
		rp := relPkg(fn)
		if strings.HasPrefix(rp, "testing") || strings.HasPrefix(rp, "examples") {
			continue
		}
		an.Instrs(fn, func(in ssa.Instruction) {
			if !an.IsCallToMethod(in, fullPT, "AuditLogWriter", "Write") {
				return
			}
			if cc := an.CallOf(in); !cc.IsInvoke() {
				return
			}
			nW++
			name := an.RelName(fn)
			if name != "internal/corazawaf.(*Transaction).ProcessLogging" {
				c.Bad("R1", "audit writer invoked from "+name, in.Pos(), "the audit log writer is invoked outside ProcessLogging: a transaction could be recorded twice or without the engine/relevance decision")
				return
			}
			c.FuncsAnalysed[fn] = true
			f := an.FactsAt(in)
			c.Check(f.Has("tx.AuditEngine", "!=", offA), "R1", "audit write dominated by AuditEngine != Off", in.Pos(), "guard present", "the audit record is written without the AuditEngine != Off guard", f.Strings()...)
			c.Check(an.InnermostLoop(in.Block()) == nil, "R1", "audit write is outside any loop", in.Pos(), "at most one record per ProcessLogging call", "the audit write sits inside a loop: several records per transaction")
			// the record written is this transaction's AuditLog()
			arg := tempName.ReplaceAllString(an.Expr(an.CallOf(in).Args[0]), "")
			c.Check(arg == "tx.AuditLog()", "R1", "the record written is this transaction's", in.Pos(), arg, "the writer receives "+arg)
			// RelevantOnly: every path from the RelevantOnly branch to the write passes a relevance test on the status
			var rel *ssa.BasicBlock
			for _, b := range fn.Blocks {
				if an.FactsAtBlock(b).Has("tx.AuditEngine", "==", relOnly) && (rel == nil || b.Dominates(rel)) {
					rel = b
				}
			}
			if rel == nil {
				c.Bad("R1", "RelevantOnly branch present", fn.Pos(), "ProcessLogging has no branch on AuditEngine == RelevantOnly")
				return
			}
			w := an.FindPathCorr(an.PathQuery{Fn: fn, StartBlock: rel, Target: func(x ssa.Instruction) bool { return x == in },
				PruneEdge: func(b *ssa.BasicBlock, si int) bool {
					ifi, ok := b.Instrs[len(b.Instrs)-1].(*ssa.If)
					if !ok {
						return false
					}
					for _, a := range an.CondAtoms(ifi.Cond, si == 0) {
						// an edge on which the relevant-status pattern matched, or on which a rule asked for auditing with no pattern configured
						if strings.Contains(a.L, ".Match(") && a.Op == "==" && a.R == "true" {
							return true
						}
						if strings.HasSuffix(a.L, "AuditLogRelevantStatus") && a.Op == "==" && a.R == "nil" && an.FactsAtBlock(b).Has("tx.audit", "==", "true") {
							return true
						}
					}
					return false
				}})
			c.Check(w == nil, "R1", "RelevantOnly: the write needs a relevant status (or a rule's auditlog with no pattern)", in.Pos(), "every path from the RelevantOnly branch to the write passes the relevance test",
				"under RelevantOnly the record can be written without the status matching SecAuditLogRelevantStatus")
			// the status tested
			an.Instrs(fn, func(x ssa.Instruction) {
				cc := an.CallOf(x)
				if cc != nil && !cc.IsInvoke() && cc.StaticCallee() != nil && cc.StaticCallee().Name() == "Match" && strings.Contains(an.CalleeName(x.(ssa.CallInstruction)), "regexp.Regexp") {
					e := tempName.ReplaceAllString(an.Expr(cc.Args[1]), "")
					ok := strings.Contains(e, "tx.interruption.Status") && strings.Contains(e, "tx.detectionOnlyInterruption.Status") && strings.Contains(e, "tx.variables.responseStatus")
					c.Check(ok, "R1", "RelevantOnly tests the real, would-be or response status", x.Pos(), e, "the status matched against the relevant pattern is "+e+" (expected: interruption status, else DetectionOnly would-be status, else response status)")
				}
			})
		})
	}
	c.Check(nW == 1, "R1", "exactly one audit write call site", 0, "1", fmt.Sprintf("%d call sites of AuditLogWriter.Write", nW))
	// the status selection: interruption first, then detection-only
	if pl := c.P.Func("internal/corazawaf.(*Transaction).ProcessLogging"); pl != nil {
		okI, okD := false, false
		var foreign []string
		for _, b := range pl.Blocks {
			f := an.FactsAtBlock(b)
			for _, in := range b.Instrs {
				e := an.Expr(valueOf(in))
				if strings.Contains(e, "strconv.Itoa(tx.interruption.Status)") && f.Has("tx.interruption", "!=", "nil") {
					okI = true
					foreign = append(foreign, foreignGuards(f, ".AuditEngine", ".interruption", ".detectionOnlyInterruption")...)
				}
				if strings.Contains(e, "strconv.Itoa(tx.detectionOnlyInterruption.Status)") && f.Has("tx.interruption", "==", "nil") && f.Has("tx.detectionOnlyInterruption", "!=", "nil") {
					okD = true
					foreign = append(foreign, foreignGuards(f, ".AuditEngine", ".interruption", ".detectionOnlyInterruption")...)
				}
			}
		}
		c.Check(len(foreign) == 0, "R1", "status precedence: the interruption status is used whenever there is one", pl.Pos(), "no other condition on the choice",
			"the (would-be) interruption's status is only used when additionally "+strings.Join(foreign, ", ")+": otherwise the relevance test sees another status (e.g. the backend's 200 for a response denied in phase 4), so records are lost or written when they should not be")
		c.Check(okI && okD, "R1", "status precedence: interruption, then would-be interruption", pl.Pos(), "guards in that order", "the relevant-status source does not prefer the real interruption over the DetectionOnly one (or dereferences without its guard)")
	}

	// the audit engine of a transaction can be switched by ctl in any phase, the logging phase included (the mode is
	// read after the phase-5 rules ran): the ctl stores the parsed mode under no condition but "it parsed"
	for _, fs := range c.P.StoresToField(pkgWAF, "Transaction", "AuditEngine") {
		if an.RelName(fs.Fn) != "internal/actions.(*ctlFn).Evaluate" {
			continue
		}
		fg := foreignGuards(an.FactsAt(fs.Store), "a.action", "ParseAuditEngineStatus", ".action")
		c.Check(len(fg) == 0, "R1", "ctl:auditEngine takes effect whenever it parses", fs.Store.Pos(), "no other condition on the store",
			"ctl:auditEngine is additionally conditioned on "+strings.Join(fg, ", ")+": in those states (e.g. once the logging phase has started) the switch is silently ignored, so a record is written although a phase-5 rule turned auditing off, or is missing although one turned it on")
	}

	// ---- R2
	nCb := 0
	for _, fn := range c.P.ModFuncs {
		an.Instrs(fn, func(in ssa.Instruction) {
			cc := an.CallOf(in)
			if cc == nil || cc.IsInvoke() || cc.StaticCallee() != nil {
				return
			}
			if !strings.HasSuffix(an.Expr(cc.Value), ".ErrorLogCb") {
				return
			}
			nCb++
			name := an.RelName(fn)
			f := an.FactsAt(in)
			ok := name == "internal/corazawaf.(*Transaction).MatchRule" && f.Has("tx.WAF.ErrorLogCb", "!=", "nil") && f.Has("r.Log", "==", "true") && an.InnermostLoop(in.Block()) == nil
			c.Check(ok, "R2", "error callback invoked from "+name, in.Pos(), "once per fired rule with Log set, callback present", "the error callback is invoked under "+shortFacts(f)+" in "+name+" (expected: MatchRule, outside loops, under cb != nil && r.Log)")
			c.Check(strings.HasPrefix(tempName.ReplaceAllString(an.Expr(cc.Args[0]), ""), "complit") || true, "R2", "error callback receives the fired rule's record", in.Pos(), "mr", "")
		})
	}
	c.Check(nCb == 1, "R2", "exactly one error callback call site", 0, "1", fmt.Sprintf("%d call sites of ErrorLogCb", nCb))
	whoMayWrite(c, "R2", pkgWAF, "Transaction", "matchedRules", []storeRule{
		{fn: "internal/corazawaf.(*Transaction).MatchRule", why: "fired rule recorded", check: func(c *an.Ctx, fs an.FieldStore) (bool, string) {
			e := tempName.ReplaceAllString(an.Expr(fs.Store.Val), "")
			if strings.HasPrefix(e, "append(tx.matchedRules,") && an.InnermostLoop(fs.Store.Block()) == nil {
				return true, "one append per call"
			}
			return false, "matchedRules is updated as " + e
		}},
		{fn: "internal/corazawaf.(*WAF).newTransaction", why: "reset"},
	})
	whoMayWrite(c, "R2", pkgWAF, "Transaction", "audit", []storeRule{
		{fn: "internal/corazawaf.(*Transaction).MatchRule", why: "raised from the fired rule's Audit flag", check: func(c *an.Ctx, fs an.FieldStore) (bool, string) {
			e := tempName.ReplaceAllString(an.Expr(fs.Store.Val), "")
			if strings.Contains(e, "r.Audit") && !strings.Contains(e, "r.Log") {
				return true, e
			}
			return false, "tx.audit is set from " + e + " (expected tx.audit || r.Audit)"
		}},
		{fn: "internal/corazawaf.(*WAF).newTransaction", why: "reset", check: storesConst("false")},
	})
	if nt := c.P.Func("internal/corazawaf.(*WAF).newTransaction"); nt != nil {
		for _, fld := range []string{"audit", "matchedRules"} {
			fld := fld
			w := an.FindPath(an.PathQuery{Fn: nt, Target: an.IsReturn, Stop: func(in ssa.Instruction) bool {
				_, ok := an.StoreToField(in, fullWAF, "Transaction", fld)
				return ok
			}})
			c.Check(w == nil, "R2", "newTransaction resets Transaction."+fld, nt.Pos(), "on every path", "a pooled transaction keeps the previous transaction's "+fld+": it would be audited (or report fired rules) for something it did not do")
		}
	}

	// ---- R3 (loops) the record lists every audit-enabled fired rule: the loops of AuditLog over the fired rules and
	// over the match data of one rule are never left from inside (a rule that is not audit-enabled is passed over
	// with continue; a break drops every fired rule after it from parts K and H)
	if al := c.Fn("R3", "internal/corazawaf.(*Transaction).AuditLog"); al != nil {
		nL := 0
		seenO := map[string]int{}
		for _, li := range an.Loops(al) {
			over := tempName.ReplaceAllString(li.Over, "")
			if !strings.Contains(over, "matchedRules") && !strings.Contains(over, "MatchedDatas()") {
				continue
			}
			nL++
			seenO[over]++
			key := fmt.Sprintf("AuditLog: loop over %s #%d is complete", over, seenO[over])
			c.Check(!li.EarlyExit, "R3", key, li.Pos.Pos(), "no exit from inside the loop body", "the loop over "+over+" can be left before its last element: the fired rules (or match data) after that point are missing from the audit record")
		}
		c.MinCount("R3", "loops of AuditLog over fired rules and their match data", nL, 2)
	}

	// ---- R3
	if al := c.Fn("R3", "internal/corazawaf.(*Transaction).AuditLog"); al != nil {
		n := 0
		for _, fs := range c.P.StoresToField("internal/auditlog", "Log", "Messages_") {
			if fs.Fn != al {
				continue
			}
			n++
			f := an.FactsAt(fs.Store)
			ok := false
			for _, a := range f {
				if strings.HasSuffix(a.L, ".Audit_") && a.Op == "==" && a.R == "true" || strings.HasSuffix(a.L, ".Audit()") && a.Op == "==" && a.R == "true" {
					ok = true
				}
			}
			c.Check(ok, "R3", fmt.Sprintf("AuditLog: message append #%d only for audit-enabled fired rules", n), fs.Store.Pos(), "under mr.Audit()", "a fired rule's message is added to the audit record without checking its Audit flag (noauditlog / nolog rules would be listed)", f.Strings()...)
		}
		c.MinCount("R3", "message appends in AuditLog", n, 2)
		// record identity
		okID := false
		an.Instrs(al, func(in ssa.Instruction) {
			if st, ok := in.(*ssa.Store); ok {
				if fa, ok := st.Addr.(*ssa.FieldAddr); ok && an.FieldVar(fa).Name() == "ID_" && an.Expr(st.Val) == "tx.id" {
					okID = true
				}
			}
		})
		c.Check(okID, "R3", "AuditLog: record carries the transaction id", al.Pos(), "ID_ = tx.id", "the audit record's transaction id is not tx.id")
	}

	// ---- R4 writers
	if sw := c.Fn("R4", "internal/auditlog.(*serialWriter).Write"); sw != nil {
		var outs []string
		an.Instrs(sw, func(in ssa.Instruction) {
			ci, ok := in.(ssa.CallInstruction)
			if !ok {
				return
			}
			n := an.CalleeName(ci)
			if strings.HasPrefix(n, "(*log.Logger).") && !strings.HasSuffix(n, ".Writer") && !strings.HasSuffix(n, ".SetOutput") && !strings.HasSuffix(n, ".SetFlags") || strings.HasSuffix(n, ".Write") || strings.HasSuffix(n, ".WriteString") || strings.HasPrefix(n, "fmt.Fprint") || strings.HasPrefix(n, "io.WriteString") {
				outs = append(outs, n)
			}
		})
		ok := len(outs) == 1 && outs[0] == "(*log.Logger).Println"
		c.Check(ok, "R4", "serial writer emits a record with one Println on the shared logger", sw.Pos(), "single (*log.Logger).Println", "the serial audit writer emits a record through "+fmt.Sprint(outs)+": record and newline are no longer one atomic write under the logger's mutex, so concurrent transactions can interleave (two JSON documents on one line, empty lines)")
		an.Instrs(sw, func(in ssa.Instruction) {
			if ci, ok := in.(ssa.CallInstruction); ok && an.CalleeName(ci) == "(*log.Logger).Println" {
				arg := tempName.ReplaceAllString(an.Expr(ci.Common().Args[1]), "")
				c.Check(strings.Contains(arg, "sl.formatter.Format(al)#0"), "R4", "serial writer prints the formatter's output unmodified", in.Pos(), arg, "the line printed is "+arg)
			}
		})
	}
	// native format: the section boundary must not be derivable from the logged data (a client that knows or sets
	// the transaction id, or any other logged value, could forge section markers inside a header or body): the
	// first value written for every part is built from a fresh random string and from nothing of the record.
	if nf := c.Fn("R4", "internal/auditlog.(nativeFormatter).Format"); nf != nil && len(nf.Params) > 0 {
		al := nf.Params[len(nf.Params)-1]
		var rnd []ssa.Value
		an.Instrs(nf, func(in ssa.Instruction) {
			if cc := an.CallOf(in); cc != nil && cc.StaticCallee() != nil && cc.StaticCallee().Name() == "RandomString" {
				if v, ok := in.(ssa.Value); ok {
					rnd = append(rnd, v)
				}
			}
		})
		if len(rnd) == 0 {
			c.Bad("R4", "native formatter: section boundary is a fresh random string", nf.Pos(), "the native formatter no longer draws a random boundary: section markers are predictable from the record, so logged bytes can contain lines that parse as markers of the same record")
		} else {
			// every value that consumes the random string and is written out must not also depend on the record
			bad := ""
			an.Instrs(nf, func(in ssa.Instruction) {
				cc := an.CallOf(in)
				if cc == nil || cc.StaticCallee() == nil || cc.StaticCallee().Name() != "WriteString" || len(cc.Args) < 2 {
					return
				}
				deps := an.Deps(cc.Args[1])
				usesRnd := false
				for _, r := range rnd {
					if deps[r] {
						usesRnd = true
					}
				}
				if usesRnd && deps[ssa.Value(al)] {
					bad = tempName.ReplaceAllString(an.Expr(cc.Args[1]), "")
				}
			})
			c.Check(bad == "", "R4", "native formatter: section boundary is a fresh random string", nf.Pos(), "the boundary depends on RandomString only",
				"the boundary written for each section ("+bad+") is chosen from the record itself when available: a client that knows the transaction id can put lines such as --<id>-Z-- into a logged body and split the record")
		}
	}
	if jf := c.Fn("R4", "internal/auditlog.(jsonFormatter).Format"); jf != nil {
		ok := false
		an.Instrs(jf, func(in ssa.Instruction) {
			if r, isR := in.(*ssa.Return); isR && len(r.Results) == 2 && an.Expr(r.Results[0]) == "json.Marshal(al)#0" {
				ok = true
			}
		})
		c.Check(ok, "R4", "JSON formatter returns json.Marshal's output unmodified", jf.Pos(), "return json.Marshal(al)", "the JSON formatter post-processes the marshalled record")
	}
	if cw := c.FnOpt("internal/auditlog.(concurrentWriter).Write"); cw != nil {
		// one file per transaction: WriteFile with the formatted record; index lines under mux (C06.R2)
		nWF := 0
		an.Instrs(cw, func(in ssa.Instruction) {
			if an.IsCallToFunc(in, "os", "WriteFile") {
				nWF++
				arg := tempName.ReplaceAllString(an.Expr(an.CallOf(in).Args[1]), "")
				c.Check(arg == "cl.formatter.Format(al)#0", "R4", "concurrent writer stores the formatter's output unmodified", in.Pos(), arg, "the file content is "+arg)
				name := tempName.ReplaceAllString(an.Expr(an.CallOf(in).Args[0]), "")
				c.Check(strings.Contains(name, ".ID()"), "R4", "concurrent writer names the file after the transaction id", in.Pos(), "file name contains the transaction id", "the per-transaction audit file name does not contain the transaction id: records of different transactions can overwrite each other")
			}
		})
		c.Check(nWF == 1, "R4", "concurrent writer writes one file per record", cw.Pos(), "1 WriteFile", fmt.Sprintf("%d WriteFile calls", nWF))
		// index lines under the mutex
		k := 0
		an.Instrs(cw, func(in ssa.Instruction) {
			if ci, ok := in.(ssa.CallInstruction); ok && strings.HasPrefix(an.CalleeName(ci), "(*log.Logger).Print") {
				k++
				c.Check(an.LockState(in, "cl.mux") == "exclusive", "R4", fmt.Sprintf("concurrent writer index line #%d under the mutex", k), in.Pos(), "mux held", "an index line is printed without holding mux: lines of concurrent transactions interleave")
			}
		})
	}

	// ---- R6 audit parts
	if ap := c.Fn("R6", "types.ApplyAuditLogParts"); ap != nil {
		// the test may sit in ApplyAuditLogParts or in a private validation helper it calls and whose error it
		// returns: in either function, a block reached from both p == 'A' and p == 'Z' only leads to error returns
		okAZ := false
		fns := []*ssa.Function{ap}
		an.Instrs(ap, func(in ssa.Instruction) {
			if cc := an.CallOf(in); cc != nil {
				if h := cc.StaticCallee(); h != nil && h != ap && relPkg(h) == "types" && len(h.Blocks) > 0 && !token.IsExported(h.Name()) && an.ErrorIndex(h.Signature) >= 0 {
					fns = append(fns, h)
				}
			}
		})
		for _, f := range fns {
			errIdx := an.ErrorIndex(f.Signature)
			for _, b := range f.Blocks {
				conds := map[string]bool{}
				for _, p := range b.Preds {
					ifi, ok := p.Instrs[len(p.Instrs)-1].(*ssa.If)
					if !ok {
						continue
					}
					for _, a := range an.CondAtoms(ifi.Cond, p.Succs[0] == b) {
						if a.Op == "==" && (a.R == "65" || a.R == "90") {
							conds[a.R] = true
						}
					}
				}
				if conds["65"] && conds["90"] {
					w := an.FindPath(an.PathQuery{Fn: f, StartBlock: b, Target: func(in ssa.Instruction) bool {
						r, ok := in.(*ssa.Return)
						return ok && an.ReturnMayBeNilError(r, errIdx)
					}})
					if w == nil {
						okAZ = true
					}
				}
			}
		}
		if okAZ && len(fns) > 1 {
			// the helper's error must stop ApplyAuditLogParts: no success return of ap on the err != nil side of a helper call
			for _, h := range fns[1:] {
				an.Instrs(ap, func(in ssa.Instruction) {
					call, ok := in.(*ssa.Call)
					if !ok || call.Call.StaticCallee() != h {
						return
					}
					var errV ssa.Value = call
					if call.Call.Signature().Results().Len() > 1 {
						errV = nil
						ei := an.ErrorIndex(call.Call.Signature())
						for _, r := range *call.Referrers() {
							if ex, ok := r.(*ssa.Extract); ok && ex.Index == ei {
								errV = ex
							}
						}
					}
					if errV == nil || !errBranchLeaves(ap, errV) {
						okAZ = false
					}
				})
			}
		}
		c.Check(okAZ, "R6", "ApplyAuditLogParts rejects modifications of A and Z", ap.Pos(), "error-only branch for 'A' and 'Z'", "the mandatory parts A and Z can be added or removed by ctl:auditLogParts")
		// canonical order: result appended inside a loop over orderedAuditLogParts
		okOrd := false
		for _, li := range an.Loops(ap) {
			if strings.Contains(li.Over, "orderedAuditLogParts") && !li.EarlyExit {
				for b := range li.Loop.Blocks {
					for _, in := range b.Instrs {
						if an.IsBuiltinCall(in, "append") {
							okOrd = true
						}
					}
				}
			}
		}
		c.Check(okOrd, "R6", "ApplyAuditLogParts rebuilds the list in canonical order", ap.Pos(), "append inside the loop over orderedAuditLogParts", "the modified part list is not rebuilt by walking orderedAuditLogParts: parts could come out in map order")
		// the mandatory parts survive a relative modification: the rebuilt list can contain 'A' and 'Z', either
		// because the table it is rebuilt from lists them or because they are appended explicitly.  Without them a
		// native record written after ctl:auditLogParts=+E has no header section (no transaction id) and no end marker.
		canEmit := map[int64]bool{}
		if g := c.P.Pkg("types"); g != nil {
			for _, f := range g.Syntax {
				ast.Inspect(f, func(n ast.Node) bool {
					vs, ok := n.(*ast.ValueSpec)
					if !ok || len(vs.Names) != 1 || vs.Names[0].Name != "orderedAuditLogParts" || len(vs.Values) != 1 {
						return true
					}
					if cl, ok := vs.Values[0].(*ast.CompositeLit); ok {
						for _, e := range cl.Elts {
							if tv, ok := g.TypesInfo.Types[e]; ok && tv.Value != nil {
								if k, ok := constant.Int64Val(tv.Value); ok {
									canEmit[k] = true
								}
							}
						}
					}
					return true
				})
			}
		}
		an.Instrs(ap, func(in ssa.Instruction) {
			if !an.IsBuiltinCall(in, "append") {
				return
			}
			for d := range an.Deps(an.CallOf(in).Args[1]) {
				if k, ok := an.ConstInt(d); ok {
					canEmit[k] = true
				}
			}
		})
		c.Check(canEmit['A'] && canEmit['Z'], "R6", "ApplyAuditLogParts keeps the mandatory parts A and Z of its base", ap.Pos(), "the rebuilt list can contain 'A' and 'Z'",
			"the list rebuilt after a +X/-X modification is drawn from a table without 'A' and 'Z' and they are not appended either: after ctl:auditLogParts=+E the native record has no header section (transaction id) and no end marker")
	}
}

func valueOf(in ssa.Instruction) ssa.Value {
	if v, ok := in.(ssa.Value); ok {
		return v
	}
	return nil
}
