package props

// Rules added after seeding round 7 (DESIGN.md §9).  Each is called from the run function of
// the property that owns it; shared.go lists the siblings they are also reported under.

import (
	"fmt"
	"go/token"
	"go/types"
	"sort"
	"strings"

	"czcheck/an"

	"golang.org/x/tools/go/ssa"
)

func isReturn(in ssa.Instruction) bool { _, ok := in.(*ssa.Return); return ok }

// everyPathPasses: every path from the entry of fn (or from the block start) to a return passes
// an instruction satisfying ev.  Returns a witness path otherwise.
func everyPathPasses(fn *ssa.Function, start *ssa.BasicBlock, ev func(ssa.Instruction) bool) *an.Witness {
	return an.FindPath(an.PathQuery{Fn: fn, StartBlock: start, Target: isReturn, Stop: ev})
}

// callsMethodNamed: in is a call (static, through a private helper, or an interface invoke) of a method called name.
func callsMethodNamed(in ssa.Instruction, name string) bool {
	cc := an.CallOf(in)
	if cc == nil {
		return false
	}
	if cc.IsInvoke() {
		return cc.Method.Name() == name
	}
	if sc := cc.StaticCallee(); sc != nil {
		return sc.Name() == name && sc.Signature.Recv() != nil
	}
	return false
}

// r7DisruptiveInterrupts (C02.R5): deny, drop and redirect hand their interruption to the
// transaction on every path of Evaluate.  Whether it interrupts, or is only remembered as the
// would-be interruption of a DetectionOnly transaction, is Transaction.Interrupt's decision
// (C02.R2): an action that tests the engine mode itself and returns makes its would-be
// status invisible to the audit decision and to IsDetectionOnlyInterrupted.
func r7DisruptiveInterrupts(c *an.Ctx) {
	n := 0
	for _, name := range []string{"denyFn", "dropFn", "redirectFn"} {
		fn := c.FnOpt("internal/actions.(*" + name + ").Evaluate")
		if fn == nil {
			continue
		}
		n++
		fns := append([]*ssa.Function{}, privateCallees(fn, "internal/actions")...)
		w := everyPathPasses(fn, nil, func(in ssa.Instruction) bool {
			if callsMethodNamed(in, "Interrupt") {
				return true
			}
			for _, h := range fns {
				if an.IsCallTo(in, h) && everyPathPasses(h, nil, func(x ssa.Instruction) bool { return callsMethodNamed(x, "Interrupt") }) == nil {
					return true
				}
			}
			return false
		})
		key := name + ".Evaluate reaches tx.Interrupt on every path"
		if w == nil {
			c.Ok("R5", key, fn.Pos(), "no path from entry to a return avoids the Interrupt call")
		} else {
			c.Bad("R5", key, w.Target.Pos(), "some path through Evaluate returns without calling tx.Interrupt: the action decides by itself when not to interrupt (e.g. by testing the engine mode), so under DetectionOnly no would-be interruption is recorded and the relevant-status audit decision never sees this rule's status", c.P.TrailString(w)...)
		}
	}
	c.MinCount("R5", "disruptive actions whose Evaluate must reach Interrupt", n, 3)
}

// r7AddActionAppends (C08.R7): Rule.AddAction records the action it is given on every path that
// reports success, by appending it.  A path that returns nil without the append (an action
// "merged" into or substituted for an earlier one) loses an action the rule text carries:
// `skipAfter:END,chain` would keep only one of the two flow actions.
func r7AddActionAppends(c *an.Ctx) {
	fn := c.Fn("R7", "internal/corazawaf.(*Rule).AddAction")
	if fn == nil {
		return
	}
	isAppend := func(in ssa.Instruction) bool {
		st, ok := in.(*ssa.Store)
		if !ok || !an.IsFieldAddrOf(st.Addr, fullWAF, "Rule", "actions") {
			return false
		}
		call, ok := st.Val.(*ssa.Call)
		return ok && an.IsBuiltinCall(call, "append")
	}
	w := an.FindPath(an.PathQuery{Fn: fn, Stop: isAppend, Target: func(in ssa.Instruction) bool {
		r, ok := in.(*ssa.Return)
		if !ok || len(r.Results) != 1 {
			return false
		}
		cst, isC := r.Results[0].(*ssa.Const)
		return isC && cst.Value == nil // a success return
	}})
	key := "Rule.AddAction appends the action on every successful path"
	if w == nil {
		c.Ok("R7", key, fn.Pos(), "every path to `return nil` passes r.actions = append(r.actions, ...)")
	} else {
		c.Bad("R7", key, w.Target.Pos(), "AddAction can report success without appending the action it was given: an action written in the rule text (for instance the skipAfter of `skipAfter:END,chain`) is replaced or dropped", c.P.TrailString(w)...)
	}
	// and nothing but an append writes the list here
	an.Instrs(fn, func(in ssa.Instruction) {
		if ia, ok := in.(*ssa.IndexAddr); ok && strings.HasSuffix(tempName.ReplaceAllString(an.Expr(ia.X), ""), "r.actions") {
			for _, ref := range *ia.Referrers() {
				if st, ok := ref.(*ssa.Store); ok && st.Addr == ssa.Value(ia) {
					c.Bad("R7", "Rule.AddAction never overwrites an element of the action list", st.Pos(), "AddAction overwrites an element of r.actions: the action that was there is lost")
				}
			}
		}
	})
}

// r7ResponseContentType (C18.R5 / C03.R8 sibling): whenever a response header named Content-Type
// is added, RESPONSE_CONTENT_TYPE is set, under no further condition, to the media type cut
// from the value.  A parser that can fail on the parameters (mime.ParseMediaType on
// `text/html; charset`) leaves the variable empty, the response is classified "not
// processable" and streamed, and a phase-4 deny never runs.
func r7ResponseContentType(c *an.Ctx, rule string) {
	fn := c.Fn(rule, "internal/corazawaf.(*Transaction).AddResponseHeader")
	if fn == nil {
		return
	}
	isSet := func(in ssa.Instruction) bool {
		cc := an.CallOf(in)
		return cc != nil && callsMethodNamed(in, "Set") && len(cc.Args) > 0 && strings.Contains(an.Expr(cc.Args[0]), "responseContentType")
	}
	n := 0
	for _, b := range fn.Blocks {
		ifi, ok := b.Instrs[len(b.Instrs)-1].(*ssa.If)
		if !ok {
			continue
		}
		for si := 0; si < 2; si++ {
			for _, a := range an.CondAtoms(ifi.Cond, si == 0) {
				lit := strings.EqualFold(strings.Trim(a.R, "\""), "content-type") && a.Op == "=="
				fold := a.Op == "==" && a.R == "true" && strings.Contains(strings.ToLower(a.L), "\"content-type\"")
				if lit || fold {
					n++
					w := everyPathPasses(fn, b.Succs[si], isSet)
					key := "AddResponseHeader: a Content-Type header always sets RESPONSE_CONTENT_TYPE"
					if w == nil {
						c.Ok(rule, key, ifi.Pos(), "every path from the content-type branch to the return passes responseContentType.Set")
					} else {
						c.Bad(rule, key, w.Target.Pos(), "some path through the content-type branch of AddResponseHeader returns without setting RESPONSE_CONTENT_TYPE (for instance when a media-type parser rejects the parameters): the response is then treated as not processable, it is streamed to the client and the response body phase never sees it", c.P.TrailString(w)...)
					}
				}
			}
		}
	}
	c.MinCount(rule, "content-type branches in AddResponseHeader", n, 1)
}

// r7CloseOnce (C18.R2, shared with C05/C04): in the http connector a transaction is finished
// (ProcessLogging, Close) by the deferred function of the middleware and by nothing else.  A
// second Close puts the pooled object into sync.Pool twice, and two later transactions then
// share one Transaction.
func r7CloseOnce(c *an.Ctx, rule string) {
	if c.FnOpt("http.WrapHandler") == nil {
		return // package not built in this configuration
	}
	nClose, nLog := 0, 0
	for _, fn := range c.P.ModFuncs {
		if relPkg(fn) != "http" {
			continue
		}
		an.Instrs(fn, func(in ssa.Instruction) {
			cc := an.CallOf(in)
			if cc == nil || !cc.IsInvoke() {
				return
			}
			recv := cc.Value.Type().String()
			if !strings.HasSuffix(recv, "types.Transaction") {
				return
			}
			m := cc.Method.Name()
			if m != "Close" && m != "ProcessLogging" {
				return
			}
			if m == "Close" {
				nClose++
			} else {
				nLog++
			}
			outer := an.OuterFn(fn)
			_, deferred := in.(*ssa.Defer)
			inDeferredClosure := false
			if fn.Parent() != nil {
				// the closure is the operand of a defer in its parent
				an.Instrs(fn.Parent(), func(x ssa.Instruction) {
					if d, ok := x.(*ssa.Defer); ok {
						if mc, ok := d.Call.Value.(*ssa.MakeClosure); ok && mc.Fn == ssa.Value(fn) {
							inDeferredClosure = true
						}
					}
				})
			}
			key := fmt.Sprintf("%s of the transaction in %s is deferred clean-up of the middleware", m, an.RelName(fn))
			ok := (deferred || inDeferredClosure) && strings.HasPrefix(an.RelName(outer), "http.WrapHandler")
			if !ok && fn.Parent() == nil && fn.Object() != nil && !fn.Object().Exported() {
				// a named clean-up function: every call of it is a defer inside the middleware
				sites := c.P.CallSites(func(x ssa.Instruction) bool { return an.IsCallTo(x, fn) })
				ok = len(sites) > 0
				for _, cs := range sites {
					if _, isDefer := cs.Call.(*ssa.Defer); !isDefer || !strings.HasPrefix(an.RelName(an.OuterFn(cs.Fn)), "http.WrapHandler") {
						ok = false
					}
				}
			}
			c.Check(ok, rule, key, in.Pos(), "called from the deferred function of the request closure", "the connector calls "+m+" outside the middleware's deferred clean-up: the transaction is finished twice (the deferred clean-up still runs), and a second Close returns the same pooled object to sync.Pool, so two later transactions share it")
		})
	}
	c.MinCount(rule, "Close call sites in the http connector", nClose, 1)
	c.MinCount(rule, "ProcessLogging call sites in the http connector", nLog, 1)
}

// r7RawURI (C03.R2): REQUEST_URI_RAW and REQUEST_LINE record the request target exactly as it
// was handed to ProcessURI: the value given to their Set calls derives from the uri parameter
// itself, not from a string cut, trimmed or re-assembled before.
func r7RawURI(c *an.Ctx, rule string) {
	fn := c.Fn(rule, "internal/corazawaf.(*Transaction).ProcessURI")
	if fn == nil {
		return
	}
	n := 0
	an.Instrs(fn, func(in ssa.Instruction) {
		cc := an.CallOf(in)
		if cc == nil || !callsMethodNamed(in, "Set") || len(cc.Args) < 2 {
			return
		}
		recv := an.Expr(cc.Args[0])
		which := ""
		switch {
		case strings.Contains(recv, "requestURIRaw"):
			which = "REQUEST_URI_RAW"
		case strings.Contains(recv, "requestLine"):
			which = "REQUEST_LINE"
		default:
			return
		}
		n++
		// the uri part of the value: the parameter itself
		bad := ""
		var walk func(v ssa.Value, depth int)
		seen := map[ssa.Value]bool{}
		walk = func(v ssa.Value, depth int) {
			if seen[v] || depth > 8 {
				return
			}
			seen[v] = true
			switch x := v.(type) {
			case *ssa.Parameter, *ssa.Const:
			case *ssa.BinOp:
				if x.Op == token.ADD {
					walk(x.X, depth+1)
					walk(x.Y, depth+1)
				} else {
					bad = an.Expr(v)
				}
			case *ssa.Call:
				// fmt.Sprintf / strings.Join style assembly of the request line from the parameters
				if sc := x.Call.StaticCallee(); sc != nil && sc.Pkg != nil && (sc.Pkg.Pkg.Path() == "fmt" || sc.Pkg.Pkg.Path() == "strings" && sc.Name() == "Join") {
					for _, a := range x.Call.Args {
						walk(a, depth+1)
					}
				} else {
					bad = an.Expr(v)
				}
			case *ssa.Slice:
				if _, isAlloc := x.X.(*ssa.Alloc); isAlloc { // variadic argument array
					for _, ref := range *x.X.(*ssa.Alloc).Referrers() {
						if ia, ok := ref.(*ssa.IndexAddr); ok {
							for _, r2 := range *ia.Referrers() {
								if st, ok := r2.(*ssa.Store); ok {
									walk(st.Val, depth+1)
								}
							}
						}
					}
				} else {
					bad = an.Expr(v)
				}
			case *ssa.MakeInterface:
				walk(x.X, depth+1)
			case *ssa.Phi:
				bad = an.Expr(v)
			default:
				bad = an.Expr(v)
			}
		}
		walk(cc.Args[1], 0)
		key := which + " is set from the uri parameter as received"
		c.Check(bad == "", rule, key, in.Pos(), "the value is built from ProcessURI's parameters only", "the value stored in "+which+" goes through "+bad+": the raw variables no longer hold the request target as it was received (bytes behind a '#', for instance, become invisible to every rule)")
	})
	c.MinCount(rule, "raw request-target variables set by ProcessURI", n, 2)
}

// r7MacroString (C17.R5): Macro.String returns the text the macro was compiled from (a field
// that compile stores from its input parameter, verbatim).  SecRuleRemoveByMsg and the ctl
// by-message forms compare it with the configured message; a text re-rendered from the
// compiled tokens (%{tx.Score} -> %{TX.score}) matches nothing.
func r7MacroString(c *an.Ctx, rule string) {
	fn := c.Fn(rule, "experimental/plugins/macro.(*macro).String")
	comp := c.Fn(rule, "experimental/plugins/macro.(*macro).compile")
	if fn == nil || comp == nil {
		return
	}
	key := "macro.String returns the source text stored by compile"
	var fv *types.Var
	ok := true
	an.Instrs(fn, func(in ssa.Instruction) {
		r, isR := in.(*ssa.Return)
		if !isR || len(r.Results) != 1 {
			return
		}
		u, isU := r.Results[0].(*ssa.UnOp)
		if !isU || an.FieldVar(u.X) == nil {
			ok = false
			return
		}
		if fv != nil && fv != an.FieldVar(u.X) {
			ok = false
		}
		fv = an.FieldVar(u.X)
	})
	if !ok || fv == nil {
		c.Bad(rule, key, fn.Pos(), "Macro.String does not return a stored field: the text compared by SecRuleRemoveByMsg / ctl:ruleRemoveByMsg is re-rendered from the compiled tokens, which normalises the spelling of variables and keys, so a message written with a macro is never found")
		return
	}
	stored := false
	bad := ""
	for _, f := range c.P.ModFuncs {
		an.Instrs(f, func(in ssa.Instruction) {
			st, isS := in.(*ssa.Store)
			if !isS || an.FieldVar(st.Addr) != fv {
				return
			}
			if p, isP := st.Val.(*ssa.Parameter); isP && f == comp && p.Type().String() == "string" {
				stored = true
			} else {
				bad = an.Expr(st.Val) + " in " + an.RelName(f)
			}
		})
	}
	c.Check(stored && bad == "", rule, key, fn.Pos(), "field "+fv.Name()+" is stored once, from compile's input parameter", "the field returned by Macro.String is not (only) the input of compile: "+bad)
}

// r7KeepFilesPredicate (C20.R2): under SecUploadKeepFiles RelevantOnly the uploaded files are
// kept only when a matched rule has logging enabled: the predicate consults MatchedRule.Log
// and nothing else (a nolog,auditlog match keeps nothing).
func r7KeepFilesPredicate(c *an.Ctx, rule string) {
	fn := c.Fn(rule, "internal/corazawaf.(*Transaction).hasLogRelevantMatchedRules")
	if fn == nil {
		return
	}
	var other []string
	nLog := 0
	for _, f := range append([]*ssa.Function{fn}, privateCallees(fn, pkgWAF)...) {
		an.Instrs(f, func(in ssa.Instruction) {
			cc := an.CallOf(in)
			if cc == nil {
				return
			}
			name := ""
			if cc.IsInvoke() {
				name = cc.Method.Name()
			} else if sc := cc.StaticCallee(); sc != nil && sc.Signature.Recv() != nil {
				name = sc.Name()
			} else {
				return
			}
			if name == "Log" {
				nLog++
			} else if res := cc.Signature().Results(); res.Len() == 1 && res.At(0).Type().String() == "bool" {
				other = append(other, name)
			}
		})
	}
	key := "RelevantOnly upload retention is decided by MatchedRule.Log alone"
	c.Check(nLog >= 1 && len(other) == 0, rule, key, fn.Pos(), "the predicate reads Log() only", fmt.Sprintf("the retention predicate also consults %v (or no longer Log): uploads of a transaction whose only matches are nolog rules stay on disk after Close", other))
}

// r7FactoriesFresh (C06.R1): a factory handed to one of the plugin registries (audit-log writers,
// operators, actions, body processors) builds a new object on every call.  The objects carry
// per-WAF state (a writer's file and formatter, an operator's compiled argument): a factory
// that returns a captured or package-level instance gives every WAF of the process the same
// object, so building one WAF re-initialises the object another WAF's transactions are using.
func r7FactoriesFresh(c *an.Ctx, rule string) {
	n := 0
	seen := map[string]int{}
	for _, fn := range c.P.ModFuncs {
		an.Instrs(fn, func(in ssa.Instruction) {
			cc := an.CallOf(in)
			if cc == nil || cc.StaticCallee() == nil || !strings.HasPrefix(cc.StaticCallee().Name(), "Register") || !c.P.InModule(cc.StaticCallee()) {
				return
			}
			if strings.HasPrefix(relPkg(fn), "testing") || strings.HasPrefix(relPkg(fn), "examples") {
				return
			}
			for _, a := range cc.Args {
				var fac *ssa.Function
				switch x := a.(type) {
				case *ssa.MakeClosure:
					fac, _ = x.Fn.(*ssa.Function)
				case *ssa.Function:
					fac = x
				case *ssa.ChangeType:
					if mc, ok := x.X.(*ssa.MakeClosure); ok {
						fac, _ = mc.Fn.(*ssa.Function)
					} else if f, ok := x.X.(*ssa.Function); ok {
						fac = f
					}
				}
				if fac == nil || fac.Signature.Params().Len() != 0 || fac.Signature.Results().Len() < 1 || len(fac.Blocks) == 0 {
					continue // not a constructor-style factory (transformations are registered as functions of their input)
				}
				n++
				name := an.RelName(fac)
				seen[name]++
				key := "factory " + name + " registered by " + an.RelName(fn) + " builds a new object per call"
				bad := ""
				an.Instrs(fac, func(x ssa.Instruction) {
					r, ok := x.(*ssa.Return)
					if !ok || len(r.Results) == 0 {
						return
					}
					v := r.Results[0]
					for {
						if mi, ok := v.(*ssa.MakeInterface); ok {
							v = mi.X
						} else if ci, ok := v.(*ssa.ChangeInterface); ok {
							v = ci.X
						} else {
							break
						}
					}
					shared := ""
					switch y := v.(type) {
					case *ssa.FreeVar:
						shared = "the captured variable " + y.Name()
					case *ssa.Global:
						shared = "the package variable " + y.Name()
					case *ssa.UnOp:
						switch z := y.X.(type) {
						case *ssa.FreeVar:
							shared = "the captured variable " + z.Name()
						case *ssa.Global:
							shared = "the package variable " + z.Name()
						}
					}
					if shared == "" {
						return
					}
					// an object without fields cannot carry state
					t := v.Type()
					if p, ok := t.Underlying().(*types.Pointer); ok {
						t = p.Elem()
					}
					if st, ok := t.Underlying().(*types.Struct); ok && st.NumFields() == 0 {
						return
					}
					bad = shared
				})
				c.Check(bad == "", rule, key, in.Pos(), "every return hands out a value allocated or constructed in the call", "the registered factory returns "+bad+": every WAF of the process (and every rule using the plugin) receives the same object, so configuring one re-initialises the object the others are using")
			}
		})
	}
	c.MinCount(rule, "constructor-style factories handed to a plugin registry", n, 4)
}

// r7WriterTypestate (C20.R3, shared with C07): the built-in audit-log writers use one field as
// the sign that Init succeeded (Write returns at once while it is nil).  In Init that field
// is therefore stored last: (1) no return of an error is reachable after the store, and
// (2) every return reachable after the store is preceded, on every path, by a store to each
// pointer field Write dereferences.  Otherwise a writer whose Init failed, or returned early,
// is half configured, and the next Write (WAF.AuditLogWriter hands the writer out even when
// Init failed) dereferences a nil logger.
func r7WriterTypestate(c *an.Ctx, rule string) {
	n := 0
	pkg := c.P.SSAPkgs[an.ModPath+"/internal/auditlog"]
	if pkg == nil {
		c.Unknown(rule, "package internal/auditlog", token.NoPos, "package not loaded")
		return
	}
	for _, name := range sortedMemberNames(pkg) {
		tn, ok := pkg.Members[name].(*ssa.Type)
		if !ok {
			continue
		}
		st, ok := tn.Type().Underlying().(*types.Struct)
		if !ok {
			continue
		}
		initFn := c.P.Func("internal/auditlog.(*" + name + ").Init")
		writeFn := c.P.Func("internal/auditlog.(*" + name + ").Write")
		if writeFn == nil || len(writeFn.Blocks) == 0 || writeFn.Synthetic != "" {
			if v := c.P.Func("internal/auditlog.(" + name + ").Write"); v != nil {
				writeFn = v
			}
		}
		if initFn == nil || writeFn == nil || len(initFn.Blocks) == 0 || len(writeFn.Blocks) == 0 {
			continue
		}
		// the sentinel: a field of the receiver compared with nil by an If of Write one arm of which returns at once
		var sentinel *types.Var
		for _, b := range writeFn.Blocks {
			ifi, ok := b.Instrs[len(b.Instrs)-1].(*ssa.If)
			if !ok || sentinel != nil {
				continue
			}
			bo, ok := ifi.Cond.(*ssa.BinOp)
			if !ok || (bo.Op != token.EQL && bo.Op != token.NEQ) {
				continue
			}
			for _, side := range []ssa.Value{bo.X, bo.Y} {
				if u, ok := side.(*ssa.UnOp); ok {
					if fv := an.FieldVar(u.X); fv != nil && fieldOfStruct(st, fv) {
						sentinel = fv
					}
				}
			}
		}
		if sentinel == nil {
			continue
		}
		n++
		c.FuncsAnalysed[initFn] = true
		// pointer fields Write goes through
		var deref []*types.Var
		an.Instrs(writeFn, func(in ssa.Instruction) {
			u, ok := in.(*ssa.UnOp)
			if !ok || u.Op != token.MUL {
				return
			}
			fv := an.FieldVar(u.X)
			if fv == nil || !fieldOfStruct(st, fv) || fv == sentinel {
				return
			}
			if _, isPtr := fv.Type().Underlying().(*types.Pointer); !isPtr {
				return
			}
			for _, d := range deref {
				if d == fv {
					return
				}
			}
			deref = append(deref, fv)
		})
		var stores []ssa.Instruction
		an.Instrs(initFn, func(in ssa.Instruction) {
			if s, ok := in.(*ssa.Store); ok && an.FieldVar(s.Addr) == sentinel {
				stores = append(stores, in)
			}
		})
		key := name + ".Init stores " + sentinel.Name() + " (the field Write tests) only once nothing can fail any more"
		if len(stores) == 0 {
			c.Bad(rule, key, initFn.Pos(), "Init never stores the field Write tests before using the writer")
			continue
		}
		ei := an.ErrorIndex(initFn.Signature)
		bad := ""
		var at token.Pos
		for _, s := range stores {
			w := an.FindPath(an.PathQuery{Fn: initFn, After: s, Target: func(in ssa.Instruction) bool {
				r, ok := in.(*ssa.Return)
				if !ok || ei < 0 || ei >= len(r.Results) {
					return false
				}
				cst, isC := r.Results[ei].(*ssa.Const)
				return !(isC && cst.Value == nil)
			}})
			if w != nil {
				bad, at = "Init can still fail after storing "+sentinel.Name()+": the writer is left half configured and the next Write uses it", w.Target.Pos()
				break
			}
			// every return reachable afterwards has all the pointer fields in place
			an.Instrs(initFn, func(in ssa.Instruction) {
				r, ok := in.(*ssa.Return)
				if !ok || bad != "" {
					return
				}
				if an.FindPath(an.PathQuery{Fn: initFn, After: s, Target: func(x ssa.Instruction) bool { return x == ssa.Instruction(r) }}) == nil {
					return
				}
				for _, fv := range deref {
					fv := fv
					if w := an.FindPath(an.PathQuery{Fn: initFn, Target: func(x ssa.Instruction) bool { return x == ssa.Instruction(r) }, Stop: func(x ssa.Instruction) bool {
						s2, ok := x.(*ssa.Store)
						return ok && an.FieldVar(s2.Addr) == fv
					}}); w != nil {
						bad, at = "Init can return with "+sentinel.Name()+" set but "+fv.Name()+" (dereferenced by Write) never stored", r.Pos()
					}
				}
			})
		}
		if bad == "" {
			c.Ok(rule, key, stores[0].Pos(), fmt.Sprintf("no failing return after the store; %d pointer field(s) used by Write are stored before every later return", len(deref)))
		} else {
			c.Bad(rule, key, at, bad+" (nil pointer dereference in ProcessLogging; WAF.AuditLogWriter hands the writer out even when Init reported an error)")
		}
	}
	c.MinCount(rule, "audit-log writers with an initialised-sentinel field", n, 1) // the tinygo build has the serial writer only
}

func fieldOfStruct(st *types.Struct, fv *types.Var) bool {
	for i := 0; i < st.NumFields(); i++ {
		if st.Field(i) == fv {
			return true
		}
	}
	return false
}

func sortedMemberNames(pkg *ssa.Package) []string {
	var out []string
	for n := range pkg.Members {
		out = append(out, n)
	}
	sort.Strings(out)
	return out
}

// r7SetvarParseErrors (C09.R5, shared with C04): setvar arithmetic uses a number only where its
// parse succeeded: for every strconv parse in evaluateTxCollection the err != nil branch leaves
// the function and never rejoins the path that computes the sum.  Continuing with a default
// (treating a non-numeric current value as 0) makes the final value of a counter depend on
// the order in which the values of a target were visited.
func r7SetvarParseErrors(c *an.Ctx, rule string) {
	fn := c.Fn(rule, "internal/actions.(*setvarFn).evaluateTxCollection")
	if fn == nil {
		return
	}
	n := 0
	for _, f := range append([]*ssa.Function{fn}, privateCallees(fn, "internal/actions")...) {
		f := f
		an.Instrs(f, func(in ssa.Instruction) {
			call, ok := in.(*ssa.Call)
			if !ok {
				return
			}
			sc := call.Call.StaticCallee()
			if sc == nil || sc.Pkg == nil || sc.Pkg.Pkg.Path() != "strconv" || !(sc.Name() == "Atoi" || strings.HasPrefix(sc.Name(), "Parse")) {
				return
			}
			n++
			var errV ssa.Value
			for _, ref := range *call.Referrers() {
				if ex, ok := ref.(*ssa.Extract); ok && ex.Index == 1 {
					errV = ex
				}
			}
			key := fmt.Sprintf("setvar: %s result #%d used only where it parsed", sc.Name(), n)
			if errV == nil {
				c.Bad(rule, key, call.Pos(), "the parse error of "+an.Expr(call)+" is discarded: a value that is not a number is computed with as if it were one")
				return
			}
			c.Check(errBranchLeaves(f, errV) || !valueUsedOnErrBranch(f, call, errV), rule, key, call.Pos(), "the err != nil branch leaves the function without rejoining the arithmetic", "the err != nil branch of "+an.Expr(call)+" continues into the arithmetic with a substitute value: a counter fed from several values of a collection then ends with a total that depends on the (map) order the values were visited in, and a non-numeric stored value is silently treated as a number")
		})
	}
	c.MinCount(rule, "number parses in setvar arithmetic", n, 2)
}

// r7OneApplicationPerToken (C17.R1, shared with C09): SecRuleUpdateActionById / TargetById apply
// their update once per id or range written.  Inside one iteration of the loop over the ids,
// no path passes an application site (the single-id helper, or the per-rule application of the
// range loop) and then reaches another one: a one-element range `N-N` that falls through from
// the single-id shortcut into the range loop attaches the actions to rule N twice, and every
// setvar of the update then counts twice per match.
func r7OneApplicationPerToken(c *an.Ctx, rule string) {
	n := 0
	seenKey := map[string]int{}
	for _, name := range []string{"directiveSecRuleUpdateActionByID", "directiveSecRuleUpdateTargetByID"} {
		fn := c.Fn(rule, "internal/seclang."+name)
		if fn == nil {
			continue
		}
		isApp := func(in ssa.Instruction) bool {
			cc := an.CallOf(in)
			if cc == nil || cc.StaticCallee() == nil {
				return false
			}
			sc := cc.StaticCallee()
			if !c.P.InModule(sc) {
				return false
			}
			switch {
			case strings.HasSuffix(sc.Name(), "BySingleID"), sc.Name() == "applyParsedActions", sc.Name() == "ParseVariables":
				return true
			}
			// a private helper every path of which applies
			if sc.Object() != nil && !sc.Object().Exported() && relPkg(sc) == "internal/seclang" && sc != fn {
				found := false
				an.Instrs(sc, func(x ssa.Instruction) {
					if c2 := an.CallOf(x); c2 != nil && c2.StaticCallee() != nil && (c2.StaticCallee().Name() == "applyParsedActions" || c2.StaticCallee().Name() == "ParseVariables") {
						found = true
					}
				})
				return found
			}
			return false
		}
		var apps []ssa.Instruction
		an.Instrs(fn, func(in ssa.Instruction) {
			if isApp(in) {
				apps = append(apps, in)
			}
		})
		for _, a := range apps {
			outer := an.InnermostLoop(a.Block())
			if outer == nil {
				continue
			}
			// applications inside the per-rule loop of a range are one per rule: judged from the sites outside it
			if parent := an.InnermostLoop(outer.Header.Idom()); parent != nil && parent.Blocks[outer.Header] && parent != outer {
				continue
			}
			n++
			w := an.FindPath(an.PathQuery{Fn: fn, After: a, Target: isApp, PruneEdge: func(b *ssa.BasicBlock, si int) bool {
				return b.Succs[si] == outer.Header || !outer.Blocks[b.Succs[si]]
			}})
			key := fmt.Sprintf("%s: the update applied at %s is the only one for its token", name, tempName.ReplaceAllString(an.CalleeName(a.(ssa.CallInstruction)), ""))
			seenKey[key]++
			if seenKey[key] > 1 {
				key += fmt.Sprintf("#%d", seenKey[key])
			}
			if w == nil {
				c.Ok(rule, key, a.Pos(), "no path of the same iteration reaches another application site")
			} else {
				c.Bad(rule, key, w.Target.Pos(), "after this application the same iteration can reach a second application site: the update (actions or targets) is attached twice to the rule named by a one-element range such as 100-100, so each of its non-disruptive actions runs twice per match", c.P.TrailString(w)...)
			}
		}
	}
	c.MinCount(rule, "single-token application sites in SecRuleUpdate*ById", n, 4)
}

// r7EscapeUnconditional (C16.R4): the scanners that split an action list honour a backslash
// escape wherever it stands: the test "the previous byte is a backslash" is made in every
// iteration, under no other condition than the loop's own continuation test.  An escape that
// only counts inside quotes makes `msg:it\'s fine,tag:x` (quoting is optional) swallow every
// action behind it.
func r7EscapeUnconditional(c *an.Ctx, rule string) {
	n := 0
	for _, rel := range []string{"internal/seclang.parseActions"} {
		fn := c.Fn(rule, rel)
		if fn == nil {
			continue
		}
		for _, b := range fn.Blocks {
			ifi, ok := b.Instrs[len(b.Instrs)-1].(*ssa.If)
			if !ok || an.InnermostLoop(b) == nil {
				continue
			}
			isEsc := false
			for _, a := range an.CondAtoms(ifi.Cond, true) {
				if (a.Op == "==" || a.Op == "!=") && a.R == "92" && strings.Contains(a.L, " - 1)]") {
					isEsc = true
				}
			}
			if !isEsc {
				continue
			}
			n++
			var foreign []string
			for _, a := range an.FactsAtBlock(b) {
				s := tempName.ReplaceAllString(a.String(), "")
				if strings.Contains(a.L, "len(") || strings.Contains(a.R, "len(") {
					continue // the loop's continuation test
				}
				foreign = append(foreign, s)
			}
			key := "the escape test of " + an.RelName(fn) + " is made under no other condition"
			c.Check(len(foreign) == 0, rule, key, ifi.Pos(), "dominated by the loop test only", fmt.Sprintf("the previous-byte-is-a-backslash test is only reached under %v: outside that condition an escaped quote or comma is treated as a delimiter, so an unquoted value such as msg:it\\'s fine,tag:x swallows the actions that follow it", foreign))
		}
	}
	c.MinCount(rule, "escape tests in the action scanner", n, 1)
}

// r7BinaryRxVerdict (C11.R1): the byte matcher behind @rx patterns with \xNN escapes has no
// prefilter: every decision of (*binaryRX).Evaluate depends on the compiled pattern's own
// answer (o.re.*), on tx.Capturing() or on the capture loop's index, whatever SecRxPreFilter
// says.  The prefilter's artefacts (minimum length, literals) are computed over runes of the
// regexp/syntax tree and do not describe what the byte matcher accepts.
func r7BinaryRxVerdict(c *an.Ctx, rule string) {
	fn := c.FnOpt("internal/operators.(*binaryRX).Evaluate")
	if fn == nil {
		return // operator compiled out in this configuration
	}
	n := 0
	var foreign []string
	var at token.Pos
	for _, b := range fn.Blocks {
		ifi, ok := b.Instrs[len(b.Instrs)-1].(*ssa.If)
		if !ok {
			continue
		}
		n++
		for _, a := range an.CondAtoms(ifi.Cond, true) {
			s := a.L + " " + a.R
			if strings.Contains(s, "o.re.") || strings.Contains(s, "Capturing()") || strings.Contains(s, "rangeindex") {
				continue
			}
			if !strings.Contains(s, "value") && !strings.Contains(s, "o.") {
				continue // a bound of the capture loop (i < 10): does not depend on the input or on the operator's state
			}
			foreign = append(foreign, tempName.ReplaceAllString(a.String(), ""))
			if !at.IsValid() {
				at = ifi.Cond.Pos()
			}
		}
	}
	if len(fn.Blocks) > 0 {
		c.Check(len(foreign) == 0 && n >= 1, rule, "binaryRX.Evaluate decides from the compiled pattern only", at, fmt.Sprintf("%d conditions, all over o.re / Capturing / the capture index", n), fmt.Sprintf("(*binaryRX).Evaluate branches on %v: a rejection that does not come from the byte matcher itself (for instance a minimum length counted in runes, where \\xac\\xed counts 4 bytes for a 2-byte match) makes SecRxPreFilter change what the rule matches", foreign))
	}
}

// r7ExactMatchOneNode (C11.R3): the exact-match fast path compares the whole value with one
// literal under one case mode.  The text and the fold flag extractExactMatch returns are read
// from the same syntax node: a text assembled from several literal nodes with a flag OR-ed
// over them makes `^[Tt]rue$` match "TRUE" with SecRxPreFilter On and not with it Off.
func r7ExactMatchOneNode(c *an.Ctx, rule string) {
	fn := c.FnOpt("internal/operators.extractExactMatch")
	if fn == nil {
		return
	}
	base := func(v ssa.Value, field string) ssa.Value {
		for depth := 0; depth < 8; depth++ {
			switch x := v.(type) {
			case *ssa.Convert:
				v = x.X
			case *ssa.ChangeType:
				v = x.X
			case *ssa.BinOp:
				if _, isC := x.Y.(*ssa.Const); isC {
					v = x.X
				} else if _, isC := x.X.(*ssa.Const); isC {
					v = x.Y
				} else {
					return nil
				}
			case *ssa.UnOp:
				if fa, ok := x.X.(*ssa.FieldAddr); ok {
					if fv := an.FieldVar(fa); fv != nil && fv.Name() == field {
						return fa.X
					}
					return nil
				}
				return nil
			default:
				return nil
			}
		}
		return nil
	}
	n := 0
	an.Instrs(fn, func(in ssa.Instruction) {
		r, ok := in.(*ssa.Return)
		if !ok || len(r.Results) != 2 {
			return
		}
		if _, isC := r.Results[0].(*ssa.Const); isC {
			if _, isC2 := r.Results[1].(*ssa.Const); isC2 {
				return // ("", false): not an exact match
			}
		}
		n++
		b1, b2 := base(r.Results[0], "Rune"), base(r.Results[1], "Flags")
		key := fmt.Sprintf("extractExactMatch return #%d: text and fold flag come from one literal node", n)
		c.Check(b1 != nil && b1 == b2, rule, key, r.Pos(), "string(node.Rune), node.Flags&FoldCase != 0 over the same node", "the literal ("+tempName.ReplaceAllString(an.Expr(r.Results[0]), "")+") and its case mode ("+tempName.ReplaceAllString(an.Expr(r.Results[1]), "")+") are not read from one syntax node: a pattern whose literal is split where the fold flag changes (^[Tt]rue$, ^(?i:content)-Type$) is compared case-insensitively as a whole when SecRxPreFilter is On, so the rule matches values it does not match with the prefilter Off")
	})
	c.MinCount(rule, "non-trivial returns of extractExactMatch", n, 1)
}

// r7BodyBufferFieldsReset (C05.R4): every field of BodyBuffer that anything other than its
// constructor writes is state of the body it buffers, and is written again on every path of
// Reset (the buffer object is recycled with its transaction).  A new piece of state (a "limit
// reached" latch) that Reset does not know about follows the pooled object into the next
// transaction.
func r7BodyBufferFieldsReset(c *an.Ctx, rule string) {
	reset := c.Fn(rule, "internal/corazawaf.(*BodyBuffer).Reset")
	t := c.P.LookupType(pkgWAF, "BodyBuffer")
	if reset == nil || t == nil {
		return
	}
	st, ok := t.Underlying().(*types.Struct)
	if !ok {
		return
	}
	ctor := c.P.Func("internal/corazawaf.NewBodyBuffer")
	n := 0
	for i := 0; i < st.NumFields(); i++ {
		fv := st.Field(i)
		var writers []string
		for _, f := range c.P.ModFuncs {
			if f == ctor || f == reset {
				continue
			}
			live := an.LiveBlocks(f)
			for _, b := range f.Blocks {
				if !live[b] {
					continue // compiled out in this configuration (HasAccessToFS == false)
				}
				for _, in := range b.Instrs {
					if s, ok := in.(*ssa.Store); ok && an.FieldVar(s.Addr) == fv {
						writers = append(writers, an.RelName(f))
					}
				}
			}
		}
		if len(writers) == 0 {
			continue // configuration, or state kept inside an object with its own Reset (bytes.Buffer): R4's other obligations
		}
		n++
		w := an.FindPath(an.PathQuery{Fn: reset, Target: isReturn, Stop: func(in ssa.Instruction) bool {
			s, ok := in.(*ssa.Store)
			return ok && an.FieldVar(s.Addr) == fv
		}, PruneEdge: func(b *ssa.BasicBlock, si int) bool {
			// an edge on which the field is known to hold its zero value already
			ifi, ok := b.Instrs[len(b.Instrs)-1].(*ssa.If)
			if !ok {
				return false
			}
			for _, a := range an.CondAtoms(ifi.Cond, si == 0) {
				if a.Op == "==" && (a.R == "nil" || a.R == "0" || a.R == "false") && strings.HasSuffix(a.L, "."+fv.Name()) {
					return true
				}
			}
			return false
		}})
		key := "BodyBuffer.Reset rewrites " + fv.Name() + " (written by " + writers[0] + ")"
		if w == nil {
			c.Ok(rule, key, reset.Pos(), "stored on every path of Reset")
		} else {
			c.Bad(rule, key, w.Target.Pos(), "BodyBuffer."+fv.Name()+" is written while a body is buffered ("+strings.Join(writers, ", ")+") but some path of Reset leaves it as it is: the value follows the pooled transaction into the next request", c.P.TrailString(w)...)
		}
	}
	c.MinCount(rule, "BodyBuffer fields written outside the constructor", n, 2)
}

// valueUsedOnErrBranch: some instruction reachable from an edge on which errV != nil uses the
// value parsed by call (result #0), directly or through phis, conversions and arithmetic.
func valueUsedOnErrBranch(fn *ssa.Function, call *ssa.Call, errV ssa.Value) bool {
	derived := map[ssa.Value]bool{}
	var mark func(v ssa.Value, depth int)
	mark = func(v ssa.Value, depth int) {
		if derived[v] || depth > 12 {
			return
		}
		derived[v] = true
		if refs := v.Referrers(); refs != nil {
			for _, r := range *refs {
				switch x := r.(type) {
				case *ssa.Phi, *ssa.BinOp, *ssa.Convert, *ssa.ChangeType, *ssa.UnOp:
					mark(x.(ssa.Value), depth+1)
				}
			}
		}
	}
	for _, ref := range *call.Referrers() {
		if ex, ok := ref.(*ssa.Extract); ok && ex.Index == 0 {
			mark(ex, 0)
		}
	}
	errE := an.Expr(errV)
	for _, b := range fn.Blocks {
		ifi, ok := b.Instrs[len(b.Instrs)-1].(*ssa.If)
		if !ok {
			continue
		}
		for si := 0; si < 2; si++ {
			isErr := false
			for _, a := range an.CondAtoms(ifi.Cond, si == 0) {
				if a.L == errE && a.Op == "!=" && a.R == "nil" {
					isErr = true
				}
			}
			if !isErr {
				continue
			}
			start := b.Succs[si]
			w := an.FindPath(an.PathQuery{Fn: fn, StartBlock: start, Target: func(in ssa.Instruction) bool {
				if _, isPhi := in.(*ssa.Phi); isPhi {
					return false
				}
				for _, op := range in.Operands(nil) {
					if op != nil && *op != nil && derived[*op] {
						return true
					}
				}
				return false
			}})
			if w != nil {
				return true
			}
		}
	}
	return false
}

// r7LockPairing (C06.R3, shared with C13 for the pattern cache): every Lock/RLock of a module
// mutex is released on every path to a return of the same function: by an Unlock/RUnlock of
// the same mutex or by a deferred one.  A path that leaves the function with the lock held (an
// early `return true` inside a Range callback after the entry was retired) blocks the next
// goroutine that needs the lock for ever.
func r7LockPairing(c *an.Ctx, rule string) {
	n := 0
	seen := map[string]int{}
	unlockOf := map[string]string{"Lock": "Unlock", "RLock": "RUnlock"}
	isMutexMethod := func(in ssa.Instruction, names ...string) (string, string) {
		cc := an.CallOf(in)
		if cc == nil || cc.StaticCallee() == nil || cc.StaticCallee().Signature.Recv() == nil || len(cc.Args) == 0 {
			return "", ""
		}
		rt := cc.StaticCallee().Signature.Recv().Type().String()
		if !strings.HasSuffix(rt, "sync.Mutex") && !strings.HasSuffix(rt, "sync.RWMutex") {
			return "", ""
		}
		for _, nm := range names {
			if cc.StaticCallee().Name() == nm {
				return nm, tempName.ReplaceAllString(an.Expr(cc.Args[0]), "")
			}
		}
		return "", ""
	}
	for _, fn := range c.P.ModFuncs {
		if rp := relPkg(fn); strings.HasPrefix(rp, "testing") || strings.HasPrefix(rp, "examples") {
			continue
		}
		an.Instrs(fn, func(in ssa.Instruction) {
			if _, isDefer := in.(*ssa.Defer); isDefer {
				return
			}
			m, recv := isMutexMethod(in, "Lock", "RLock")
			if m == "" {
				return
			}
			n++
			c.FuncsAnalysed[fn] = true
			w := an.FindPath(an.PathQuery{Fn: fn, After: in, Target: isReturn, Stop: func(x ssa.Instruction) bool {
				um, ur := isMutexMethod(x, unlockOf[m])
				return um != "" && ur == recv
			}})
			k := fmt.Sprintf("%s of %s in %s is released on every path", m, recv, an.RelName(fn))
			seen[k]++
			key := k
			if seen[k] > 1 {
				key += fmt.Sprintf("#%d", seen[k])
			}
			if w == nil {
				c.Ok(rule, key, in.Pos(), "every path to a return passes "+unlockOf[m]+" (direct or deferred)")
			} else {
				c.Bad(rule, key, w.Target.Pos(), "some path from this "+m+" leaves the function without "+unlockOf[m]+" on "+recv+": the next goroutine that needs the lock (another WAF being built or closed, another transaction) blocks for ever", c.P.TrailString(w)...)
			}
		})
	}
	c.MinCount(rule, "mutex acquisitions in the module", n, 2)
}
