package props

import (
	"fmt"
	"go/token"
	"go/types"
	"sort"
	"strings"

	"czcheck/an"

	"golang.org/x/tools/go/ssa"
)

func init() {
	register(&Property{
		ID:    "C05",
		Title: "Transactions are isolated from earlier transactions on the same WAF",
		Explanation: "Decides the reset mechanism for pooled transactions, not the values computed later: R1 every field of Transaction is stored on every path of newTransaction (path query per field) with a value that does not derive from the recycled object, WAF-copied settings come from the same-named WAF field, and reference-typed values shared with the WAF are never written through by the functions that receive them; " +
			"R2 TransactionVariables.All enumerates every field, every field's collection type resets or is a stateless view, Close calls variables.reset() on all paths, and each Reset method empties its storage; R3 the default values are re-seeded outside the first-use branch; " +
			"R4 Close resets both body buffers on all paths and BodyBuffer.Reset, on every path, zeroes length, resets the memory buffer, closes every handed-out reader and clears the reader list; a closed reader returns EOF before touching the buffer; " +
			"R5 Eval clears the transformation cache before the rule loop and Close returns the object to the pool exactly once (deferred Put, no other Put/Get sites). R4 also: every field of BodyBuffer that is written while a body is buffered is rewritten on every path of Reset (paths on which it already holds its zero value excepted).",
		NotDecided: []string{
			"behaviour after a double Close (the same object is pooled twice)",
			"correctness of values written after the reset",
			"state kept inside third-party objects reachable from the transaction (loggers, context)",
		},
		Run: runC05,
	})
}

// fields of Transaction that are initialised once per pooled object (reuse by design); each has its own obligation.
var txReuseFields = map[string]string{
	"requestBodyBuffer":   "reset by Close (R4)",
	"responseBodyBuffer":  "reset by Close (R4)",
	"variables":           "reset by Close through variables.reset (R2)",
	"transformationCache": "cleared at the start of every phase (R5)",
}

func runC05(c *an.Ctx) {
	r7BodyBufferFieldsReset(c, "R4")
	nt := c.Fn("R1", "internal/corazawaf.(*WAF).newTransaction")
	txT := c.P.LookupType(pkgWAF, "Transaction")
	wafT := c.P.LookupType(pkgWAF, "WAF")
	if nt == nil || txT == nil || wafT == nil {
		return
	}
	txS := txT.Underlying().(*types.Struct)
	wafFields := map[string]bool{}
	if ws, ok := wafT.Underlying().(*types.Struct); ok {
		for i := 0; i < ws.NumFields(); i++ {
			wafFields[ws.Field(i).Name()] = true
		}
	}

	// ---- R1: every field reset on every path.
	nFields := 0
	for i := 0; i < txS.NumFields(); i++ {
		f := txS.Field(i)
		name := f.Name()
		nFields++
		key := "newTransaction resets Transaction." + name
		isStore := func(in ssa.Instruction) bool {
			_, ok := an.StoreToField(in, fullWAF, "Transaction", name)
			return ok
		}
		w := an.FindPath(an.PathQuery{Fn: nt, Stop: isStore, Target: an.IsReturn})
		if why, reuse := txReuseFields[name]; reuse {
			// must at least be initialised when nil: a store exists under the first-use branch
			has := false
			an.Instrs(nt, func(in ssa.Instruction) {
				if isStore(in) {
					has = true
				}
			})
			c.Check(has, "R1", key+" (reuse by design)", nt.Pos(), "initialised on first use; "+why, "reuse-by-design field is never initialised in newTransaction")
			continue
		}
		if w != nil {
			c.Bad("R1", key, nt.Pos(), "a recycled transaction can leave newTransaction with Transaction."+name+" still holding the previous transaction's value", c.P.TrailString(w)...)
			continue
		}
		// value provenance
		var vals []string
		bad := ""
		an.Instrs(nt, func(in ssa.Instruction) {
			st, ok := an.StoreToField(in, fullWAF, "Transaction", name)
			if !ok {
				return
			}
			e := an.Expr(st.Val)
			vals = append(vals, e)
			if dependsOnRecycled(st.Val) {
				bad = "the value stored into Transaction." + name + " derives from the recycled object itself: " + e
			}
			if wafFields[name] && name != "WAF" && e != "w."+name {
				bad = "Transaction." + name + " mirrors a WAF setting but is initialised from " + e + " instead of w." + name
			}
		})
		if bad != "" {
			c.Bad("R1", key, nt.Pos(), bad)
		} else {
			c.Ok("R1", key, nt.Pos(), "stored on every path; value "+strings.Join(vals, " | "))
		}
	}
	c.MinCount("R1", "fields of Transaction", nFields, 30)

	// R1c: values that alias WAF state must not be written through.
	c05Aliases(c, nt, txS)

	// ---- R2 variables.
	c05Variables(c)

	// ---- R3 defaults re-seeded outside the first-use branch.
	nSeed := 0
	// the seeds may sit in newTransaction itself or in private helpers of the package it hands the
	// transaction to (setInitialVariables, setTimeVariables): a helper's seeds run under the facts of its call
	var seedsIn func(f *ssa.Function, outer an.Facts, d int)
	seedsIn = func(f *ssa.Function, outer an.Facts, d int) {
		an.Instrs(f, func(in ssa.Instruction) {
			if cc := an.CallOf(in); cc != nil && d < 2 {
				if h := cc.StaticCallee(); h != nil && h != nt && h != f && relPkg(h) == pkgWAF && len(h.Blocks) > 0 && !token.IsExported(h.Name()) && h.Parent() == nil {
					seedsIn(h, append(append(an.Facts{}, outer...), an.FactsAt(in)...), d+1)
				}
			}
			if !(an.IsCallToMethod(in, fullColl, "Single", "Set") || an.IsCallToMethod(in, fullColl, "Map", "Set")) {
				return
			}
			call := an.CallOf(in)
			recv := an.Expr(call.Args[0])
			if !strings.Contains(recv, ".variables.") {
				return
			}
			recv = recv[strings.Index(recv, ".variables.")+1:]
			nSeed++
			f2 := append(append(an.Facts{}, outer...), an.FactsAt(in)...)
			ok := !f2.HasSuffix(".requestBodyBuffer", "==", "nil")
			c.Check(ok, "R3", "newTransaction seeds "+strings.TrimPrefix(recv, "variables.")+" for recycled objects too", in.Pos(),
				"default value set outside the first-use branch", "the default for "+recv+" is only set when the object is brand new (requestBodyBuffer == nil): a recycled transaction starts without it")
		})
	}
	seedsIn(nt, nil, 0)
	c.MinCount("R3", "default seeds in newTransaction", nSeed, 10)

	// ---- R4 buffers.
	c05Buffers(c)

	// ---- R5 cache and pool.
	c05CachePool(c)
	c05NoDefaultsInConstructor(c)
}

// dependsOnRecycled: does v read a field of the recycled transaction (other than tx.id, which was just set, and tx.WAF/w)?
func dependsOnRecycled(v ssa.Value) bool {
	seen := map[ssa.Value]bool{}
	var walk func(v ssa.Value, d int) bool
	walk = func(v ssa.Value, d int) bool {
		if v == nil || seen[v] || d > 10 {
			return false
		}
		seen[v] = true
		switch x := v.(type) {
		case *ssa.UnOp:
			if fa, ok := x.X.(*ssa.FieldAddr); ok {
				if an.IsFieldAddrOf(fa, fullWAF, "Transaction", an.FieldVar(fa).Name()) && an.FieldVar(fa).Name() != "id" {
					return true
				}
			}
			return walk(x.X, d+1)
		case *ssa.FieldAddr:
			return walk(x.X, d+1)
		case *ssa.BinOp:
			return walk(x.X, d+1) || walk(x.Y, d+1)
		case *ssa.Phi:
			for _, e := range x.Edges {
				if walk(e, d+1) {
					return true
				}
			}
		case *ssa.Call:
			for _, a := range x.Call.Args {
				if walk(a, d+1) {
					return true
				}
			}
			if x.Call.IsInvoke() {
				return walk(x.Call.Value, d+1)
			}
		case *ssa.Convert:
			return walk(x.X, d+1)
		case *ssa.ChangeType:
			return walk(x.X, d+1)
		case *ssa.MakeInterface:
			return walk(x.X, d+1)
		case *ssa.Slice:
			return walk(x.X, d+1)
		}
		return false
	}
	return walk(v, 0)
}

// c05Aliases: fields whose reset value is a reference into WAF state (slices/maps copied by header).
func c05Aliases(c *an.Ctx, nt *ssa.Function, txS *types.Struct) { wafAliases(c, "R1", nt, txS) }

func wafAliases(c *an.Ctx, R string, nt *ssa.Function, txS *types.Struct) {
	for i := 0; i < txS.NumFields(); i++ {
		f := txS.Field(i)
		switch f.Type().Underlying().(type) {
		case *types.Slice, *types.Map:
		default:
			continue
		}
		aliased := false
		an.Instrs(nt, func(in ssa.Instruction) {
			if st, ok := an.StoreToField(in, fullWAF, "Transaction", f.Name()); ok && strings.HasPrefix(an.Expr(st.Val), "w.") {
				aliased = true
			}
		})
		if !aliased {
			continue
		}
		// every load of tx.<field> anywhere in the module: what is done with it?
		n := 0
		for _, fn := range c.P.ModFuncs {
			an.Instrs(fn, func(in ssa.Instruction) {
				u, ok := in.(*ssa.UnOp)
				if !ok || !an.LoadsField(u, fullWAF, "Transaction", f.Name()) {
					return
				}
				n++
				if w := writesThrough(c, u, map[ssa.Value]bool{}, 0); w != "" {
					c.Bad(R, fmt.Sprintf("shared %s not written through in %s", f.Name(), an.RelName(fn)), u.Pos(),
						"Transaction."+f.Name()+" shares its backing storage with the WAF (newTransaction copies the header) and is written in place: "+w+"; the change leaks into every later transaction")
				}
			})
		}
		c.Ok(R, "Transaction."+f.Name()+" aliases WAF storage: users enumerated", nt.Pos(), fmt.Sprintf("%d loads examined; none writes through the shared backing array", n))
	}
}

// writesThrough follows v (a slice/map value) through the function and into static callees and
// reports a store into its backing storage or an append that may reuse it.
func writesThrough(c *an.Ctx, v ssa.Value, seen map[ssa.Value]bool, depth int) string {
	if seen[v] || depth > 4 {
		return ""
	}
	seen[v] = true
	refs := v.Referrers()
	if refs == nil {
		return ""
	}
	for _, r := range *refs {
		switch x := r.(type) {
		case *ssa.IndexAddr:
			if x.X == v {
				for _, r2 := range *x.Referrers() {
					if st, ok := r2.(*ssa.Store); ok && st.Addr == x {
						return "element store at " + c.P.Position(st.Pos())
					}
				}
			}
		case *ssa.MapUpdate:
			if x.Map == v {
				return "map update at " + c.P.Position(x.Pos())
			}
		case *ssa.Slice:
			if x.X == v {
				if w := writesThrough(c, x, seen, depth); w != "" {
					return w
				}
			}
		case *ssa.Phi:
			if w := writesThrough(c, x, seen, depth); w != "" {
				return w
			}
		case *ssa.ChangeType:
			if w := writesThrough(c, x, seen, depth); w != "" {
				return w
			}
		case *ssa.Call:
			if b, ok := x.Call.Value.(*ssa.Builtin); ok {
				if b.Name() == "append" && len(x.Call.Args) > 0 && x.Call.Args[0] == v {
					return "append onto the shared slice at " + c.P.Position(x.Pos())
				}
				if (b.Name() == "copy" || b.Name() == "clear" || b.Name() == "delete") && len(x.Call.Args) > 0 && x.Call.Args[0] == v {
					return b.Name() + " into the shared storage at " + c.P.Position(x.Pos())
				}
				continue
			}
			if callee := x.Call.StaticCallee(); callee != nil && len(callee.Blocks) > 0 && c.P.InModule(callee) {
				for i, a := range x.Call.Args {
					if a == v && i < len(callee.Params) {
						if w := writesThrough(c, callee.Params[i], seen, depth+1); w != "" {
							return callee.Name() + ": " + w
						}
					}
				}
			}
		}
	}
	return ""
}

func c05Variables(c *an.Ctx) {
	tvT := c.P.LookupType(pkgWAF, "TransactionVariables")
	all := c.Fn("R2", "internal/corazawaf.(*TransactionVariables).All")
	if tvT == nil || all == nil {
		return
	}
	st := tvT.Underlying().(*types.Struct)
	// fields passed to the callback in All
	visited := map[string]bool{}
	an.Instrs(all, func(in ssa.Instruction) {
		call := an.CallOf(in)
		if call == nil || call.IsInvoke() || call.StaticCallee() != nil {
			return
		}
		if _, isParam := call.Value.(*ssa.Parameter); !isParam || len(call.Args) != 2 {
			return
		}
		e := an.Expr(call.Args[1])
		if strings.HasPrefix(e, "v.") {
			visited[strings.TrimPrefix(e, "v.")] = true
		}
	})
	views := map[string]bool{"ConcatKeyed": true, "ConcatCollection": true, "SizeCollection": true, "NamedCollectionNames": true}
	ctor := c.Fn("R2", "internal/corazawaf.NewTransactionVariables")
	n := 0
	for i := 0; i < st.NumFields(); i++ {
		f := st.Field(i)
		n++
		key := "variable field " + f.Name()
		if !visited[f.Name()] {
			c.Bad("R2", key+" enumerated by All", all.Pos(), "TransactionVariables."+f.Name()+" is not visited by All, so reset() never clears it: its content survives into the next transaction using the pooled object")
			continue
		}
		// concrete type
		tn := ""
		if p, ok := f.Type().(*types.Pointer); ok {
			if nn, ok := p.Elem().(*types.Named); ok {
				tn = nn.Obj().Name()
			}
		}
		if tn == "" && ctor != nil {
			// interface-typed field: take the dynamic type stored by the constructor
			an.Instrs(ctor, func(in ssa.Instruction) {
				if s, ok := an.StoreToField(in, fullWAF, "TransactionVariables", f.Name()); ok {
					switch x := s.Val.(type) {
					case *ssa.MakeInterface:
						tn = typeBaseName(x.X.Type().String())
					case *ssa.Call:
						if sc := x.Call.StaticCallee(); sc != nil {
							an.Instrs(sc, func(in2 ssa.Instruction) {
								if r, ok := in2.(*ssa.Return); ok && len(r.Results) == 1 {
									if mi, ok := r.Results[0].(*ssa.MakeInterface); ok {
										tn = typeBaseName(mi.X.Type().String())
									}
								}
							})
						}
					}
				}
			})
		}
		hasReset := false
		if nn := c.P.LookupType("internal/collections", tn); nn != nil {
			ms := types.NewMethodSet(types.NewPointer(nn))
			for j := 0; j < ms.Len(); j++ {
				if ms.At(j).Obj().Name() == "Reset" {
					hasReset = true
				}
			}
		}
		switch {
		case hasReset:
			c.Ok("R2", key+" is reset", all.Pos(), "visited by All; *"+tn+" implements Reset")
		case views[tn]:
			c.Ok("R2", key+" is a stateless view", all.Pos(), "visited by All; "+tn+" holds only references to resettable collections")
		default:
			c.Bad("R2", key+" is reset", all.Pos(), "TransactionVariables."+f.Name()+" has type "+tn+" which neither implements Reset nor is a known stateless view")
		}
	}
	c.MinCount("R2", "fields of TransactionVariables", n, 80)
	// views are stateless: no stores to their fields outside constructors
	for tn := range views {
		nn := c.P.LookupType("internal/collections", tn)
		if nn == nil {
			continue
		}
		s, ok := nn.Underlying().(*types.Struct)
		if !ok {
			continue
		}
		for i := 0; i < s.NumFields(); i++ {
			for _, fs := range c.P.StoresToField("internal/collections", tn, s.Field(i).Name()) {
				name := an.RelName(fs.Fn)
				okCtor := strings.Contains(name, ".New") || strings.HasSuffix(name, ".Names")
				c.Check(okCtor, "R2", fmt.Sprintf("view %s.%s written only by constructors (%s)", tn, s.Field(i).Name(), name), fs.Store.Pos(),
					"constructor store", "a view collection keeps mutable state of its own but has no Reset")
			}
		}
	}
	// Close calls variables.reset on all paths
	closeFn := c.Fn("R2", "internal/corazawaf.(*Transaction).Close")
	resetFn := c.Fn("R2", "internal/corazawaf.(*TransactionVariables).reset")
	if closeFn != nil && resetFn != nil {
		w := an.FindPath(an.PathQuery{Fn: closeFn, Stop: func(in ssa.Instruction) bool { return an.IsCallTo(in, resetFn) }, Target: an.IsReturn})
		c.Check(w == nil, "R2", "Close resets the variables on every path", closeFn.Pos(), "every path of Close calls variables.reset()", "Close can return without variables.reset(): the pooled object keeps the finished transaction's variables")
		// reset: calls Reset on every resettable visited
		okReset := false
		for _, f := range an.WithClosures(resetFn) {
			an.Instrs(f, func(in ssa.Instruction) {
				if cc := an.CallOf(in); cc != nil && cc.IsInvoke() && cc.Method.Name() == "Reset" && len(an.FactsAt(in)) <= 1 {
					okReset = true
				}
			})
		}
		c.Check(okReset, "R2", "variables.reset invokes Reset on each collection", resetFn.Pos(), "Reset invoked for every resettable collection", "variables.reset no longer invokes Reset unconditionally on resettable collections")
	}
	// Reset methods empty their storage
	if mr := c.Fn("R2", "internal/collections.(*Map).Reset"); mr != nil {
		c.Check(mapResetEmpties(mr), "R2", "Map.Reset empties the key set", mr.Pos(), "every key is deleted (or the map is cleared/replaced)",
			"Map.Reset does not remove every key from c.data: Len(), the argument limit and key iteration would still see the previous transaction's names")
	}
	if sr := c.Fn("R2", "internal/collections.(*Single).Reset"); sr != nil {
		ok := false
		an.Instrs(sr, func(in ssa.Instruction) {
			if st, isSt := an.StoreToField(in, fullColl, "Single", "data"); isSt && an.Expr(st.Val) == `""` && len(an.FactsAt(in)) == 0 {
				ok = true
			}
		})
		c.Check(ok, "R2", "Single.Reset clears the value", sr.Pos(), `data = ""`, "Single.Reset does not unconditionally store the empty string")
	}
	if nr := c.Fn("R2", "internal/collections.(*NamedCollection).Reset"); nr != nil {
		mr := c.P.Func("internal/collections.(*Map).Reset")
		w := an.FindPath(an.PathQuery{Fn: nr, Stop: func(in ssa.Instruction) bool { return an.IsCallTo(in, mr) }, Target: an.IsReturn})
		c.Check(w == nil, "R2", "NamedCollection.Reset delegates to Map.Reset", nr.Pos(), "delegates on every path", "NamedCollection.Reset can return without resetting the embedded Map")
	}
}

// mapResetEmpties: delete(c.data, k) for every k of a range over c.data with no path skipping the delete,
// or clear(c.data), or c.data = make(...).
func mapResetEmpties(fn *ssa.Function) bool {
	ok := false
	an.Instrs(fn, func(in ssa.Instruction) {
		if an.IsBuiltinCall(in, "clear") && an.Expr(an.CallOf(in).Args[0]) == "c.data" && len(an.FactsAt(in)) == 0 {
			ok = true
		}
		if st, isSt := an.StoreToField(in, fullColl, "Map", "data"); isSt {
			if _, mk := st.Val.(*ssa.MakeMap); mk && len(an.FactsAt(in)) == 0 {
				ok = true
			}
		}
	})
	if ok {
		return true
	}
	// range loop form
	for _, b := range fn.Blocks {
		for _, in := range b.Instrs {
			if !an.IsBuiltinCall(in, "delete") {
				continue
			}
			call := an.CallOf(in)
			if an.Expr(call.Args[0]) != "c.data" {
				continue
			}
			l := an.InnermostLoop(b)
			if l == nil {
				continue
			}
			// the key deleted is the range key of a range over c.data
			if !strings.Contains(an.Expr(call.Args[1]), "next(range(c.data))") {
				continue
			}
			// every path through the loop body from the "has next" edge back to the header passes the delete
			var body *ssa.BasicBlock
			for _, s := range l.Header.Succs {
				if l.Blocks[s] {
					body = s
				}
			}
			if body == nil {
				continue
			}
			w := an.FindPath(an.PathQuery{Fn: fn, StartBlock: body, Stop: func(x ssa.Instruction) bool { return x == in },
				Target: func(x ssa.Instruction) bool { return x.Block() == l.Header && x == l.Header.Instrs[0] }})
			// no exit from the loop other than the header's
			exits := 0
			for _, e := range l.ExitEdges() {
				if e[0].(*ssa.BasicBlock) != l.Header {
					exits++
				}
			}
			if w == nil && exits == 0 {
				return true
			}
		}
	}
	return false
}

func c05Buffers(c *an.Ctx) {
	closeFn := c.Fn("R4", "internal/corazawaf.(*Transaction).Close")
	reset := c.Fn("R4", "internal/corazawaf.(*BodyBuffer).Reset")
	if closeFn == nil || reset == nil {
		return
	}
	for _, buf := range []string{"requestBodyBuffer", "responseBodyBuffer"} {
		buf := buf
		w := an.FindPath(an.PathQuery{Fn: closeFn, Target: an.IsReturn, Stop: func(in ssa.Instruction) bool {
			return an.IsCallTo(in, reset) && an.Expr(an.CallOf(in).Args[0]) == "tx."+buf
		}})
		c.Check(w == nil, "R4", "Close resets "+buf+" on every path", closeFn.Pos(), "every path of Close calls "+buf+".Reset()", "Close can return without resetting "+buf)
	}
	// BodyBuffer.Reset: on every path to a return
	type ob struct {
		key, bad string
		stop     func(in ssa.Instruction) bool
	}
	readerClose := c.Fn("R4", "internal/corazawaf.(*bodyBufferReader).Close")
	obs := []ob{
		{"Reset zeroes length", "BodyBuffer.Reset can return without length = 0", func(in ssa.Instruction) bool {
			st, ok := an.StoreToField(in, fullWAF, "BodyBuffer", "length")
			return ok && an.Expr(st.Val) == "0"
		}},
		{"Reset empties the memory buffer", "BodyBuffer.Reset can return without buffer.Reset()", func(in ssa.Instruction) bool {
			return an.IsCallToMethod(in, "bytes", "Buffer", "Reset") && an.Expr(an.CallOf(in).Args[0]) == "br.buffer"
		}},
		{"Reset forgets the handed-out readers", "BodyBuffer.Reset can return with the reader list still populated", func(in ssa.Instruction) bool {
			st, ok := an.StoreToField(in, fullWAF, "BodyBuffer", "readers")
			return ok && an.Expr(st.Val) == "nil"
		}},
	}
	for _, o := range obs {
		w := an.FindPath(an.PathQuery{Fn: reset, Stop: o.stop, Target: an.IsReturn})
		if w != nil {
			c.Bad("R4", "BodyBuffer."+o.key, w.Target.Pos(), o.bad+": a recycled transaction (or a reader kept by the connector) would see the previous body", c.P.TrailString(w)...)
		} else {
			c.Ok("R4", "BodyBuffer."+o.key, reset.Pos(), "holds on every path to a return")
		}
	}
	// readers closed: a loop over br.readers calling Close on each element, which every path to return passes (loop header reached)
	if readerClose != nil {
		var closeCall ssa.Instruction
		an.Instrs(reset, func(in ssa.Instruction) {
			if an.IsCallTo(in, readerClose) {
				closeCall = in
			}
		})
		if closeCall == nil {
			c.Bad("R4", "BodyBuffer.Reset closes every handed-out reader", reset.Pos(), "BodyBuffer.Reset does not close the readers it handed out: a reader kept after Close would yield the next transaction's body")
		} else {
			l := an.InnermostLoop(closeCall.Block())
			okLoop := l != nil && strings.Contains(an.Expr(an.CallOf(closeCall).Args[0]), "br.readers[")
			if okLoop {
				// every path to a return goes through the loop header
				w := an.FindPath(an.PathQuery{Fn: reset, Target: an.IsReturn, Stop: func(in ssa.Instruction) bool { return in.Block() == l.Header }})
				// and within the body the close is unconditional
				var body *ssa.BasicBlock
				for _, s := range l.Header.Succs {
					if l.Blocks[s] {
						body = s
					}
				}
				w2 := an.FindPath(an.PathQuery{Fn: reset, StartBlock: body, Stop: func(x ssa.Instruction) bool { return x == closeCall },
					Target: func(x ssa.Instruction) bool { return x == l.Header.Instrs[0] }})
				exits := 0
				for _, e := range l.ExitEdges() {
					if e[0].(*ssa.BasicBlock) != l.Header {
						exits++
					}
				}
				okLoop = w == nil && w2 == nil && exits == 0
			}
			c.Check(okLoop, "R4", "BodyBuffer.Reset closes every handed-out reader", closeCall.Pos(), "every path runs the loop that closes each reader in br.readers", "some path of BodyBuffer.Reset skips closing the handed-out readers (or the loop skips elements)")
		}
		// Close detaches
		ok := false
		an.Instrs(readerClose, func(in ssa.Instruction) {
			if st, isSt := an.StoreToField(in, fullWAF, "bodyBufferReader", "br"); isSt && an.Expr(st.Val) == "nil" && len(an.FactsAt(in)) == 0 {
				ok = true
			}
		})
		c.Check(ok, "R4", "bodyBufferReader.Close detaches the buffer", readerClose.Pos(), "br = nil", "bodyBufferReader.Close does not unconditionally detach the reader from its buffer")
	}
	// every handed-out reader is registered
	if rd := c.Fn("R4", "internal/corazawaf.(*BodyBuffer).Reader"); rd != nil {
		w := an.FindPath(an.PathQuery{Fn: rd, Target: an.IsReturn, Stop: func(in ssa.Instruction) bool {
			st, ok := an.StoreToField(in, fullWAF, "BodyBuffer", "readers")
			return ok && strings.HasPrefix(an.Expr(st.Val), "append(br.readers")
		}})
		c.Check(w == nil, "R4", "BodyBuffer.Reader registers every reader it hands out", rd.Pos(), "appended to br.readers on every path", "a reader can be handed out without being registered in br.readers, so Reset cannot close it")
	}
	// closed reader returns EOF before touching the buffer
	if rd := c.Fn("R4", "internal/corazawaf.(*bodyBufferReader).Read"); rd != nil {
		n, bad := 0, 0
		an.Instrs(rd, func(in ssa.Instruction) {
			fa, ok := in.(*ssa.FieldAddr)
			if !ok {
				return
			}
			if !an.LoadsField(fa.X, fullWAF, "bodyBufferReader", "br") {
				return
			}
			n++
			if !an.FactsAt(in).HasSuffix(".br", "!=", "nil") {
				bad++
				c.Bad("R4", "bodyBufferReader.Read touches the buffer only when attached", in.Pos(), "b.br is dereferenced without a dominating b.br != nil: a closed reader would read (or crash on) the recycled buffer")
			}
		})
		if bad == 0 {
			c.Ok("R4", "bodyBufferReader.Read touches the buffer only when attached", rd.Pos(), fmt.Sprintf("%d dereferences of b.br, all dominated by b.br != nil", n))
		}
		c.MinCount("R4", "dereferences of b.br in Read", n, 2)
		// the nil branch returns 0, io.EOF
		okEOF := false
		an.Instrs(rd, func(in ssa.Instruction) {
			if r, ok := in.(*ssa.Return); ok && an.FactsAt(in).HasSuffix(".br", "==", "nil") {
				if len(r.Results) == 2 && an.Expr(r.Results[0]) == "0" && an.Expr(r.Results[1]) == "io.EOF" {
					okEOF = true
				}
			}
		})
		c.Check(okEOF, "R4", "closed reader returns EOF", rd.Pos(), "return 0, io.EOF under b.br == nil", "a closed reader does not return (0, io.EOF)")
	}
}

func c05CachePool(c *an.Ctx) {
	m := buildEvalModel(c, "R5")
	if m != nil {
		ok, why, same, arg := evalClearsCache(m)
		c.Check(ok, "R5", "Eval clears the transformation cache before the rule loop", m.fn.Pos(), "every entry is deleted before the first rule runs", why+": results computed in an earlier phase or transaction could be reused")
		c.Check(same, "R5", "Eval hands the cleared cache to r.Evaluate", m.call.Pos(), "same map", "r.Evaluate receives "+arg+", not the map that was cleared")
	}
	// pool discipline
	closeFn := c.Fn("R5", "internal/corazawaf.(*Transaction).Close")
	if closeFn == nil {
		return
	}
	var puts, gets []string
	for _, fn := range c.P.ModFuncs {
		an.Instrs(fn, func(in ssa.Instruction) {
			call := an.CallOf(in)
			if call == nil {
				return
			}
			recv := ""
			if call.IsInvoke() {
				recv = an.Expr(call.Value)
			} else if len(call.Args) > 0 {
				recv = an.Expr(call.Args[0])
			}
			if !strings.HasSuffix(recv, ".txPool") {
				return
			}
			name := ""
			if call.IsInvoke() {
				name = call.Method.Name()
			} else if sc := call.StaticCallee(); sc != nil {
				name = sc.Name()
			}
			_, isDefer := in.(*ssa.Defer)
			desc := fmt.Sprintf("%s in %s (defer=%v)", name, an.RelName(fn), isDefer)
			switch name {
			case "Put":
				puts = append(puts, desc)
			case "Get":
				gets = append(gets, desc)
			}
		})
	}
	sort.Strings(puts)
	sort.Strings(gets)
	c.Check(len(puts) == 1 && puts[0] == "Put in internal/corazawaf.(*Transaction).Close (defer=true)", "R5", "txPool.Put only as a deferred call in Close", closeFn.Pos(),
		"single deferred Put", "txPool.Put sites: "+strings.Join(puts, "; ")+" — expected exactly one deferred Put in Transaction.Close (an object returned early or twice is shared by two live transactions)")
	c.Check(len(gets) == 1 && strings.HasPrefix(gets[0], "Get in internal/corazawaf.(*WAF).newTransaction"), "R5", "txPool.Get only in newTransaction", closeFn.Pos(),
		"single Get", "txPool.Get sites: "+strings.Join(gets, "; ")+" — objects obtained elsewhere bypass the reset")
	// the deferred Put is registered before anything can return
	an.Instrs(closeFn, func(in ssa.Instruction) {
		if d, ok := in.(*ssa.Defer); ok && strings.HasSuffix(an.Expr(firstArgOrRecv(d.Common())), ".txPool") {
			c.Check(in.Block() == closeFn.Blocks[0], "R5", "Close registers the Put before any return", in.Pos(), "defer in the entry block", "the deferred Put is registered conditionally")
			c.Check(an.Expr(d.Common().Args[len(d.Common().Args)-1]) == "tx", "R5", "Close returns itself to the pool", in.Pos(), "Put(tx)", "Close puts something other than tx into the pool")
		}
	})
}

func firstArgOrRecv(call *ssa.CallCommon) ssa.Value {
	if call.IsInvoke() {
		return call.Value
	}
	if len(call.Args) > 0 {
		return call.Args[0]
	}
	return nil
}

// c05NoDefaultsInConstructor: NewTransactionVariables runs once per pooled object, newTransaction for every
// hand-out.  A default value written by the constructor exists in a brand-new transaction and is gone (reset) in
// every recycled one, so the two start in different states: variables get their initial values in newTransaction.
func c05NoDefaultsInConstructor(c *an.Ctx) {
	fn := c.Fn("R3", "internal/corazawaf.NewTransactionVariables")
	if fn == nil {
		return
	}
	var bad []string
	n := 0
	an.Instrs(fn, func(in ssa.Instruction) {
		cc := an.CallOf(in)
		if cc == nil || cc.StaticCallee() == nil || cc.StaticCallee().Signature.Recv() == nil {
			return
		}
		n++
		if !strings.Contains(relPkg(cc.StaticCallee()), "collections") {
			return
		}
		switch cc.StaticCallee().Name() {
		case "Set", "SetIndex", "Add", "SetCS", "AddCS":
			bad = append(bad, tempName.ReplaceAllString(an.Expr(cc.Args[0]), "")+"."+cc.StaticCallee().Name())
		}
	})
	c.Check(len(bad) == 0, "R3", "NewTransactionVariables only builds collections (no initial values)", fn.Pos(), "no Set/Add in the constructor",
		"the constructor of the variable set writes initial values ("+strings.Join(bad, ", ")+"): it runs only the first time a pooled transaction object is built, Close resets the value, and every recycled transaction therefore starts without it while a brand-new one has it")
}
