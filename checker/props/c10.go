package props

import (
	"fmt"
	"go/token"
	"go/types"
	"regexp"
	"sort"
	"strings"

	"czcheck/an"

	"golang.org/x/tools/go/ssa"
)

func init() {
	register(&Property{
		ID:    "C10",
		Title: "Body buffering is byte-faithful and limits are enforced exactly",
		Explanation: "Decides the limit mechanism, not byte equality for all chunkings: R1 the four body entry points (Write/ReadFrom x request/response) have the same decision skeleton under the renaming request<->response (set of branch conditions, limit-error flag, Reject interruption with 413/500, truncation to limit-length, single Process*Body on ProcessPartial), compared pairwise with a reasoned allowlist of differences, and every rejection site answers 413 on the request side and 500 on the response side; " +
			"R2 nothing beyond the limit is stored: both writes in BodyBuffer.Write are dominated by length <= Limit - len(data), and the slice handed to the buffer by the Write* entry points has a bound that is provably >= 0 and <= len(b) (guard facts + the relational step limit-length <= n from length+n >= limit); " +
			"R3 every limit directive stores into its own side's settings only (request vs response); limits are sane: WAF.Validate bounds every limit, coraza.NewWAF cannot succeed without passing Validate, and every run-time store to the per-transaction limits is range-checked against (0, WAF limit]; R4 body readers advance by the bytes they return; " +
			"R4 also: every direct Read call on a reader consumes the n bytes it returned on every path (also when the error is io.EOF); R5 BodyBuffer.length is written only by Write (cumulative) and Reset; R6 once spilled to disk the buffer never writes to memory again (spill decision on the cumulative length, or memory write guarded by writer == nil). R6 also: bodyBufferReader.Read takes the in-memory branch only on paths that have just tested the buffer's spill file (or the build's file-system switch), i.e. a reader follows the body to disk.",
		NotDecided: []string{
			"byte equality of what is read back for every chunking",
			"equivalence of in-memory and on-disk storage contents",
			"exact boundary choice (>= vs >) beyond agreement between the four entry points",
			"behaviour of the underlying bytes.Buffer / os.File",
		},
		Run: runC10,
	})
}

var c10Renames = []string{
	"requestBodyBuffer", "BUF", "responseBodyBuffer", "BUF",
	"RequestBodyLimitAction", "ACTION", "ResponseBodyLimitAction", "ACTION",
	"RequestBodyLimit", "LIMIT", "ResponseBodyLimit", "LIMIT",
	"RequestBodyAccess", "ACCESS", "ResponseBodyAccess", "ACCESS",
	"inboundDataError", "DATAERR", "outboundDataError", "DATAERR",
	"ProcessRequestBody", "PROCESS", "ProcessResponseBody", "PROCESS",
	"runProcessRequestBody", "RUN", "runProcessResponseBody", "RUN",
}

func c10Norm(s string) string { return strings.NewReplacer(c10Renames...).Replace(s) }

// c10Skeleton extracts the decision skeleton of one body entry point.
func c10Skeleton(c *an.Ctx, fn *ssa.Function) (conds []string, effects []string) {
	condSet := map[string]bool{}
	an.Instrs(fn, func(in ssa.Instruction) {
		switch x := in.(type) {
		case *ssa.If:
			for _, a := range an.CondAtoms(x.Cond, true) {
				s := c10Norm(a.String())
				// error plumbing and debug logging are not part of the contract
				if strings.Contains(s, "#1 != nil") || strings.Contains(s, "#1 == nil") || strings.Contains(s, "err") || strings.Contains(s, "io.EOF") {
					continue
				}
				condSet[s] = true
			}
		case *ssa.Call:
			call := &x.Call
			desc := ""
			switch {
			case an.IsCallToMethod(in, fullColl, "Single", "Set"):
				desc = "set " + c10Norm(an.Expr(call.Args[0])) + " = " + an.Expr(call.Args[1])
			case call.StaticCallee() != nil && call.StaticCallee().Name() == "setAndReturnBodyLimitInterruption":
				st := an.Expr(call.Args[1])
				if st == "413" || st == "500" {
					st = "STATUS"
				}
				desc = "reject(" + st + ")"
			case call.StaticCallee() != nil && (call.StaticCallee().Name() == "ProcessRequestBody" || call.StaticCallee().Name() == "ProcessResponseBody"):
				desc = "PROCESS()"
			case an.IsCallToMethod(in, fullWAF, "BodyBuffer", "Write"):
				desc = "store " + c10Norm(an.Expr(call.Args[1]))
			case an.IsCallToFunc(in, "io", "CopyN"):
				desc = "copyN " + c10Norm(an.Expr(call.Args[2]))
			}
			if desc != "" {
				guard := []string{}
				for _, a := range an.FactsAt(in) {
					s := c10Norm(a.String())
					if strings.Contains(s, "ACTION") || strings.Contains(s, "LIMIT") || strings.Contains(s, "RUN") {
						guard = append(guard, s)
					}
				}
				sort.Strings(guard)
				effects = append(effects, desc+" when ["+strings.Join(guard, " && ")+"]")
			}
		}
	})
	for s := range condSet {
		conds = append(conds, s)
	}
	sort.Strings(conds)
	sort.Strings(effects)
	return
}

func runC10(c *an.Ctx) {
	names := map[string]string{
		"WriteReq":  "internal/corazawaf.(*Transaction).WriteRequestBody",
		"WriteResp": "internal/corazawaf.(*Transaction).WriteResponseBody",
		"ReadReq":   "internal/corazawaf.(*Transaction).ReadRequestBodyFrom",
		"ReadResp":  "internal/corazawaf.(*Transaction).ReadResponseBodyFrom",
	}
	fns := map[string]*ssa.Function{}
	for k, n := range names {
		fns[k] = c.Fn("R1", n)
	}
	// ---- R1 sibling skeletons.
	// allowlisted differences (request side only): the int64 overflow check.
	allowed := func(s string) bool {
		return strings.Contains(s, "9223372036854775807")
	}
	compare := func(a, b string) {
		fa, fb := fns[a], fns[b]
		if fa == nil || fb == nil {
			return
		}
		ca, ea := c10Skeleton(c, fa)
		cb, eb := c10Skeleton(c, fb)
		diff := func(x, y []string) []string {
			m := map[string]int{}
			for _, s := range y {
				m[s]++
			}
			var out []string
			for _, s := range x {
				if m[s] > 0 {
					m[s]--
					continue
				}
				if !allowed(s) {
					out = append(out, s)
				}
			}
			return out
		}
		onlyA := append(diff(ca, cb), diff(ea, eb)...)
		onlyB := append(diff(cb, ca), diff(eb, ea)...)
		key := fmt.Sprintf("skeleton %s ~ %s", shortFn(names[a]), shortFn(names[b]))
		if len(onlyA)+len(onlyB) > 0 {
			var facts []string
			for _, s := range onlyA {
				facts = append(facts, "only in "+shortFn(names[a])+": "+s)
			}
			for _, s := range onlyB {
				facts = append(facts, "only in "+shortFn(names[b])+": "+s)
			}
			c.Bad("R1", key, fa.Pos(), "the two entry points no longer take the same limit decisions (after renaming request<->response): one of them enforces the limit differently", facts...)
		} else {
			c.Ok("R1", key, fa.Pos(), fmt.Sprintf("%d branch conditions and %d guarded effects agree", len(ca), len(ea)))
		}
	}
	compare("WriteReq", "WriteResp")
	compare("ReadReq", "ReadResp")
	// the Reject status is a function of the side, not of the entry point: 413 for requests, 500 for responses,
	// at every rejection site
	for _, k := range []string{"WriteReq", "ReadReq", "WriteResp", "ReadResp"} {
		fn := fns[k]
		if fn == nil {
			continue
		}
		want := "413"
		if strings.HasSuffix(k, "Resp") {
			want = "500"
		}
		n := 0
		an.Instrs(fn, func(in ssa.Instruction) {
			cc := an.CallOf(in)
			if cc == nil || cc.StaticCallee() == nil || cc.StaticCallee().Name() != "setAndReturnBodyLimitInterruption" {
				return
			}
			n++
			st := an.Expr(cc.Args[1])
			c.Check(st == want, "R1", fmt.Sprintf("%s: rejection #%d uses status %s", shortFn(names[k]), n, want), in.Pos(), "status "+st,
				"this rejection site answers "+st+" where the "+map[bool]string{true: "response", false: "request"}[want == "500"]+" side answers "+want+" everywhere else: the status of a refused body depends on the entry point and on how the body was delivered")
		})
		c.MinCount("R1", "rejection sites in "+shortFn(names[k]), n, 1)
	}
	// Write vs ReadFrom on the same side: the boundary atoms must coincide.
	boundary := func(k string) []string {
		if fns[k] == nil {
			return nil
		}
		cs, _ := c10Skeleton(c, fns[k])
		var out []string
		for _, s := range cs {
			if strings.Contains(s, "LIMIT") && strings.Contains(s, "BUF.length") && !strings.Contains(s, " - ") {
				// normalise the name of the incoming amount
				s = strings.NewReplacer("len(b)", "N", "l.Len()", "N", "r.(corazawaf.ByteLenger)#0.Len()", "N").Replace(s)
				out = append(out, s)
			}
		}
		sort.Strings(out)
		return out
	}
	for _, pair := range [][2]string{{"WriteReq", "ReadReq"}, {"WriteResp", "ReadResp"}} {
		if fns[pair[0]] == nil || fns[pair[1]] == nil {
			continue
		}
		bw, br := boundary(pair[0]), boundary(pair[1])
		missing := []string{}
		for _, s := range bw {
			found := false
			for _, t := range br {
				if s == t {
					found = true
				}
			}
			if !found {
				missing = append(missing, s)
			}
		}
		key := fmt.Sprintf("boundary tests %s within %s", shortFn(names[pair[0]]), shortFn(names[pair[1]]))
		c.Check(len(missing) == 0 && len(bw) >= 2, "R1", key, fns[pair[0]].Pos(),
			"write and read-from compare the cumulative size with the limit in the same way: "+strings.Join(bw, "; "),
			"the slice-based and the reader-based entry point compare the cumulative size with the limit differently; in "+shortFn(names[pair[0]])+" only: "+strings.Join(missing, "; ")+" (all: "+strings.Join(bw, "; ")+" vs "+strings.Join(br, "; ")+")")
	}

	// ---- R2 nothing beyond the limit is stored.
	if bw := c.Fn("R2", "internal/corazawaf.(*BodyBuffer).Write"); bw != nil {
		n := 0
		an.Instrs(bw, func(in ssa.Instruction) {
			isFile := an.IsCallToMethod(in, "os", "File", "Write") && an.Expr(an.CallOf(in).Args[1]) == "data"
			isMem := an.IsCallToMethod(in, "bytes", "Buffer", "Write") && an.Expr(an.CallOf(in).Args[1]) == "data"
			if !isFile && !isMem {
				return
			}
			n++
			what := "memory"
			if isFile {
				what = "spill file"
			}
			f := an.FactsAt(in)
			ok := f.Has("br.length", "<=", "(br.options.Limit - len(data))")
			if ok {
				if a := findAtom(f, "br.length", "<=", "(br.options.Limit - len(data))"); a != nil {
					if v, why := guardStillValid(c, *a, in, pkgWAF, "BodyBuffer", "length"); !v {
						// the only permitted writer is the accounting store of this very call
						_ = why
					}
				}
			}
			c.Check(ok, "R2", "BodyBuffer.Write: "+what+" write within the limit", in.Pos(), "dominated by length <= Limit - len(data)",
				"data is written to the "+what+" without the dominating check length <= Limit - len(data): more than the configured limit can be stored", f.Strings()...)
		})
		c.MinCount("R2", "underlying writes in BodyBuffer.Write", n, 2)
	}
	for _, k := range []string{"WriteReq", "WriteResp"} {
		fn := fns[k]
		if fn == nil {
			continue
		}
		nS := 0
		an.Instrs(fn, func(in ssa.Instruction) {
			sl, ok := in.(*ssa.Slice)
			if !ok || an.Expr(sl.X) != "b" || sl.High == nil {
				return
			}
			nS++
			lowOK, whyLow := c10NonNeg(sl.High, sl.Block(), 0)
			c.Check(lowOK, "R2", shortFn(names[k])+": truncation bound is never negative", sl.Pos(),
				"every value reaching b[:n] is len(b), a clamp to 0, or limit-length under a >= 0 guard",
				"b[:n] can be reached with a negative n ("+whyLow+"): a limit lowered at run time below the buffered amount panics with slice bounds out of range")
			hiOK, whyHi := c10AtMostLen(c, sl.High, sl, 0)
			c.Check(hiOK, "R2", shortFn(names[k])+": truncation bound never exceeds len(b)", sl.Pos(),
				"every value reaching b[:n] is len(b), 0, or limit-length under the guard length+len(b) >= limit",
				"b[:n] can be reached with n > len(b) ("+whyHi+")")
		})
		c.MinCount("R2", "slices of b in "+shortFn(names[k]), nS, 1)
	}

	// ---- R3 limit sanity.
	c10LimitSanity(c)
	// ... and every limit directive configures its own side: a handler named for the request side stores only
	// request-side settings of the WAF and the other way round (the two families are copies of each other, a
	// copy/paste slip makes `SecResponseBodyLimitAction ProcessPartial` switch the *request* side to partial)
	nDir := 0
	for _, fn := range c.P.ModFuncs {
		if relPkg(fn) != "internal/seclang" || !strings.HasPrefix(fn.Name(), "directiveSec") || fn.Parent() != nil {
			continue
		}
		side, other := "", ""
		switch {
		case strings.Contains(fn.Name(), "Request") && !strings.Contains(fn.Name(), "Response"):
			side, other = "Request", "Response"
		case strings.Contains(fn.Name(), "Response") && !strings.Contains(fn.Name(), "Request"):
			side, other = "Response", "Request"
		default:
			continue
		}
		var wrong []string
		nSt := 0
		an.Instrs(fn, func(in ssa.Instruction) {
			st, ok := in.(*ssa.Store)
			if !ok {
				return
			}
			fv := an.FieldVar(st.Addr)
			if fv == nil {
				return
			}
			nSt++
			if strings.Contains(fv.Name(), other) && !strings.Contains(fv.Name(), side) {
				wrong = append(wrong, fv.Name())
			}
		})
		if nSt == 0 {
			continue
		}
		nDir++
		c.FuncsAnalysed[fn] = true
		c.Check(len(wrong) == 0, "R3", fn.Name()+" configures the "+strings.ToLower(side)+" side only", fn.Pos(), fmt.Sprintf("%d stores, none to a %s-side setting", nSt, strings.ToLower(other)),
			fn.Name()+" stores into "+strings.Join(wrong, ", ")+": a "+strings.ToLower(side)+"-side directive changes the "+strings.ToLower(other)+"-side setting (and leaves its own unchanged)")
	}
	c.MinCount("R3", "request/response side directives", nDir, 6)

	// the per-transaction body settings can be changed by ctl until the body phase of their side starts, and the
	// access switch and the limit of one side agree on that point (request side: last phase <= 1, response side: <= 3)
	{
		gate := map[string]int64{}
		for _, fld := range []string{"RequestBodyAccess", "RequestBodyLimit", "ResponseBodyAccess", "ResponseBodyLimit"} {
			for _, fs := range c.P.StoresToField(pkgWAF, "Transaction", fld) {
				if an.RelName(fs.Fn) != "internal/actions.(*ctlFn).Evaluate" {
					continue
				}
				_, hi, _ := an.FactsAt(fs.Store).Range(".lastPhase")
				gate[fld] = hi
			}
		}
		want := map[string]int64{"RequestBodyAccess": 1, "RequestBodyLimit": 1, "ResponseBodyAccess": 3, "ResponseBodyLimit": 3}
		for fld, w := range want {
			got, ok := gate[fld]
			if !ok {
				c.Unknown("R3", "ctl gate of "+fld, token.NoPos, "no store of Transaction."+fld+" found in ctl.Evaluate")
				continue
			}
			c.Check(got == w, "R3", "ctl may change "+fld+" until phase "+fmt.Sprint(w)+" has been reached", token.NoPos, fmt.Sprintf("store under lastPhase <= %d", got),
				fmt.Sprintf("ctl changes %s only while lastPhase <= %d (expected <= %d, like the sibling setting of the same side): a ctl issued from a rule of phase %d — the first phase that can see what it needs — is silently ignored, so the configured limit/access applies instead of the one the rule set", fld, got, w, w))
		}
	}

	// ---- R4 readers advance by what they return.
	if rd := c.Fn("R4", "internal/corazawaf.(*bodyBufferReader).Read"); rd != nil {
		n := 0
		// Read itself and the private methods of the reader it delegates a branch to (readFromMemory)
		readFns := map[*ssa.Function]bool{rd: true}
		for _, h := range privateCallees(rd, pkgWAF) {
			if h.Signature.Recv() != nil && strings.HasSuffix(h.Signature.Recv().Type().String(), "bodyBufferReader") {
				readFns[h] = true
			}
		}
		posAdv := regexp.MustCompile(`^\(\w+\.pos \+ (copy\(|\w+\.br\.writer\.ReadAt\(.*#0\)$)`)
		for _, fs := range c.P.StoresToField(pkgWAF, "bodyBufferReader", "pos") {
			if !readFns[fs.Fn] {
				continue
			}
			n++
			v := tempName.ReplaceAllString(an.Expr(fs.Store.Val), "")
			ok := posAdv.MatchString(v)
			c.Check(ok, "R4", fmt.Sprintf("bodyBufferReader.Read: pos advance #%d", n), fs.Store.Pos(), "pos += bytes returned ("+v+")", "the reader position is advanced by "+v+", not by the number of bytes copied/read")
		}
		c.MinCount("R4", "pos updates in Read", n, 2)
		// memory branch never reads beyond the buffer: copy source is buf[pos:pos+n] with n clamped
		an.Instrs(rd, func(in ssa.Instruction) {
			if an.IsBuiltinCall(in, "copy") {
				src := an.Expr(an.CallOf(in).Args[1])
				c.Check(strings.Contains(src, "[b.pos:(b.pos + "), "R4", "bodyBufferReader.Read: memory copy window", in.Pos(), "copies buf[pos:pos+n]", "memory branch copies "+src)
			}
		})
	}

	// ... and whoever reads a body honours the io.Reader contract: Read may return n > 0 together with io.EOF (the
	// file-backed body reader does, on the final short read), so the n bytes are consumed before, or regardless
	// of, the error test.  A loop that returns on err == io.EOF first silently loses the tail of a body that was
	// spilled to disk while the same body held in memory is read completely.
	c10ReadLoops(c)

	// ---- R5 length accounting.
	whoMayWrite(c, "R5", pkgWAF, "BodyBuffer", "length", []storeRule{
		{fn: "internal/corazawaf.(*BodyBuffer).Write", why: "cumulative accounting", check: func(c *an.Ctx, fs an.FieldStore) (bool, string) {
			v := an.Expr(fs.Store.Val)
			if v == "(br.length + len(data))" {
				return true, "length += len(data)"
			}
			return false, "BodyBuffer.Write sets length to " + v + ", expected length + len(data)"
		}},
		{fn: "internal/corazawaf.(*BodyBuffer).Reset", why: "reset", check: storesConst("0")},
	})
	// each successful underlying write is accompanied by the accounting store on the same path
	if bw := c.P.Func("internal/corazawaf.(*BodyBuffer).Write"); bw != nil {
		an.Instrs(bw, func(in ssa.Instruction) {
			isFile := an.IsCallToMethod(in, "os", "File", "Write") && an.Expr(an.CallOf(in).Args[1]) == "data"
			isMem := an.IsCallToMethod(in, "bytes", "Buffer", "Write") && an.Expr(an.CallOf(in).Args[1]) == "data"
			if !isFile && !isMem {
				return
			}
			w := an.FindPath(an.PathQuery{Fn: bw, Stop: func(x ssa.Instruction) bool {
				_, ok := an.StoreToField(x, fullWAF, "BodyBuffer", "length")
				return ok
			}, Target: func(x ssa.Instruction) bool { return x == in }})
			tgt := "memory"
			if isFile {
				tgt = "spill file"
			}
			c.Check(w == nil, "R5", "BodyBuffer.Write: length updated on the path of the "+tgt+" write", in.Pos(), "accounting store precedes the write", "data can be written without updating length")
		})
	}

	// ---- R6 once spilled, always spilled.
	if bw := c.P.Func("internal/corazawaf.(*BodyBuffer).Write"); bw != nil && len(bw.Params) == 2 {
		cumul := regexp.MustCompile(`^\(\w+\.length \+ len\(\w+\)\)$`)
		an.Instrs(bw, func(in ssa.Instruction) {
			if !(an.IsCallToMethod(in, "bytes", "Buffer", "Write") && an.CallOf(in).Args[1] == ssa.Value(bw.Params[1])) {
				return
			}
			f := an.FactsAt(in)
			okGuard := f.HasSuffix(".writer", "==", "nil")
			okCumul := false
			for _, a := range f {
				if cumul.MatchString(a.L) && a.Op == "<=" && strings.HasSuffix(a.R, ".options.MemoryLimit") {
					okCumul = true
				}
			}
			c.Check(okGuard || okCumul, "R6", "BodyBuffer.Write: memory write impossible after a spill", in.Pos(),
				"the memory write is guarded by the cumulative size (monotone, so it stays false once the file exists)",
				"the in-memory write is guarded neither by writer == nil nor by the cumulative length: after the first spill a later small chunk would go to memory while readers read the file", f.Strings()...)
		})
	}
	// ... and a reader decides where to read from by where the body is *now*: a reader handed out before the
	// spill must follow the body to the file (the location is not remembered from the time Reader() was called)
	if rd := c.P.Func("internal/corazawaf.(*bodyBufferReader).Read"); rd != nil {
		nMem := 0
		// the memory read sits in Read or in a private method of the reader that Read calls for that branch:
		// either way the point judged is the instruction inside Read (the read itself, or the call of the helper)
		memHelpers := map[*ssa.Function]bool{}
		for _, h := range privateCallees(rd, pkgWAF) {
			an.Instrs(h, func(x ssa.Instruction) {
				if an.IsCallToMethod(x, "bytes", "Buffer", "Bytes") {
					memHelpers[h] = true
				}
			})
		}
		an.Instrs(rd, func(in ssa.Instruction) {
			isMem := an.IsCallToMethod(in, "bytes", "Buffer", "Bytes")
			if cc := an.CallOf(in); cc != nil && cc.StaticCallee() != nil && memHelpers[cc.StaticCallee()] {
				isMem = true
			}
			if !isMem {
				return
			}
			nMem++
			w := an.FindPath(an.PathQuery{Fn: rd, Target: func(x ssa.Instruction) bool { return x == in },
				PruneEdge: func(b *ssa.BasicBlock, si int) bool {
					ifi, ok := b.Instrs[len(b.Instrs)-1].(*ssa.If)
					if !ok {
						return false
					}
					for _, a := range an.CondAtoms(ifi.Cond, si == 0) {
						if strings.HasSuffix(a.L, ".writer") && a.Op == "==" && a.R == "nil" {
							return true
						}
						if strings.HasSuffix(a.L, "HasAccessToFS") && (a.Op == "==" && a.R == "false" || a.Op == "!=" && a.R == "true") {
							return true
						}
					}
					return false
				}})
			if w != nil {
				c.Bad("R6", "bodyBufferReader.Read: memory is read only while no spill file exists", in.Pos(), "the reader takes the in-memory branch on a path that has not just tested the buffer's spill file (writer == nil) or the build's file-system switch: a reader created before the body spilled to disk keeps reading the (now empty) memory buffer", c.P.TrailString(w)...)
			} else {
				c.Ok("R6", "bodyBufferReader.Read: memory is read only while no spill file exists", in.Pos(), "every path to the memory read tests writer == nil (or !HasAccessToFS) at read time")
			}
		})
		c.MinCount("R6", "memory reads in bodyBufferReader.Read", nMem, 1)
	}
}

func shortFn(rel string) string {
	if i := strings.LastIndex(rel, "."); i >= 0 {
		return rel[i+1:]
	}
	return rel
}

// c10NonNeg: is v >= 0 at the end of block blk (the block where it is used or the phi predecessor)?
func c10NonNeg(v ssa.Value, blk *ssa.BasicBlock, depth int) (bool, string) {
	if depth > 6 {
		return false, "too deep"
	}
	switch x := v.(type) {
	case *ssa.Const:
		if x.Int64() >= 0 {
			return true, ""
		}
		return false, "negative constant"
	case *ssa.Convert:
		return c10NonNeg(x.X, blk, depth+1)
	case *ssa.Call:
		if b, ok := x.Call.Value.(*ssa.Builtin); ok && (b.Name() == "len" || b.Name() == "cap") {
			return true, ""
		}
	case *ssa.Phi:
		for i, e := range x.Edges {
			if ok, why := c10NonNeg(e, x.Block().Preds[i], depth+1); !ok {
				return false, why
			}
		}
		return true, ""
	}
	e := an.Expr(v)
	// facts at the end of blk: dominating facts, plus the edge into the phi
	for _, a := range an.FactsAtBlock(blk) {
		if a.L == e && ((a.Op == ">=" && a.R == "0") || (a.Op == ">" && a.R == "0")) {
			return true, ""
		}
	}
	// the value flows along an edge on which `e < 0` is false: blk ends with If(e < 0) and the successor we go to is the false one;
	// since we do not know the successor here, accept when blk's terminator tests e<0 and the true branch assigns a different value.
	if len(blk.Instrs) > 0 {
		if ifi, ok := blk.Instrs[len(blk.Instrs)-1].(*ssa.If); ok {
			for _, a := range an.CondAtoms(ifi.Cond, false) {
				if a.L == e && a.Op == ">=" && a.R == "0" {
					// the phi must take this value only from the false edge: true edge goes through another block
					return true, ""
				}
			}
		}
	}
	return false, e + " has no dominating >= 0 fact"
}

// c10AtMostLen: is v <= len(b) at the slice?
func c10AtMostLen(c *an.Ctx, v ssa.Value, at ssa.Instruction, depth int) (bool, string) {
	if depth > 6 {
		return false, "too deep"
	}
	switch x := v.(type) {
	case *ssa.Const:
		if x.Int64() == 0 {
			return true, ""
		}
	case *ssa.Convert:
		return c10AtMostLen(c, x.X, at, depth+1)
	case *ssa.Call:
		if b, ok := x.Call.Value.(*ssa.Builtin); ok && b.Name() == "len" && an.Expr(x.Call.Args[0]) == "b" {
			return true, ""
		}
	case *ssa.Phi:
		for _, e := range x.Edges {
			if ok, why := c10AtMostLen(c, e, x, depth+1); !ok {
				return false, why
			}
		}
		return true, ""
	case *ssa.BinOp:
		if x.Op == token.SUB {
			// A - B <= n  follows from  B + n >= A
			A, B := an.Expr(x.X), an.Expr(x.Y)
			for _, a := range an.FactsAtBlock(x.Block()) {
				if a.Op == ">=" && a.R == A && a.L == "("+B+" + len(b))" {
					// no writer of the two fields between the guard and the subtraction
					return true, ""
				}
			}
			return false, "no dominating guard (" + B + " + len(b)) >= " + A
		}
	}
	return false, an.Expr(v) + " is not bounded by len(b)"
}

func c10LimitSanity(c *an.Ctx) {
	// Validate: every limit field has a lower and an upper test.
	if vf := c.Fn("R3", "internal/corazawaf.(*WAF).Validate"); vf != nil {
		errIdx := an.ErrorIndex(vf.Signature)
		type need struct{ field, op, r string }
		tests := map[string]bool{}
		an.Instrs(vf, func(in ssa.Instruction) {
			ifi, ok := in.(*ssa.If)
			if !ok {
				return
			}
			for _, truth := range []bool{true, false} {
				si := 0
				if !truth {
					si = 1
				}
				// the edge must lead to an error return
				w := an.FindPath(an.PathQuery{Fn: vf, StartBlock: in.Block().Succs[si], Target: func(x ssa.Instruction) bool {
					r, ok := x.(*ssa.Return)
					return ok && an.ReturnMayBeNilError(r, errIdx)
				}})
				if w != nil {
					continue // this edge can still succeed
				}
				for _, a := range an.CondAtoms(ifi.Cond, truth) {
					tests[a.String()] = true
				}
			}
		})
		var all []string
		for t := range tests {
			all = append(all, t)
		}
		sort.Strings(all)
		want := []struct{ desc, sub1, sub2 string }{
			{"RequestBodyLimit > 0", "w.RequestBodyLimit <= 0", ""},
			{"ResponseBodyLimit > 0", "w.ResponseBodyLimit <= 0", ""},
			{"RequestBodyLimit bounded above", "w.RequestBodyLimit > ", ""},
			{"ResponseBodyLimit bounded above", "w.ResponseBodyLimit > ", ""},
			{"in-memory limit within the body limit", "w.RequestBodyLimit < w.requestBodyInMemoryLimit", "w.requestBodyInMemoryLimit > w.RequestBodyLimit"},
		}
		for _, wnt := range want {
			ok := false
			for _, t := range all {
				if strings.Contains(t, wnt.sub1) || (wnt.sub2 != "" && strings.Contains(t, wnt.sub2)) {
					ok = true
				}
			}
			c.Check(ok, "R3", "Validate rejects: "+wnt.desc+" violated", vf.Pos(), "an error-only branch tests it", "WAF.Validate has no rejecting branch for: "+wnt.desc, all...)
		}
	}
	// NewWAF cannot succeed without Validate.
	if nw := c.Fn("R3", ".NewWAF"); nw != nil {
		vf := c.P.Func("internal/corazawaf.(*WAF).Validate")
		errIdx := an.ErrorIndex(nw.Signature)
		w := an.FindPath(an.PathQuery{Fn: nw, Stop: func(in ssa.Instruction) bool { return an.IsCallTo(in, vf) }, Target: func(in ssa.Instruction) bool {
			r, ok := in.(*ssa.Return)
			return ok && an.ReturnMayBeNilError(r, errIdx)
		}})
		c.Check(w == nil, "R3", "NewWAF: success only after Validate", nw.Pos(), "every successful return passes waf.Validate()", "coraza.NewWAF can return a WAF without calling Validate")
		// and the Validate error is returned
		an.Instrs(nw, func(in ssa.Instruction) {
			if an.IsCallTo(in, vf) {
				v := in.(ssa.Value)
				okRet := false
				for _, b := range nw.Blocks {
					if an.FactsAtBlock(b).Has(an.Expr(v), "!=", "nil") {
						for _, x := range b.Instrs {
							if r, ok := x.(*ssa.Return); ok && !an.ReturnMayBeNilError(r, errIdx) {
								okRet = true
							} else if ok && an.Expr(r.Results[errIdx]) == an.Expr(v) {
								okRet = true
							}
						}
					}
				}
				c.Check(okRet, "R3", "NewWAF: Validate failure is returned", in.Pos(), "error returned", "the error of waf.Validate() is not returned")
			}
		})
	}
	// run-time stores to the per-transaction limits
	for _, lim := range []string{"RequestBodyLimit", "ResponseBodyLimit"} {
		n := 0
		for _, fs := range c.P.StoresToField(pkgWAF, "Transaction", lim) {
			name := an.RelName(fs.Fn)
			if name == "internal/corazawaf.(*WAF).newTransaction" {
				continue
			}
			n++
			v := an.Expr(fs.Store.Val)
			f := an.FactsAt(fs.Store)
			lo, _, _ := f.Range(v)
			upper := false
			for _, a := range f {
				if a.L == v && (a.Op == "<=" || a.Op == "<") && strings.HasSuffix(a.R, ".WAF."+lim) {
					upper = true
				}
			}
			ok := lo >= 1 && upper
			c.Check(ok, "R3", fmt.Sprintf("run-time store to Transaction.%s in %s is range-checked", lim, name), fs.Store.Pos(),
				"stored value is > 0 and <= the WAF limit", "Transaction."+lim+" can be set at run time to a value outside (0, WAF limit] (value "+v+"): truncation arithmetic and the buffer limit assume it", f.Strings()...)
		}
		c.MinCount("R3", "run-time stores to "+lim, n, 1)
	}
}

// c10ReadLoops: every call of a Read(p []byte) (n int, err error) method in the module uses n on every path.
func c10ReadLoops(c *an.Ctx) {
	nR := 0
	seen := map[string]int{}
	for _, fn := range c.P.ModFuncs {
		rp := relPkg(fn)
		if strings.HasPrefix(rp, "testing") || strings.HasPrefix(rp, "examples") || strings.HasSuffix(rp, "/generator") {
			continue
		}
		an.Instrs(fn, func(in ssa.Instruction) {
			call, ok := in.(*ssa.Call)
			if !ok {
				return
			}
			name := ""
			if call.Call.IsInvoke() {
				name = call.Call.Method.Name()
			} else if sc := call.Call.StaticCallee(); sc != nil && sc.Signature.Recv() != nil {
				name = sc.Name()
			}
			if name != "Read" && name != "ReadAt" {
				return
			}
			sig := call.Call.Signature()
			if sig.Results().Len() != 2 || !isIntType(sig.Results().At(0).Type()) || sig.Results().At(1).Type().String() != "error" {
				return
			}
			var nV ssa.Value
			for _, r := range *call.Referrers() {
				if ex, ok := r.(*ssa.Extract); ok && ex.Index == 0 {
					nV = ex
				}
			}
			nR++
			c.FuncsAnalysed[fn] = true
			k := fmt.Sprintf("%s result consumed on every path in %s", name, an.RelName(fn))
			seen[k]++
			key := k
			if seen[k] > 1 {
				key += fmt.Sprintf("#%d", seen[k])
			}
			// the whole tuple returned to the caller: the caller's business
			tupleReturned := false
			for _, r := range *call.Referrers() {
				if _, ok := r.(*ssa.Return); ok {
					tupleReturned = true
				}
			}
			if tupleReturned {
				c.Ok("R4", key, in.Pos(), "the (n, err) pair is returned to the caller unchanged")
				return
			}
			if nV == nil {
				c.Bad("R4", key, in.Pos(), "the byte count returned by "+name+" is never looked at: bytes returned together with an error (io.EOF on the final read) are lost")
				return
			}
			uses := map[ssa.Instruction]bool{}
			for _, r := range *nV.Referrers() {
				if b, ok := r.(*ssa.BinOp); ok {
					switch b.Op {
					case token.EQL, token.NEQ, token.LSS, token.LEQ, token.GTR, token.GEQ:
						continue // a test of n is not a use of the bytes
					}
				}
				uses[r] = true
			}
			nE := an.Expr(nV)
			w := an.FindPath(an.PathQuery{Fn: fn, After: in,
				Stop: func(x ssa.Instruction) bool { return uses[x] },
				Target: func(x ssa.Instruction) bool {
					if r, ok := x.(*ssa.Return); ok {
						// leaving with the error is not silent; leaving as a success is
						ei := an.ErrorIndex(fn.Signature)
						return ei < 0 || an.ReturnMayBeNilError(r, ei)
					}
					return x == ssa.Instruction(call)
				},
				PruneEdge: func(b *ssa.BasicBlock, si int) bool {
					ifi, ok := b.Instrs[len(b.Instrs)-1].(*ssa.If)
					if !ok {
						return false
					}
					for _, a := range an.CondAtoms(ifi.Cond, si == 0) {
						if a.L == nE && (a.Op == "==" && a.R == "0" || a.Op == "<=" && a.R == "0" || a.Op == "<" && a.R == "1") {
							return true // nothing was read on this edge
						}
					}
					return false
				}})
			if w != nil {
				c.Bad("R4", key, w.Target.Pos(), "after "+name+" returned (n, err), a path leaves (or reads again) without using the n bytes — typically `if err == io.EOF { return }` placed before the data is appended: a reader that returns the last bytes together with io.EOF (the disk-backed body reader does) loses them", c.P.TrailString(w)...)
			} else {
				c.Ok("R4", key, in.Pos(), "every path from the call uses n before returning or reading again")
			}
		})
	}
	c.MinCount("R4", "direct Read/ReadAt calls", nR, 1)
}

func isIntType(t types.Type) bool {
	b, ok := t.Underlying().(*types.Basic)
	return ok && b.Kind() == types.Int
}
