package props

import (
	"fmt"
	"go/token"
	"go/types"
	"sort"
	"strings"

	"czcheck/an"

	"golang.org/x/tools/go/ssa"
)

// c07UnsetPtr — optional values by construction.
//
// A pointer-to-struct field that some composite literal of its struct leaves unset is nil in
// the objects built there.  Such a value may be handed around (wrapped into an interface,
// returned by an accessor, possibly across packages) and finally dereferenced, directly or
// by a method with a pointer receiver that reads a field of its receiver without testing
// it.  The rule follows the value from the field load to every such use:
//
//	source  load of x.F where F is left unset by a composite literal of x's type, is never
//	        assigned outside composite literals (so it stays nil for the object's life), and
//	        no dominating guard gives x.F != nil;
//	flow    MakeInterface / ChangeInterface / phi / return to every (static or VTA-resolved)
//	        caller, to a fixed point;
//	sink    FieldAddr / load through the pointer, a static call of a nil-unsafe method with the
//	        value as receiver, an interface invoke whose callee for the value's dynamic type is
//	        nil-unsafe;
//	guard   a dominating `v != nil` on the pointer (a non-nil interface holding a nil
//	        pointer is not protected by a test of the interface).
func c07UnsetPtr(c *an.Ctx) {
	inScope := func(fn *ssa.Function) bool {
		rp := relPkg(fn)
		return !(strings.HasSuffix(rp, "/generator") || strings.HasPrefix(rp, "testing") || strings.HasPrefix(rp, "examples") || rp == "magefiles")
	}
	// A. fields left unset by a composite literal
	omitted := map[*types.Var]token.Position{}
	nLit := 0
	for _, fn := range c.P.ModFuncs {
		if !inScope(fn) {
			continue
		}
		an.Instrs(fn, func(in ssa.Instruction) {
			a, ok := in.(*ssa.Alloc)
			if !ok || a.Comment != "complit" {
				return
			}
			st, ok := derefT(a.Type()).Underlying().(*types.Struct)
			if !ok {
				return
			}
			nLit++
			set := map[int]bool{}
			whole := false
			for _, r := range *a.Referrers() {
				switch x := r.(type) {
				case *ssa.FieldAddr:
					if x.X == ssa.Value(a) {
						for _, rr := range *x.Referrers() {
							if s, ok := rr.(*ssa.Store); ok && s.Addr == ssa.Value(x) {
								set[x.Field] = true
							}
						}
					}
				case *ssa.Store:
					if x.Addr == ssa.Value(a) {
						whole = true
					}
				}
			}
			if whole {
				return
			}
			for i := 0; i < st.NumFields(); i++ {
				f := st.Field(i)
				pt, ok := f.Type().Underlying().(*types.Pointer)
				if !ok || set[i] {
					continue
				}
				if _, isS := pt.Elem().Underlying().(*types.Struct); !isS {
					continue
				}
				if _, seen := omitted[f]; !seen {
					omitted[f] = c.P.Fset.Position(a.Pos())
				}
			}
		})
	}
	// ... and never assigned afterwards: a field that is stored anywhere outside a composite
	// literal belongs to a multi-step construction (Init methods, lazy allocation, linking
	// of chains); those are the business of the nil-comparison rule above.  What remains is
	// nil for the object's whole life.
	for _, fn := range c.P.ModFuncs {
		an.Instrs(fn, func(in ssa.Instruction) {
			st, ok := in.(*ssa.Store)
			if !ok {
				return
			}
			fa, ok := st.Addr.(*ssa.FieldAddr)
			if !ok {
				return
			}
			if a, isA := fa.X.(*ssa.Alloc); isA && a.Comment == "complit" {
				return
			}
			if fv := an.FieldVar(fa); fv != nil {
				delete(omitted, fv)
			}
		})
	}
	// B. nil-unsafe methods
	unsafeM := map[*ssa.Function]bool{}
	nilUnsafe := func(m *ssa.Function) bool {
		if v, ok := unsafeM[m]; ok {
			return v
		}
		res := false
		if m != nil && len(m.Blocks) > 0 && len(m.Params) > 0 && m.Signature.Recv() != nil {
			recv := m.Params[0]
			if _, isP := recv.Type().Underlying().(*types.Pointer); isP {
				for _, r := range *recv.Referrers() {
					deref := false
					switch x := r.(type) {
					case *ssa.FieldAddr:
						deref = x.X == ssa.Value(recv)
					case *ssa.UnOp:
						deref = x.Op == token.MUL && x.X == ssa.Value(recv)
					}
					if deref && !an.FactsAt(r).Has(an.Expr(recv), "!=", "nil") {
						res = true
					}
				}
			}
		}
		unsafeM[m] = res
		return res
	}
	// C/D. propagate
	type taint struct {
		fv   *types.Var
		path string
	}
	retTaint := map[*ssa.Function]*taint{} // functions that may return the unset field
	type finding struct {
		key, msg string
		pos      token.Pos
	}
	var finds []finding
	seenFind := map[string]bool{}
	nSrc := 0
	sinkCheck := func(fn *ssa.Function, v ssa.Value, t *taint, visited map[ssa.Value]bool) {}
	var walk func(fn *ssa.Function, v ssa.Value, t *taint, visited map[ssa.Value]bool)
	walk = func(fn *ssa.Function, v ssa.Value, t *taint, visited map[ssa.Value]bool) {
		if visited[v] || v.Referrers() == nil {
			return
		}
		visited[v] = true
		_, isPtr := v.Type().Underlying().(*types.Pointer)
		for _, r := range *v.Referrers() {
			at, _ := r.(ssa.Instruction)
			guarded := isPtr && at != nil && an.FactsAt(at).Has(an.Expr(v), "!=", "nil")
			report := func(what string) {
				if guarded {
					return
				}
				k := fmt.Sprintf("unset %s.%s reaches %s in %s", t.fv.Pkg().Name(), t.fv.Name(), what, an.RelName(fn))
				if seenFind[k] {
					return
				}
				seenFind[k] = true
				finds = append(finds, finding{k, "field " + t.fv.Name() + " is left nil by the composite literal at " + shortPos(omitted[t.fv]) + "; the value flows " + t.path + " and is dereferenced here without a nil test", at.Pos()})
			}
			switch x := r.(type) {
			case *ssa.FieldAddr:
				if x.X == v {
					report("a field read")
				}
			case *ssa.UnOp:
				if x.Op == token.MUL && x.X == v {
					report("a dereference")
				}
			case *ssa.MakeInterface:
				if !guarded {
					walk(fn, x, t, visited)
				}
			case *ssa.ChangeInterface:
				walk(fn, x, t, visited)
			case *ssa.Phi:
				if !guarded {
					walk(fn, x, t, visited)
				}
			case *ssa.Return:
				if !guarded && retTaint[fn] == nil {
					retTaint[fn] = &taint{t.fv, t.path + " -> returned by " + an.RelName(fn)}
				}
			case ssa.CallInstruction:
				cc := x.Common()
				if cc.IsInvoke() && cc.Value == v {
					for _, callee := range c.P.Callees(x) {
						if callee.Signature.Recv() != nil && nilUnsafe(callee) && types.Identical(callee.Signature.Recv().Type(), types.NewPointer(derefT(t.fv.Type()))) {
							report("method " + cc.Method.Name() + " (reads its receiver)")
						}
					}
				} else if !cc.IsInvoke() && len(cc.Args) > 0 && cc.Args[0] == v {
					if callee := cc.StaticCallee(); callee != nil && callee.Signature.Recv() != nil && nilUnsafe(callee) {
						report("method " + callee.Name() + " (reads its receiver)")
					}
				}
			}
		}
	}
	_ = sinkCheck
	// sources
	for _, fn := range c.P.ModFuncs {
		if !inScope(fn) {
			continue
		}
		an.Instrs(fn, func(in ssa.Instruction) {
			u, ok := in.(*ssa.UnOp)
			if !ok || u.Op != token.MUL {
				return
			}
			fv := an.FieldVar(u.X)
			if fv == nil {
				return
			}
			if _, isOm := omitted[fv]; !isOm {
				return
			}
			nSrc++
			c.FuncsAnalysed[fn] = true
			walk(fn, u, &taint{fv, "from the load in " + an.RelName(fn)}, map[ssa.Value]bool{})
		})
	}
	// callers of tainted accessors, to a fixed point
	for round := 0; round < 4; round++ {
		changed := false
		for _, fn := range c.P.ModFuncs {
			if !inScope(fn) {
				continue
			}
			an.Instrs(fn, func(in ssa.Instruction) {
				call, ok := in.(*ssa.Call)
				if !ok {
					return
				}
				for _, callee := range c.P.Callees(call) {
					t := retTaint[callee]
					if t == nil || callee.Signature.Results().Len() != 1 {
						continue
					}
					before := len(retTaint)
					nf := len(finds)
					walk(fn, call, t, map[ssa.Value]bool{})
					if len(retTaint) != before || len(finds) != nf {
						changed = true
					}
				}
			})
		}
		if !changed {
			break
		}
	}
	sort.Slice(finds, func(i, j int) bool { return finds[i].key < finds[j].key })
	for _, f := range finds {
		if why, ok := c07UnsetAllow[f.key]; ok {
			c.Note("R3", f.key, f.pos, "not decided mechanically; manual argument: "+why)
			continue
		}
		c.Bad("R3", f.key, f.pos, f.msg+": nil pointer dereference (panic)")
	}
	c.OkTrivial("R3", "pointer fields left unset by composite literals followed to their uses", token.NoPos, fmt.Sprintf("%d composite literals, %d pointer fields left unset somewhere, %d loads followed, %d accessor functions, %d unguarded uses", nLit, len(omitted), nSrc, len(retTaint), len(finds)))
	c.MinCount("R3", "loads of pointer fields some literal leaves unset", nSrc, 3)
}

var c07UnsetAllow = map[string]string{}

func derefT(t types.Type) types.Type {
	if p, ok := t.Underlying().(*types.Pointer); ok {
		return p.Elem()
	}
	return t
}

func shortPos(p token.Position) string {
	f := p.Filename
	if i := strings.Index(f, "/internal/"); i >= 0 {
		f = f[i+1:]
	} else if i := strings.LastIndex(f, "/"); i >= 0 {
		f = f[i+1:]
	}
	return fmt.Sprintf("%s:%d", f, p.Line)
}
