package an

import (
	"go/types"

	"golang.org/x/tools/go/ssa"
)

var errorType = types.Universe.Lookup("error").Type()

// ErrResult describes the error result of a call instruction.
type ErrResult struct {
	Call  ssa.CallInstruction
	Value ssa.Value // the error value (the call itself or its Extract); nil when never extracted
	Uses  int       // number of non-debug referrers of Value
}

// ErrorCalls lists the calls inside fn whose callee returns an error, with the use count
// of the error value. A call whose error is never extracted or never referenced is "dropped".
func ErrorCalls(fn *ssa.Function) []ErrResult {
	var out []ErrResult
	Instrs(fn, func(in ssa.Instruction) {
		ci, ok := in.(ssa.CallInstruction)
		if !ok {
			return
		}
		sig := ci.Common().Signature()
		idx := ErrorIndex(sig)
		if idx < 0 {
			return
		}
		r := ErrResult{Call: ci}
		v := ci.Value() // nil for defer/go
		if v == nil {
			out = append(out, r)
			return
		}
		if sig.Results().Len() == 1 {
			r.Value = v
		} else {
			for _, ref := range *v.Referrers() {
				if ex, ok := ref.(*ssa.Extract); ok && ex.Index == idx {
					r.Value = ex
				}
			}
		}
		if r.Value != nil {
			for _, ref := range *r.Value.Referrers() {
				if _, dbg := ref.(*ssa.DebugRef); !dbg {
					r.Uses++
				}
			}
		}
		out = append(out, r)
	})
	return out
}

// CalleeName renders the callee of a call for reports and allowlists.
func CalleeName(ci ssa.CallInstruction) string {
	c := ci.Common()
	if c.IsInvoke() {
		return "(" + types.TypeString(c.Value.Type(), shortQual) + ")." + c.Method.Name()
	}
	if sc := c.StaticCallee(); sc != nil {
		if sc.Signature.Recv() != nil {
			return "(" + types.TypeString(sc.Signature.Recv().Type(), shortQual) + ")." + sc.Name()
		}
		if sc.Pkg != nil {
			return sc.Pkg.Pkg.Name() + "." + sc.Name()
		}
		return sc.Name()
	}
	return Expr(c.Value)
}
