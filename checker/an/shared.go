package an

import (
	"go/token"
	"go/types"

	"golang.org/x/tools/go/ssa"
)

// SharedClassifier decides whether a named struct type holds state shared by concurrent transactions.
type SharedClassifier func(t types.Type) bool

// SharedRoot walks the address/value v back to where the memory comes from and reports whether the
// access path goes through an object of a shared type or a package-level variable.
func SharedRoot(v ssa.Value, shared SharedClassifier) (bool, string) {
	seen := map[ssa.Value]bool{}
	var walk func(v ssa.Value, d int) (bool, string)
	walk = func(v ssa.Value, d int) (bool, string) {
		if v == nil || seen[v] || d > 30 {
			return false, ""
		}
		seen[v] = true
		switch x := v.(type) {
		case *ssa.Global:
			return true, "package variable " + x.Pkg.Pkg.Name() + "." + x.Name()
		case *ssa.Alloc, *ssa.MakeSlice, *ssa.MakeMap, *ssa.MakeChan, *ssa.MakeClosure, *ssa.Const:
			return false, ""
		case *ssa.FieldAddr:
			if shared(derefType(x.X.Type())) {
				return true, "field " + fieldName(x.X.Type(), x.Field) + " of shared " + types.TypeString(derefType(x.X.Type()), shortQual)
			}
			return walk(x.X, d+1)
		case *ssa.Field:
			if shared(x.X.Type()) {
				return true, "field of shared " + types.TypeString(x.X.Type(), shortQual)
			}
			return walk(x.X, d+1)
		case *ssa.IndexAddr:
			return walk(x.X, d+1)
		case *ssa.Index:
			return walk(x.X, d+1)
		case *ssa.Lookup:
			return walk(x.X, d+1)
		case *ssa.Slice:
			return walk(x.X, d+1)
		case *ssa.UnOp:
			if x.Op == token.MUL {
				if shared(derefType(x.Type())) {
					return true, "object of shared type " + types.TypeString(derefType(x.Type()), shortQual)
				}
				return walk(x.X, d+1)
			}
			return false, ""
		case *ssa.Phi:
			for _, e := range x.Edges {
				if s, why := walk(e, d+1); s {
					return s, why
				}
			}
			return false, ""
		case *ssa.Parameter:
			if shared(derefType(x.Type())) {
				return true, "parameter " + x.Name() + " of shared type " + types.TypeString(derefType(x.Type()), shortQual)
			}
			return false, ""
		case *ssa.FreeVar:
			if shared(derefType(derefType(x.Type()))) {
				return true, "captured " + x.Name() + " of shared type"
			}
			return false, ""
		case *ssa.Call:
			if shared(derefType(x.Type())) {
				return true, "result of " + CalleeName(x) + " (shared type)"
			}
			return false, ""
		case *ssa.Extract:
			return walk(x.Tuple, d+1)
		case *ssa.TypeAssert:
			if shared(derefType(x.AssertedType)) {
				return true, "value asserted to shared type " + types.TypeString(derefType(x.AssertedType), shortQual)
			}
			return false, ""
		case *ssa.ChangeType:
			return walk(x.X, d+1)
		case *ssa.Convert:
			return walk(x.X, d+1)
		case *ssa.MakeInterface:
			return walk(x.X, d+1)
		}
		return false, ""
	}
	return walk(v, 0)
}

// FreshSlice reports whether v is a freshly allocated slice: make(...), append(nil, ...), append(fresh, ...), a literal.
func FreshSlice(v ssa.Value) bool {
	switch x := v.(type) {
	case *ssa.MakeSlice:
		return true
	case *ssa.Slice:
		if al, ok := x.X.(*ssa.Alloc); ok {
			return al.Heap || true
		}
		return FreshSlice(x.X)
	case *ssa.Call:
		if b, ok := x.Call.Value.(*ssa.Builtin); ok && b.Name() == "append" {
			if c, isC := x.Call.Args[0].(*ssa.Const); isC && c.Value == nil {
				return true
			}
			return FreshSlice(x.Call.Args[0])
		}
	case *ssa.Convert:
		return FreshSlice(x.X)
	case *ssa.ChangeType:
		return FreshSlice(x.X)
	}
	return false
}
