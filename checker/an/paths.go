package an

import (
	"go/types"
	"sort"
	"strings"

	"golang.org/x/tools/go/ssa"
)

// PathQuery describes a forward search over the instruction-level CFG of one function.
type PathQuery struct {
	Fn *ssa.Function
	// Start: search begins right after this instruction; nil = function entry.
	After ssa.Instruction
	// StartBlock: alternatively begin at the first instruction of this block.
	StartBlock *ssa.BasicBlock
	// Stop cuts a path (the instruction "discharges" the obligation on that path).
	Stop func(ssa.Instruction) bool
	// Target is what must not be reached without passing a Stop instruction.
	Target func(ssa.Instruction) bool
	// PruneEdge, when non-nil, removes CFG edges (from block, successor index).
	PruneEdge func(b *ssa.BasicBlock, succ int) bool
}

// Witness is a path (as block trail) from the start to a reached target.
type Witness struct {
	Target ssa.Instruction
	Trail  []*ssa.BasicBlock
}

// FindPath returns a witness when some path from the start reaches a Target
// instruction without passing a Stop instruction; nil when every path is cut.
func FindPath(q PathQuery) *Witness {
	type item struct {
		b   *ssa.BasicBlock
		idx int
	}
	if len(q.Fn.Blocks) == 0 {
		return nil
	}
	prev := map[*ssa.BasicBlock]*ssa.BasicBlock{}
	visited := map[*ssa.BasicBlock]bool{}
	var queue []item
	var startB *ssa.BasicBlock
	switch {
	case q.After != nil:
		b := q.After.Block()
		idx := 0
		for i, in := range b.Instrs {
			if in == q.After {
				idx = i + 1
			}
		}
		queue = append(queue, item{b, idx})
		startB = b
	case q.StartBlock != nil:
		queue = append(queue, item{q.StartBlock, 0})
		visited[q.StartBlock] = true
		startB = q.StartBlock
	default:
		queue = append(queue, item{q.Fn.Blocks[0], 0})
		visited[q.Fn.Blocks[0]] = true
		startB = q.Fn.Blocks[0]
	}
	for len(queue) > 0 {
		it := queue[0]
		queue = queue[1:]
		cut := false
		for i := it.idx; i < len(it.b.Instrs); i++ {
			in := it.b.Instrs[i]
			if q.Stop != nil && q.Stop(in) {
				cut = true
				break
			}
			if q.Target != nil && q.Target(in) {
				var trail []*ssa.BasicBlock
				for b := it.b; b != nil; b = prev[b] {
					trail = append([]*ssa.BasicBlock{b}, trail...)
					if b == startB {
						break
					}
				}
				return &Witness{Target: in, Trail: trail}
			}
		}
		if cut {
			continue
		}
		succs := LiveSuccs(it.b)
		for _, s := range succs {
			if q.PruneEdge != nil {
				si := 0
				for k, x := range it.b.Succs {
					if x == s {
						si = k
					}
				}
				if q.PruneEdge(it.b, si) {
					continue
				}
			}
			if !visited[s] {
				visited[s] = true
				prev[s] = it.b
				queue = append(queue, item{s, 0})
			}
		}
	}
	return nil
}

// TrailString renders a witness trail as positions of each block's first located instruction.
func (p *Prog) TrailString(w *Witness) []string {
	var out []string
	for _, b := range w.Trail {
		pos := "-"
		for _, in := range b.Instrs {
			if in.Pos().IsValid() {
				pos = p.Position(in.Pos())
				break
			}
		}
		out = append(out, "b"+itoa(b.Index)+"@"+pos)
	}
	return out
}

func itoa(i int) string {
	if i == 0 {
		return "0"
	}
	s := ""
	neg := i < 0
	if neg {
		i = -i
	}
	for i > 0 {
		s = string(rune('0'+i%10)) + s
		i /= 10
	}
	if neg {
		s = "-" + s
	}
	return s
}

// IsReturn matches return instructions.
func IsReturn(in ssa.Instruction) bool { _, ok := in.(*ssa.Return); return ok }

// ReturnsNilError reports whether ret may return a nil error in result position idx:
// true when the result is the constant nil or not provably an error value.
func ReturnMayBeNilError(ret *ssa.Return, idx int) bool {
	if idx >= len(ret.Results) {
		return true
	}
	if FactsAt(ret).Has(Expr(ret.Results[idx]), "!=", "nil") {
		return false
	}
	// with a defer in the function the results travel through result cells: `*r = v; rundefers; return *r`.
	// Judge the value stored last in the returning block.
	if u, ok := ret.Results[idx].(*ssa.UnOp); ok {
		if a, ok := u.X.(*ssa.Alloc); ok {
			var last *ssa.Store
			for _, in := range ret.Block().Instrs {
				if st, ok := in.(*ssa.Store); ok && st.Addr == ssa.Value(a) {
					last = st
				}
			}
			if last != nil {
				if FactsAt(last).Has(Expr(last.Val), "!=", "nil") {
					return false
				}
				return mayBeNil(last.Val, map[ssa.Value]bool{})
			}
		}
	}
	return mayBeNil(ret.Results[idx], map[ssa.Value]bool{})
}

func mayBeNil(v ssa.Value, seen map[ssa.Value]bool) bool {
	if seen[v] {
		return false
	}
	seen[v] = true
	switch x := v.(type) {
	case *ssa.Const:
		return x.Value == nil
	case *ssa.MakeInterface:
		return false
	case *ssa.Phi:
		for _, e := range x.Edges {
			if mayBeNil(e, seen) {
				return true
			}
		}
		return false
	case *ssa.Call:
		// constructors of errors never return nil
		if sc := x.Call.StaticCallee(); sc != nil && sc.Object() != nil && sc.Object().Pkg() != nil {
			pp, n := sc.Object().Pkg().Path(), sc.Object().Name()
			if (pp == "errors" && (n == "New")) || (pp == "fmt" && n == "Errorf") {
				return false
			}
		}
		return true
	case *ssa.UnOp:
		// load of a package-level error variable initialised with errors.New / fmt.Errorf
		if g, ok := x.X.(*ssa.Global); ok && globalErrorInitialised(g) {
			return false
		}
		return true
	case *ssa.Extract, *ssa.Parameter, *ssa.TypeAssert:
		// value guarded by `err != nil` on the path?
		if in, ok := v.(ssa.Instruction); ok {
			_ = in
		}
		return true
	}
	return true
}

// ErrorIndex returns the index of the error result of fn's signature, or -1.
func ErrorIndex(sig *types.Signature) int {
	r := sig.Results()
	for i := r.Len() - 1; i >= 0; i-- {
		if types.Identical(r.At(i).Type(), types.Universe.Lookup("error").Type()) {
			return i
		}
	}
	return -1
}

// NonNilOnPath reports whether value v is known non-nil at instruction `at`
// because a dominating branch established v != nil.
func NonNilAt(v ssa.Value, at ssa.Instruction) bool {
	e := Expr(v)
	for _, a := range FactsAt(at) {
		if a.L == e && a.Op == "!=" && a.R == "nil" {
			return true
		}
	}
	return false
}

var globalErrCache = map[*ssa.Global]bool{}

// globalErrorInitialised: the package initialiser stores errors.New(...)/fmt.Errorf(...) into g
// and nothing else writes it.
func globalErrorInitialised(g *ssa.Global) bool {
	if v, ok := globalErrCache[g]; ok {
		return v
	}
	res := false
	if g.Pkg != nil {
		if initFn := g.Pkg.Func("init"); initFn != nil {
			Instrs(initFn, func(in ssa.Instruction) {
				st, ok := in.(*ssa.Store)
				if !ok || st.Addr != ssa.Value(g) {
					return
				}
				v := st.Val
				if mi, ok := v.(*ssa.MakeInterface); ok {
					v = mi.X
				}
				if c, ok := v.(*ssa.Call); ok {
					if sc := c.Call.StaticCallee(); sc != nil && sc.Object() != nil && sc.Object().Pkg() != nil {
						pp, n := sc.Object().Pkg().Path(), sc.Object().Name()
						if (pp == "errors" && n == "New") || (pp == "fmt" && n == "Errorf") {
							res = true
						}
					}
				}
			})
		}
	}
	globalErrCache[g] = res
	return res
}

// FindPathCorr is FindPath with branch correlation: the search remembers the comparisons
// with constants (p == c, p != c) established by the edges taken so far and does not take an
// edge that contradicts one of them — `if a && x {..}; if !a && y {..}` has no path on which
// a is first false and then true.  What was remembered is forgotten at every instruction that
// could change memory (stores, map updates, calls other than len/cap, sends, go, defer), so
// a test repeated after such an instruction is not correlated with the earlier one.
func FindPathCorr(q PathQuery) *Witness {
	type state struct {
		b     *ssa.BasicBlock
		idx   int
		atoms []Atom
		trail []*ssa.BasicBlock
	}
	if len(q.Fn.Blocks) == 0 {
		return nil
	}
	var start state
	switch {
	case q.After != nil:
		b := q.After.Block()
		idx := 0
		for i, in := range b.Instrs {
			if in == q.After {
				idx = i + 1
			}
		}
		start = state{b: b, idx: idx}
	case q.StartBlock != nil:
		start = state{b: q.StartBlock, atoms: constAtoms(FactsAtBlock(q.StartBlock))}
	default:
		start = state{b: q.Fn.Blocks[0]}
	}
	start.trail = []*ssa.BasicBlock{start.b}
	keyOf := func(s state) string {
		var ks []string
		for _, a := range s.atoms {
			ks = append(ks, a.String())
		}
		sort.Strings(ks)
		return itoa(s.b.Index) + ":" + itoa(s.idx) + ":" + strings.Join(ks, ";")
	}
	seen := map[string]bool{}
	stack := []state{start}
	steps := 0
	for len(stack) > 0 {
		st := stack[len(stack)-1]
		stack = stack[:len(stack)-1]
		k := keyOf(st)
		if seen[k] {
			continue
		}
		seen[k] = true
		if steps++; steps > 20000 {
			return FindPath(q) // give up on correlation rather than on the answer
		}
		cut := false
		atoms := st.atoms
		for i := st.idx; i < len(st.b.Instrs); i++ {
			in := st.b.Instrs[i]
			if q.Stop != nil && q.Stop(in) {
				cut = true
				break
			}
			if q.Target != nil && q.Target(in) {
				return &Witness{Target: in, Trail: st.trail}
			}
			switch x := in.(type) {
			case *ssa.Store, *ssa.MapUpdate, *ssa.Send, *ssa.Go, *ssa.Defer:
				atoms = nil
			case *ssa.Call:
				if b, ok := x.Call.Value.(*ssa.Builtin); !ok || (b.Name() != "len" && b.Name() != "cap") {
					atoms = nil
				}
			}
		}
		if cut {
			continue
		}
		for _, s := range LiveSuccs(st.b) {
			si := 0
			for k, x := range st.b.Succs {
				if x == s {
					si = k
				}
			}
			if q.PruneEdge != nil && q.PruneEdge(st.b, si) {
				continue
			}
			next := atoms
			if ifi, ok := st.b.Instrs[len(st.b.Instrs)-1].(*ssa.If); ok && len(st.b.Succs) == 2 {
				edge := constAtoms(CondAtoms(ifi.Cond, si == 0))
				if contradict(atoms, edge) {
					continue
				}
				next = append(append([]Atom(nil), atoms...), edge...)
			}
			stack = append(stack, state{b: s, atoms: next, trail: append(append([]*ssa.BasicBlock(nil), st.trail...), s)})
		}
	}
	return nil
}

// constAtoms keeps the comparisons of an access path with a constant.
func constAtoms(as []Atom) []Atom {
	var out []Atom
	for _, a := range as {
		if a.Op != "==" && a.Op != "!=" {
			continue
		}
		if a.R == "true" || a.R == "false" || a.R == "nil" || isIntLit(a.R) || strings.HasPrefix(a.R, "\"") {
			if !strings.Contains(a.L, "(") { // results of calls are not stable values
				out = append(out, a)
			}
		}
	}
	return out
}

func isIntLit(s string) bool {
	if s == "" {
		return false
	}
	for i, r := range s {
		if (r < '0' || r > '9') && !(i == 0 && r == '-') {
			return false
		}
	}
	return true
}

func contradict(have, edge []Atom) bool {
	for _, a := range have {
		for _, e := range edge {
			if a.L != e.L {
				continue
			}
			if a.R == e.R && a.Op != e.Op {
				return true
			}
			if a.R != e.R && a.Op == "==" && e.Op == "==" {
				return true
			}
		}
	}
	return false
}
