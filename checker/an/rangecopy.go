package an

import (
	"go/token"
	"go/types"

	"golang.org/x/tools/go/ssa"
)

// CopyLoss describes a struct/array value copied out of a slice or map element whose
// modification cannot reach the original.
type CopyLoss struct {
	Alloc  *ssa.Alloc
	Source string // expression of the container the copy was taken from
	Kind   string // "escaping address", "dead store"
	At     ssa.Instruction
}

// RangeCopyLosses finds, in fn, copies of container elements (range value variables and
// `x := s[i]` locals of struct/array type) that are modified or handed out by address and
// never written back.
func RangeCopyLosses(fn *ssa.Function) []CopyLoss {
	var out []CopyLoss
	Instrs(fn, func(in ssa.Instruction) {
		st, ok := in.(*ssa.Store)
		if !ok {
			return
		}
		al, ok := st.Addr.(*ssa.Alloc)
		if !ok {
			return
		}
		switch derefType(al.Type()).Underlying().(type) {
		case *types.Struct, *types.Array:
		default:
			return
		}
		// the value stored is loaded from an element of a container
		ld, ok := st.Val.(*ssa.UnOp)
		if !ok || ld.Op != token.MUL {
			return
		}
		ia, ok := ld.X.(*ssa.IndexAddr)
		if !ok {
			return
		}
		src := Expr(ia.X)
		// this store must be the only whole-value initialisation of the alloc
		inits := 0
		for _, ref := range *al.Referrers() {
			if s2, ok := ref.(*ssa.Store); ok && s2.Addr == ssa.Value(al) {
				inits++
			}
		}
		if inits != 1 {
			return
		}
		var mutations, escapes []ssa.Instruction
		writtenBack := false
		var reads []ssa.Instruction
		for _, ref := range *al.Referrers() {
			switch r := ref.(type) {
			case *ssa.FieldAddr:
				for _, r2 := range *r.Referrers() {
					switch x := r2.(type) {
					case *ssa.Store:
						if x.Addr == ssa.Value(r) {
							mutations = append(mutations, x)
						}
					case *ssa.UnOp:
						reads = append(reads, x)
					default:
						reads = append(reads, r2)
					}
				}
			case *ssa.IndexAddr:
				for _, r2 := range *r.Referrers() {
					switch x := r2.(type) {
					case *ssa.Store:
						if x.Addr == ssa.Value(r) {
							mutations = append(mutations, x)
						}
					default:
						reads = append(reads, r2)
					}
				}
			case *ssa.UnOp:
				// whole-value load: written back into a container, or read
				wb := false
				for _, r2 := range *r.Referrers() {
					switch x := r2.(type) {
					case *ssa.Store:
						if x.Val == ssa.Value(r) {
							if ia2, ok := x.Addr.(*ssa.IndexAddr); ok && Expr(ia2.X) == src {
								wb = true
							}
						}
					case *ssa.MapUpdate:
						if x.Value == ssa.Value(r) {
							wb = true
						}
					}
				}
				if wb {
					writtenBack = true
				} else {
					reads = append(reads, r)
				}
			case *ssa.Store:
				if r.Val == ssa.Value(al) {
					escapes = append(escapes, r) // &copy stored somewhere
				}
			case *ssa.MakeInterface:
				escapes = append(escapes, r)
			case ssa.CallInstruction:
				cc := r.Common()
				for i, a := range cc.Args {
					if a != ssa.Value(al) {
						continue
					}
					if sc := cc.StaticCallee(); sc != nil && i < len(sc.Params) && writesThroughParam(sc, sc.Params[i], 0) {
						escapes = append(escapes, r)
					} else {
						reads = append(reads, r)
					}
				}
			}
		}
		if writtenBack {
			return
		}
		for _, e := range escapes {
			out = append(out, CopyLoss{al, src, "the address of the copy is handed to code that updates it", e})
			return
		}
		for _, m := range mutations {
			// is the copy read anywhere after this mutation?
			readAfter := false
			for _, rd := range reads {
				if rd == m {
					continue
				}
				w := FindPath(PathQuery{Fn: fn, After: m, Target: func(x ssa.Instruction) bool { return x == rd },
					Stop: func(x ssa.Instruction) bool { return x == ssa.Instruction(st) }})
				if w != nil {
					readAfter = true
					break
				}
			}
			if !readAfter {
				out = append(out, CopyLoss{al, src, "the copy is modified and then neither read nor written back", m})
				return
			}
		}
	})
	return out
}

// writesThroughParam: does fn store through the pointer parameter p (a field or element of *p), or keep p?
func writesThroughParam(fn *ssa.Function, p *ssa.Parameter, depth int) bool {
	if depth > 2 || len(fn.Blocks) == 0 || p.Referrers() == nil {
		return false
	}
	for _, ref := range *p.Referrers() {
		switch r := ref.(type) {
		case *ssa.FieldAddr:
			for _, r2 := range *r.Referrers() {
				if st, ok := r2.(*ssa.Store); ok && st.Addr == ssa.Value(r) {
					return true
				}
			}
		case *ssa.Store:
			if r.Val == ssa.Value(p) {
				return true // kept for later
			}
		case ssa.CallInstruction:
			cc := r.Common()
			if sc := cc.StaticCallee(); sc != nil {
				for i, a := range cc.Args {
					if a == ssa.Value(p) && i < len(sc.Params) && writesThroughParam(sc, sc.Params[i], depth+1) {
						return true
					}
				}
			}
		}
	}
	return false
}
