package an

import (
	"go/token"
	"go/types"
	"math"
	"sort"
	"strconv"
	"strings"

	"golang.org/x/tools/go/callgraph"
	"golang.org/x/tools/go/ssa"
)

// Atom is a normalised atomic fact "L op R" known to hold.
type Atom struct {
	L, Op, R string
	If       *ssa.If // the branch that established it
}

func (a Atom) String() string { return a.L + " " + a.Op + " " + a.R }

type Facts []Atom

func (f Facts) Strings() []string {
	out := make([]string, len(f))
	for i, a := range f {
		out[i] = a.String()
	}
	return out
}

var negOp = map[string]string{"==": "!=", "!=": "==", "<": ">=", ">=": "<", ">": "<=", "<=": ">"}
var flipOp = map[string]string{"==": "==", "!=": "!=", "<": ">", ">": "<", "<=": ">=", ">=": "<="}

// condAtoms decomposes a branch condition into atoms that hold when the
// condition evaluates to truth.
func condAtoms(v ssa.Value, truth bool, subst map[*ssa.Parameter]string, ifi *ssa.If, depth int) []Atom {
	if depth > 6 {
		return nil
	}
	switch x := v.(type) {
	case *ssa.UnOp:
		if x.Op == token.NOT {
			return condAtoms(x.X, !truth, subst, ifi, depth+1)
		}
	case *ssa.BinOp:
		op := x.Op.String()
		if _, ok := negOp[op]; ok {
			if !truth {
				op = negOp[op]
			}
			// validator(x) == nil: what the validator guarantees when it returns no error
			if (op == "==" || op == "!=") && depth < 3 {
				for _, pair := range [][2]ssa.Value{{x.X, x.Y}, {x.Y, x.X}} {
					cst, isNil := pair[1].(*ssa.Const)
					call, isCall := pair[0].(*ssa.Call)
					if ex, isEx := pair[0].(*ssa.Extract); isEx && isNil && cst.Value == nil && op == "==" && ex.Index == 1 {
						if pc, ok := ex.Tuple.(*ssa.Call); ok {
							if cc := pc.Call.StaticCallee(); cc != nil && validatedProducer(cc) {
								ns := map[*ssa.Parameter]string{}
								for i, p := range cc.Params {
									if i < len(pc.Call.Args) {
										ns[p] = exprDepth(pc.Call.Args[i], subst, 0)
									}
								}
								l, r := exprDepth(x.X, subst, 0), exprDepth(x.Y, subst, 0)
								at := []Atom{{L: l, Op: op, R: r, If: ifi}}
								valE := strings.TrimSuffix(exprDepth(ex, subst, 0), "#1") + "#0"
								return append(at, impliedProducerAtoms(cc, ns, valE, ifi, depth+1)...)
							}
						}
					}
					if isNil && cst.Value == nil && isCall && op == "==" {
						if cc := call.Call.StaticCallee(); cc != nil && errorValidator(cc) {
							ns := map[*ssa.Parameter]string{}
							for i, p := range cc.Params {
								if i < len(call.Call.Args) {
									ns[p] = exprDepth(call.Call.Args[i], subst, 0)
								}
							}
							l, r := exprDepth(x.X, subst, 0), exprDepth(x.Y, subst, 0)
							at := []Atom{{L: l, Op: op, R: r, If: ifi}}
							return append(at, impliedNilAtoms(cc, ns, ifi, depth+1)...)
						}
					}
				}
			}
			l, r := exprDepth(x.X, subst, 0), exprDepth(x.Y, subst, 0)
			// constants to the right
			if _, isC := x.X.(*ssa.Const); isC {
				if _, isC2 := x.Y.(*ssa.Const); !isC2 {
					l, r, op = r, l, flipOp[op]
				}
			}
			return []Atom{{L: l, Op: op, R: r, If: ifi}}
		}
		if op == "&&" || op == "&" {
			if truth && isBool(x.Type()) {
				return append(condAtoms(x.X, true, subst, ifi, depth+1), condAtoms(x.Y, true, subst, ifi, depth+1)...)
			}
		}
	case *ssa.Call:
		if cc := x.Call.StaticCallee(); cc != nil && len(cc.Blocks) > 1 && depth < 3 && isBool(x.Type()) && predicateLike(cc) {
			ns := map[*ssa.Parameter]string{}
			for i, p := range cc.Params {
				if i < len(x.Call.Args) {
					ns[p] = exprDepth(x.Call.Args[i], subst, 0)
				}
			}
			if at := impliedAtoms(cc, truth, ns, ifi, depth+1); len(at) > 0 {
				return at
			}
		}
		if cc := x.Call.StaticCallee(); cc != nil && len(cc.Blocks) == 1 {
			if _, ok := inlinePure(cc, x.Call.Args, subst, 0); ok {
				ret := cc.Blocks[0].Instrs[len(cc.Blocks[0].Instrs)-1].(*ssa.Return)
				ns := map[*ssa.Parameter]string{}
				for i, p := range cc.Params {
					if i < len(x.Call.Args) {
						ns[p] = exprDepth(x.Call.Args[i], subst, 0)
					}
				}
				return condAtoms(ret.Results[0], truth, ns, ifi, depth+1)
			}
		}
	case *ssa.Const:
		return nil
	case *ssa.Phi:
		// a boolean stored in a variable: `ok := a && b` is lowered to φ(false from the block where a failed, b
		// from the block reached when a held).  If the φ is true, the only non-false edge was taken: its value is
		// true and so is everything that dominates its source block.  Dually for `a || b` when the φ is false.
		if isBool(x.Type()) && subst == nil {
			want := "false"
			if !truth {
				want = "true"
			}
			live := -1
			for i, e := range x.Edges {
				if cst, ok := e.(*ssa.Const); ok && cst.Value != nil && cst.Value.String() == want {
					continue
				}
				if live >= 0 {
					live = -2
					break
				}
				live = i
			}
			if live >= 0 && live < len(x.Block().Preds) {
				at := []Atom{{L: exprDepth(v, subst, 0), Op: "==", R: map[bool]string{true: "true", false: "false"}[truth], If: ifi}}
				at = append(at, condAtoms(x.Edges[live], truth, subst, ifi, depth+1)...)
				pb := x.Block().Preds[live]
				for _, a := range factsAtBlockSubst(pb, nil, depth+1) {
					a.If = ifi
					at = append(at, a)
				}
				// the edge itself, when the predecessor branches on a condition
				if pi, ok := pb.Instrs[len(pb.Instrs)-1].(*ssa.If); ok && len(pb.Succs) == 2 && pb.Succs[0] != pb.Succs[1] {
					for si := 0; si < 2; si++ {
						if pb.Succs[si] == x.Block() {
							at = append(at, condAtoms(pi.Cond, si == 0, subst, ifi, depth+1)...)
						}
					}
				}
				return at
			}
		}
	}
	r := "true"
	if !truth {
		r = "false"
	}
	return []Atom{{L: exprDepth(v, subst, 0), Op: "==", R: r, If: ifi}}
}

func isBool(t types.Type) bool {
	b, ok := t.Underlying().(*types.Basic)
	return ok && b.Info()&types.IsBoolean != 0
}

// edgeDominates reports whether every path from entry to blk goes through the edge d->s
// where s = d.Succs[i]. We use the common sufficient criterion: s has d as its only
// predecessor and s dominates blk.
func edgeDominates(d *ssa.BasicBlock, i int, blk *ssa.BasicBlock) bool {
	s := d.Succs[i]
	if len(s.Preds) != 1 {
		return false
	}
	if d.Succs[0] == d.Succs[1] {
		return false
	}
	return s == blk || s.Dominates(blk)
}

// FactsAtBlock returns the atoms established by every branch that dominates blk.
func FactsAtBlock(blk *ssa.BasicBlock) Facts { return factsAtBlockSubst(blk, nil, 0) }

func factsAtBlockSubst(blk *ssa.BasicBlock, subst map[*ssa.Parameter]string, depth int) Facts {
	var out Facts
	for d := blk.Idom(); d != nil; d = d.Idom() {
		if len(d.Instrs) == 0 {
			continue
		}
		ifi, ok := d.Instrs[len(d.Instrs)-1].(*ssa.If)
		if !ok {
			continue
		}
		if edgeDominates(d, 0, blk) {
			out = append(out, condAtoms(ifi.Cond, true, subst, ifi, depth)...)
		} else if edgeDominates(d, 1, blk) {
			out = append(out, condAtoms(ifi.Cond, false, subst, ifi, depth)...)
		}
	}
	// invariants of the phis of blk and of the blocks dominating it (rotated loops: `for i := range n` tests
	// 0 < n before the loop and i+1 < n at its bottom, so no single branch dominating the body says i < n)
	if subst == nil && depth == 0 {
		for d := blk; d != nil; d = d.Idom() {
			for _, in := range d.Instrs {
				phi, ok := in.(*ssa.Phi)
				if !ok {
					break
				}
				out = append(out, phiInvariants(phi)...)
			}
		}
	}
	return out
}

// phiInvariants: comparison atoms that hold for a phi because, on every incoming edge, the branch taken into the
// phi's block states the same comparison about the incoming value (`0 < n` on the entry edge, `i+1 < n` on the
// back edge give `i < n`).  Only the condition of the predecessor's own branch is used, so the derivation does
// not depend on other facts.
func phiInvariants(phi *ssa.Phi) []Atom {
	if len(phi.Edges) < 2 {
		return nil
	}
	if bt, ok := phi.Type().Underlying().(*types.Basic); !ok || bt.Info()&types.IsInteger == 0 {
		return nil
	}
	mirror := map[string]string{"<": ">", ">": "<", "<=": ">=", ">=": "<=", "==": "==", "!=": "!="}
	var common map[string]Atom
	for i, e := range phi.Edges {
		pred := phi.Block().Preds[i]
		if len(pred.Instrs) == 0 {
			return nil
		}
		ifi, ok := pred.Instrs[len(pred.Instrs)-1].(*ssa.If)
		if !ok || len(pred.Succs) != 2 || pred.Succs[0] == pred.Succs[1] {
			return nil
		}
		ee := Expr(e)
		if k, isC := constInt(e); isC {
			ee = strconv.FormatInt(k, 10)
		}
		here := map[string]Atom{}
		for _, a := range condAtoms(ifi.Cond, pred.Succs[0] == phi.Block(), nil, ifi, 1) {
			switch {
			case a.L == ee:
				here[a.Op+" "+a.R] = Atom{L: Expr(phi), Op: a.Op, R: a.R}
			case a.R == ee && mirror[a.Op] != "":
				here[mirror[a.Op]+" "+a.L] = Atom{L: Expr(phi), Op: mirror[a.Op], R: a.L}
			}
		}
		if common == nil {
			common = here
		} else {
			for k := range common {
				if _, ok := here[k]; !ok {
					delete(common, k)
				}
			}
		}
		if len(common) == 0 {
			return nil
		}
	}
	var out []Atom
	for _, a := range common {
		// the bound must not itself depend on the phi
		if strings.Contains(a.R, Expr(phi)) {
			continue
		}
		out = append(out, a)
	}
	sort.Slice(out, func(i, j int) bool { return out[i].String() < out[j].String() })
	return out
}

// FactsAt returns the guard facts holding at instruction in.
func FactsAt(in ssa.Instruction) Facts { return FactsAtBlock(in.Block()) }

// Has reports whether an atom with exactly these components is present.
func (f Facts) Has(l, op, r string) bool {
	for _, a := range f {
		if a.L == l && a.Op == op && a.R == r {
			return true
		}
	}
	return false
}

// HasSuffix matches atoms whose left side ends with the given suffix (access paths
// differ by receiver name only).
func (f Facts) HasSuffix(lsuffix, op, r string) bool {
	for _, a := range f {
		if strings.HasSuffix(a.L, lsuffix) && a.Op == op && a.R == r {
			return true
		}
	}
	return false
}

// Find returns the atoms whose left side ends with suffix.
func (f Facts) Find(lsuffix string) Facts {
	var out Facts
	for _, a := range f {
		if strings.HasSuffix(a.L, lsuffix) {
			out = append(out, a)
		}
	}
	return out
}

// Range derives the integer interval of the access path ending in suffix from
// comparisons with integer constants. ne lists excluded values.
func (f Facts) Range(lsuffix string) (lo, hi int64, ne []int64) {
	lo, hi = math.MinInt64, math.MaxInt64
	for _, a := range f {
		if !strings.HasSuffix(a.L, lsuffix) {
			continue
		}
		c, err := strconv.ParseInt(a.R, 10, 64)
		if err != nil {
			continue
		}
		switch a.Op {
		case "==":
			if c > lo {
				lo = c
			}
			if c < hi {
				hi = c
			}
		case "!=":
			ne = append(ne, c)
		case "<":
			if c-1 < hi {
				hi = c - 1
			}
		case "<=":
			if c < hi {
				hi = c
			}
		case ">":
			if c+1 > lo {
				lo = c + 1
			}
		case ">=":
			if c > lo {
				lo = c
			}
		}
	}
	// tighten with exclusions at the borders
	changed := true
	for changed {
		changed = false
		for _, n := range ne {
			if n == lo && lo < hi {
				lo++
				changed = true
			}
			if n == hi && hi > lo {
				hi--
				changed = true
			}
		}
	}
	return
}

// ---------------------------------------------------------------------------------------
// Effects: who may write a field (directly or through callees).

type effects struct {
	direct map[*types.Var]map[*ssa.Function]bool
	trans  map[*types.Var]map[*ssa.Function]bool
}

func (p *Prog) buildDirectWrites() map[*types.Var]map[*ssa.Function]bool {
	d := map[*types.Var]map[*ssa.Function]bool{}
	for fn := range p.AllFuncs {
		if !p.InModule(fn) {
			continue
		}
		Instrs(fn, func(in ssa.Instruction) {
			st, ok := in.(*ssa.Store)
			if !ok {
				return
			}
			if fv := FieldVar(st.Addr); fv != nil {
				if d[fv] == nil {
					d[fv] = map[*ssa.Function]bool{}
				}
				d[fv][fn] = true
			}
		})
	}
	return d
}

var effCache = map[*Prog]*effects{}

// FuncsMayWrite returns every function that may (transitively, over the VTA call
// graph) store to the given struct field.
func (p *Prog) FuncsMayWrite(fv *types.Var) map[*ssa.Function]bool {
	e := effCache[p]
	if e == nil {
		e = &effects{direct: p.buildDirectWrites(), trans: map[*types.Var]map[*ssa.Function]bool{}}
		effCache[p] = e
	}
	if t, ok := e.trans[fv]; ok {
		return t
	}
	cg := p.CallGraph()
	res := map[*ssa.Function]bool{}
	var work []*ssa.Function
	for fn := range e.direct[fv] {
		res[fn] = true
		work = append(work, fn)
	}
	for len(work) > 0 {
		fn := work[len(work)-1]
		work = work[:len(work)-1]
		n := cg.Nodes[fn]
		if n == nil {
			continue
		}
		for _, in := range n.In {
			if !p.EdgeOK(in) {
				continue
			}
			c := in.Caller.Func
			if !res[c] {
				res[c] = true
				work = append(work, c)
			}
		}
		// a closure's effects are attributed to its parent when it is created there
		if par := fn.Parent(); par != nil && !res[par] {
			res[par] = true
			work = append(work, par)
		}
	}
	e.trans[fv] = res
	return res
}

// Callees returns the possible callees of a call instruction (VTA).
func (p *Prog) Callees(ci ssa.CallInstruction) []*ssa.Function {
	if sc := ci.Common().StaticCallee(); sc != nil {
		return []*ssa.Function{sc}
	}
	n := p.CallGraph().Nodes[ci.Parent()]
	if n == nil {
		return nil
	}
	var out []*ssa.Function
	for _, e := range n.Out {
		if e.Site == ci {
			out = append(out, e.Callee.Func)
		}
	}
	return out
}

// InstrMayWrite reports whether the instruction may write the field.
func (p *Prog) InstrMayWrite(in ssa.Instruction, fv *types.Var) bool {
	switch x := in.(type) {
	case *ssa.Store:
		return FieldVar(x.Addr) == fv
	case ssa.CallInstruction:
		mw := p.FuncsMayWrite(fv)
		for _, c := range p.Callees(x) {
			if mw[c] {
				return true
			}
		}
	}
	return false
}

// WriterBetween returns an instruction that may write fv on some path from the
// branch `from` (taken towards the target) to the target instruction, or nil.
func (p *Prog) WriterBetween(from *ssa.If, target ssa.Instruction, fv *types.Var) ssa.Instruction {
	tb := target.Block()
	// blocks that can reach tb (backwards)
	back := map[*ssa.BasicBlock]bool{}
	var bw func(b *ssa.BasicBlock)
	bw = func(b *ssa.BasicBlock) {
		if back[b] {
			return
		}
		back[b] = true
		if b == from.Block() {
			return
		}
		for _, pr := range b.Preds {
			bw(pr)
		}
	}
	for _, pr := range tb.Preds {
		bw(pr)
	}
	// forward from the guard's successors
	fwd := map[*ssa.BasicBlock]bool{}
	var fw func(b *ssa.BasicBlock)
	fw = func(b *ssa.BasicBlock) {
		if fwd[b] || b == from.Block() {
			return
		}
		fwd[b] = true
		for _, s := range LiveSuccs(b) {
			fw(s)
		}
	}
	for _, s := range from.Block().Succs {
		if s == tb || s.Dominates(tb) || back[s] {
			fw(s)
		}
	}
	for b := range fwd {
		if !back[b] {
			continue
		}
		if b == from.Block() {
			continue
		}
		for _, in := range b.Instrs {
			if p.InstrMayWrite(in, fv) {
				return in
			}
		}
	}
	if !(fwd[tb] && back[tb]) { // not in a cycle: only the prefix of the target block counts
		for _, in := range tb.Instrs {
			if in == target {
				break
			}
			if p.InstrMayWrite(in, fv) {
				return in
			}
		}
	}
	return nil
}

// Reachable returns all functions reachable from roots over the VTA call graph.
func (p *Prog) Reachable(roots ...*ssa.Function) map[*ssa.Function]bool {
	cg := p.CallGraph()
	seen := map[*ssa.Function]bool{}
	var work []*callgraph.Node
	push := func(fn *ssa.Function) {
		if fn == nil || seen[fn] {
			return
		}
		seen[fn] = true
		if n := cg.Nodes[fn]; n != nil {
			work = append(work, n)
		}
		for _, a := range fn.AnonFuncs {
			_ = a
		}
	}
	for _, r := range roots {
		push(r)
	}
	for len(work) > 0 {
		n := work[len(work)-1]
		work = work[:len(work)-1]
		for _, e := range n.Out {
			if p.EdgeOK(e) {
				push(e.Callee.Func)
			}
		}
		// closures created in the function are considered reachable (they may be
		// invoked through values VTA resolves anyway; this keeps deferred/literal funcs in)
		for _, a := range n.Func.AnonFuncs {
			push(a)
		}
	}
	return seen
}

// CondAtoms exposes the decomposition of a branch condition.
func CondAtoms(v ssa.Value, truth bool) []Atom { return condAtoms(v, truth, nil, nil, 0) }

// WhyWrites returns a call chain from fn to a function storing the field (debugging aid).
func (p *Prog) WhyWrites(fn *ssa.Function, pkgRel, typ, field string) []string {
	direct := map[*ssa.Function]bool{}
	for _, fs := range p.StoresToField(pkgRel, typ, field) {
		direct[fs.Fn] = true
	}
	cg := p.CallGraph()
	prev := map[*ssa.Function]*ssa.Function{fn: nil}
	queue := []*ssa.Function{fn}
	for len(queue) > 0 {
		f := queue[0]
		queue = queue[1:]
		if direct[f] {
			var out []string
			for x := f; x != nil; x = prev[x] {
				out = append([]string{x.String()}, out...)
			}
			return out
		}
		n := cg.Nodes[f]
		if n == nil {
			continue
		}
		for _, e := range n.Out {
			if !p.EdgeOK(e) {
				continue
			}
			if _, ok := prev[e.Callee.Func]; !ok {
				prev[e.Callee.Func] = f
				queue = append(queue, e.Callee.Func)
			}
		}
	}
	return []string{"no chain"}
}

// EdgeOK filters call-graph edges used for effect propagation: interface invokes made
// from code outside the module (io.Copy -> Writer.Write, fmt -> Stringer, sort.Interface)
// are not followed; VTA resolves them to every module type that ever flows into such an
// interface anywhere in the program, which makes every library call "reach" the whole
// engine. Calls of function values (closures handed to sync.Once.Do, sort.Slice, ...)
// and every edge whose caller is module code are kept. This is a stated assumption:
// module types passed to library code behind io.Reader/io.Writer/fmt.Stringer/error do
// not write the transaction or WAF fields tracked by the rules.
func (p *Prog) EdgeOK(e *callgraph.Edge) bool {
	if p.InModule(e.Caller.Func) {
		// a call site in a block that is dead under this build configuration's constants does not count
		if e.Site != nil && e.Site.Block() != nil {
			if !p.liveBlocks(e.Caller.Func)[e.Site.Block()] {
				return false
			}
		}
		return true
	}
	if e.Site == nil {
		return true
	}
	return !e.Site.Common().IsInvoke()
}

func (p *Prog) liveBlocks(fn *ssa.Function) map[*ssa.BasicBlock]bool {
	if p.live == nil {
		p.live = map[*ssa.Function]map[*ssa.BasicBlock]bool{}
	}
	if m, ok := p.live[fn]; ok {
		return m
	}
	m := LiveBlocks(fn)
	p.live[fn] = m
	return m
}

// predicateLike: a module function without writes whose calls are interface predicates or pure helpers.
func predicateLike(fn *ssa.Function) bool {
	if fn.Pkg == nil || !(fn.Pkg.Pkg.Path() == ModPath || strings.HasPrefix(fn.Pkg.Pkg.Path(), ModPath+"/")) {
		return false
	}
	if fn.Signature.Results().Len() != 1 {
		return false
	}
	ok := true
	n := 0
	for _, b := range fn.Blocks {
		if NaturalLoop(b) != nil {
			return false // loops: no useful path summary
		}
	}
	Instrs(fn, func(in ssa.Instruction) {
		n++
		switch x := in.(type) {
		case *ssa.Store, *ssa.MapUpdate, *ssa.Go, *ssa.Defer, *ssa.Send, *ssa.Panic:
			ok = false
		case *ssa.Call:
			if b, isB := x.Call.Value.(*ssa.Builtin); isB {
				if b.Name() != "len" && b.Name() != "cap" {
					ok = false
				}
			}
		}
	})
	return ok && n < 60
}

// impliedAtoms: the atoms that hold on every path of the boolean function fn that returns `truth`.
func impliedAtoms(fn *ssa.Function, truth bool, subst map[*ssa.Parameter]string, ifi *ssa.If, depth int) []Atom {
	var sets [][]Atom
	add := func(at []Atom) { sets = append(sets, at) }
	want := "true"
	if !truth {
		want = "false"
	}
	var fromValue func(v ssa.Value, blk *ssa.BasicBlock)
	fromValue = func(v ssa.Value, blk *ssa.BasicBlock) {
		switch x := v.(type) {
		case *ssa.Const:
			if Expr(x) == want {
				add(factsAtBlockSubst(blk, subst, depth))
			}
		case *ssa.Phi:
			for i, e := range x.Edges {
				pred := x.Block().Preds[i]
				if cst, isC := e.(*ssa.Const); isC {
					if Expr(cst) == want {
						add(append(edgeAtoms(pred, x.Block(), subst, depth), factsAtBlockSubst(pred, subst, depth)...))
					}
					continue
				}
				at := condAtoms(e, truth, subst, nil, depth)
				at = append(at, edgeAtoms(pred, x.Block(), subst, depth)...)
				at = append(at, factsAtBlockSubst(pred, subst, depth)...)
				add(at)
			}
		default:
			at := condAtoms(v, truth, subst, nil, depth)
			add(append(at, factsAtBlockSubst(blk, subst, depth)...))
		}
	}
	Instrs(fn, func(in ssa.Instruction) {
		if r, ok := in.(*ssa.Return); ok && len(r.Results) == 1 {
			fromValue(r.Results[0], r.Block())
		}
	})
	if len(sets) == 0 {
		return nil
	}
	// intersection by rendered atom
	count := map[string]int{}
	first := map[string]Atom{}
	for _, s := range sets {
		seen := map[string]bool{}
		for _, a := range s {
			k := a.String()
			if !seen[k] {
				seen[k] = true
				count[k]++
				if _, ok := first[k]; !ok {
					first[k] = a
				}
			}
		}
	}
	var out []Atom
	for k, n := range count {
		if n == len(sets) {
			a := first[k]
			a.If = ifi
			out = append(out, a)
		}
	}
	sort.Slice(out, func(i, j int) bool { return out[i].String() < out[j].String() })
	return out
}

// edgeAtoms: the condition under which control goes from pred to succ.
func edgeAtoms(pred, succ *ssa.BasicBlock, subst map[*ssa.Parameter]string, depth int) []Atom {
	if len(pred.Instrs) == 0 {
		return nil
	}
	ifi, ok := pred.Instrs[len(pred.Instrs)-1].(*ssa.If)
	if !ok || len(pred.Succs) != 2 || pred.Succs[0] == pred.Succs[1] {
		return nil
	}
	return condAtoms(ifi.Cond, pred.Succs[0] == succ, subst, nil, depth)
}

// ImpliedByCall exposes the path summary of a boolean predicate call: atoms that hold whenever it returns truth.
func ImpliedByCall(call *ssa.Call, truth bool) []Atom {
	cc := call.Call.StaticCallee()
	if cc == nil || !predicateLike(cc) {
		return nil
	}
	ns := map[*ssa.Parameter]string{}
	for i, p := range cc.Params {
		if i < len(call.Call.Args) {
			ns[p] = Expr(call.Call.Args[i])
		}
	}
	if len(cc.Blocks) == 1 {
		if r, ok := cc.Blocks[0].Instrs[len(cc.Blocks[0].Instrs)-1].(*ssa.Return); ok && len(r.Results) == 1 {
			return condAtoms(r.Results[0], truth, ns, nil, 1)
		}
		return nil
	}
	return impliedAtoms(cc, truth, ns, nil, 1)
}

// DominatingConds returns the branch conditions (SSA values) whose outcome is fixed on every path to blk,
// with the truth value they have there.
func DominatingConds(blk *ssa.BasicBlock) map[ssa.Value]bool {
	out := map[ssa.Value]bool{}
	for d := blk.Idom(); d != nil; d = d.Idom() {
		ifi, ok := d.Instrs[len(d.Instrs)-1].(*ssa.If)
		if !ok {
			continue
		}
		for i := 0; i < 2; i++ {
			if edgeDominates(d, i, blk) {
				out[ifi.Cond] = i == 0
			}
		}
	}
	return out
}

// errorValidator: a small loop-free module function with a single result of type error and no effect other than
// building its error value.
func errorValidator(fn *ssa.Function) bool {
	if fn == nil || len(fn.Blocks) == 0 || fn.Pkg == nil || !strings.HasPrefix(fn.Pkg.Pkg.Path(), ModPath) {
		return false
	}
	if fn.Signature.Results().Len() != 1 || fn.Signature.Results().At(0).Type().String() != "error" {
		return false
	}
	return effectFreeNoLoops(fn)
}

// validatedProducer: a loop-free, effect-free module function returning (T, error): when its error is nil the
// value it returns satisfies whatever dominated that return (parseByte: Atoi succeeded and validateByte passed).
func validatedProducer(fn *ssa.Function) bool {
	if fn == nil || len(fn.Blocks) == 0 || fn.Pkg == nil || !strings.HasPrefix(fn.Pkg.Pkg.Path(), ModPath) {
		return false
	}
	if fn.Signature.Results().Len() != 2 || fn.Signature.Results().At(1).Type().String() != "error" {
		return false
	}
	return effectFreeNoLoops(fn)
}

func effectFreeNoLoops(fn *ssa.Function) bool {
	for _, b := range fn.Blocks {
		if NaturalLoop(b) != nil {
			return false
		}
	}
	ok, n := true, 0
	Instrs(fn, func(in ssa.Instruction) {
		n++
		switch x := in.(type) {
		case *ssa.MapUpdate, *ssa.Go, *ssa.Defer, *ssa.Send, *ssa.Panic:
			ok = false
		case *ssa.Store:
			// packaging of variadic arguments into a local array is not an effect
			base := x.Addr
			for d := 0; d < 4; d++ {
				if ia, isIA := base.(*ssa.IndexAddr); isIA {
					base = ia.X
					continue
				}
				break
			}
			if _, isA := base.(*ssa.Alloc); !isA {
				ok = false
			}
		}
	})
	return ok && n < 60
}

// impliedNilAtoms: the atoms that hold on every path of fn that returns a nil error.
func impliedNilAtoms(fn *ssa.Function, subst map[*ssa.Parameter]string, ifi *ssa.If, depth int) []Atom {
	var sets [][]Atom
	Instrs(fn, func(in ssa.Instruction) {
		r, ok := in.(*ssa.Return)
		if !ok || len(r.Results) != 1 {
			return
		}
		switch x := r.Results[0].(type) {
		case *ssa.Const:
			if x.Value == nil {
				sets = append(sets, factsAtBlockSubst(r.Block(), subst, depth))
			}
		case *ssa.Phi:
			for i, e := range x.Edges {
				if cst, isC := e.(*ssa.Const); isC && cst.Value == nil {
					pred := x.Block().Preds[i]
					sets = append(sets, append(edgeAtoms(pred, x.Block(), subst, depth), factsAtBlockSubst(pred, subst, depth)...))
				} else if !isC {
					sets = append(sets, nil) // unknown value: may be nil with no guarantee
				}
			}
		default:
			// an error built on the spot is non-nil; anything else may be nil with nothing known about the path
			nonNil := false
			if call, isCall := x.(*ssa.Call); isCall {
				if sc := call.Call.StaticCallee(); sc != nil && sc.Pkg != nil {
					n := sc.Pkg.Pkg.Path() + "." + sc.Name()
					nonNil = n == "fmt.Errorf" || n == "errors.New"
				}
			}
			if _, isMI := x.(*ssa.MakeInterface); isMI {
				nonNil = true
			}
			if !nonNil {
				sets = append(sets, nil)
			}
		}
	})
	if len(sets) == 0 {
		return nil
	}
	count := map[string]int{}
	first := map[string]Atom{}
	for _, st := range sets {
		seen := map[string]bool{}
		for _, a := range st {
			k := a.String()
			if !seen[k] {
				seen[k] = true
				count[k]++
				if _, ok := first[k]; !ok {
					first[k] = a
				}
			}
		}
	}
	var out []Atom
	for k, n := range count {
		if n == len(sets) {
			a := first[k]
			a.If = ifi
			out = append(out, a)
		}
	}
	sort.Slice(out, func(i, j int) bool { return out[i].String() < out[j].String() })
	return out
}

// impliedProducerAtoms: the atoms about the first result of fn (rendered valE at the call site) that hold on
// every return of fn with a constant nil error.
func impliedProducerAtoms(fn *ssa.Function, subst map[*ssa.Parameter]string, valE string, ifi *ssa.If, depth int) []Atom {
	var sets [][]Atom
	unknown := false
	Instrs(fn, func(in ssa.Instruction) {
		r, ok := in.(*ssa.Return)
		if !ok || len(r.Results) != 2 {
			return
		}
		cst, isC := r.Results[1].(*ssa.Const)
		if isC && cst.Value == nil {
			inner := exprDepth(r.Results[0], subst, 0)
			var st []Atom
			for _, a := range factsAtBlockSubst(r.Block(), subst, depth) {
				switch {
				case a.L == inner:
					a.L = valE
					st = append(st, a)
				case a.R == inner:
					a.R = valE
					st = append(st, a)
				}
			}
			sets = append(sets, st)
			return
		}
		if !isC {
			// a computed error: non-nil when built on the spot, otherwise nothing is known
			nonNil := false
			if call, isCall := r.Results[1].(*ssa.Call); isCall {
				if sc := call.Call.StaticCallee(); sc != nil && sc.Pkg != nil {
					n := sc.Pkg.Pkg.Path() + "." + sc.Name()
					nonNil = n == "fmt.Errorf" || n == "errors.New"
				}
			}
			if _, isMI := r.Results[1].(*ssa.MakeInterface); isMI {
				nonNil = true
			}
			// returning the error of a failed callee (err != nil on this path)
			for _, a := range factsAtBlockSubst(r.Block(), subst, depth) {
				if a.L == exprDepth(r.Results[1], subst, 0) && a.Op == "!=" && a.R == "nil" {
					nonNil = true
				}
			}
			if !nonNil {
				unknown = true
			}
		}
	})
	if unknown || len(sets) == 0 {
		return nil
	}
	count := map[string]int{}
	first := map[string]Atom{}
	for _, st := range sets {
		seen := map[string]bool{}
		for _, a := range st {
			k := a.String()
			if !seen[k] {
				seen[k] = true
				count[k]++
				if _, ok := first[k]; !ok {
					first[k] = a
				}
			}
		}
	}
	var out []Atom
	for k, n := range count {
		if n == len(sets) {
			a := first[k]
			a.If = ifi
			out = append(out, a)
		}
	}
	sort.Slice(out, func(i, j int) bool { return out[i].String() < out[j].String() })
	return out
}
