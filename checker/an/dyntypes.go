package an

import (
	"go/types"
	"sort"
	"strings"

	"golang.org/x/tools/go/ssa"
)

// Implementers returns the module types (T or *T) whose method set satisfies iface.
func (p *Prog) Implementers(iface *types.Interface) []types.Type {
	var out []types.Type
	for _, pk := range p.Pkgs {
		sc := pk.Types.Scope()
		for _, n := range sc.Names() {
			tn, ok := sc.Lookup(n).(*types.TypeName)
			if !ok || tn.IsAlias() {
				continue
			}
			t := tn.Type()
			if _, isI := t.Underlying().(*types.Interface); isI {
				continue
			}
			made := p.madeInterfaceTypes()
			pt := types.NewPointer(t)
			if types.Implements(t, iface) && made[t.String()] {
				out = append(out, t)
			}
			if types.Implements(pt, iface) && made[pt.String()] {
				out = append(out, pt)
			}
		}
	}
	return out
}

// DynTypes computes the set of possible dynamic types of the interface value v.
// ok=false means the provenance could not be established.
func (p *Prog) DynTypes(v ssa.Value) (ts []types.Type, ok bool) {
	set := map[string]types.Type{}
	okAll := p.dyn(v, 0, set, map[ssa.Value]bool{})
	var keys []string
	for k := range set {
		keys = append(keys, k)
	}
	sort.Strings(keys)
	for _, k := range keys {
		ts = append(ts, set[k])
	}
	return ts, okAll
}

func (p *Prog) dyn(v ssa.Value, depth int, set map[string]types.Type, seen map[ssa.Value]bool) bool {
	if depth > 8 {
		return false
	}
	if seen[v] {
		return true
	}
	seen[v] = true
	add := func(t types.Type) { set[t.String()] = t }
	switch x := v.(type) {
	case *ssa.MakeInterface:
		add(x.X.Type())
		return true
	case *ssa.Const:
		return true // nil
	case *ssa.Phi:
		ok := true
		for _, e := range x.Edges {
			if !p.dyn(e, depth+1, set, seen) {
				ok = false
			}
		}
		return ok
	case *ssa.ChangeInterface:
		return p.dyn(x.X, depth+1, set, seen)
	case *ssa.TypeAssert:
		if _, isI := x.AssertedType.Underlying().(*types.Interface); isI {
			return p.dyn(x.X, depth+1, set, seen)
		}
		add(x.AssertedType)
		return true
	case *ssa.Extract:
		if call, ok := x.Tuple.(*ssa.Call); ok {
			return p.dynCall(call, x.Index, depth, set, seen)
		}
		if ta, ok := x.Tuple.(*ssa.TypeAssert); ok && x.Index == 0 {
			return p.dyn(ta, depth+1, set, seen)
		}
		return false
	case *ssa.Call:
		return p.dynCall(x, 0, depth, set, seen)
	case *ssa.Parameter:
		// parameter of a closure handed to (*sync.Map).Range on a package-level map: the stored values
		if fn := x.Parent(); fn != nil && fn.Parent() != nil && isAny(x.Type()) {
			ok, done := p.dynRangeParam(x, depth, set, seen)
			if done {
				return ok
			}
		}
		return p.dynIface(x.Type(), set)
	case *ssa.UnOp:
		// load of a slice/array element or field of interface type: all module implementers
		return p.dynIface(x.Type(), set)
	case *ssa.Lookup, *ssa.Index, *ssa.Field:
		return p.dynIface(v.Type(), set)
	}
	return false
}

func (p *Prog) dynIface(t types.Type, set map[string]types.Type) bool {
	it, ok := t.Underlying().(*types.Interface)
	if !ok || it.NumMethods() == 0 {
		return false // `any` carries no information
	}
	impl := p.Implementers(it)
	if len(impl) == 0 {
		return false
	}
	for _, t := range impl {
		set[t.String()] = t
	}
	return true
}

func (p *Prog) dynReturns(fn *ssa.Function, idx int, depth int, set map[string]types.Type, seen map[ssa.Value]bool) bool {
	if fn == nil || len(fn.Blocks) == 0 {
		return false
	}
	ok := true
	n := 0
	Instrs(fn, func(in ssa.Instruction) {
		if r, isR := in.(*ssa.Return); isR && idx < len(r.Results) {
			n++
			if !p.dyn(r.Results[idx], depth+1, set, seen) {
				ok = false
			}
		}
	})
	return ok && n > 0
}

func (p *Prog) dynCall(call *ssa.Call, idx int, depth int, set map[string]types.Type, seen map[ssa.Value]bool) bool {
	cc := &call.Call
	// memoised values: a call that receives a closure `func() (any, error)` and returns (any, error)
	// yields what the closure returns (the cache-key discipline is C13's obligation).
	for _, a := range cc.Args {
		if f := anonFunc(a); f != nil {
			if f.Signature.Results().Len() == 2 && idx == 0 && isAny(f.Signature.Results().At(0).Type()) {
				return p.dynReturns(f, 0, depth, set, seen)
			}
		}
	}
	if (cc.IsInvoke() && cc.Method.Name() == "Get" || !cc.IsInvoke() && cc.StaticCallee() != nil && cc.StaticCallee().Name() == "Get") &&
		strings.HasSuffix(Expr(firstArg(cc)), "Pool") {
		return p.dynPool(cc, depth, set, seen)
	}
	if cc.IsInvoke() {
		it, ok := cc.Value.Type().Underlying().(*types.Interface)
		if !ok {
			return false
		}
		impl := p.Implementers(it)
		if len(impl) == 0 {
			return false
		}
		okAll := true
		for _, t := range impl {
			ms := p.SSA.MethodSets.MethodSet(t)
			sel := ms.Lookup(cc.Method.Pkg(), cc.Method.Name())
			if sel == nil {
				okAll = false
				continue
			}
			if !p.dynReturns(p.SSA.MethodValue(sel), idx, depth+1, set, seen) {
				okAll = false
			}
		}
		return okAll
	}
	sc := cc.StaticCallee()
	if sc == nil {
		return false
	}
	// sync.Pool.Get through the module's pool wrapper: dynamic types of the New closure
	if sc.Name() == "Get" && strings.HasSuffix(Expr(firstArg(cc)), "Pool") {
		return p.dynPool(cc, depth, set, seen)
	}
	if sc.Name() == "Load" && sc.Signature.Recv() != nil && strings.HasSuffix(sc.Signature.Recv().Type().String(), "sync.Map") {
		return p.dynSyncMap(firstArg(cc), depth, set, seen)
	}
	if p.InModule(sc) {
		return p.dynReturns(sc, idx, depth+1, set, seen)
	}
	return false
}

func firstArg(cc *ssa.CallCommon) ssa.Value {
	if cc.IsInvoke() {
		return cc.Value
	}
	if len(cc.Args) > 0 {
		return cc.Args[0]
	}
	return nil
}

func isAny(t types.Type) bool {
	it, ok := t.Underlying().(*types.Interface)
	return ok && it.NumMethods() == 0
}

// dynPool: values obtained from a pool field are what the closure handed to its constructor returns.
func (p *Prog) dynPool(cc *ssa.CallCommon, depth int, set map[string]types.Type, seen map[ssa.Value]bool) bool {
	recv := firstArg(cc)
	// recv is a load of a struct field holding the pool
	var fv *types.Var
	if u, ok := recv.(*ssa.UnOp); ok {
		fv = FieldVar(u.X)
	} else {
		fv = FieldVar(recv)
	}
	if fv == nil {
		return false
	}
	found, okAll := false, true
	for _, fn := range p.ModFuncs {
		Instrs(fn, func(in ssa.Instruction) {
			st, ok := in.(*ssa.Store)
			if !ok || FieldVar(st.Addr) != fv {
				return
			}
			// value: NewPool(closure)
			call, ok := st.Val.(*ssa.Call)
			if !ok {
				okAll = false
				return
			}
			for _, a := range call.Call.Args {
				if f := anonFunc(a); f != nil {
					found = true
					if !p.dynReturns(f, 0, depth+1, set, seen) {
						okAll = false
					}
				}
			}
		})
	}
	return found && okAll
}

// dynSyncMap: values loaded from a package-level sync.Map are the values stored into it anywhere in the module.
func (p *Prog) dynSyncMap(m ssa.Value, depth int, set map[string]types.Type, seen map[ssa.Value]bool) bool {
	g, ok := m.(*ssa.Global)
	if !ok {
		return false
	}
	found, okAll := false, true
	for _, fn := range p.ModFuncs {
		Instrs(fn, func(in ssa.Instruction) {
			cc := CallOf(in)
			if cc == nil || cc.IsInvoke() || cc.StaticCallee() == nil || len(cc.Args) < 3 {
				return
			}
			n := cc.StaticCallee().Name()
			if (n != "Store" && n != "LoadOrStore" && n != "Swap") || cc.Args[0] != ssa.Value(g) {
				return
			}
			found = true
			if !p.dyn(cc.Args[2], depth+1, set, seen) {
				okAll = false
			}
		})
	}
	return found && okAll
}

// madeInterfaceTypes: every concrete type that is converted to an interface somewhere in the module.
func (p *Prog) madeInterfaceTypes() map[string]bool {
	if p.made != nil {
		return p.made
	}
	p.made = map[string]bool{}
	for _, fn := range p.ModFuncs {
		Instrs(fn, func(in ssa.Instruction) {
			if mi, ok := in.(*ssa.MakeInterface); ok {
				p.made[mi.X.Type().String()] = true
			}
		})
	}
	return p.made
}

// dynRangeParam: prm is the value parameter of a closure passed to sync.Map.Range(g).
func (p *Prog) dynRangeParam(prm *ssa.Parameter, depth int, set map[string]types.Type, seen map[ssa.Value]bool) (ok bool, done bool) {
	closure := prm.Parent()
	parent := closure.Parent()
	Instrs(parent, func(in ssa.Instruction) {
		cc := CallOf(in)
		if cc == nil || cc.StaticCallee() == nil || cc.StaticCallee().Name() != "Range" || len(cc.Args) < 2 {
			return
		}
		mc, isMC := cc.Args[1].(*ssa.MakeClosure)
		if !isMC || mc.Fn != ssa.Value(closure) {
			return
		}
		if len(closure.Params) == 2 && closure.Params[1] == prm {
			done = true
			ok = p.dynSyncMap(cc.Args[0], depth, set, seen)
		}
	})
	return
}

// anonFunc returns the function literal denoted by v (with or without captured variables).
func anonFunc(v ssa.Value) *ssa.Function {
	switch x := v.(type) {
	case *ssa.MakeClosure:
		f, _ := x.Fn.(*ssa.Function)
		return f
	case *ssa.Function:
		if x.Parent() != nil {
			return x
		}
	}
	return nil
}
