package an

import (
	"golang.org/x/tools/go/ssa"
)

// lockOps lists acquire/release calls on the lock denoted by lockExpr inside fn.
type lockOp struct {
	in        ssa.Instruction
	exclusive bool
	acquire   bool
	deferred  bool
}

func lockOps(fn *ssa.Function, lockExpr string) []lockOp {
	var out []lockOp
	Instrs(fn, func(in ssa.Instruction) {
		cc := CallOf(in)
		if cc == nil || cc.IsInvoke() || cc.StaticCallee() == nil || len(cc.Args) == 0 {
			return
		}
		sc := cc.StaticCallee()
		if sc.Pkg == nil || sc.Pkg.Pkg.Path() != "sync" {
			return
		}
		if Expr(cc.Args[0]) != lockExpr {
			return
		}
		_, isDefer := in.(*ssa.Defer)
		switch sc.Name() {
		case "Lock":
			out = append(out, lockOp{in, true, true, isDefer})
		case "RLock":
			out = append(out, lockOp{in, false, true, isDefer})
		case "Unlock":
			out = append(out, lockOp{in, true, false, isDefer})
		case "RUnlock":
			out = append(out, lockOp{in, false, false, isDefer})
		}
	})
	return out
}

// LockState reports how the lock denoted by lockExpr is held at instruction t inside its
// function: "exclusive", "shared" or "none". A lock counts as held when an acquire call
// dominates t and no (non-deferred) release can run between that acquire and t.
func LockState(t ssa.Instruction, lockExpr string) string {
	fn := t.Parent()
	ops := lockOps(fn, lockExpr)
	best := "none"
	for _, a := range ops {
		if !a.acquire || a.deferred {
			continue
		}
		dom := false
		if a.in.Block() == t.Block() {
			for _, x := range t.Block().Instrs {
				if x == a.in {
					dom = true
					break
				}
				if x == t {
					break
				}
			}
		} else {
			dom = a.in.Block().Dominates(t.Block())
		}
		if !dom {
			continue
		}
		released := false
		for _, r := range ops {
			if r.acquire || r.deferred {
				continue
			}
			// r reachable from a, and t reachable from r without re-acquiring
			p1 := FindPath(PathQuery{Fn: fn, After: a.in, Target: func(x ssa.Instruction) bool { return x == r.in }, Stop: func(x ssa.Instruction) bool { return x == t }})
			if p1 == nil {
				continue
			}
			p2 := FindPath(PathQuery{Fn: fn, After: r.in, Target: func(x ssa.Instruction) bool { return x == t }, Stop: func(x ssa.Instruction) bool {
				for _, o := range ops {
					if o.acquire && !o.deferred && o.in == x && o.exclusive == a.exclusive {
						return true
					}
				}
				return false
			}})
			if p2 != nil {
				released = true
			}
		}
		if released {
			continue
		}
		if a.exclusive {
			return "exclusive"
		}
		best = "shared"
	}
	return best
}

// SameCriticalSection: is there no release of the lock on any path from instruction a to instruction b?
func SameCriticalSection(a, b ssa.Instruction, lockExpr string) bool {
	fn := a.Parent()
	for _, r := range lockOps(fn, lockExpr) {
		if r.acquire || r.deferred {
			continue
		}
		p1 := FindPath(PathQuery{Fn: fn, After: a, Target: func(x ssa.Instruction) bool { return x == r.in }, Stop: func(x ssa.Instruction) bool { return x == b }})
		if p1 == nil {
			continue
		}
		p2 := FindPath(PathQuery{Fn: fn, After: r.in, Target: func(x ssa.Instruction) bool { return x == b }})
		if p2 != nil {
			return false
		}
	}
	return true
}
