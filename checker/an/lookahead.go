package an

import (
	"fmt"
	"go/constant"
	"go/token"
	"go/types"
	"math"
	"strconv"
	"strings"

	"golang.org/x/tools/go/ssa"
)

// IndexOb is one look-ahead / fixed-position read found by the A9 scan.
type IndexOb struct {
	Instr ssa.Instruction
	Shape string // "const", "var+c", "len-c", "slice-lo:*", "slice-hi:*", "param-pre"
	Desc  string // rendered access, e.g. data[(i + 1)]
	Ok    bool
	Why   string
	Facts Facts
}

// LookaheadAccesses scans fn for index/slice *reads* of the claimed shapes
// (x[c], x[v+c], x[len(x)-c], x[v+c:], x[:len(x)-c]) and decides each from the
// dominating guard facts, library invariants and one level of call-site context.
// Other index shapes, and stores into output buffers, are not returned (out of scope).
func (p *Prog) LookaheadAccesses(fn *ssa.Function) []IndexOb {
	var out []IndexOb
	lc := &laCtx{p: p, fn: fn}
	Instrs(fn, func(in ssa.Instruction) {
		switch x := in.(type) {
		case *ssa.IndexAddr:
			if onlyStoredTo(x) && staticLen(x.X) < 0 {
				return // writes into growing output buffers are out of scope; fixed-size arrays are not
			}
			if ob, ok := lc.indexOb(in, x.X, x.Index); ok {
				out = append(out, ob)
			}
		case *ssa.Index:
			if ob, ok := lc.indexOb(in, x.X, x.Index); ok {
				out = append(out, ob)
			}
		case *ssa.Lookup:
			if _, isMap := x.X.Type().Underlying().(*types.Map); isMap {
				return
			}
			if ob, ok := lc.indexOb(in, x.X, x.Index); ok {
				out = append(out, ob)
			}
		case *ssa.Slice:
			if x.Low != nil {
				if ob, ok := lc.sliceBoundOb(in, x.X, x.Low, "slice-lo"); ok {
					out = append(out, ob)
				}
			}
			if x.High != nil {
				if ob, ok := lc.sliceBoundOb(in, x.X, x.High, "slice-hi"); ok {
					out = append(out, ob)
				}
			}
			// x[c : len(x)-d] also needs c <= len(x)-d
			if x.Low != nil && x.High != nil {
				if cLo, isC := constInt(x.Low); isC && cLo >= 1 {
					if shape, _, d, ok := classify(x.X, x.High); ok && shape == "len-c" {
						ob := IndexOb{Instr: in, Shape: "slice-lo<=hi", Desc: Expr(x.X) + "[" + fmt.Sprint(cLo) + ":len-" + fmt.Sprint(d) + "]", Facts: FactsAt(in)}
						ob.Ok, ob.Why = lc.lenAtLeast(in, x.X, cLo+d)
						if !ob.Ok {
							ob.Why = fmt.Sprintf("no dominating fact gives len(%s) >= %d, so the low bound can exceed the high bound", Expr(x.X), cLo+d)
						}
						out = append(out, ob)
					}
				}
			}
		}
	})
	return out
}

type laCtx struct {
	p  *Prog
	fn *ssa.Function
}

// onlyStoredTo: the element address is used exclusively as the target of stores (output buffer write).
func onlyStoredTo(ia *ssa.IndexAddr) bool {
	refs := ia.Referrers()
	if refs == nil || len(*refs) == 0 {
		return false
	}
	for _, r := range *refs {
		st, ok := r.(*ssa.Store)
		if !ok || st.Addr != ssa.Value(ia) {
			if _, dbg := r.(*ssa.DebugRef); dbg {
				continue
			}
			return false
		}
	}
	return true
}

func constInt(v ssa.Value) (int64, bool) {
	if c, ok := v.(*ssa.Convert); ok {
		return constInt(c.X)
	}
	c, ok := v.(*ssa.Const)
	if !ok || c.Value == nil || c.Value.Kind() != constant.Int {
		return 0, false
	}
	return c.Int64(), true
}

// staticLen returns the compile-time length of x (arrays, constant strings), or -1.
func staticLen(x ssa.Value) int64 {
	t := x.Type()
	if p, ok := t.Underlying().(*types.Pointer); ok {
		t = p.Elem()
	}
	if a, ok := t.Underlying().(*types.Array); ok {
		return a.Len()
	}
	if c, ok := x.(*ssa.Const); ok && c.Value != nil && c.Value.Kind() == constant.String {
		return int64(len(constant.StringVal(c.Value)))
	}
	return -1
}

func stripConv(v ssa.Value) ssa.Value {
	for {
		switch x := v.(type) {
		case *ssa.Convert:
			v = x.X
		case *ssa.ChangeType:
			v = x.X
		default:
			return v
		}
	}
}

// lenForms returns expressions L with a slack k such that len(x) >= L + k is known
// structurally: the operand itself (k=0), make([]T, n) (n, 0), a+"const" (len(a), len(const)),
// and parameter length aliases established at every call site.
type lenForm struct {
	expr  string // an expression denoting a length (already "len(...)" or a size value)
	slack int64
}

func (lc *laCtx) lenForms(x ssa.Value) []lenForm {
	E := Expr(x)
	out := []lenForm{{"len(" + E + ")", 0}}
	switch y := stripConv(x).(type) {
	case *ssa.MakeSlice:
		out = append(out, lenForm{Expr(y.Len), 0})
	case *ssa.BinOp:
		if y.Op == token.ADD {
			if c, ok := y.Y.(*ssa.Const); ok && c.Value != nil && c.Value.Kind() == constant.String {
				out = append(out, lenForm{"len(" + Expr(y.X) + ")", int64(len(constant.StringVal(c.Value)))})
			}
		}
	case *ssa.Parameter:
		for _, al := range lc.paramLenAliases(y) {
			out = append(out, lenForm{"len(" + al + ")", 0})
		}
	}
	return out
}

// paramLenAliases: other parameters of the same function that have the same length as
// prm at every static call site (one is []byte(other) / string(other) / the same value).
func (lc *laCtx) paramLenAliases(prm *ssa.Parameter) []string {
	fn := prm.Parent()
	idx := -1
	for i, q := range fn.Params {
		if q == prm {
			idx = i
		}
	}
	if idx < 0 {
		return nil
	}
	sites := lc.p.staticCallSites(fn)
	if len(sites) == 0 {
		return nil
	}
	var out []string
	for j, q := range fn.Params {
		if j == idx {
			continue
		}
		all := true
		for _, s := range sites {
			args := s.Common().Args
			if j >= len(args) || idx >= len(args) {
				all = false
				break
			}
			if !sameLength(args[idx], args[j]) {
				all = false
				break
			}
		}
		if all {
			out = append(out, q.Name())
		}
	}
	return out
}

// sameLength: a and b are structurally the same sequence (conversion of one another).
func sameLength(a, b ssa.Value) bool {
	a, b = stripConv(a), stripConv(b)
	if a == b {
		return true
	}
	// make([]byte, len(x)) vs x
	if m, ok := a.(*ssa.MakeSlice); ok && Expr(m.Len) == "len("+Expr(b)+")" {
		return true
	}
	if m, ok := b.(*ssa.MakeSlice); ok && Expr(m.Len) == "len("+Expr(a)+")" {
		return true
	}
	return Expr(a) == Expr(b)
}

func (p *Prog) staticCallSites(fn *ssa.Function) []ssa.CallInstruction {
	if p.sites == nil {
		p.sites = map[*ssa.Function][]ssa.CallInstruction{}
		for _, f := range p.ModFuncs {
			Instrs(f, func(in ssa.Instruction) {
				if ci, ok := in.(ssa.CallInstruction); ok {
					if sc := ci.Common().StaticCallee(); sc != nil {
						p.sites[sc] = append(p.sites[sc], ci)
					}
				}
			})
		}
	}
	return p.sites[fn]
}

// classify the index expression relative to the indexed operand.
func classify(x, idx ssa.Value) (shape string, v ssa.Value, c int64, ok bool) {
	if k, isC := constInt(idx); isC {
		return "const", nil, k, true
	}
	// a loop-carried index that is counted down (i--, i -= c): needs a lower bound
	if phi, isP := stripConv(idx).(*ssa.Phi); isP {
		for _, e := range phi.Edges {
			if eb, ok := stripConv(e).(*ssa.BinOp); ok && eb.Op == token.SUB && stripConv(eb.X) == ssa.Value(phi) {
				if k, isC := constInt(eb.Y); isC && k >= 1 {
					return "countdown", phi, k, true
				}
			}
		}
	}
	b, isB := stripConv(idx).(*ssa.BinOp)
	if !isB {
		// a plain variable indexing a fixed-size array (lookup tables): the index type must fit or be bounded
		if staticLen(x) >= 0 {
			if bt, ok := idx.Type().Underlying().(*types.Basic); ok {
				if bt.Kind() == types.Uint8 && staticLen(x) >= 256 {
					return "", nil, 0, false
				}
				return "arrayvar", idx, 0, true
			}
		}
		return "", nil, 0, false
	}
	switch b.Op {
	case token.ADD:
		if k, isC := constInt(b.Y); isC && k >= 1 {
			return "var+c", b.X, k, true
		}
		if k, isC := constInt(b.X); isC && k >= 1 {
			return "var+c", b.Y, k, true
		}
	case token.SUB:
		if k, isC := constInt(b.Y); isC && k >= 1 {
			if Expr(b.X) == "len("+Expr(x)+")" {
				return "len-c", nil, k, true
			}
		}
	}
	return "", nil, 0, false
}

func (lc *laCtx) indexOb(in ssa.Instruction, x, idx ssa.Value) (IndexOb, bool) {
	shape, v, c, ok := classify(x, idx)
	if !ok {
		return IndexOb{}, false
	}
	E := Expr(x)
	ob := IndexOb{Instr: in, Shape: shape, Desc: E + "[" + Expr(idx) + "]", Facts: FactsAt(in)}
	sl := staticLen(x)
	switch shape {
	case "const":
		if sl >= 0 {
			ob.Ok, ob.Why = c < sl, fmt.Sprintf("static length %d", sl)
			return ob, true
		}
		ob.Ok, ob.Why = lc.lenAtLeast(in, x, c+1)
	case "var+c":
		if sl >= 0 {
			_, hi, _ := ob.Facts.Range(Expr(v))
			ob.Ok, ob.Why = hi+c < sl, "static length"
			return ob, true
		}
		ob.Ok, ob.Why = lc.sumBelowLen(in, x, v, c, true)
		if !ob.Ok {
			// x[k*w + c] with c < k under w < len(x)/k: k*w <= len(x) - k, hence k*w + c < len(x)
			if m, isM := stripConv(v).(*ssa.BinOp); isM && m.Op == token.MUL {
				w, k := m.Y, int64(0)
				if kk, isC := constInt(m.X); isC {
					k = kk
				} else if kk, isC := constInt(m.Y); isC {
					k, w = kk, m.X
				}
				if k >= 1 && c < k {
					bound := fmt.Sprintf("(len(%s) / %d)", E, k)
					for _, a := range ob.Facts {
						if a.L == Expr(w) && a.Op == "<" && a.R == bound {
							ob.Ok, ob.Why = true, fmt.Sprintf("%s < %s, so %d*%s + %d < len(%s)", a.L, bound, k, a.L, c, E)
						}
					}
				}
			}
		}
	case "len-c":
		ob.Ok, ob.Why = lc.lenAtLeast(in, x, c)
	case "arrayvar":
		e := Expr(v)
		lo, hi, _ := ob.Facts.Range(e)
		if !exactFact(ob.Facts, e) {
			lo, hi = math.MinInt64, math.MaxInt64
		}
		// one step of transitivity: v <= w / v < w with w bounded
		for _, a := range ob.Facts {
			if a.L != e {
				continue
			}
			_, whi, _ := ob.Facts.Range(a.R)
			if !exactFact(ob.Facts, a.R) {
				continue
			}
			switch a.Op {
			case "<=":
				if whi < hi {
					hi = whi
				}
			case "<":
				if whi-1 < hi {
					hi = whi - 1
				}
			}
		}
		nonneg := lo >= 0
		if !nonneg && lc != nil && lc.p != nil {
			if ok, _ := lc.p.NonNeg(v, in); ok {
				nonneg = true
			}
		}
		if nonneg && hi < sl {
			ob.Ok, ob.Why = true, fmt.Sprintf("index bounded to [0,%d] for an array of %d", hi, sl)
		} else {
			ob.Ok, ob.Why = false, fmt.Sprintf("the array has %d elements and no dominating guard bounds the index %s to 0..%d", sl, e, sl-1)
		}
	case "countdown":
		lo, _, _ := ob.Facts.Range(Expr(v))
		if lo >= 0 && exactFact(ob.Facts, Expr(v)) {
			ob.Ok, ob.Why = true, "counted-down index guarded by a lower bound"
		} else {
			ob.Ok, ob.Why = false, "the index "+Expr(v)+" is counted down in a loop and no dominating guard keeps it >= 0"
		}
	}
	return ob, true
}

func (lc *laCtx) sliceBoundOb(in ssa.Instruction, x, bound ssa.Value, which string) (IndexOb, bool) {
	shape, v, c, ok := classify(x, bound)
	if !ok {
		return IndexOb{}, false
	}
	E := Expr(x)
	ob := IndexOb{Instr: in, Shape: which + ":" + shape, Desc: E + "[" + which + "=" + Expr(bound) + "]", Facts: FactsAt(in)}
	sl := staticLen(x)
	switch shape {
	case "const":
		if c == 0 {
			return IndexOb{}, false
		}
		if sl >= 0 {
			ob.Ok = c <= sl
			return ob, true
		}
		ob.Ok, ob.Why = lc.lenAtLeast(in, x, c)
	case "var+c":
		// r = strings.Index*(x, ...) satisfies -1 <= r < len(x): x[r+1:] is always in range
		if c == 1 && isIndexOf(v, x) {
			ob.Ok, ob.Why = true, "strings.Index* result r satisfies r+1 <= len(x)"
			return ob, true
		}
		ob.Ok, ob.Why = lc.sumBelowLen(in, x, v, c, false)
	case "len-c":
		ob.Ok, ob.Why = lc.lenAtLeast(in, x, c)
	case "arrayvar":
		// x[:n] with n the number of bytes a library encoder wrote into x itself
		if call, ok := stripConv(v).(*ssa.Call); ok {
			if sc := call.Call.StaticCallee(); sc != nil && sc.Pkg != nil && sc.Pkg.Pkg.Path() == "unicode/utf8" && sc.Name() == "EncodeRune" && len(call.Call.Args) > 0 {
				if sl2, ok := call.Call.Args[0].(*ssa.Slice); ok && Expr(sl2.X) == Expr(x) {
					ob.Ok, ob.Why = true, "utf8.EncodeRune returns the number of bytes written into this very buffer"
					return ob, true
				}
			}
		}
		e := Expr(v)
		lo, hi, _ := ob.Facts.Range(e)
		if !exactFact(ob.Facts, e) {
			lo, hi = math.MinInt64, math.MaxInt64
		}
		nonneg := lo >= 0
		if !nonneg {
			if ok, _ := lc.p.NonNeg(v, in); ok {
				nonneg = true
			}
		}
		ob.Ok, ob.Why = nonneg && hi <= sl, fmt.Sprintf("slice bound within an array of %d", sl)
		if !ob.Ok {
			ob.Why = fmt.Sprintf("the array has %d elements and no dominating guard bounds %s to 0..%d", sl, e, sl)
		}
	}
	return ob, true
}

// isIndexOf: v is strings.Index/IndexByte/LastIndex/LastIndexByte/IndexRune/IndexAny(x, ...).
func isIndexOf(v, x ssa.Value) bool {
	call, ok := stripConv(v).(*ssa.Call)
	if !ok {
		return false
	}
	sc := call.Call.StaticCallee()
	if sc == nil || sc.Pkg == nil || (sc.Pkg.Pkg.Path() != "strings" && sc.Pkg.Pkg.Path() != "bytes") {
		return false
	}
	if !strings.HasPrefix(sc.Name(), "Index") && !strings.HasPrefix(sc.Name(), "LastIndex") {
		return false
	}
	return len(call.Call.Args) > 0 && Expr(call.Call.Args[0]) == Expr(x)
}

// libraryMinLen: lengths guaranteed by the producing library call.
func libraryMinLen(x ssa.Value) (int64, string) {
	switch y := stripConv(x).(type) {
	case *ssa.Call:
		if sc := y.Call.StaticCallee(); sc != nil {
			full := ""
			if sc.Signature.Recv() != nil {
				full = sc.Signature.Recv().Type().String() + "." + sc.Name()
			} else if sc.Pkg != nil {
				full = sc.Pkg.Pkg.Path() + "." + sc.Name()
			}
			switch full {
			case "time.Time.Format":
				if c, ok := y.Call.Args[1].(*ssa.Const); ok && c.Value != nil && c.Value.Kind() == constant.String {
					// numeric layouts render with the layout's own width
					l := constant.StringVal(c.Value)
					if strings.Trim(l, "0123456789:-. ") == "" {
						return int64(len(l)), "time.Format with a fixed-width numeric layout"
					}
				}
			case "strings.Split", "strings.SplitN":
				return 1, "strings.Split returns at least one element"
			}
		}
	case *ssa.IndexAddr, *ssa.Index, *ssa.UnOp:
		// element of regexp.FindAllStringSubmatch: every match has at least the full-match element
		e := Expr(x)
		if strings.Contains(e, ".FindAllStringSubmatch(") && strings.HasSuffix(e, "]") {
			return 1, "each regexp submatch slice contains the full match"
		}
	}
	return 0, ""
}

// lenAtLeast: do facts/structure imply len(x) >= n ?
func (lc *laCtx) lenAtLeast(in ssa.Instruction, x ssa.Value, n int64) (bool, string) {
	f := FactsAt(in)
	E := Expr(x)
	if m, why := libraryMinLen(x); m >= n {
		return true, why
	}
	// regexp/syntax invariant: unary operators have exactly one sub-expression
	if strings.HasSuffix(E, ".Sub") && n == 1 {
		base := strings.TrimSuffix(E, ".Sub")
		for _, a := range f {
			if a.L == base+".Op" && a.Op == "==" {
				switch a.R {
				case "13", "14", "15", "16", "17": // OpCapture, OpStar, OpPlus, OpQuest, OpRepeat
					return true, "regexp/syntax: " + base + ".Op is a unary operator (exactly one Sub)"
				}
			}
		}
	}
	for _, lf := range lc.lenForms(x) {
		need := n - lf.slack
		if need <= 0 {
			return true, "structural length"
		}
		lo, _, ne := f.Range(lf.expr)
		if lo < 0 {
			lo = 0 // lengths are never negative
		}
		for changed := true; changed; {
			changed = false
			for _, x := range ne {
				if x == lo {
					lo++
					changed = true
				}
			}
		}
		if lo >= need {
			return true, fmt.Sprintf("%s >= %d", lf.expr, lo)
		}
		if need == 1 {
			inner := strings.TrimSuffix(strings.TrimPrefix(lf.expr, "len("), ")")
			for _, a := range f {
				if a.L == inner && a.Op == "!=" && a.R == `""` {
					return true, inner + ` != ""`
				}
			}
		}
		for _, a := range f {
			// (len(x) - k) >= c  =>  len(x) >= c + k
			if strings.HasPrefix(a.L, "("+lf.expr+" - ") && (a.Op == ">=" || a.Op == ">") {
				k, e1 := strconv.ParseInt(strings.TrimSuffix(strings.TrimPrefix(a.L, "("+lf.expr+" - "), ")"), 10, 64)
				cst, e2 := strconv.ParseInt(a.R, 10, 64)
				if e1 == nil && e2 == nil {
					if a.Op == ">" {
						cst++
					}
					if cst+k >= need {
						return true, a.String()
					}
				}
			}
			// strings.HasPrefix(x, "lit") == true  =>  len(x) >= len(lit)
			inner := strings.TrimSuffix(strings.TrimPrefix(lf.expr, "len("), ")")
			for _, fnm := range []string{"strings.HasPrefix(", "strings.HasSuffix("} {
				if strings.HasPrefix(a.L, fnm+inner+",\"") && a.Op == "==" && a.R == "true" {
					lit := strings.TrimSuffix(strings.TrimPrefix(a.L, fnm+inner+","), ")")
					if u, err := strconv.Unquote(lit); err == nil && int64(len(u)) >= need {
						return true, a.String()
					}
				}
			}
			l, op, r := a.L, a.Op, a.R
			if r == lf.expr {
				l, r, op = r, l, flipOp[op]
			}
			if l != lf.expr {
				continue
			}
			// len > r / len >= r with r = const or (v + k)
			if op != ">" && op != ">=" {
				continue
			}
			var b int64
			if k, err := strconv.ParseInt(r, 10, 64); err == nil {
				b = k
			} else if k, vv := splitPlus(r); vv != "" {
				b = k // v >= 0 for index variables
			} else {
				b = 0 // len > v, v >= 0
			}
			if op == ">" {
				b++
			}
			if b >= need {
				return true, a.String()
			}
		}
	}
	// precondition moved to call sites: x is a parameter indexed at a fixed position
	if prm, ok := stripConv(x).(*ssa.Parameter); ok {
		if ok, why := lc.callersGuaranteeLen(prm, n); ok {
			return true, why
		}
	}
	return false, fmt.Sprintf("no dominating fact gives len(%s) >= %d", E, n)
}

// callersGuaranteeLen: every static call site passes an argument whose length is >= n.
func (lc *laCtx) callersGuaranteeLen(prm *ssa.Parameter, n int64) (bool, string) {
	fn := prm.Parent()
	idx := -1
	for i, q := range fn.Params {
		if q == prm {
			idx = i
		}
	}
	sites := lc.p.staticCallSites(fn)
	if idx < 0 || len(sites) == 0 || fn.Object() == nil || fn.Object().Exported() && !strings.Contains(fn.Pkg.Pkg.Path(), "/internal/") {
		return false, ""
	}
	for _, s := range sites {
		arg := s.Common().Args[idx]
		sub := &laCtx{p: lc.p, fn: s.Parent()}
		ok := false
		switch a := stripConv(arg).(type) {
		case *ssa.Slice:
			if a.High == nil && a.Low != nil {
				// x[lo:] has length len(x) - lo >= n  <=>  lo + n <= len(x)
				if shape, v, c, isS := classify(a.X, a.Low); isS && shape == "var+c" {
					ok, _ = sub.sumBelowLen(s, a.X, v, c+n, false)
				} else {
					ok, _ = sub.sumBelowLen(s, a.X, a.Low, n, false)
				}
			}
		default:
			ok, _ = sub.lenAtLeast(s, arg, n)
		}
		if !ok {
			return false, ""
		}
	}
	return true, fmt.Sprintf("all %d call sites pass an argument of length >= %d", len(sites), n)
}

// splitPlus parses "(v + c)" into (c, v).
func splitPlus(s string) (int64, string) {
	if !strings.HasPrefix(s, "(") || !strings.HasSuffix(s, ")") {
		return 0, ""
	}
	in := s[1 : len(s)-1]
	i := strings.LastIndex(in, " + ")
	if i < 0 {
		return 0, ""
	}
	if k, err := strconv.ParseInt(in[i+3:], 10, 64); err == nil {
		return k, in[:i]
	}
	if k, err := strconv.ParseInt(in[:i], 10, 64); err == nil {
		return k, in[i+3:]
	}
	return 0, ""
}

// sumBelowLen: do the facts imply v + c < len(x) (strict) or v + c <= len(x) (!strict)?
func (lc *laCtx) sumBelowLen(in ssa.Instruction, x, vv ssa.Value, c int64, strict bool) (bool, string) {
	f := FactsAt(in)
	// v may itself be (w + k): fold the constant
	v := Expr(vv)
	if k, w := splitPlus(v); w != "" {
		v, c = w, c+k
	}
	// a loop variable that was just advanced: v = φ(...) — facts speak about the same SSA value, nothing to do.
	for _, lf := range lc.lenForms(x) {
		for _, a := range f {
			l, op, r := a.L, a.Op, a.R
			if l == lf.expr || strings.HasPrefix(l, "("+lf.expr+" - ") {
				l, r, op = r, l, flipOp[op]
			}
			if op != "<" && op != "<=" {
				continue
			}
			var cp int64 = -1
			if r == lf.expr {
				if l == v {
					cp = 0
				} else if k, w := splitPlus(l); w == v {
					cp = k
				}
			} else if strings.HasPrefix(r, "("+lf.expr+" - ") && l == v {
				if k, err := strconv.ParseInt(strings.TrimSuffix(strings.TrimPrefix(r, "("+lf.expr+" - "), ")"), 10, 64); err == nil {
					cp = k
				}
			}
			if cp < 0 {
				continue
			}
			slack := cp + lf.slack
			if op == "<=" {
				slack--
			}
			need := c
			if !strict {
				need = c - 1
			}
			if slack >= need {
				return true, a.String()
			}
		}
	}
	// both the sequence and the position are parameters of a private function: every caller guarantees it
	// (a block that read input[i+1:...] under `i+1 < len(input)` and was moved into a helper(input, i))
	if px, okx := stripConv(x).(*ssa.Parameter); okx && lc.p != nil {
		base := stripConv(vv)
		if b, ok := base.(*ssa.BinOp); ok && b.Op == token.ADD {
			if _, isC := constInt(b.Y); isC {
				base = stripConv(b.X)
			}
		}
		if pv, okv := base.(*ssa.Parameter); okv && px.Parent() == pv.Parent() {
			fn := px.Parent()
			ix, iv := -1, -1
			for i, q := range fn.Params {
				if q == px {
					ix = i
				}
				if q == pv {
					iv = i
				}
			}
			sites := lc.p.staticCallSites(fn)
			if ix >= 0 && iv >= 0 && len(sites) > 0 && fn.Object() != nil && !fn.Object().Exported() {
				all := true
				for _, cs := range sites {
					sub := &laCtx{p: lc.p, fn: cs.Parent()}
					args := cs.Common().Args
					// c already includes any constant folded out of vv above
					if ok, _ := sub.sumBelowLen(cs, args[ix], args[iv], c, strict); !ok {
						all = false
					}
				}
				if all {
					return true, fmt.Sprintf("all %d call sites guarantee it", len(sites))
				}
			}
		}
	}
	return false, fmt.Sprintf("no dominating fact gives %s + %d %s len(%s)", v, c, map[bool]string{true: "<", false: "<="}[strict], Expr(x))
}

// FactsImplyLenAtLeast: do the facts imply len(E) >= n for the length expression lenE ("len(x)")?
func FactsImplyLenAtLeast(f Facts, lenE string, n int64) bool {
	lo, _, ne := f.Range(lenE)
	if lo < 0 {
		lo = 0
	}
	for changed := true; changed; {
		changed = false
		for _, x := range ne {
			if x == lo {
				lo++
				changed = true
			}
		}
	}
	if lo >= n {
		return true
	}
	for _, a := range f {
		l, op, r := a.L, a.Op, a.R
		if r == lenE {
			l, r, op = r, l, flipOp[op]
		}
		if l != lenE || (op != ">" && op != ">=") {
			continue
		}
		var b int64
		if k, err := strconv.ParseInt(r, 10, 64); err == nil {
			b = k
		} else if k, vv := splitPlus(r); vv != "" {
			b = k
		}
		if op == ">" {
			b++
		}
		if b >= n {
			return true
		}
	}
	return false
}
