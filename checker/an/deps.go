package an

import (
	"go/token"

	"golang.org/x/tools/go/ssa"
)

// Deps returns every SSA value the value v depends on through its operands (transitively),
// including the contents stored into locally allocated variadic/array cells.
func Deps(v ssa.Value) map[ssa.Value]bool {
	seen := map[ssa.Value]bool{}
	var walk func(v ssa.Value)
	walk = func(v ssa.Value) {
		if v == nil || seen[v] {
			return
		}
		seen[v] = true
		switch x := v.(type) {
		case *ssa.Alloc:
			// cell written in the same function: follow what is stored into it (and its elements)
			for _, ref := range *x.Referrers() {
				switch r := ref.(type) {
				case *ssa.Store:
					if r.Addr == ssa.Value(x) {
						walk(r.Val)
					}
				case *ssa.IndexAddr:
					for _, r2 := range *r.Referrers() {
						if st, ok := r2.(*ssa.Store); ok && st.Addr == ssa.Value(r) {
							walk(st.Val)
						}
					}
				case *ssa.FieldAddr:
					for _, r2 := range *r.Referrers() {
						if st, ok := r2.(*ssa.Store); ok && st.Addr == ssa.Value(r) {
							walk(st.Val)
						}
					}
				}
			}
			return
		}
		if in, ok := v.(ssa.Instruction); ok {
			for _, op := range in.Operands(nil) {
				if *op != nil {
					walk(*op)
				}
			}
		}
	}
	walk(v)
	return seen
}

// Roots returns the sources v is computed from: parameters, free variables, globals, field loads
// of parameters, and results of calls that are not known to be pure string/number helpers.
func Roots(v ssa.Value) map[ssa.Value]bool { return RootsAvoiding(v, nil) }

// RootsAvoiding is Roots, except that the walk does not continue through the values in stop (compared by
// identity and by rendered access path): it returns the sources that reach v along some path that avoids them.
func RootsAvoiding(v ssa.Value, stop map[ssa.Value]bool) map[ssa.Value]bool {
	out := map[ssa.Value]bool{}
	seen := map[ssa.Value]bool{}
	stopExpr := map[string]bool{}
	for sv := range stop {
		if _, isC := sv.(*ssa.Const); !isC {
			stopExpr[Expr(sv)] = true
		}
	}
	var walk func(v ssa.Value)
	walk = func(v ssa.Value) {
		if v == nil || seen[v] {
			return
		}
		seen[v] = true
		if stop != nil {
			if _, isC := v.(*ssa.Const); !isC && (stop[v] || stopExpr[Expr(v)]) {
				return
			}
		}
		switch x := v.(type) {
		case *ssa.Const, *ssa.Function, *ssa.Builtin:
			return
		case *ssa.Parameter, *ssa.FreeVar, *ssa.Global:
			out[v] = true
			return
		case *ssa.Call:
			if pureCall(&x.Call) {
				for _, a := range x.Call.Args {
					walk(a)
				}
				if x.Call.IsInvoke() {
					walk(x.Call.Value)
				}
				return
			}
			// constant-configured constructor: a call of a non-I/O function whose arguments have no sources
			if constantConfigured(&x.Call) {
				return
			}
			out[v] = true
			return
		case *ssa.Field:
			// a field of a struct-typed parameter is a source of its own (options.Arguments vs options.Datasets)
			if isParamLike(x.X) {
				out[v] = true
				return
			}
		case *ssa.UnOp:
			if x.Op == token.MUL {
				if fa, ok := x.X.(*ssa.FieldAddr); ok && isParamLike(fa.X) {
					out[v] = true
					return
				}
				// load: the address expression determines the source
				walk(x.X)
				return
			}
		case *ssa.Alloc:
			stored := false
			for _, ref := range *x.Referrers() {
				switch r := ref.(type) {
				case *ssa.Store:
					if r.Addr == ssa.Value(x) {
						stored = true
						walk(r.Val)
					}
				case *ssa.IndexAddr:
					for _, r2 := range *r.Referrers() {
						if st, ok := r2.(*ssa.Store); ok && st.Addr == ssa.Value(r) {
							stored = true
							walk(st.Val)
						}
					}
				case *ssa.FieldAddr:
					for _, r2 := range *r.Referrers() {
						if st, ok := r2.(*ssa.Store); ok && st.Addr == ssa.Value(r) {
							stored = true
							walk(st.Val)
						}
					}
				}
			}
			if !stored {
				return // zero value / constant-configured literal
			}
			return
		}
		if in, ok := v.(ssa.Instruction); ok {
			for _, op := range in.Operands(nil) {
				if *op != nil {
					walk(*op)
				}
			}
		}
	}
	walk(v)
	return out
}

func pureCall(c *ssa.CallCommon) bool {
	if b, ok := c.Value.(*ssa.Builtin); ok {
		switch b.Name() {
		case "len", "cap", "append", "copy", "min", "max":
			return true
		}
		return false
	}
	sc := c.StaticCallee()
	if sc == nil || sc.Pkg == nil {
		return false
	}
	switch sc.Pkg.Pkg.Path() {
	case "strings", "strconv", "fmt", "bytes", "unicode", "unicode/utf8", "path", "path/filepath", "crypto/md5", "encoding/hex", "slices", "sort":
		return true
	}
	// small module helpers without effects: single block
	if len(sc.Blocks) == 1 {
		ok := true
		Instrs(sc, func(in ssa.Instruction) {
			if _, isStore := in.(*ssa.Store); isStore {
				ok = false
			}
		})
		return ok
	}
	return false
}

func constantConfigured(c *ssa.CallCommon) bool {
	sc := c.StaticCallee()
	if sc == nil || c.IsInvoke() || len(c.Args) == 0 {
		return false
	}
	if sc.Pkg != nil {
		switch sc.Pkg.Pkg.Path() {
		case "os", "io", "io/fs", "time", "net", "math/rand", "crypto/rand", "runtime", "sync":
			return false
		}
	}
	for _, a := range c.Args {
		if len(Roots(a)) > 0 {
			return false
		}
	}
	return true
}

func isParamLike(v ssa.Value) bool {
	switch x := v.(type) {
	case *ssa.Parameter, *ssa.FreeVar:
		return true
	case *ssa.UnOp:
		if x.Op == token.MUL {
			return isParamLike(x.X)
		}
	case *ssa.Alloc:
		// a parameter spilled to a cell because a closure captures it
		for _, ref := range *x.Referrers() {
			if st, ok := ref.(*ssa.Store); ok && st.Addr == ssa.Value(x) {
				if _, isP := st.Val.(*ssa.Parameter); isP {
					return true
				}
			}
		}
	}
	return false
}
