package an

import (
	"fmt"
	"go/constant"
	"go/token"
	"go/types"
	"sort"
	"strings"

	"golang.org/x/tools/go/ssa"
)

// ---------------------------------------------------------------------------------------
// Rendering SSA values as access paths / expressions.

// Expr renders v as a source-like expression. Loads are transparent (a load of
// &x.f renders as "x.f"), conversions are dropped, single-block pure callees are
// inlined (so tx.IsInterrupted() renders as "(tx.interruption != nil)").
func Expr(v ssa.Value) string { return exprDepth(v, nil, 0) }

func exprDepth(v ssa.Value, subst map[*ssa.Parameter]string, depth int) string {
	if depth > 40 {
		return "…"
	}
	d := depth + 1
	switch x := v.(type) {
	case nil:
		return "<nil>"
	case *ssa.Parameter:
		if s, ok := subst[x]; ok {
			return s
		}
		return x.Name()
	case *ssa.FreeVar:
		return x.Name()
	case *ssa.Const:
		return constStr(x)
	case *ssa.Global:
		return x.Pkg.Pkg.Name() + "." + x.Name()
	case *ssa.Function:
		return RelName(x)
	case *ssa.Builtin:
		return x.Name()
	case *ssa.Alloc:
		if x.Comment != "" {
			return x.Comment
		}
		return x.Name()
	case *ssa.FieldAddr:
		return exprDepth(x.X, subst, d) + "." + fieldName(x.X.Type(), x.Field)
	case *ssa.Field:
		return exprDepth(x.X, subst, d) + "." + fieldName(x.X.Type(), x.Field)
	case *ssa.IndexAddr:
		return exprDepth(x.X, subst, d) + "[" + exprDepth(x.Index, subst, d) + "]"
	case *ssa.Index:
		return exprDepth(x.X, subst, d) + "[" + exprDepth(x.Index, subst, d) + "]"
	case *ssa.Lookup:
		return exprDepth(x.X, subst, d) + "[" + exprDepth(x.Index, subst, d) + "]"
	case *ssa.UnOp:
		switch x.Op {
		case token.MUL:
			return exprDepth(x.X, subst, d)
		case token.NOT:
			return "!" + exprDepth(x.X, subst, d)
		case token.SUB:
			return "-" + exprDepth(x.X, subst, d)
		case token.ARROW:
			return "<-" + exprDepth(x.X, subst, d)
		}
		return x.Op.String() + exprDepth(x.X, subst, d)
	case *ssa.BinOp:
		return "(" + exprDepth(x.X, subst, d) + " " + x.Op.String() + " " + exprDepth(x.Y, subst, d) + ")"
	case *ssa.Convert:
		return exprDepth(x.X, subst, d)
	case *ssa.ChangeType:
		return exprDepth(x.X, subst, d)
	case *ssa.ChangeInterface:
		return exprDepth(x.X, subst, d)
	case *ssa.MakeInterface:
		return exprDepth(x.X, subst, d)
	case *ssa.SliceToArrayPointer:
		return exprDepth(x.X, subst, d)
	case *ssa.TypeAssert:
		return exprDepth(x.X, subst, d) + ".(" + types.TypeString(x.AssertedType, shortQual) + ")"
	case *ssa.Extract:
		return exprDepth(x.Tuple, subst, d) + "#" + fmt.Sprint(x.Index)
	case *ssa.Slice:
		if al, ok := x.X.(*ssa.Alloc); ok && (al.Comment == "varargs" || al.Comment == "slicelit") && x.Low == nil && x.High == nil {
			// variadic argument pack: render its elements
			elems := map[int64]string{}
			max := int64(-1)
			for _, ref := range *al.Referrers() {
				if ia, ok := ref.(*ssa.IndexAddr); ok {
					if k, isC := ia.Index.(*ssa.Const); isC {
						for _, r2 := range *ia.Referrers() {
							if st, ok := r2.(*ssa.Store); ok && st.Addr == ssa.Value(ia) {
								elems[k.Int64()] = exprDepth(st.Val, subst, d)
								if k.Int64() > max {
									max = k.Int64()
								}
							}
						}
					}
				}
			}
			parts := []string{}
			for i := int64(0); i <= max; i++ {
				parts = append(parts, elems[i])
			}
			return strings.Join(parts, ",") + "..."
		}
		s := exprDepth(x.X, subst, d) + "["
		if x.Low != nil {
			s += exprDepth(x.Low, subst, d)
		}
		s += ":"
		if x.High != nil {
			s += exprDepth(x.High, subst, d)
		}
		return s + "]"
	case *ssa.Phi:
		if phiCyclic(x) {
			// loop-carried value (induction variable, accumulator); the SSA name keeps two
			// loops' counters apart
			return "*" + x.Comment + "." + x.Name()
		}
		parts := make([]string, 0, len(x.Edges))
		seen := map[string]bool{}
		for _, e := range x.Edges {
			if e == v {
				continue
			}
			s := exprDepth(e, subst, d+1)
			if !seen[s] {
				seen[s] = true
				parts = append(parts, s)
			}
		}
		sort.Strings(parts)
		if len(parts) == 1 {
			return parts[0]
		}
		return "φ(" + strings.Join(parts, "|") + ")"
	case *ssa.Call:
		return callExpr(&x.Call, subst, d)
	case *ssa.MakeClosure:
		return "closure:" + RelName(x.Fn.(*ssa.Function))
	case *ssa.MakeSlice:
		return "make(" + types.TypeString(x.Type(), shortQual) + "," + exprDepth(x.Len, subst, d) + ")"
	case *ssa.MakeMap:
		return "make(" + types.TypeString(x.Type(), shortQual) + ")"
	case *ssa.Range:
		return "range(" + exprDepth(x.X, subst, d) + ")"
	case *ssa.Next:
		return "next(" + exprDepth(x.Iter, subst, d) + ")"
	}
	return v.Name()
}

func shortQual(p *types.Package) string { return p.Name() }

func constStr(c *ssa.Const) string {
	if c.Value == nil {
		return "nil"
	}
	switch c.Value.Kind() {
	case constant.String:
		return fmt.Sprintf("%q", constant.StringVal(c.Value))
	case constant.Bool:
		return c.Value.String()
	}
	return c.Value.ExactString()
}

func fieldName(t types.Type, idx int) string {
	t = derefType(t)
	if st, ok := t.Underlying().(*types.Struct); ok && idx < st.NumFields() {
		return st.Field(idx).Name()
	}
	return fmt.Sprintf("f%d", idx)
}

func derefType(t types.Type) types.Type {
	if p, ok := t.Underlying().(*types.Pointer); ok {
		return p.Elem()
	}
	return t
}

// FieldVar returns the struct field object addressed/read by v (FieldAddr or Field).
func FieldVar(v ssa.Value) *types.Var {
	switch x := v.(type) {
	case *ssa.FieldAddr:
		return fieldVarOf(x.X.Type(), x.Field)
	case *ssa.Field:
		return fieldVarOf(x.X.Type(), x.Field)
	}
	return nil
}

func fieldVarOf(t types.Type, idx int) *types.Var {
	t = derefType(t)
	if st, ok := t.Underlying().(*types.Struct); ok && idx < st.NumFields() {
		return st.Field(idx)
	}
	return nil
}

func callExpr(c *ssa.CallCommon, subst map[*ssa.Parameter]string, d int) string {
	if c.IsInvoke() {
		args := make([]string, len(c.Args))
		for i, a := range c.Args {
			args[i] = exprDepth(a, subst, d)
		}
		return exprDepth(c.Value, subst, d) + "." + c.Method.Name() + "(" + strings.Join(args, ",") + ")"
	}
	if callee := c.StaticCallee(); callee != nil {
		if s, ok := inlinePure(callee, c.Args, subst, d); ok {
			return s
		}
		args := make([]string, len(c.Args))
		for i, a := range c.Args {
			args[i] = exprDepth(a, subst, d)
		}
		name := callee.Name()
		if callee.Signature.Recv() != nil && len(args) > 0 {
			return args[0] + "." + name + "(" + strings.Join(args[1:], ",") + ")"
		}
		if callee.Pkg != nil {
			name = callee.Pkg.Pkg.Name() + "." + name
		}
		return name + "(" + strings.Join(args, ",") + ")"
	}
	args := make([]string, len(c.Args))
	for i, a := range c.Args {
		args[i] = exprDepth(a, subst, d)
	}
	return exprDepth(c.Value, subst, d) + "(" + strings.Join(args, ",") + ")"
}

// inlinePure inlines callees that consist of a single block without effects and
// return one value (predicate wrappers such as IsInterrupted, IsRuleEngineOff).
func inlinePure(callee *ssa.Function, args []ssa.Value, subst map[*ssa.Parameter]string, d int) (string, bool) {
	if len(callee.Blocks) != 1 || d > 8 {
		return "", false
	}
	// only wrappers of the target module are inlined (library accessors keep their call form)
	if callee.Pkg == nil || !(callee.Pkg.Pkg.Path() == ModPath || strings.HasPrefix(callee.Pkg.Pkg.Path(), ModPath+"/")) {
		return "", false
	}
	var ret *ssa.Return
	for _, in := range callee.Blocks[0].Instrs {
		switch x := in.(type) {
		case *ssa.Return:
			ret = x
		case *ssa.FieldAddr, *ssa.Field, *ssa.UnOp, *ssa.BinOp, *ssa.Convert, *ssa.ChangeType, *ssa.DebugRef, *ssa.IndexAddr, *ssa.Index:
		case *ssa.Call:
			// allow nested pure wrappers and len/cap builtins
			if b, ok := x.Call.Value.(*ssa.Builtin); ok && (b.Name() == "len" || b.Name() == "cap") {
				continue
			}
			if cc := x.Call.StaticCallee(); cc != nil && len(cc.Blocks) == 1 {
				if _, ok := inlinePure(cc, x.Call.Args, nil, d+1); ok {
					continue
				}
			}
			return "", false
		default:
			return "", false
		}
	}
	if ret == nil || len(ret.Results) != 1 {
		return "", false
	}
	ns := map[*ssa.Parameter]string{}
	for i, p := range callee.Params {
		if i < len(args) {
			ns[p] = exprDepth(args[i], subst, d+1)
		}
	}
	return exprDepth(ret.Results[0], ns, d+1), true
}

// ---------------------------------------------------------------------------------------
// Iteration helpers.

// Instrs calls f for every instruction of fn (not of nested closures).
func Instrs(fn *ssa.Function, f func(ssa.Instruction)) {
	for _, b := range fn.Blocks {
		for _, in := range b.Instrs {
			f(in)
		}
	}
}

// WithClosures returns fn and all functions nested in it.
func WithClosures(fn *ssa.Function) []*ssa.Function {
	out := []*ssa.Function{fn}
	for _, a := range fn.AnonFuncs {
		out = append(out, WithClosures(a)...)
	}
	return out
}

// CallOf returns the CallCommon of a call-like instruction (Call, Go, Defer).
func CallOf(in ssa.Instruction) *ssa.CallCommon {
	if ci, ok := in.(ssa.CallInstruction); ok {
		return ci.Common()
	}
	return nil
}

// IsCallTo reports whether in is a call (Call/Defer/Go) statically resolved to fn.
func IsCallTo(in ssa.Instruction, fn *ssa.Function) bool {
	c := CallOf(in)
	return c != nil && fn != nil && c.StaticCallee() == fn
}

// IsCallToMethod reports whether in calls (statically or by interface invoke) a
// method named name whose receiver's named type (or interface) is typeName in
// package pkgPath (full import path).
func IsCallToMethod(in ssa.Instruction, pkgPath, typeName, name string) bool {
	c := CallOf(in)
	if c == nil {
		return false
	}
	var f *types.Func
	if c.IsInvoke() {
		f = c.Method
	} else if sc := c.StaticCallee(); sc != nil {
		f, _ = sc.Object().(*types.Func)
		if f == nil && sc.Synthetic != "" {
			// bound method / wrapper
			return false
		}
	}
	if f == nil || f.Name() != name {
		return false
	}
	sig := f.Type().(*types.Signature)
	if sig.Recv() == nil {
		return false
	}
	t := derefType(sig.Recv().Type())
	n, ok := t.(*types.Named)
	if !ok {
		return false
	}
	return n.Obj().Name() == typeName && n.Obj().Pkg() != nil && n.Obj().Pkg().Path() == pkgPath
}

// IsCallToFunc reports whether in statically calls the package-level function pkgPath.name
// (works for functions outside the module, e.g. "os".Remove).
func IsCallToFunc(in ssa.Instruction, pkgPath, name string) bool {
	c := CallOf(in)
	if c == nil || c.IsInvoke() {
		return false
	}
	sc := c.StaticCallee()
	if sc == nil || sc.Signature.Recv() != nil {
		return false
	}
	o := sc.Object()
	return o != nil && o.Name() == name && o.Pkg() != nil && o.Pkg().Path() == pkgPath
}

// IsBuiltinCall reports whether in is a call of builtin name.
func IsBuiltinCall(in ssa.Instruction, name string) bool {
	c := CallOf(in)
	if c == nil {
		return false
	}
	b, ok := c.Value.(*ssa.Builtin)
	return ok && b.Name() == name
}

// StoreToField reports whether in is a Store whose address is a FieldAddr of field
// `field` of named struct type pkgPath.typeName; returns the FieldAddr.
func StoreToField(in ssa.Instruction, pkgPath, typeName, field string) (*ssa.Store, bool) {
	st, ok := in.(*ssa.Store)
	if !ok {
		return nil, false
	}
	fa, ok := st.Addr.(*ssa.FieldAddr)
	if !ok {
		return nil, false
	}
	if !isFieldOf(fa, pkgPath, typeName, field) {
		return nil, false
	}
	return st, true
}

func isFieldOf(fa *ssa.FieldAddr, pkgPath, typeName, field string) bool {
	t := derefType(fa.X.Type())
	n, ok := t.(*types.Named)
	if !ok {
		return false
	}
	if n.Obj().Name() != typeName || n.Obj().Pkg() == nil || n.Obj().Pkg().Path() != pkgPath {
		return false
	}
	return fieldName(fa.X.Type(), fa.Field) == field
}

// IsFieldAddrOf reports whether v is &x.field for the named struct type.
func IsFieldAddrOf(v ssa.Value, pkgPath, typeName, field string) bool {
	fa, ok := v.(*ssa.FieldAddr)
	return ok && isFieldOf(fa, pkgPath, typeName, field)
}

// LoadsField reports whether v is a load (*&x.field) of the named field.
func LoadsField(v ssa.Value, pkgPath, typeName, field string) bool {
	u, ok := v.(*ssa.UnOp)
	if !ok || u.Op != token.MUL {
		return false
	}
	return IsFieldAddrOf(u.X, pkgPath, typeName, field)
}

// FieldStore is one store to a struct field somewhere in the module.
type FieldStore struct {
	Fn    *ssa.Function
	Store *ssa.Store
}

// StoresToField lists every store to the field over all module functions
// (closures included), in deterministic order.
func (p *Prog) StoresToField(pkgRel, typeName, field string) []FieldStore {
	var out []FieldStore
	full := pkgFull(pkgRel)
	for _, fn := range p.ModFuncs {
		Instrs(fn, func(in ssa.Instruction) {
			if st, ok := StoreToField(in, full, typeName, field); ok {
				out = append(out, FieldStore{fn, st})
			}
		})
	}
	return out
}

// CallSite is one call instruction inside a module function.
type CallSite struct {
	Fn   *ssa.Function
	Call ssa.CallInstruction
}

// CallSites lists every module instruction satisfying match.
func (p *Prog) CallSites(match func(ssa.Instruction) bool) []CallSite {
	var out []CallSite
	for _, fn := range p.ModFuncs {
		Instrs(fn, func(in ssa.Instruction) {
			if ci, ok := in.(ssa.CallInstruction); ok && match(in) {
				out = append(out, CallSite{fn, ci})
			}
		})
	}
	return out
}

// EnclosingName renders the function containing an instruction, naming closures
// after their outermost parent ("pkg.F$1" -> "pkg.F").
func OuterFn(fn *ssa.Function) *ssa.Function {
	for fn.Parent() != nil {
		fn = fn.Parent()
	}
	return fn
}

// ---------------------------------------------------------------------------------------
// Liveness of CFG edges (go/ssa does not prune `if <const>`).

// LiveSuccs returns the successors of b that can be taken, pruning branches on
// constant conditions (build-tag selected constants such as multiphaseEvaluation).
func LiveSuccs(b *ssa.BasicBlock) []*ssa.BasicBlock {
	if len(b.Instrs) == 0 {
		return b.Succs
	}
	if ifi, ok := b.Instrs[len(b.Instrs)-1].(*ssa.If); ok {
		if v, ok := constBool(ifi.Cond); ok {
			if v {
				return b.Succs[:1]
			}
			return b.Succs[1:2]
		}
	}
	return b.Succs
}

func constBool(v ssa.Value) (bool, bool) {
	switch x := v.(type) {
	case *ssa.Const:
		if x.Value != nil && x.Value.Kind() == constant.Bool {
			return constant.BoolVal(x.Value), true
		}
	case *ssa.UnOp:
		if x.Op == token.NOT {
			if b, ok := constBool(x.X); ok {
				return !b, true
			}
		}
		if x.Op == token.MUL {
			if g, ok := x.X.(*ssa.Global); ok {
				return globalConstBool(g)
			}
		}
	case *ssa.Call:
		// single-block functions returning a constant (shouldUseCaseSensitiveNamedCollection etc. are consts, but be general)
		if cc := x.Call.StaticCallee(); cc != nil && len(cc.Blocks) == 1 && len(x.Call.Args) == 0 {
			if r, ok := cc.Blocks[0].Instrs[len(cc.Blocks[0].Instrs)-1].(*ssa.Return); ok && len(r.Results) == 1 && len(cc.Blocks[0].Instrs) == 1 {
				return constBool(r.Results[0])
			}
		}
	}
	return false, false
}

// LiveBlocks returns the set of blocks reachable from entry over live edges.
func LiveBlocks(fn *ssa.Function) map[*ssa.BasicBlock]bool {
	live := map[*ssa.BasicBlock]bool{}
	if len(fn.Blocks) == 0 {
		return live
	}
	var walk func(b *ssa.BasicBlock)
	walk = func(b *ssa.BasicBlock) {
		if live[b] {
			return
		}
		live[b] = true
		for _, s := range LiveSuccs(b) {
			walk(s)
		}
	}
	walk(fn.Blocks[0])
	return live
}

// phiCyclic reports whether the phi (transitively, through arithmetic and other phis)
// depends on itself, i.e. is a loop-carried variable.
func phiCyclic(p *ssa.Phi) bool {
	seen := map[ssa.Value]bool{}
	var walk func(v ssa.Value, d int) bool
	walk = func(v ssa.Value, d int) bool {
		if d > 8 {
			return false
		}
		if v == ssa.Value(p) && d > 0 {
			return true
		}
		if seen[v] {
			return false
		}
		seen[v] = true
		switch x := v.(type) {
		case *ssa.Phi:
			for _, e := range x.Edges {
				if walk(e, d+1) {
					return true
				}
			}
		case *ssa.BinOp:
			return walk(x.X, d+1) || walk(x.Y, d+1)
		case *ssa.Convert:
			return walk(x.X, d+1)
		case *ssa.UnOp:
			return walk(x.X, d+1)
		case *ssa.Call:
			// append(acc, ...) accumulators
			if b, ok := x.Call.Value.(*ssa.Builtin); ok && b.Name() == "append" && len(x.Call.Args) > 0 {
				return walk(x.Call.Args[0], d+1)
			}
			for _, a := range x.Call.Args {
				if walk(a, d+1) {
					return true
				}
			}
		case *ssa.Slice:
			return walk(x.X, d+1)
		case *ssa.FieldAddr:
			return walk(x.X, d+1)
		case *ssa.Field:
			return walk(x.X, d+1)
		case *ssa.IndexAddr:
			return walk(x.X, d+1) || walk(x.Index, d+1)
		case *ssa.Index:
			return walk(x.X, d+1) || walk(x.Index, d+1)
		case *ssa.Extract:
			return walk(x.Tuple, d+1)
		case *ssa.ChangeType:
			return walk(x.X, d+1)
		}
		return false
	}
	return walk(p, 0)
}

type gcb struct {
	val, ok bool
}

var globalBoolCache = map[*ssa.Global]gcb{}

// globalConstBool: a package-level bool variable that is assigned a constant in the package
// initialiser and written nowhere else behaves like a build-tag selected constant
// (shouldUseCaseSensitiveNamedCollection, environment.HasAccessToFS, ...).
func globalConstBool(g *ssa.Global) (bool, bool) {
	if r, ok := globalBoolCache[g]; ok {
		return r.val, r.ok
	}
	res := gcb{}
	if g.Object() == nil || g.Pkg == nil {
		globalBoolCache[g] = res
		return false, false
	}
	stores := 0
	var val *ssa.Const
	for _, pk := range g.Pkg.Prog.AllPackages() {
		// only packages that can name the variable
		if pk != g.Pkg && !g.Object().Exported() {
			continue
		}
		if pk != g.Pkg && !importsPkg(pk, g.Pkg) {
			continue
		}
		for _, m := range pk.Members {
			fn, ok := m.(*ssa.Function)
			if !ok {
				continue
			}
			for _, f := range withAnon(fn) {
				Instrs(f, func(in ssa.Instruction) {
					if st, ok := in.(*ssa.Store); ok && st.Addr == ssa.Value(g) {
						stores++
						if c, isC := st.Val.(*ssa.Const); isC && f.Name() == "init" && pk == g.Pkg {
							val = c
						}
					}
				})
			}
		}
	}
	if stores == 1 && val != nil && val.Value != nil && val.Value.Kind() == constant.Bool {
		res = gcb{constant.BoolVal(val.Value), true}
	} else if stores == 0 {
		res = gcb{false, true} // zero value, never written
	}
	globalBoolCache[g] = res
	return res.val, res.ok
}

func importsPkg(pk, target *ssa.Package) bool {
	for _, imp := range pk.Pkg.Imports() {
		if imp == target.Pkg {
			return true
		}
	}
	return false
}

func withAnon(fn *ssa.Function) []*ssa.Function {
	out := []*ssa.Function{fn}
	for _, a := range fn.AnonFuncs {
		out = append(out, withAnon(a)...)
	}
	return out
}

// InstrDominates reports whether instruction a is executed before b on every path reaching b
// (a's block strictly dominates b's, or both share a block and a comes first).
func InstrDominates(a, b ssa.Instruction) bool {
	if a == nil || b == nil || a.Block() == nil || b.Block() == nil {
		return false
	}
	if a.Block() != b.Block() {
		return a.Block().Dominates(b.Block())
	}
	for _, in := range a.Block().Instrs {
		if in == a {
			return true
		}
		if in == b {
			return false
		}
	}
	return false
}
