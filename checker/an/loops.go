package an

import "golang.org/x/tools/go/ssa"

// Loop is a natural loop.
type Loop struct {
	Header *ssa.BasicBlock
	Blocks map[*ssa.BasicBlock]bool
}

// NaturalLoop returns the natural loop of header h (nil when h has no back edge).
func NaturalLoop(h *ssa.BasicBlock) *Loop {
	var backs []*ssa.BasicBlock
	for _, p := range h.Preds {
		if h == p || h.Dominates(p) {
			backs = append(backs, p)
		}
	}
	if len(backs) == 0 {
		return nil
	}
	l := &Loop{Header: h, Blocks: map[*ssa.BasicBlock]bool{h: true}}
	var walk func(b *ssa.BasicBlock)
	walk = func(b *ssa.BasicBlock) {
		if l.Blocks[b] {
			return
		}
		l.Blocks[b] = true
		for _, p := range b.Preds {
			walk(p)
		}
	}
	for _, b := range backs {
		walk(b)
	}
	return l
}

// InnermostLoop returns the innermost natural loop containing block b, or nil.
func InnermostLoop(b *ssa.BasicBlock) *Loop {
	for d := b; d != nil; d = d.Idom() {
		if l := NaturalLoop(d); l != nil && l.Blocks[b] {
			return l
		}
	}
	return nil
}

// ExitEdges lists the edges leaving the loop as (from block, successor index).
func (l *Loop) ExitEdges() [][2]interface{} {
	var out [][2]interface{}
	for b := range l.Blocks {
		for i, s := range b.Succs {
			if !l.Blocks[s] {
				out = append(out, [2]interface{}{b, i})
			}
		}
	}
	return out
}

// EdgeFacts returns the facts holding when the edge b->b.Succs[i] is taken.
func EdgeFacts(b *ssa.BasicBlock, i int) Facts {
	f := FactsAtBlock(b)
	if len(b.Instrs) > 0 {
		if ifi, ok := b.Instrs[len(b.Instrs)-1].(*ssa.If); ok && len(b.Succs) == 2 && b.Succs[0] != b.Succs[1] {
			f = append(condAtoms(ifi.Cond, i == 0, nil, ifi, 0), f...)
		}
	}
	return f
}

// LoopInfo describes one natural loop of a function.
type LoopInfo struct {
	Loop      *Loop
	Over      string // expression ranged over (slice/map/string), "" when not a range loop
	EarlyExit bool   // an edge leaves the loop from a block other than the header
	Pos       ssa.Instruction
}

// Loops enumerates the natural loops of fn (one per header).
func Loops(fn *ssa.Function) []LoopInfo {
	var out []LoopInfo
	for _, b := range fn.Blocks {
		l := NaturalLoop(b)
		if l == nil {
			continue
		}
		li := LoopInfo{Loop: l}
		for _, e := range l.ExitEdges() {
			if e[0].(*ssa.BasicBlock) != l.Header {
				li.EarlyExit = true
			}
		}
		// what is ranged over: len(S) compared in the header, or next(range(M))
		for _, in := range b.Instrs {
			if li.Pos == nil && in.Pos().IsValid() {
				li.Pos = in
			}
			switch x := in.(type) {
			case *ssa.BinOp:
				if call, ok := x.Y.(*ssa.Call); ok && IsBuiltinCall(call, "len") {
					li.Over = Expr(call.Call.Args[0])
				}
			case *ssa.Next:
				if r, ok := x.Iter.(*ssa.Range); ok {
					li.Over = Expr(r.X)
				}
			}
		}
		if li.Pos == nil {
			li.Pos = b.Instrs[0]
		}
		out = append(out, li)
	}
	return out
}
