package an

import (
	"crypto/sha256"
	"encoding/hex"
	"encoding/json"
	"fmt"
	"io"
	"io/fs"
	"os"
	"path/filepath"
	"sort"
	"strings"
)

// KnownFindings is the committed, read-only list of genuine defects that are
// recorded rather than repaired, plus the record of repaired ones.
type KnownFindings struct {
	Known []struct {
		Property  string `json:"property"`
		Rule      string `json:"rule"`
		Construct string `json:"construct"`
		Config    string `json:"config,omitempty"` // empty = any configuration
		What      string `json:"what"`
		Input     string `json:"failing_input,omitempty"`
	} `json:"known"`
	Fixed []string `json:"fixed"`
}

func LoadKnown(path string) (*KnownFindings, error) {
	b, err := os.ReadFile(path)
	if err != nil {
		return nil, err
	}
	k := &KnownFindings{}
	if err := json.Unmarshal(b, k); err != nil {
		return nil, err
	}
	return k, nil
}

// Match returns the index of the known finding covering o, or -1.
func (k *KnownFindings) Match(o Ob) int {
	for i, e := range k.Known {
		if e.Property == o.Prop && e.Rule == o.Rule && e.Construct == o.Key && (e.Config == "" || e.Config == o.Config) {
			return i
		}
	}
	return -1
}

// TreeHash hashes every file below dir except .git (path and content).
func TreeHash(dir string) (string, int, error) {
	var files []string
	err := filepath.WalkDir(dir, func(path string, d fs.DirEntry, err error) error {
		if err != nil {
			return err
		}
		if d.IsDir() {
			if d.Name() == ".git" {
				return filepath.SkipDir
			}
			return nil
		}
		if d.Type().IsRegular() {
			files = append(files, path)
		}
		return nil
	})
	if err != nil {
		return "", 0, err
	}
	sort.Strings(files)
	h := sha256.New()
	for _, f := range files {
		fmt.Fprintf(h, "%s\x00", strings.TrimPrefix(f, dir))
		fh, err := os.Open(f)
		if err != nil {
			return "", 0, err
		}
		io.Copy(h, fh)
		fh.Close()
		h.Write([]byte{0})
	}
	return hex.EncodeToString(h.Sum(nil)), len(files), nil
}

// ConfigResult is what one analysis process produces for one configuration.
type ConfigResult struct {
	Config         string         `json:"config"`
	Packages       int            `json:"packages"`
	Functions      int            `json:"functions"`
	CallgraphNodes int            `json:"callgraph_nodes"`
	FuncsAnalysed  map[string]int `json:"funcs_analysed"` // per property
	Obs            []Ob           `json:"obligations"`
	Error          string         `json:"error,omitempty"`
	WallS          float64        `json:"wall_s"`
	// Renames: symbols that were renamed with respect to the committed baseline and were
	// analysed under their baseline names (an/rename.go).
	Renames    []string `json:"renames,omitempty"`
	RenameNote string   `json:"rename_note,omitempty"`
}

func WriteJSON(path string, v any) error {
	b, err := json.MarshalIndent(v, "", " ")
	if err != nil {
		return err
	}
	if err := os.MkdirAll(filepath.Dir(path), 0o755); err != nil {
		return err
	}
	tmp := fmt.Sprintf("%s.tmp%d", path, os.Getpid())
	if err := os.WriteFile(tmp, b, 0o644); err != nil {
		return err
	}
	return os.Rename(tmp, path)
}

func Sum(b []byte) [32]byte { return sha256.Sum256(b) }
