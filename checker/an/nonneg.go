package an

import (
	"go/ast"
	"go/constant"
	"go/token"
	"go/types"
	"regexp"
	"strconv"
	"strings"

	"golang.org/x/tools/go/ssa"
)

// NonNeg decides whether the integer value v is provably >= 0 where instruction `at`
// executes.  The argument is structural:
//
//	constants >= 0; len/cap and the counting library functions; unsigned conversions;
//	sums, products, quotients, remainders, masks and shifts of non-negative values
//	(overflow is not modelled);
//	x - y when a dominating guard gives x >= y (or y is a constant below x's lower bound);
//	phi nodes all of whose edges are non-negative (loop-carried accumulators by induction);
//	a parameter when every static call site in the module passes a non-negative value;
//	a struct field when every store to that field in the module stores a non-negative
//	value (induction over the field's writers);
//	anything with a dominating guard `v >= c` / `v > c`, c >= 0 / -1.
//
// why explains the verdict.
func (p *Prog) NonNeg(v ssa.Value, at ssa.Instruction) (ok bool, why string) {
	return p.nonNeg(v, at, 0, map[ssa.Value]bool{}, map[*types.Var]bool{})
}

var tempNameRe = regexp.MustCompile(`\.t\d+`)

var nonNegFuncs = map[string]bool{
	"strings.Count": true, "bytes.Count": true,
	"unicode/utf8.RuneCountInString": true, "unicode/utf8.RuneCount": true,
	"(*strings.Builder).Len": true, "(*bytes.Buffer).Len": true, "(*bytes.Buffer).Cap": true, "(*strings.Builder).Cap": true,
	"(*bytes.Reader).Len": true, "(*strings.Reader).Len": true,
	"encoding/base64.(*Encoding).DecodedLen": false, // negative for negative input
}

func (p *Prog) nonNeg(v ssa.Value, at ssa.Instruction, depth int, seen map[ssa.Value]bool, seenF map[*types.Var]bool) (bool, string) {
	if depth > 12 {
		return false, "expression too deep"
	}
	if b, ok := v.Type().Underlying().(*types.Basic); ok && b.Info()&types.IsUnsigned != 0 {
		return true, "unsigned"
	}
	if seen[v] {
		return true, "by induction"
	}
	// a dominating guard on the rendered access path
	if at != nil {
		e := Expr(v)
		f := FactsAt(at)
		lo, _, _ := f.Range(e)
		if lo >= 0 && e != "" && exactFact(f, e) {
			return true, "guard " + e + " >= " + strconv.FormatInt(lo, 10)
		}
	}
	switch x := v.(type) {
	case *ssa.Const:
		if x.Value != nil && x.Value.Kind() == constant.Int {
			if constant.Sign(x.Value) >= 0 {
				return true, "constant"
			}
			return false, "negative constant " + x.Value.String()
		}
		return false, "non-integer constant"
	case *ssa.Call:
		if b, ok := x.Call.Value.(*ssa.Builtin); ok && (b.Name() == "len" || b.Name() == "cap" || b.Name() == "copy") {
			return true, b.Name() + "()"
		}
		if callee := x.Call.StaticCallee(); callee != nil {
			n := callee.String()
			if callee.Pkg != nil && callee.Signature.Recv() == nil {
				n = callee.Pkg.Pkg.Path() + "." + callee.Name()
			}
			if nonNegFuncs[n] {
				return true, n
			}
			// strings/bytes Index family: the result is >= -1, so a guard excluding -1 makes it >= 0
			if callee.Pkg != nil && (callee.Pkg.Pkg.Path() == "strings" || callee.Pkg.Pkg.Path() == "bytes") && (strings.HasPrefix(callee.Name(), "Index") || strings.HasPrefix(callee.Name(), "LastIndex")) && at != nil {
				e := Expr(v)
				f := FactsAt(at)
				if f.Has(e, "!=", "-1") || f.Has(e, ">", "-1") {
					return true, n + " >= -1 and a guard excludes -1"
				}
			}
			// module helper with a single integer result: all returns non-negative
			if callee.Pkg != nil && strings.HasPrefix(callee.Pkg.Pkg.Path(), ModPath) && len(callee.Blocks) > 0 && callee.Signature.Results().Len() == 1 {
				seen[v] = true
				all := true
				Instrs(callee, func(in ssa.Instruction) {
					if r, isR := in.(*ssa.Return); isR && all {
						if ok, _ := p.nonNeg(r.Results[0], r, depth+1, seen, seenF); !ok {
							all = false
						}
					}
				})
				if all {
					return true, "every return of " + RelName(callee) + " is non-negative"
				}
			}
		}
		return false, "result of " + Expr(v)
	case *ssa.Convert:
		return p.nonNeg(x.X, at, depth+1, seen, seenF)
	case *ssa.ChangeType:
		return p.nonNeg(x.X, at, depth+1, seen, seenF)
	case *ssa.Phi:
		seen[v] = true
		for i, e := range x.Edges {
			// the value flows in over the edge from predecessor i: guards of that predecessor apply
			var eat ssa.Instruction
			if i < len(x.Block().Preds) {
				pb := x.Block().Preds[i]
				if len(pb.Instrs) > 0 {
					eat = pb.Instrs[len(pb.Instrs)-1]
				}
			}
			if ok, w := p.nonNeg(e, eat, depth+1, seen, seenF); !ok {
				return false, "phi edge: " + w
			}
		}
		return true, "all incoming values"
	case *ssa.BinOp:
		switch x.Op {
		case token.ADD, token.MUL, token.QUO, token.REM, token.SHR, token.SHL, token.OR, token.XOR:
			ok1, w1 := p.nonNeg(x.X, at, depth+1, seen, seenF)
			if !ok1 {
				return false, w1
			}
			ok2, w2 := p.nonNeg(x.Y, at, depth+1, seen, seenF)
			if !ok2 {
				return false, w2
			}
			return true, "non-negative operands"
		case token.AND:
			ok1, _ := p.nonNeg(x.X, at, depth+1, seen, seenF)
			ok2, _ := p.nonNeg(x.Y, at, depth+1, seen, seenF)
			if ok1 || ok2 {
				return true, "mask"
			}
			return false, "mask of possibly negative values"
		case token.SUB:
			l, r := Expr(x.X), Expr(x.Y)
			if at != nil {
				f := FactsAt(at)
				if f.Has(l, ">=", r) || f.Has(l, ">", r) || f.Has(r, "<=", l) || f.Has(r, "<", l) || f.Has(l, "==", r) {
					return true, "guard " + l + " >= " + r
				}
				if c, isC := x.Y.(*ssa.Const); isC && c.Value != nil && c.Value.Kind() == constant.Int {
					if cv, exact := constant.Int64Val(c.Value); exact {
						lo, _, _ := f.Range(l)
						if exactFact(f, l) && lo >= cv {
							return true, "guard " + l + " >= " + strconv.FormatInt(lo, 10)
						}
					}
				}
			}
			return false, "difference " + tempNameRe.ReplaceAllString(l+" - "+r, "") + " without a dominating guard " + tempNameRe.ReplaceAllString(l+" >= "+r, "")
		}
		return false, "operator " + x.Op.String()
	case *ssa.UnOp:
		if x.Op == token.MUL { // load
			if fv := FieldVar(x.X); fv != nil {
				return p.fieldNonNeg(fv, depth, seen, seenF)
			}
			if a, ok := x.X.(*ssa.Alloc); ok {
				// a local spilled to memory: every store to it
				seen[v] = true
				all, n := true, 0
				var bad string
				for _, r := range *a.Referrers() {
					if st, isS := r.(*ssa.Store); isS && st.Addr == a {
						n++
						if ok, w := p.nonNeg(st.Val, st, depth+1, seen, seenF); !ok {
							all, bad = false, w
						}
					}
				}
				if all && n > 0 {
					return true, "every store to the local"
				}
				return false, "local: " + bad
			}
		}
		return false, "value " + Expr(v)
	case *ssa.Parameter:
		fn := x.Parent()
		if fn == nil {
			return false, "parameter"
		}
		idx := -1
		for i, pr := range fn.Params {
			if pr == x {
				idx = i
			}
		}
		sites := p.staticCallSites(fn)
		if fn.Pkg != nil && ast.IsExported(fn.Name()) && !strings.Contains(fn.Pkg.Pkg.Path(), "/internal") {
			return false, "parameter " + x.Name() + " of the public function " + RelName(fn) + " (callers outside the module)"
		}
		if idx < 0 || len(sites) == 0 || p.addressTaken(fn) {
			return false, "parameter " + x.Name() + " of " + RelName(fn) + " (callers unknown)"
		}
		seen[v] = true
		for _, s := range sites {
			args := s.Common().Args
			if idx >= len(args) {
				return false, "parameter " + x.Name()
			}
			if ok, w := p.nonNeg(args[idx], s, depth+1, seen, seenF); !ok {
				return false, "argument " + x.Name() + " at a call of " + RelName(fn) + " in " + RelName(s.Parent()) + ": " + w
			}
		}
		return true, "every call site passes a non-negative " + x.Name()
	case *ssa.Extract:
		if nx, ok := x.Tuple.(*ssa.Next); ok && nx.IsString && x.Index == 1 {
			return true, "byte index produced by ranging over a string"
		}
		return false, "result of " + Expr(v)
	}
	return false, "value " + Expr(v)
}

// exactFact reports whether some atom speaks about exactly the path e (Range matches by suffix).
func exactFact(f Facts, e string) bool {
	for _, a := range f {
		if a.L == e {
			return true
		}
	}
	return false
}

// fieldNonNeg: every store to the field in the module stores a non-negative value.
func (p *Prog) fieldNonNeg(fv *types.Var, depth int, seen map[ssa.Value]bool, seenF map[*types.Var]bool) (bool, string) {
	if seenF[fv] {
		return true, "by induction over the field's writers"
	}
	seenF[fv] = true
	n := 0
	for _, fn := range p.ModFuncs {
		var bad string
		Instrs(fn, func(in ssa.Instruction) {
			st, ok := in.(*ssa.Store)
			if !ok || bad != "" {
				return
			}
			if FieldVar(st.Addr) != fv {
				return
			}
			n++
			if ok, w := p.nonNeg(st.Val, st, depth+1, seen, seenF); !ok {
				bad = "store in " + RelName(fn) + ": " + w
			}
		})
		if bad != "" {
			return false, "field " + fv.Name() + ": " + bad
		}
	}
	// composite literals and zero values start at 0
	return true, "every store to field " + fv.Name() + " (" + strconv.Itoa(n) + " sites) stores a non-negative value"
}

// addressTaken: fn is used as a value somewhere (callers cannot be enumerated).
func (p *Prog) addressTaken(fn *ssa.Function) bool {
	if refs := fn.Referrers(); refs != nil {
		for _, r := range *refs {
			if ci, ok := r.(ssa.CallInstruction); ok && ci.Common().Value == ssa.Value(fn) {
				continue
			}
			return true
		}
		return false
	}
	// package-level functions have no referrer lists: scan the module
	taken := false
	for _, f := range p.ModFuncs {
		Instrs(f, func(in ssa.Instruction) {
			if taken {
				return
			}
			for _, op := range in.Operands(nil) {
				if *op != ssa.Value(fn) {
					continue
				}
				if ci, ok := in.(ssa.CallInstruction); ok && ci.Common().Value == ssa.Value(fn) && !argIs(ci.Common().Args, fn) {
					continue
				}
				taken = true
			}
		})
		if taken {
			return true
		}
	}
	return false
}

func argIs(args []ssa.Value, fn *ssa.Function) bool {
	for _, a := range args {
		if a == ssa.Value(fn) {
			return true
		}
	}
	return false
}

// ConstInt returns the value of an integer constant (through conversions).
func ConstInt(v ssa.Value) (int64, bool) { return constInt(v) }
