package an

import (
	"fmt"
	"go/token"
	"sort"
	"strings"

	"golang.org/x/tools/go/ssa"
)

type Status string

const (
	Discharged Status = "discharged"
	Violated   Status = "violated"
	Undecided  Status = "undecided"
	Info       Status = "info" // listed in evidence, never affects the verdict
)

// Ob is one obligation: a rule applied to one construct.
type Ob struct {
	Prop       string   `json:"property"`
	Rule       string   `json:"rule"`
	Key        string   `json:"construct"`
	Status     Status   `json:"status"`
	Pos        string   `json:"pos,omitempty"`
	Msg        string   `json:"msg,omitempty"`
	Facts      []string `json:"facts,omitempty"`
	Nontrivial bool     `json:"nontrivial,omitempty"`
	Config     string   `json:"config,omitempty"`
}

func (o Ob) ID() string { return o.Prop + "." + o.Rule + " " + o.Key }

// Ctx is handed to every property function.
type Ctx struct {
	P    *Prog
	Prop string
	Obs  []Ob
	// Counters for evidence.
	FuncsAnalysed map[*ssa.Function]bool
}

func NewCtx(p *Prog, prop string) *Ctx {
	return &Ctx{P: p, Prop: prop, FuncsAnalysed: map[*ssa.Function]bool{}}
}

func (c *Ctx) add(rule, key string, st Status, pos token.Pos, nontrivial bool, msg string, facts []string) {
	c.Obs = append(c.Obs, Ob{Prop: c.Prop, Rule: rule, Key: key, Status: st, Pos: c.P.Position(pos), Msg: msg,
		Facts: facts, Nontrivial: nontrivial, Config: c.P.Cfg.Name})
}

// Ok records a discharged obligation whose decision needed a path/dataflow/table argument.
func (c *Ctx) Ok(rule, key string, pos token.Pos, msg string, facts ...string) {
	c.add(rule, key, Discharged, pos, true, msg, facts)
}

// OkTrivial records a discharged existence-style obligation.
func (c *Ctx) OkTrivial(rule, key string, pos token.Pos, msg string, facts ...string) {
	c.add(rule, key, Discharged, pos, false, msg, facts)
}

func (c *Ctx) Bad(rule, key string, pos token.Pos, msg string, facts ...string) {
	c.add(rule, key, Violated, pos, true, msg, facts)
}

func (c *Ctx) Unknown(rule, key string, pos token.Pos, msg string, facts ...string) {
	c.add(rule, key, Undecided, pos, true, msg, facts)
}

func (c *Ctx) Note(rule, key string, pos token.Pos, msg string, facts ...string) {
	c.add(rule, key, Info, pos, false, msg, facts)
}

// Check is Ok when cond holds, else Bad.
func (c *Ctx) Check(cond bool, rule, key string, pos token.Pos, okMsg, badMsg string, facts ...string) bool {
	if cond {
		c.Ok(rule, key, pos, okMsg, facts...)
	} else {
		c.Bad(rule, key, pos, badMsg, facts...)
	}
	return cond
}

// Fn resolves an anchor function; when it does not resolve an undecided
// obligation "anchor unresolved" is recorded and nil returned.
func (c *Ctx) Fn(rule, rel string) *ssa.Function {
	fn := c.P.Func(rel)
	if fn == nil {
		c.Unknown(rule, "anchor "+rel, token.NoPos, "anchor function does not resolve in this configuration (renamed or removed?)")
		return nil
	}
	c.FuncsAnalysed[fn] = true
	return fn
}

// FnOpt resolves a function that may legitimately be absent in some configurations.
func (c *Ctx) FnOpt(rel string) *ssa.Function {
	fn := c.P.Func(rel)
	if fn != nil {
		c.FuncsAnalysed[fn] = true
	}
	return fn
}

// MinCount enforces that a rule found at least n instances (never pass vacuously).
func (c *Ctx) MinCount(rule, what string, got, min int) {
	key := "instances " + what
	if got < min {
		c.Unknown(rule, key, token.NoPos, fmt.Sprintf("rule matched %d instances of %s, expected at least %d: the rule no longer sees the code it was written for", got, what, min))
	} else {
		c.OkTrivial(rule, key, token.NoPos, fmt.Sprintf("%d instances (minimum %d)", got, min))
	}
}

func SortObs(obs []Ob) {
	sort.SliceStable(obs, func(i, j int) bool {
		if obs[i].Prop != obs[j].Prop {
			return obs[i].Prop < obs[j].Prop
		}
		if obs[i].Rule != obs[j].Rule {
			return ruleLess(obs[i].Rule, obs[j].Rule)
		}
		return obs[i].Key < obs[j].Key
	})
}

func ruleLess(a, b string) bool {
	na, nb := 0, 0
	fmt.Sscanf(strings.TrimPrefix(a, "R"), "%d", &na)
	fmt.Sscanf(strings.TrimPrefix(b, "R"), "%d", &nb)
	if na != nb {
		return na < nb
	}
	return a < b
}
