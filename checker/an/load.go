// Package an holds the analysis engine shared by all rules: loading, SSA,
// call graph, guard facts, path queries, obligations.
package an

import (
	"fmt"
	"go/ast"
	"go/token"
	"go/types"
	"os"
	"sort"
	"strings"

	"golang.org/x/tools/go/callgraph"
	"golang.org/x/tools/go/callgraph/cha"
	"golang.org/x/tools/go/callgraph/vta"
	"golang.org/x/tools/go/packages"
	"golang.org/x/tools/go/ssa"
	"golang.org/x/tools/go/ssa/ssautil"
)

const ModPath = "github.com/corazawaf/coraza/v3"

// Config is one build configuration of the target.
type Config struct {
	Name     string
	Tags     []string
	GOOS     string
	GOARCH   string
	symsOnly bool // stop after type checking (LoadSyms)
}

// Prog is the loaded, type-checked target with SSA.
type Prog struct {
	Cfg      Config
	Dir      string
	Fset     *token.FileSet
	Pkgs     []*packages.Package          // module packages only
	ByPath   map[string]*packages.Package // all packages (deps included)
	SSA      *ssa.Program
	SSAPkgs  map[string]*ssa.Package
	AllFuncs map[*ssa.Function]bool
	ModFuncs []*ssa.Function // functions whose package belongs to the module (incl. anonymous)
	cg       *callgraph.Graph
	fnByName map[string]*ssa.Function
	astFn    map[*types.Func]*ast.FuncDecl
	sites    map[*ssa.Function][]ssa.CallInstruction
	made     map[string]bool
	live     map[*ssa.Function]map[*ssa.BasicBlock]bool
	// Renames: symbols analysed under their baseline name (rename.go).
	Renames    []Rename
	RenameNote string
}

// Load loads every package of the module in dir under cfg and builds SSA.  Symbols that
// were renamed with respect to the committed baseline are analysed under their baseline
// names (rename.go); Prog.Renames lists them.
func Load(dir string, cfg Config) (*Prog, error) { return load(dir, cfg, nil) }

func load(dir string, cfg Config, overlay map[string][]byte) (*Prog, error) {
	env := os.Environ()
	filtered := env[:0:0]
	for _, e := range env {
		if strings.HasPrefix(e, "GOFLAGS=") || strings.HasPrefix(e, "GOWORK=") ||
			strings.HasPrefix(e, "GOOS=") || strings.HasPrefix(e, "GOARCH=") || strings.HasPrefix(e, "CGO_ENABLED=") {
			continue
		}
		filtered = append(filtered, e)
	}
	filtered = append(filtered, "GOFLAGS=-mod=mod", "GOWORK=off", "GOPROXY=off", "CGO_ENABLED=0")
	if cfg.GOOS != "" {
		filtered = append(filtered, "GOOS="+cfg.GOOS)
	}
	if cfg.GOARCH != "" {
		filtered = append(filtered, "GOARCH="+cfg.GOARCH)
	}
	pc := &packages.Config{
		Mode:    packages.LoadAllSyntax,
		Dir:     dir,
		Env:     filtered,
		Tests:   false,
		Overlay: overlay,
	}
	if len(cfg.Tags) > 0 {
		pc.BuildFlags = []string{"-tags=" + strings.Join(cfg.Tags, ",")}
	}
	initial, err := packages.Load(pc, "./...")
	if err != nil {
		return nil, fmt.Errorf("load: %w", err)
	}
	p := &Prog{Cfg: cfg, Dir: dir, ByPath: map[string]*packages.Package{}, SSAPkgs: map[string]*ssa.Package{},
		fnByName: map[string]*ssa.Function{}, astFn: map[*types.Func]*ast.FuncDecl{}}
	var errs []string
	packages.Visit(initial, nil, func(pk *packages.Package) {
		p.ByPath[pk.PkgPath] = pk
		for _, e := range pk.Errors {
			errs = append(errs, pk.PkgPath+": "+e.Error())
		}
	})
	if len(errs) > 0 {
		sort.Strings(errs)
		if len(errs) > 10 {
			errs = errs[:10]
		}
		return nil, fmt.Errorf("type errors in target (%s): %s", cfg.Name, strings.Join(errs, "; "))
	}
	for _, pk := range initial {
		if pk.PkgPath == ModPath || strings.HasPrefix(pk.PkgPath, ModPath+"/") {
			p.Pkgs = append(p.Pkgs, pk)
		}
	}
	sort.Slice(p.Pkgs, func(i, j int) bool { return p.Pkgs[i].PkgPath < p.Pkgs[j].PkgPath })
	if len(p.Pkgs) < 25 {
		return nil, fmt.Errorf("only %d module packages loaded (config %s); expected >= 25", len(p.Pkgs), cfg.Name)
	}
	if cfg.symsOnly {
		return p, nil
	}
	if overlay == nil && os.Getenv("CZ_NO_RENAME") == "" {
		if base, err := baselineFor(cfg.Name); err == nil && base != nil {
			if ren, list := detectRenames(base, collectSymbols(p.Pkgs)); len(ren) > 0 {
				if ov, err := renameOverlay(p.Pkgs, ren); err == nil && len(ov) > 0 {
					if p2, err := load(dir, cfg, ov); err == nil {
						p2.Renames = list
						return p2, nil
					} else {
						p.RenameNote = "renamed symbols were detected but the respelled program does not load (" + err.Error() + "); analysed as written"
					}
				}
			}
		}
	}
	p.Fset = initial[0].Fset
	prog, _ := ssautil.AllPackages(initial, ssa.InstantiateGenerics)
	prog.Build()
	p.SSA = prog
	for _, sp := range prog.AllPackages() {
		p.SSAPkgs[sp.Pkg.Path()] = sp
	}
	p.AllFuncs = ssautil.AllFunctions(prog)
	for fn := range p.AllFuncs {
		if p.InModule(fn) {
			p.ModFuncs = append(p.ModFuncs, fn)
		}
	}
	sort.Slice(p.ModFuncs, func(i, j int) bool {
		a, b := p.ModFuncs[i], p.ModFuncs[j]
		if a.String() != b.String() {
			return a.String() < b.String()
		}
		return a.Pos() < b.Pos()
	})
	for _, fn := range p.ModFuncs {
		p.fnByName[fn.String()] = fn
	}
	for _, pk := range p.Pkgs {
		for _, f := range pk.Syntax {
			for _, d := range f.Decls {
				if fd, ok := d.(*ast.FuncDecl); ok {
					if obj, ok := pk.TypesInfo.Defs[fd.Name].(*types.Func); ok {
						p.astFn[obj] = fd
					}
				}
			}
		}
	}
	return p, nil
}

// LoadSyms type-checks the module under cfg and lists its symbols (no SSA, no rename detection).
func LoadSyms(dir string, cfg Config) ([]Sym, error) {
	cfg.symsOnly = true
	p, err := load(dir, cfg, nil)
	if err != nil {
		return nil, err
	}
	return p.CollectSyms(), nil
}

// InModule reports whether fn's source belongs to the target module.
func (p *Prog) InModule(fn *ssa.Function) bool {
	pk := fn.Package()
	if pk == nil {
		if fn.Parent() != nil {
			return p.InModule(fn.Parent())
		}
		if o := fn.Origin(); o != nil && o != fn {
			return p.InModule(o)
		}
		if fn.Object() != nil && fn.Object().Pkg() != nil {
			pp := fn.Object().Pkg().Path()
			return pp == ModPath || strings.HasPrefix(pp, ModPath+"/")
		}
		return false
	}
	pp := pk.Pkg.Path()
	return pp == ModPath || strings.HasPrefix(pp, ModPath+"/")
}

// CallGraph returns the VTA call graph (built lazily).
func (p *Prog) CallGraph() *callgraph.Graph {
	if p.cg == nil {
		p.cg = vta.CallGraph(p.AllFuncs, cha.CallGraph(p.SSA))
	}
	return p.cg
}

// Func resolves a function by its ssa name relative to the module, e.g.
// "internal/corazawaf.(*Transaction).Interrupt" or "internal/corazawaf.newTransaction"
// (root package: ".NewWAF"). Returns nil when absent.
func (p *Prog) Func(rel string) *ssa.Function {
	full := qualify(rel)
	return p.fnByName[full]
}

func qualify(rel string) string {
	// rel = "<pkgrel>.<rest>" where rest may start with "(*T)." or "(T)."
	i := strings.Index(rel, ".(")
	var pkg, rest string
	if i >= 0 {
		pkg, rest = rel[:i], rel[i+1:]
		// (*T).M -> (*full.T).M
		star := ""
		body := rest[1:]
		if strings.HasPrefix(body, "*") {
			star = "*"
			body = body[1:]
		}
		return "(" + star + pkgFull(pkg) + "." + body
	}
	j := strings.LastIndex(rel, ".")
	// careful: anonymous funcs use "$": pkg.f$1 — LastIndex is fine since '$' not '.'
	pkg, rest = rel[:j], rel[j+1:]
	return pkgFull(pkg) + "." + rest
}

func pkgFull(rel string) string {
	if rel == "" {
		return ModPath
	}
	return ModPath + "/" + rel
}

// RelName renders an ssa function name relative to the module, in the same form
// Func accepts: "internal/corazawaf.(*Transaction).Interrupt", ".NewWAF".
func RelName(fn *ssa.Function) string {
	s := fn.String()
	// (*mod/pkg.T).M -> pkg.(*T).M ; (mod/pkg.T).M -> pkg.(T).M
	if strings.HasPrefix(s, "(") {
		if j := strings.Index(s, ")"); j > 0 {
			inner := s[1:j]
			star := ""
			if strings.HasPrefix(inner, "*") {
				star, inner = "*", inner[1:]
			}
			if k := strings.LastIndex(inner, "."); k >= 0 && !strings.Contains(inner, "[") {
				s = inner[:k] + ".(" + star + inner[k+1:] + ")" + s[j+1:]
			}
		}
	}
	s = strings.ReplaceAll(s, ModPath+"/", "")
	s = strings.ReplaceAll(s, ModPath+".", ".")
	return s
}

// Pkg returns the loaded module package by relative path ("" = root).
func (p *Prog) Pkg(rel string) *packages.Package { return p.ByPath[pkgFull(rel)] }

// Position renders a position relative to the target directory.
func (p *Prog) Position(pos token.Pos) string {
	if !pos.IsValid() {
		return "-"
	}
	ps := p.Fset.Position(pos)
	f := strings.TrimPrefix(ps.Filename, p.Dir+"/")
	return fmt.Sprintf("%s:%d", f, ps.Line)
}

// Decl returns the AST declaration of a source function.
func (p *Prog) Decl(fn *ssa.Function) *ast.FuncDecl {
	if fn == nil {
		return nil
	}
	if o, ok := fn.Object().(*types.Func); ok {
		return p.astFn[o]
	}
	return nil
}

// LookupType finds a named type in a module package.
func (p *Prog) LookupType(pkgRel, name string) *types.Named {
	pk := p.Pkg(pkgRel)
	if pk == nil {
		return nil
	}
	o := pk.Types.Scope().Lookup(name)
	if o == nil {
		return nil
	}
	n, _ := o.Type().(*types.Named)
	return n
}
