package main

import (
	"encoding/json"
	"flag"
	"fmt"
	"io"
	"io/fs"
	"os"
	"os/exec"
	"path/filepath"
	"sort"
	"strings"
	"sync"

	"czcheck/an"
	"czcheck/props"
)

// A mutant is a small source change of the target that must make a named
// property's check fire.  Two kinds are kept under /verif:
//
//   - checker/testdata/mutants/fixNN-*.diff  the fix: commits made in /repo, applied in
//     reverse (re-introducing a defect that was demonstrated against the real code);
//   - seeded/<id>/patch.diff                 defects seeded by independent sub-agents.
//
// Mutants are evidence about the *checker*: the analysis is run on a scratch copy of the
// current tree with the change applied (nothing of the target is executed), and the
// result says whether the rules still see the construct they are meant to see.  A
// mutant that cannot be applied to the current tree is skipped (the tree moved on).
type mutant struct {
	Name    string   `json:"name"`
	Patch   string   `json:"patch"`
	Reverse bool     `json:"reverse"`
	Expect  []string `json:"expect"` // properties of which at least one must fire
	Config  string   `json:"config"`
	// DocumentedMiss: the change is known to be outside what the rules decide (reason); it is
	// kept in the sweep so that the evidence shows it, and does not fail the selftest.
	DocumentedMiss string `json:"documented_miss,omitempty"`
	// Benign: a behaviour-preserving change (/verif/benign/<id>): any new report is a false alarm.
	Benign bool `json:"benign,omitempty"`
}

type mutantResult struct {
	Mutant   mutant   `json:"mutant"`
	Applied  bool     `json:"applied"`
	Error    string   `json:"error,omitempty"`
	Flagged  []string `json:"flagged"` // property.rule pairs with a new violated/undecided obligation
	Shared   []string `json:"shared"`  // "Cxx<-Cyy.Rn": new violated obligations also reported under Cxx (props.Shares)
	Killed   bool     `json:"killed"`
	ByExpect []string `json:"by_expected"`
}

func loadMutants(vd string) ([]mutant, error) {
	var ms []mutant
	b, err := os.ReadFile(filepath.Join(vd, "checker", "testdata", "mutants", "expect.json"))
	if err != nil {
		return nil, err
	}
	var exp map[string]struct {
		Expect []string `json:"expect"`
		Config string   `json:"config"`
	}
	if err := json.Unmarshal(b, &exp); err != nil {
		return nil, err
	}
	files, _ := filepath.Glob(filepath.Join(vd, "checker", "testdata", "mutants", "*.diff"))
	sort.Strings(files)
	for _, f := range files {
		base := filepath.Base(f)
		e, ok := exp[base]
		if !ok {
			return nil, fmt.Errorf("mutant %s has no entry in expect.json", base)
		}
		ms = append(ms, mutant{Name: strings.TrimSuffix(base, ".diff"), Patch: f, Reverse: strings.HasPrefix(base, "fix"), Expect: e.Expect, Config: e.Config})
	}
	seeds, _ := filepath.Glob(filepath.Join(vd, "seeded", "*", "patch.diff"))
	sort.Strings(seeds)
	for _, f := range seeds {
		d := filepath.Dir(f)
		var meta struct {
			Property string   `json:"property"`
			Expect   []string `json:"expect"`
			Config   string   `json:"config"`
			Miss     string   `json:"documented_miss"`
		}
		mb, err := os.ReadFile(filepath.Join(d, "meta.json"))
		if err != nil {
			return nil, err
		}
		if err := json.Unmarshal(mb, &meta); err != nil {
			return nil, fmt.Errorf("%s: %v", d, err)
		}
		ex := meta.Expect
		if len(ex) == 0 {
			ex = []string{meta.Property}
		}
		ms = append(ms, mutant{Name: "seed-" + filepath.Base(d), Patch: f, Expect: ex, Config: meta.Config, DocumentedMiss: meta.Miss})
	}
	ben, _ := filepath.Glob(filepath.Join(vd, "benign", "*", "patch.diff"))
	sort.Strings(ben)
	for _, f := range ben {
		ms = append(ms, mutant{Name: "benign-" + filepath.Base(filepath.Dir(f)), Patch: f, Benign: true})
	}
	for i := range ms {
		if ms[i].Config == "" {
			ms[i].Config = "default"
		}
	}
	return ms, nil
}

func copyTree(src, dst string) error {
	return filepath.WalkDir(src, func(p string, d fs.DirEntry, err error) error {
		if err != nil {
			return err
		}
		rel, _ := filepath.Rel(src, p)
		if d.IsDir() {
			if d.Name() == ".git" {
				return filepath.SkipDir
			}
			return os.MkdirAll(filepath.Join(dst, rel), 0o755)
		}
		if !d.Type().IsRegular() {
			return nil
		}
		in, err := os.Open(p)
		if err != nil {
			return err
		}
		defer in.Close()
		out, err := os.Create(filepath.Join(dst, rel))
		if err != nil {
			return err
		}
		if _, err := io.Copy(out, in); err != nil {
			out.Close()
			return err
		}
		return out.Close()
	})
}

// runMutant analyses a scratch copy of repo with the mutant applied and
// returns the obligations that are new with respect to the known findings.
func runMutant(repo string, m mutant, known *an.KnownFindings, cacheDir string) (r mutantResult) {
	r.Mutant = m
	pb, err := os.ReadFile(m.Patch)
	if err != nil {
		r.Error = err.Error()
		return
	}
	cf := ""
	if cacheDir != "" {
		cf = filepath.Join(cacheDir, fmt.Sprintf("mut-%x", an.Sum(pb))[:36]+"-"+m.Config+".json")
		if b, err := os.ReadFile(cf); err == nil {
			var c mutantResult
			if json.Unmarshal(b, &c) == nil && c.Error == "" && c.Mutant.Name == m.Name {
				c.Mutant = m
				c.judge()
				return c
			}
		}
	}
	tmp, err := os.MkdirTemp("", "czmut")
	if err != nil {
		r.Error = err.Error()
		return
	}
	defer os.RemoveAll(tmp)
	if err := copyTree(repo, tmp); err != nil {
		r.Error = "copy: " + err.Error()
		return
	}
	args := []string{"apply", "--whitespace=nowarn"}
	if m.Reverse {
		args = append(args, "-R")
	}
	args = append(args, m.Patch)
	cmd := exec.Command("git", args...)
	cmd.Dir = tmp
	cmd.Env = append(os.Environ(), "GIT_DIR=/nonexistent", "GIT_CEILING_DIRECTORIES=/")
	if out, err := cmd.CombinedOutput(); err != nil {
		r.Error = "patch does not apply to the current tree: " + firstLine(string(out))
		return
	}
	r.Applied = true
	exe, _ := os.Executable()
	of := filepath.Join(tmp, ".czcheck-result.json")
	c2 := exec.Command(exe, "analyse", "-repo", tmp, "-config", m.Config, "-out", of)
	c2.Stderr = io.Discard
	c2.Run()
	b, err := os.ReadFile(of)
	if err != nil {
		r.Error = "analysis produced no result"
		return
	}
	var res an.ConfigResult
	if err := json.Unmarshal(b, &res); err != nil {
		r.Error = err.Error()
		return
	}
	seen := map[string]bool{}
	if res.Error != "" {
		// an analysis that cannot complete on the mutant (anchor gone, type error) fails every check
		r.Flagged = append(r.Flagged, "analysis-error: "+firstLine(res.Error))
		for _, e := range m.Expect {
			seen[e] = true
		}
	}
	for _, o := range res.Obs {
		if o.Status != an.Violated && o.Status != an.Undecided {
			continue
		}
		if o.Status == an.Violated && known.Match(o) >= 0 {
			continue
		}
		k := o.Prop + "." + o.Rule
		if !seen[k] {
			seen[k] = true
			r.Flagged = append(r.Flagged, k)
		}
		if o.Status == an.Violated {
			for _, pr := range props.All() {
				if props.SharedTo(o, pr.ID) != nil {
					sk := pr.ID + "<-" + k
					if !seen[sk] {
						seen[sk] = true
						r.Shared = append(r.Shared, sk)
					}
				}
			}
		}
	}
	sort.Strings(r.Flagged)
	sort.Strings(r.Shared)
	r.judge()
	if cf != "" {
		an.WriteJSON(cf, r)
	}
	return
}

func (r *mutantResult) judge() {
	// the mutant description may have changed since the result was cached
	r.ByExpect = nil
	for _, e := range r.Mutant.Expect {
		r.ByExpect = append(r.ByExpect, r.reportedBy(e)...)
	}
	r.Killed = len(r.ByExpect) > 0
}

// reportedBy lists what the check of property e reports for the mutant: its own rules and the
// sibling rules shared with it.
func (r *mutantResult) reportedBy(e string) []string {
	var out []string
	for _, f := range r.Flagged {
		if strings.HasPrefix(f, e+".") || strings.HasPrefix(f, "analysis-error") {
			out = append(out, f)
		}
	}
	for _, f := range r.Shared {
		if strings.HasPrefix(f, e+"<-") {
			out = append(out, f)
		}
	}
	return out
}

// runMutants runs the given mutants (4 at a time) against repo.
func runMutants(repo string, ms []mutant, cacheDir string) []mutantResult {
	known, err := an.LoadKnown(filepath.Join(verifDir(), "known_findings.json"))
	if err != nil {
		known = &an.KnownFindings{}
	}
	out := make([]mutantResult, len(ms))
	var wg sync.WaitGroup
	sem := make(chan struct{}, 8)
	for i := range ms {
		wg.Add(1)
		go func(i int) {
			defer wg.Done()
			sem <- struct{}{}
			defer func() { <-sem }()
			out[i] = runMutant(repo, ms[i], known, cacheDir)
		}(i)
	}
	wg.Wait()
	return out
}

func cmdSelftest(args []string) int {
	fl := flag.NewFlagSet("selftest", flag.ExitOnError)
	repo := fl.String("repo", "/repo", "target checkout")
	only := fl.String("only", "", "substring filter on mutant names")
	prop := fl.String("property", "", "only mutants expected to be caught by this property")
	outf := fl.String("o", "", "write the full result table (JSON) to this file")
	fl.Parse(args)
	ms, err := loadMutants(verifDir())
	if err != nil {
		fmt.Println("ERROR:", err)
		return 2
	}
	var sel []mutant
	for _, m := range ms {
		if *only != "" && !strings.Contains(m.Name, *only) {
			continue
		}
		if *prop != "" && !contains(m.Expect, *prop) {
			continue
		}
		sel = append(sel, m)
	}
	// the unchanged tree must be silent first
	res, _, err := results(*repo, "quick")
	if err != nil {
		fmt.Println("ERROR:", err)
		return 2
	}
	known, _ := an.LoadKnown(filepath.Join(verifDir(), "known_findings.json"))
	base := 0
	for _, r := range res {
		for _, o := range r.Obs {
			if (o.Status == an.Violated && known.Match(o) < 0) || o.Status == an.Undecided {
				fmt.Printf("selftest: unchanged tree is not silent: %s %s %s\n", o.Prop, o.Rule, o.Key)
				base++
			}
		}
	}
	rs := runMutants(*repo, sel, mutantCacheDir(*repo))
	killed, skipped, missed, documented := 0, 0, 0, 0
	benign, falseAlarms := 0, 0
	for _, r := range rs {
		switch {
		case r.Mutant.Benign && !r.Applied:
			fmt.Printf("SKIP   %-70s %s\n", r.Mutant.Name, r.Error)
		case r.Mutant.Benign:
			benign++
			if len(r.Flagged) > 0 || r.Error != "" {
				falseAlarms++
				fmt.Printf("FALSE-ALARM %-65s behaviour-preserving change reported by: %s %s\n", r.Mutant.Name, strings.Join(r.Flagged, " "), r.Error)
			} else {
				fmt.Printf("SILENT %-70s behaviour-preserving change, no report\n", r.Mutant.Name)
			}
		case !r.Applied:
			skipped++
			fmt.Printf("SKIP   %-70s %s\n", r.Mutant.Name, r.Error)
		case r.Error != "":
			missed++
			fmt.Printf("ERROR  %-70s %s\n", r.Mutant.Name, r.Error)
		case r.Killed:
			killed++
			fmt.Printf("KILLED %-70s expected %v: %s   (all: %s)\n", r.Mutant.Name, r.Mutant.Expect, strings.Join(r.ByExpect, " "), strings.Join(r.Flagged, " "))
		case r.Mutant.DocumentedMiss != "":
			documented++
			fmt.Printf("NOT-DECIDED %-65s %s\n", r.Mutant.Name, r.Mutant.DocumentedMiss)
		default:
			missed++
			fmt.Printf("MISSED %-70s expected %v, flagged only: %s\n", r.Mutant.Name, r.Mutant.Expect, strings.Join(r.Flagged, " "))
		}
	}
	fmt.Printf("selftest: %d mutants, %d killed, %d missed, %d documented as outside the rules' reach, %d skipped (patch does not apply); unchanged tree: %d unexpected reports\n", len(rs)-benign, killed, missed, documented, skipped, base)
	fmt.Printf("selftest: %d behaviour-preserving variants, %d silent, %d false alarms\n", benign, benign-falseAlarms, falseAlarms)
	if *outf != "" {
		an.WriteJSON(*outf, rs)
	}
	if missed > 0 || base > 0 || falseAlarms > 0 {
		return 1
	}
	return 0
}

func contains(xs []string, x string) bool {
	for _, y := range xs {
		if y == x {
			return true
		}
	}
	return false
}

func mutantCacheDir(repo string) string {
	if os.Getenv("CZ_NOCACHE") != "" {
		return ""
	}
	th, _, err := an.TreeHash(repo)
	if err != nil {
		return ""
	}
	exe, _ := os.Executable()
	bh := "nobin"
	if b, err := os.ReadFile(exe); err == nil {
		bh = fmt.Sprintf("%x", an.Sum(b))[:16]
	}
	d := filepath.Join(verifDir(), ".cache", th[:24]+"-"+bh)
	os.MkdirAll(d, 0o755)
	return d
}
