package main

import (
	"encoding/json"
	"flag"
	"fmt"
	"os"
	"os/exec"
	"path/filepath"
	"runtime/debug"
	"sort"
	"strconv"
	"strings"
	"sync"
	"time"

	"czcheck/an"
	"czcheck/props"
)

const goRoot = "/opt/veriftools/go1.26.8"

func setupEnv() {
	os.Setenv("PATH", goRoot+"/bin:"+os.Getenv("PATH"))
	os.Setenv("GOTOOLCHAIN", "local")
	os.Setenv("GOPROXY", "off")
	os.Unsetenv("GOSUMDB")
	os.Unsetenv("GOWORK")
}

func main() {
	if len(os.Args) < 2 {
		fmt.Fprintln(os.Stderr, "usage: czcheck check|analyse|all|replay|list ...")
		os.Exit(2)
	}
	setupEnv()
	switch os.Args[1] {
	case "analyse":
		cmdAnalyse(os.Args[2:])
	case "check":
		os.Exit(cmdCheck(os.Args[2:]))
	case "all":
		os.Exit(cmdAll(os.Args[2:]))
	case "replay":
		os.Exit(cmdReplay(os.Args[2:]))
	case "probe-ta":
		cfg, _ := props.ConfigByName("default")
		p, err := an.Load("/repo", cfg)
		if err != nil {
			fmt.Println(err)
			os.Exit(2)
		}
		props.ProbeTypeAsserts(p)
	case "probe-mr":
		cfg, _ := props.ConfigByName("default")
		p, err := an.Load("/repo", cfg)
		if err != nil {
			fmt.Println(err)
			os.Exit(2)
		}
		props.ProbeMapRanges(p)
	case "probe-cl":
		cfg, _ := props.ConfigByName("default")
		p, err := an.Load("/repo", cfg)
		if err != nil {
			fmt.Println(err)
			os.Exit(2)
		}
		props.ProbeCopyLoss(p)
	case "probe-tf":
		cfg, _ := props.ConfigByName("default")
		p, err := an.Load("/repo", cfg)
		if err != nil {
			fmt.Println(err)
			os.Exit(2)
		}
		props.ProbeTransformFlags(p)
	case "probe-la":
		cfg, _ := props.ConfigByName("default")
		p, err := an.Load("/repo", cfg)
		if err != nil {
			fmt.Println(err)
			os.Exit(2)
		}
		props.ProbeLookahead(p)
	case "probe-ws":
		cfg, _ := props.ConfigByName("default")
		p, err := an.Load("/repo", cfg)
		if err != nil {
			fmt.Println(err)
			os.Exit(2)
		}
		props.ProbeWriteSets(p)
	case "probe-ar":
		cfg, _ := props.ConfigByName("default")
		p, err := an.Load("/repo", cfg)
		if err != nil {
			fmt.Println(err)
			os.Exit(2)
		}
		props.ProbeArith(p)
	case "symbols":
		// regenerate the rename baseline (checker/an/baseline_symbols.json) from the current tree
		out := "an/baseline_symbols.json"
		if len(os.Args) > 3 && os.Args[2] == "-o" {
			out = os.Args[3]
		}
		per := map[string][]an.Sym{}
		for _, cfg := range props.Configs {
			syms, err := an.LoadSyms("/repo", cfg)
			if err != nil {
				fmt.Println(cfg.Name, err)
				os.Exit(2)
			}
			per[cfg.Name] = syms
			fmt.Println(cfg.Name, len(syms), "symbols")
		}
		if err := an.WriteJSON(out, an.MakeBaseline(per)); err != nil {
			fmt.Println(err)
			os.Exit(2)
		}
	case "whywrites":
		cmdWhy(os.Args[2:])
	case "dump":
		cmdDump(os.Args[2:])
	case "selftest":
		os.Exit(cmdSelftest(os.Args[2:]))
	case "describe":
		os.Exit(cmdDescribe(os.Args[2:]))
	case "list":
		if len(os.Args) > 2 && os.Args[2] == "-json" {
			var out []map[string]any
			for _, p := range props.All() {
				out = append(out, map[string]any{"id": p.ID, "title": p.Title, "explanation": p.Explanation, "not_decided": p.NotDecided, "assumptions": p.Assumptions})
			}
			b, _ := json.MarshalIndent(out, "", " ")
			fmt.Println(string(b))
			return
		}
		for _, p := range props.All() {
			fmt.Println(p.ID, p.Title)
		}
	default:
		fmt.Fprintln(os.Stderr, "unknown command", os.Args[1])
		os.Exit(2)
	}
}

// analyse: one configuration, all properties (or one), result JSON to -out.
func cmdAnalyse(args []string) {
	fs := flag.NewFlagSet("analyse", flag.ExitOnError)
	repo := fs.String("repo", "/repo", "target checkout")
	cfgName := fs.String("config", "default", "build configuration")
	out := fs.String("out", "", "result file")
	only := fs.String("property", "", "restrict to one property")
	fs.Parse(args)
	res := analyse(*repo, *cfgName, *only)
	if *out == "" {
		b, _ := json.MarshalIndent(res, "", " ")
		fmt.Println(string(b))
	} else if err := an.WriteJSON(*out, res); err != nil {
		fmt.Fprintln(os.Stderr, "write:", err)
		os.Exit(2)
	}
	if res.Error != "" {
		os.Exit(3)
	}
}

func analyse(repo, cfgName, only string) (res an.ConfigResult) {
	t0 := time.Now()
	res.Config = cfgName
	res.FuncsAnalysed = map[string]int{}
	defer func() { res.WallS = time.Since(t0).Seconds() }()
	cfg, ok := props.ConfigByName(cfgName)
	if !ok {
		res.Error = "unknown configuration " + cfgName
		return
	}
	p, err := an.Load(repo, cfg)
	if err != nil {
		res.Error = err.Error()
		return
	}
	for _, r := range p.Renames {
		res.Renames = append(res.Renames, r.String())
	}
	res.RenameNote = p.RenameNote
	res.Packages = len(p.Pkgs)
	res.Functions = len(p.ModFuncs)
	res.CallgraphNodes = len(p.CallGraph().Nodes)
	for _, pr := range props.All() {
		if only != "" && pr.ID != only {
			continue
		}
		c := an.NewCtx(p, pr.ID)
		func() {
			defer func() {
				if r := recover(); r != nil {
					c.Obs = append(c.Obs, an.Ob{Prop: pr.ID, Rule: "R0", Key: "analyser panic", Status: an.Undecided,
						Msg: fmt.Sprintf("%v\n%s", r, debug.Stack()), Config: cfgName, Nontrivial: true})
				}
			}()
			pr.Run(c)
		}()
		res.Obs = append(res.Obs, c.Obs...)
		res.FuncsAnalysed[pr.ID] = len(c.FuncsAnalysed)
	}
	an.SortObs(res.Obs)
	return
}

func verifDir() string {
	if d := os.Getenv("VERIF_DIR"); d != "" {
		return d
	}
	exe, err := os.Executable()
	if err == nil {
		d := filepath.Dir(filepath.Dir(exe))
		if _, err := os.Stat(filepath.Join(d, "properties.jsonl")); err == nil {
			return d
		}
	}
	return "/verif"
}

// results returns the per-configuration results for the tier, using the cache
// keyed by the hash of the target tree and of this binary.
func results(repo, tier string) ([]an.ConfigResult, string, error) {
	th, nfiles, err := an.TreeHash(repo)
	if err != nil {
		return nil, "", err
	}
	if nfiles < 100 {
		return nil, "", fmt.Errorf("only %d files under %s", nfiles, repo)
	}
	exe, _ := os.Executable()
	bh := "nobin"
	if b, err := os.ReadFile(exe); err == nil {
		bh = fmt.Sprintf("%x", an.Sum(b))[:16]
	}
	cacheDir := filepath.Join(verifDir(), ".cache", th[:24]+"-"+bh)
	if os.Getenv("CZ_NOCACHE") != "" {
		cacheDir = filepath.Join(os.TempDir(), fmt.Sprintf("czcheck-%d", os.Getpid()))
		defer os.RemoveAll(cacheDir)
	}
	os.MkdirAll(cacheDir, 0o755)
	cfgs := props.TierConfigs(tier)
	out := make([]an.ConfigResult, len(cfgs))
	var wg sync.WaitGroup
	sem := make(chan struct{}, 4)
	errs := make([]error, len(cfgs))
	for i, cfg := range cfgs {
		f := filepath.Join(cacheDir, cfg.Name+".json")
		if b, err := os.ReadFile(f); err == nil {
			if json.Unmarshal(b, &out[i]) == nil && out[i].Config == cfg.Name && out[i].Error == "" {
				continue
			}
		}
		wg.Add(1)
		go func(i int, cfg an.Config, f string) {
			defer wg.Done()
			sem <- struct{}{}
			defer func() { <-sem }()
			cmd := exec.Command(exe, "analyse", "-repo", repo, "-config", cfg.Name, "-out", f)
			cmd.Stderr = os.Stderr
			runErr := cmd.Run()
			b, err := os.ReadFile(f)
			if err != nil {
				errs[i] = fmt.Errorf("config %s: analysis process failed: %v %v", cfg.Name, runErr, err)
				return
			}
			if err := json.Unmarshal(b, &out[i]); err != nil {
				errs[i] = err
				return
			}
			if out[i].Error != "" {
				os.Remove(f) // never cache failures
			}
		}(i, cfg, f)
	}
	wg.Wait()
	for _, e := range errs {
		if e != nil {
			return nil, th, e
		}
	}
	pruneCache(filepath.Join(verifDir(), ".cache"), cacheDir)
	return out, th, nil
}

func pruneCache(root, keep string) {
	ents, err := os.ReadDir(root)
	if err != nil {
		return
	}
	type e struct {
		p string
		t time.Time
	}
	var es []e
	for _, d := range ents {
		p := filepath.Join(root, d.Name())
		if p == keep {
			continue
		}
		if fi, err := d.Info(); err == nil {
			es = append(es, e{p, fi.ModTime()})
		}
	}
	sort.Slice(es, func(i, j int) bool { return es[i].t.After(es[j].t) })
	for i, x := range es {
		if i >= 3 {
			os.RemoveAll(x.p)
		}
	}
}

func cmdCheck(args []string) int {
	fs := flag.NewFlagSet("check", flag.ExitOnError)
	repo := fs.String("repo", "/repo", "target checkout")
	prop := fs.String("property", "", "property id")
	tier := fs.String("tier", "", "quick|thorough")
	fs.Parse(args)
	if *tier == "" {
		*tier = os.Getenv("VERIF_TIER")
	}
	if *tier != "thorough" {
		*tier = "quick"
	}
	pr := props.Get(*prop)
	if pr == nil {
		fmt.Fprintln(os.Stderr, "unknown property", *prop)
		return 2
	}
	return checkOne(*repo, pr, *tier)
}

func checkOne(repo string, pr *props.Property, tier string) int {
	t0 := time.Now()
	vd := verifDir()
	seed := 0
	if s := os.Getenv("VERIF_SEED"); s != "" {
		seed, _ = strconv.Atoi(s)
	}
	res, th, err := results(repo, tier)
	if err != nil {
		fmt.Println("ERROR:", err)
		return 2
	}
	known, err := an.LoadKnown(filepath.Join(vd, "known_findings.json"))
	if err != nil {
		fmt.Println("ERROR: known_findings.json:", err)
		return 2
	}
	var obs, shared []an.Ob
	pkgs, funcs, cgn, fa := 0, 0, 0, 0
	var cfgNames []string
	var renamed []string
	renamedSeen := map[string]bool{}
	for _, r := range res {
		if r.Error != "" {
			fmt.Printf("ERROR: configuration %s could not be analysed: %s\n", r.Config, r.Error)
			return 2
		}
		cfgNames = append(cfgNames, r.Config)
		for _, rn := range r.Renames {
			if !renamedSeen[rn] {
				renamedSeen[rn] = true
				renamed = append(renamed, rn)
				fmt.Printf("NOTE property=%s renamed with respect to the baseline, analysed under the baseline name: %s\n", pr.ID, rn)
			}
		}
		if r.RenameNote != "" {
			fmt.Printf("NOTE property=%s configuration %s: %s\n", pr.ID, r.Config, r.RenameNote)
		}
		for _, o := range r.Obs {
			if o.Prop == pr.ID {
				obs = append(obs, o)
			} else if o.Status != an.Info && props.SharedTo(o, pr.ID) != nil {
				shared = append(shared, o)
			}
		}
		if r.Packages > pkgs {
			pkgs = r.Packages
		}
		funcs += r.Functions
		cgn += r.CallgraphNodes
		fa += r.FuncsAnalysed[pr.ID]
	}
	outDir := filepath.Join(vd, "out", pr.ID)
	os.RemoveAll(outDir)
	nOb, nDis, nViol, nUndec, nKnown := 0, 0, 0, 0, 0
	distinct := map[string]bool{}
	knownPrinted := map[string]bool{}
	violPrinted := map[string]bool{}
	var samples []any
	sampleRule := map[string]int{}
	exit := 0
	for _, o := range obs {
		if o.Status == an.Info {
			continue
		}
		nOb++
		if o.Nontrivial {
			distinct[o.Rule+" "+o.Key] = true
		}
		switch o.Status {
		case an.Discharged:
			nDis++
		case an.Violated:
			if ki := known.Match(o); ki >= 0 {
				nKnown++
				if !knownPrinted[o.ID()] {
					knownPrinted[o.ID()] = true
					fmt.Printf("KNOWN-FINDING: property=%s %s %s: %s\n", pr.ID, o.Rule, o.Key, known.Known[ki].What)
				}
				continue
			}
			nViol++
			if !violPrinted[o.ID()] {
				violPrinted[o.ID()] = true
				f := filepath.Join(outDir, fmt.Sprintf("%03d.json", len(violPrinted)))
				an.WriteJSON(f, map[string]any{"obligation": o, "repo": repo, "tree": th})
				fmt.Printf("VIOLATION property=%s replay=%s\n", pr.ID, f)
				fmt.Printf("  rule %s.%s construct %q at %s [%s]: %s\n", pr.ID, o.Rule, o.Key, o.Pos, o.Config, o.Msg)
				for _, fct := range o.Facts {
					fmt.Printf("    %s\n", fct)
				}
			}
			exit = 1
		case an.Undecided:
			nUndec++
			fmt.Printf("UNDECIDED property=%s %s %s at %s [%s]: %s\n", pr.ID, o.Rule, o.Key, o.Pos, o.Config, firstLine(o.Msg))
			if exit == 0 {
				exit = 3
			}
		}
	}
	// Obligations of sibling properties' rules that also decide a necessary condition of this
	// property (props.Shares).  They are reported here exactly when the owning rule reports
	// them; a known finding stays with the property it is listed under, and an undecided
	// obligation fails the owning check only.
	type sharedAgg struct {
		Rule        string `json:"rule"`
		Why         string `json:"why"`
		Constructs  string `json:"constructs,omitempty"`
		Obligations int    `json:"obligations"`
		Discharged  int    `json:"discharged"`
		Violated    int    `json:"violated"`
	}
	sharedRules := map[string]*sharedAgg{}
	var sharedNames []string
	nShared, nSharedDis := 0, 0
	for _, o := range shared {
		sh := props.SharedTo(o, pr.ID)
		name := o.Prop + "." + o.Rule
		id := name + " " + sh.Key + " " + sh.Pos
		a := sharedRules[id]
		if a == nil {
			a = &sharedAgg{Rule: name, Why: sh.Why, Constructs: strings.TrimSpace(sh.Key + " " + sh.Pos)}
			sharedRules[id] = a
			sharedNames = append(sharedNames, id)
		}
		nShared++
		a.Obligations++
		switch o.Status {
		case an.Discharged:
			nSharedDis++
			a.Discharged++
		case an.Violated:
			if known.Match(o) >= 0 {
				continue
			}
			a.Violated++
			nViol++
			if !violPrinted[o.ID()] {
				violPrinted[o.ID()] = true
				f := filepath.Join(outDir, fmt.Sprintf("%03d.json", len(violPrinted)))
				an.WriteJSON(f, map[string]any{"obligation": o, "repo": repo, "tree": th, "reported_under": pr.ID})
				fmt.Printf("VIOLATION property=%s replay=%s\n", pr.ID, f)
				fmt.Printf("  rule %s (shared with %s: %s) construct %q at %s [%s]: %s\n", name, pr.ID, sh.Why, o.Key, o.Pos, o.Config, o.Msg)
				for _, fct := range o.Facts {
					fmt.Printf("    %s\n", fct)
				}
			}
			samples = append(samples, o)
			exit = 1
		}
	}
	var sharedList []any
	for _, id := range sharedNames {
		sharedList = append(sharedList, sharedRules[id])
	}
	// a share that matches no obligation any more (rule renumbered, construct key reworded)
	// would silently stop reporting: that fails the check like a rule below its instance count
	for _, sh := range props.SharesFor(pr.ID) {
		if !sh.Zero && sharedRules[sh.From+"."+sh.Rule+" "+sh.Key+" "+sh.Pos] == nil {
			fmt.Printf("UNDECIDED property=%s shared rule %s.%s (%s %s) matches no obligation on this tree\n", pr.ID, sh.From, sh.Rule, sh.Key, sh.Pos)
			nUndec++
			if exit == 0 {
				exit = 3
			}
		}
	}
	for _, o := range obs {
		if o.Status == an.Info {
			continue
		}
		if sampleRule[o.Rule] < 3 || o.Status != an.Discharged {
			sampleRule[o.Rule]++
			samples = append(samples, o)
		}
	}
	if nOb == 0 {
		fmt.Printf("ERROR: property %s produced no obligations\n", pr.ID)
		exit = 3
	}
	rules := map[string]bool{}
	for _, o := range obs {
		rules[o.Rule] = true
	}
	var infos []any
	for _, o := range obs {
		if o.Status == an.Info && o.Config == "default" {
			infos = append(infos, map[string]string{"rule": o.Rule, "construct": o.Key, "note": o.Msg})
		}
	}
	ev := map[string]any{
		"property_id": pr.ID,
		"tier":        tier,
		"seed":        seed,
		"level":       "other",
		"wall_s":      time.Since(t0).Seconds(),
		"violations":  nViol,
		"assumptions": append([]string{
			"go/packages type-checks the same sources the go build would compile for each analysed configuration",
			"go/ssa and the VTA call graph over-approximate dynamic dispatch; reflection and unsafe pointer arithmetic are not followed",
		}, pr.Assumptions...),
		"coverage": map[string]any{
			"explanation":         pr.Explanation,
			"not_decided":         pr.NotDecided,
			"obligations":         nOb,
			"discharged":          nDis,
			"undecided":           nUndec,
			"known_findings":      nKnown,
			"evaluations":         nOb,
			"distinct_nontrivial": len(distinct),
			"rule":                "one obligation per (rule, construct, configuration); non-trivial = decided by a dominance/path/dataflow/table-agreement argument rather than mere existence; distinct = distinct (rule, construct) pairs",
			"rules_applied":       len(rules),
			"shared_rules":        sharedList,
			"shared_obligations":  nShared,
			"shared_discharged":   nSharedDis,
			"shared_rule":         "obligations of a sibling property's rule that also decide a necessary condition of this property (checker/props/shared.go); reported here exactly when the owning rule reports them, not counted in obligations/discharged above",
			"samples":             samples,
			"notes":               infos,
			"configs":             cfgNames,
			"renamed_symbols":     renamed,
			"packages":            pkgs,
			"functions_in_module": funcs,
			"functions_analysed":  fa,
			"callgraph_nodes":     cgn,
			"tree_sha256":         th,
			"exhaustive":          false,
		},
	}
	if tier == "thorough" && os.Getenv("CZ_NOMUTANTS") == "" {
		// Sensitivity of this property's rules: re-run the analysis on scratch copies of the
		// current tree carrying one known-bad change each (fix: commits reversed, seeded
		// defects).  This is evidence about the checker; it never produces a VIOLATION line.
		if ms, err := loadMutants(vd); err == nil {
			var sel []mutant
			for _, m := range ms {
				if contains(m.Expect, pr.ID) {
					sel = append(sel, m)
				}
			}
			rs := runMutants(repo, sel, mutantCacheDir(repo))
			killed, skipped := 0, 0
			var rows []any
			for _, r := range rs {
				st := "missed"
				switch {
				case !r.Applied:
					st = "skipped: " + r.Error
					skipped++
				case r.Error != "":
					st = "error: " + r.Error
				case len(r.reportedBy(pr.ID)) > 0:
					st = "killed"
					killed++
				case r.Killed:
					st = "reported by the check of " + strings.Join(r.Mutant.Expect, "/") + ": " + strings.Join(r.ByExpect, " ")
					killed++
				case r.Mutant.DocumentedMiss != "":
					st = "not decided: " + r.Mutant.DocumentedMiss
				}
				if st == "missed" || strings.HasPrefix(st, "error") {
					fmt.Printf("SELFTEST-MISS property=%s mutant=%s is not reported by this property's rules (%s)\n", pr.ID, r.Mutant.Name, st)
				}
				rows = append(rows, map[string]any{"mutant": r.Mutant.Name, "config": r.Mutant.Config, "result": st, "reported_by": r.reportedBy(pr.ID), "all_reports": r.Flagged})
			}
			cov := ev["coverage"].(map[string]any)
			cov["mutants_total"] = len(rs)
			cov["mutants_killed"] = killed
			cov["mutants_skipped"] = skipped
			cov["mutants"] = rows
			cov["mutants_rule"] = "each mutant is a source change known to break this property (a fix: commit reversed, or a defect seeded by an independent agent and confirmed against the real code); the same static analysis is run on a scratch copy of the current tree with the change applied; killed = a rule of this property reports a new violation"
			fmt.Printf("%s selftest: %d/%d known-bad changes reported (%d not applicable to this tree)\n", pr.ID, killed, len(rs)-skipped, skipped)
		} else {
			fmt.Println("selftest: mutants unavailable:", err)
		}
	}
	if err := an.WriteJSON(filepath.Join(vd, "evidence", pr.ID+".json"), ev); err != nil {
		fmt.Println("ERROR: evidence:", err)
		return 2
	}
	fmt.Printf("%s tier=%s configs=%d obligations=%d discharged=%d known=%d violations=%d undecided=%d (%.1fs)\n",
		pr.ID, tier, len(cfgNames), nOb, nDis, nKnown, nViol, nUndec, time.Since(t0).Seconds())
	return exit
}

func firstLine(s string) string {
	if i := strings.IndexByte(s, '\n'); i >= 0 {
		return s[:i]
	}
	return s
}

func cmdAll(args []string) int {
	fs := flag.NewFlagSet("all", flag.ExitOnError)
	repo := fs.String("repo", "/repo", "target checkout")
	tier := fs.String("tier", "quick", "quick|thorough")
	fs.Parse(args)
	rc := 0
	for _, pr := range props.All() {
		if r := checkOne(*repo, pr, *tier); r != 0 {
			rc = r
		}
	}
	return rc
}

func cmdReplay(args []string) int {
	if len(args) < 1 {
		fmt.Fprintln(os.Stderr, "usage: czcheck replay <file>")
		return 2
	}
	b, err := os.ReadFile(args[0])
	if err != nil {
		fmt.Fprintln(os.Stderr, err)
		return 2
	}
	var rp struct {
		Obligation an.Ob  `json:"obligation"`
		Repo       string `json:"repo"`
		Under      string `json:"reported_under"`
	}
	if err := json.Unmarshal(b, &rp); err != nil {
		fmt.Fprintln(os.Stderr, err)
		return 2
	}
	if rp.Repo == "" {
		rp.Repo = "/repo"
	}
	res := analyse(rp.Repo, rp.Obligation.Config, rp.Obligation.Prop)
	if res.Error != "" {
		fmt.Println("ERROR:", res.Error)
		return 2
	}
	for _, o := range res.Obs {
		if o.Rule == rp.Obligation.Rule && o.Key == rp.Obligation.Key {
			bb, _ := json.MarshalIndent(o, "", " ")
			fmt.Println(string(bb))
			if o.Status == an.Violated {
				under := o.Prop
				if rp.Under != "" {
					under = rp.Under
				}
				fmt.Printf("VIOLATION property=%s replay=%s\n", under, args[0])
				return 1
			}
			fmt.Println("obligation now", o.Status)
			return 0
		}
	}
	fmt.Println("obligation no longer produced by the analysis (construct renamed or removed)")
	return 0
}

func cmdDump(args []string) {
	fs := flag.NewFlagSet("dump", flag.ExitOnError)
	repo := fs.String("repo", "/repo", "target checkout")
	cfgName := fs.String("config", "default", "build configuration")
	fs.Parse(args)
	cfg, _ := props.ConfigByName(*cfgName)
	p, err := an.Load(*repo, cfg)
	if err != nil {
		fmt.Println(err)
		os.Exit(2)
	}
	for _, name := range fs.Args() {
		fn := p.Func(name)
		if fn == nil {
			fmt.Println("no such function:", name)
			for _, f := range p.ModFuncs {
				if strings.Contains(f.String(), name) {
					fmt.Println("  candidate:", an.RelName(f))
				}
			}
			continue
		}
		fn.WriteTo(os.Stdout)
		for _, b := range fn.Blocks {
			f := an.FactsAtBlock(b)
			if len(f) > 0 {
				fmt.Printf("facts@b%d: %v\n", b.Index, f.Strings())
			}
		}
	}
}

// whywrites <fn> <pkgRel> <Type> <field>: call chain from fn to a store of the field.
func cmdWhy(args []string) {
	cfg, _ := props.ConfigByName("default")
	p, err := an.Load("/repo", cfg)
	if err != nil {
		fmt.Println(err)
		os.Exit(2)
	}
	fn := p.Func(args[0])
	if fn == nil {
		fmt.Println("no fn")
		return
	}
	for _, l := range p.WhyWrites(fn, args[1], args[2], args[3]) {
		fmt.Println(l)
	}
}

// cmdDescribe writes the rule inventory (markdown) derived from an actual run: per property the
// explanation, the clauses not decided, and per rule the number of obligations per status with examples.
func cmdDescribe(args []string) int {
	fs := flag.NewFlagSet("describe", flag.ExitOnError)
	repo := fs.String("repo", "/repo", "target checkout")
	tier := fs.String("tier", "thorough", "quick|thorough")
	out := fs.String("o", "", "output file (default stdout)")
	fs.Parse(args)
	res, th, err := results(*repo, *tier)
	if err != nil {
		fmt.Println("ERROR:", err)
		return 2
	}
	known, _ := an.LoadKnown(filepath.Join(verifDir(), "known_findings.json"))
	var b strings.Builder
	fmt.Fprintf(&b, "# Rule inventory (generated by `czcheck describe -tier %s`)\n\n", *tier)
	fmt.Fprintf(&b, "Tree sha256 `%s`; configurations:", th[:16])
	for _, r := range res {
		fmt.Fprintf(&b, " `%s`", r.Config)
	}
	b.WriteString(".\nCounts are obligations over all configurations; *constructs* are distinct (rule, construct) pairs.\n\n")
	for _, pr := range props.All() {
		fmt.Fprintf(&b, "## %s — %s\n\n%s\n\nNot decided:\n", pr.ID, pr.Title, pr.Explanation)
		for _, n := range pr.NotDecided {
			fmt.Fprintf(&b, "* %s\n", n)
		}
		if len(pr.Assumptions) > 0 {
			b.WriteString("\nAssumptions:\n")
			for _, n := range pr.Assumptions {
				fmt.Fprintf(&b, "* %s\n", n)
			}
		}
		type agg struct {
			n, dis, viol, kn, info int
			keys                   map[string]bool
			ex                     []string
		}
		rules := map[string]*agg{}
		var names []string
		for _, r := range res {
			for _, o := range r.Obs {
				if o.Prop != pr.ID {
					continue
				}
				a := rules[o.Rule]
				if a == nil {
					a = &agg{keys: map[string]bool{}}
					rules[o.Rule] = a
					names = append(names, o.Rule)
				}
				if o.Status == an.Info {
					a.info++
					continue
				}
				a.n++
				switch o.Status {
				case an.Discharged:
					a.dis++
				case an.Violated:
					if known.Match(o) >= 0 {
						a.kn++
					} else {
						a.viol++
					}
				}
				if !a.keys[o.Key] {
					a.keys[o.Key] = true
					if len(a.ex) < 4 && !strings.HasPrefix(o.Key, "instances ") {
						a.ex = append(a.ex, o.Key)
					}
				}
			}
		}
		sort.Slice(names, func(i, j int) bool {
			ni, _ := strconv.Atoi(strings.TrimLeft(names[i], "R"))
			nj, _ := strconv.Atoi(strings.TrimLeft(names[j], "R"))
			return ni < nj
		})
		b.WriteString("\n| rule | constructs | obligations | discharged | known findings | violated | notes | examples |\n|---|---|---|---|---|---|---|---|\n")
		for _, n := range names {
			a := rules[n]
			fmt.Fprintf(&b, "| %s | %d | %d | %d | %d | %d | %d | %s |\n", n, len(a.keys), a.n, a.dis, a.kn, a.viol, a.info, strings.ReplaceAll(strings.Join(a.ex, "; "), "|", "\\|"))
		}
		b.WriteString("\n")
		if shs := props.SharesFor(pr.ID); len(shs) > 0 {
			b.WriteString("Also reported by this check (rules owned by a sibling property that decide a necessary condition of this one, `checker/props/shared.go`):\n\n| rule | constructs | obligations today | why it is a condition of this property | exhibited by |\n|---|---|---|---|---|\n")
			for _, sh := range shs {
				cnt := 0
				for _, r := range res {
					for _, o := range r.Obs {
						if o.Status != an.Info && o.Prop == sh.From && o.Rule == sh.Rule {
							if m := props.SharedTo(o, pr.ID); m != nil && m.Key == sh.Key && m.Pos == sh.Pos {
								cnt++
							}
						}
					}
				}
				filter := "all"
				if sh.Key != "" {
					filter = "key ~ `" + sh.Key + "`"
				}
				if sh.Pos != "" {
					filter = strings.TrimPrefix(filter+", ", "all, ") + "position ~ `" + sh.Pos + "`"
				}
				fmt.Fprintf(&b, "| %s.%s | %s | %d | %s | %s |\n", sh.From, sh.Rule, strings.ReplaceAll(filter, "|", "\\|"), cnt, sh.Why, sh.Seed)
			}
			b.WriteString("\n")
		}
	}
	if *out == "" {
		fmt.Print(b.String())
		return 0
	}
	if err := os.WriteFile(*out, []byte(b.String()), 0o644); err != nil {
		fmt.Println("ERROR:", err)
		return 2
	}
	return 0
}
